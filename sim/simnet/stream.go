//go:build verif

// Package simnet is the simulated network: byte streams whose segmentation,
// buffering and breakage are decided by the plan, and a go-git transport that
// runs the real server-side commands (UploadPack / ReceivePack) over them in
// the same process.
//
// Determinism without a scheduler (Kahn style): a stream is a FIFO of
// *segments*. Segment boundaries are a function of the writer's own sequence
// of Write calls and the plan's chunk list only (a Write is split at the
// planned sizes, and a segment never spans two Writes); a Read returns bytes
// of the head segment only and blocks while the FIFO is empty. Hence what
// every Read returns does not depend on how the two goroutines are
// interleaved. Bounded capacity makes Write block; if both sides end up
// blocked the synctest bubble reports the deadlock.
package simnet

import (
	"errors"

	"github.com/go-git/go-git/v6/verifsim/simfs"
	"io"
	"sync"
	"syscall"
)

// Cfg configures one direction of a connection.
type Cfg struct {
	Cap     int   `json:"cap"`              // max queued bytes before Write blocks; 0 = unbounded
	Chunks  []int `json:"chunks,omitempty"` // sizes of successive segments (cycled); 0 entries mean "rest of the Write"
	CutAt   int64 `json:"cut_at,omitempty"` // break the stream after this many bytes were written (0 = never)
	CutKind int   `json:"cut_kind,omitempty"`
}

// Stats counts what happened on a stream.
type Stats struct {
	Writes, Reads, Segments int
	Bytes                   int64
	SplitWrites             int // Writes delivered in more than one segment
	ShortReads              int // Reads that returned less than a whole segment (caller buffer smaller)
	Blocked                 int // Writes that had to wait for capacity
	Cut                     bool
}

// Stream is one direction of a simulated connection.
type Stream struct {
	Name string
	cfg  Cfg
	// Drv, when non-nil, makes every stream operation a scheduling point.
	Drv Parker

	wmu     sync.Mutex // serialises whole Write calls, like io.Pipe and net.Conn do
	mu      sync.Mutex
	cond    *sync.Cond
	segs    [][]byte
	queued  int
	ci      int
	written int64
	wclosed bool
	werr    error
	rclosed bool
	cut     bool
	St      Stats
}

// ErrCut is returned to the reader of a stream that was cut.
var ErrCut = errors.New("simnet: connection reset by peer")

// NewStream creates a stream.
func NewStream(name string, cfg Cfg) *Stream {
	s := &Stream{Name: name, cfg: cfg}
	s.cond = sync.NewCond(&s.mu)
	return s
}

// DebugHook, when set, sees every Write and Read (debugging aid).
var DebugHook func(stream, op string, p []byte)

// Parker is the scheduler hook (sched.Driver implements it): when set on a
// stream, every Read and every segment of a Write is a scheduling point that
// is enabled only when it can proceed, so nothing ever blocks inside the
// stream and the interleaving of the two ends is chosen by the driver.
type Parker interface {
	ParkUntil(actor string, class simfs.OpClass, detail string, enabled func() bool)
}

// Write implements io.Writer.
func (s *Stream) Write(p []byte) (int, error) {
	if DebugHook != nil {
		DebugHook(s.Name, "write", p)
	}
	s.wmu.Lock()
	defer s.wmu.Unlock()
	s.mu.Lock()
	defer s.mu.Unlock()
	s.St.Writes++
	n := 0
	segs := 0
	for n < len(p) {
		if s.wclosed {
			return n, io.ErrClosedPipe
		}
		if s.rclosed {
			return n, &netErr{syscall.EPIPE}
		}
		if s.cut {
			return n, &netErr{syscall.EPIPE}
		}
		// the size of the next segment is a function of the plan only (never of
		// how much room happens to be free): planned chunk, capped by capacity
		c := s.peekChunk(len(p) - n)
		if s.cfg.Cap > 0 && c > s.cfg.Cap {
			c = s.cfg.Cap
		}
		room := func() bool { return s.cfg.Cap <= 0 || s.queued == 0 || s.queued+c <= s.cfg.Cap || s.rclosed || s.cut || s.wclosed }
		if s.Drv != nil {
			s.mu.Unlock()
			func() {
				// re-lock even when the driver aborts the run by panicking out of
				// the park: the deferred Unlock above must find the mutex held
				defer s.mu.Lock()
				s.Drv.ParkUntil(s.Name, "net-write", s.Name, func() bool { s.mu.Lock(); defer s.mu.Unlock(); return room() })
			}()
			if !room() || s.rclosed || s.cut || s.wclosed {
				continue
			}
		} else if !room() {
			s.St.Blocked++
			s.cond.Wait()
			continue
		}
		s.takeChunk()
		if s.cfg.CutAt > 0 && s.written+int64(c) >= s.cfg.CutAt {
			keep := int(s.cfg.CutAt - s.written)
			if keep > 0 {
				s.push(p[n : n+keep])
				n += keep
			}
			s.cut = true
			s.St.Cut = true
			s.cond.Broadcast()
			return n, &netErr{syscall.EPIPE}
		}
		s.push(p[n : n+c])
		n += c
		segs++
	}
	if segs > 1 {
		s.St.SplitWrites++
	}
	return n, nil
}

func (s *Stream) peekChunk(rest int) int {
	if len(s.cfg.Chunks) == 0 {
		return rest
	}
	c := s.cfg.Chunks[s.ci%len(s.cfg.Chunks)]
	if c <= 0 || c > rest {
		return rest
	}
	return c
}

func (s *Stream) takeChunk() {
	if len(s.cfg.Chunks) > 0 {
		s.ci++
	}
}

func (s *Stream) push(b []byte) {
	s.segs = append(s.segs, append([]byte(nil), b...))
	s.queued += len(b)
	s.written += int64(len(b))
	s.St.Segments++
	s.St.Bytes += int64(len(b))
	s.cond.Broadcast()
}

// Read implements io.Reader.
func (s *Stream) Read(p []byte) (int, error) {
	if s.Drv != nil && len(p) > 0 {
		s.Drv.ParkUntil(s.Name, "net-read", s.Name, func() bool {
			s.mu.Lock()
			defer s.mu.Unlock()
			return len(s.segs) > 0 || s.cut || s.wclosed || s.rclosed
		})
	}
	s.mu.Lock()
	defer s.mu.Unlock()
	s.St.Reads++
	if len(p) == 0 {
		return 0, nil
	}
	for {
		if s.rclosed {
			return 0, io.ErrClosedPipe
		}
		if len(s.segs) > 0 {
			head := s.segs[0]
			n := copy(p, head)
			if n < len(head) {
				s.segs[0] = head[n:]
				s.St.ShortReads++
			} else {
				s.segs = s.segs[1:]
			}
			s.queued -= n
			s.cond.Broadcast()
			if DebugHook != nil {
				DebugHook(s.Name, "read", p[:n])
			}
			return n, nil
		}
		if s.cut {
			if s.cfg.CutKind%2 == 1 {
				return 0, io.ErrUnexpectedEOF
			}
			return 0, ErrCut
		}
		if s.wclosed {
			if s.werr != nil {
				return 0, s.werr
			}
			return 0, io.EOF
		}
		s.cond.Wait()
	}
}

// CloseWrite ends the stream from the writer's side.
func (s *Stream) CloseWrite(err error) {
	s.mu.Lock()
	s.wclosed = true
	if s.werr == nil {
		s.werr = err
	}
	s.cond.Broadcast()
	s.mu.Unlock()
}

// CloseRead ends the stream from the reader's side; pending and later writes fail.
func (s *Stream) CloseRead() {
	s.mu.Lock()
	s.rclosed = true
	s.cond.Broadcast()
	s.mu.Unlock()
}

type netErr struct{ errno syscall.Errno }

func (e *netErr) Error() string   { return "simnet: " + e.errno.Error() }
func (e *netErr) Unwrap() error   { return e.errno }
func (e *netErr) Timeout() bool   { return false }
func (e *netErr) Temporary() bool { return false }

// IsNetFault reports whether err comes from a cut stream.
func IsNetFault(err error) bool {
	return errors.Is(err, ErrCut) || errors.Is(err, syscall.EPIPE) || errors.Is(err, io.ErrUnexpectedEOF) || errors.Is(err, io.ErrClosedPipe)
}

type writeHalf struct{ s *Stream }

func (w writeHalf) Write(p []byte) (int, error) { return w.s.Write(p) }
func (w writeHalf) Close() error                { w.s.CloseWrite(nil); return nil }

type readHalf struct{ s *Stream }

func (r readHalf) Read(p []byte) (int, error) { return r.s.Read(p) }
func (r readHalf) Close() error               { r.s.CloseRead(); return nil }
