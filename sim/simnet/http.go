//go:build verif

package simnet

// Simulated smart HTTP (stateless RPC).
//
// HTTP is an http.RoundTripper: every RoundTrip is one request/response
// exchange ("round") with a real http.Handler (go-git's backend.Backend) that
// runs in its own goroutine. The request body travels over a c2s Stream and
// the response body over an s2c Stream, so that buffer capacity, segmentation
// of every Write and a cut at a planned byte offset apply to each direction of
// each round independently: round k uses Conns[k % len(Conns)]. There is no
// socket, no net/http server and no real time.
//
// What is modelled of net/http, because go-git's behaviour depends on it:
//
//   - The handler's request body behaves like a net/http server body: Close
//     discards what is left of the body (up to 256 KiB) and a Read after Close
//     fails with http.ErrBodyReadAfterClose.
//   - RoundTrip returns when the response header is committed (first
//     WriteHeader, Write or Flush, or the handler returning); the request body
//     is written concurrently, as net/http's transport does.
//   - A handler that returns without writing answers 200 with an empty body; a
//     handler that panics aborts the connection.
//   - When the handler returns the rest of the request body is dropped and the
//     response body ends (EOF for the client).
//
// Determinism (Kahn style): the client, the request-body writer and the
// handler exchange bytes only through the two streams. The single place where
// two events could race -- a cut of the request direction against the
// handler's response header -- is decided up front from the plan: when the
// request body is long enough for C2S.CutAt to fire the round is lost as a
// whole (the handler still sees the first CutAt bytes followed by a reset;
// what it answers goes nowhere) and RoundTrip returns the transport error
// after the handler has finished.

import (
	"bytes"
	"context"
	"fmt"
	"io"
	"net/http"
	"net/url"
	"path"
	"sort"
	"strings"
	"sync"
	"sync/atomic"
	"syscall"

	"github.com/go-git/go-git/v6/plumbing/protocol/packp"
	"github.com/go-git/go-git/v6/plumbing/transport"
	xhttp "github.com/go-git/go-git/v6/plumbing/transport/http"
	"github.com/go-git/go-git/v6/storage"
)

// HTTPFault is a plan-drawn event that replaces one round.
type HTTPFault struct {
	Round int `json:"round"` // index of the RoundTrip it applies to (0 = the info/refs GET)
	// Kind: "error" = transport error before any response byte, the request
	// never reaches the handler; "status" = an intermediary answers with Status
	// (e.g. 502) instead of the handler; "redirect" = 30x to AliasPrefix+path
	// (the handler is reachable under both paths).
	Kind   string `json:"kind"`
	Status int    `json:"status,omitempty"`
}

// AliasPrefix is the path prefix "redirect" faults send the client to.
const AliasPrefix = "/alias"

// Round describes one RoundTrip.
type Round struct {
	K       int
	Method  string
	Path    string
	Query   string
	Cmd     string // protocol v2 command of a POST ("ls-refs", "fetch"), "" otherwise
	ReqLen  int64
	Fault   string // kind of the HTTPFault that replaced the round, "" if none
	Status  int    // status the client saw (0 = transport error)
	Lost    bool   // request direction was cut: the round was lost as a whole
	Panic   string // handler panic, if any
	Aliased bool   // request path carried AliasPrefix

	c2s, s2c   *Stream
	bodyClosed atomic.Bool
	served     bool
}

// ReqCut / RespCut report whether the planned cut of that direction fired.
func (r *Round) ReqCut() bool  { return r.c2s != nil && r.c2s.cutFired() }
func (r *Round) RespCut() bool { return r.s2c != nil && !r.Lost && r.s2c.cutFired() }

// RespBytes is the number of response body bytes the handler got onto the wire.
func (r *Round) RespBytes() int64 {
	if r.s2c == nil || r.Lost {
		return 0
	}
	return r.s2c.bytesWritten()
}

// BodyClosed reports whether the client closed the response body or read it
// to its end (either releases a net/http connection).
func (r *Round) BodyClosed() bool { return !r.served || r.Lost || r.bodyClosed.Load() }

func (s *Stream) cutFired() bool {
	s.mu.Lock()
	defer s.mu.Unlock()
	return s.St.Cut
}

func (s *Stream) bytesWritten() int64 {
	s.mu.Lock()
	defer s.mu.Unlock()
	return s.St.Bytes
}

// HTTP is the simulated HTTP connection layer.
type HTTP struct {
	Handler http.Handler
	Conns   []ConnCfg
	Faults  []HTTPFault

	mu      sync.Mutex
	n       int
	Rounds  []*Round
	Streams []*Stream
	wg      sync.WaitGroup
}

var _ http.RoundTripper = (*HTTP)(nil)

func closeBody(req *http.Request) {
	if req.Body != nil {
		_ = req.Body.Close()
	}
}

func sniffCmd(req *http.Request) string {
	if req.Method != http.MethodPost || req.GetBody == nil {
		return ""
	}
	b, err := req.GetBody()
	if err != nil {
		return ""
	}
	defer b.Close()
	head := make([]byte, 64)
	n, _ := io.ReadFull(b, head)
	head = head[:n]
	switch {
	case bytes.Contains(head, []byte("command=ls-refs")):
		return "ls-refs"
	case bytes.Contains(head, []byte("command=fetch")):
		return "fetch"
	}
	return ""
}

// RoundTrip implements http.RoundTripper.
func (h *HTTP) RoundTrip(req *http.Request) (*http.Response, error) {
	h.mu.Lock()
	k := h.n
	h.n++
	cfg := ConnCfg{}
	if len(h.Conns) > 0 {
		cfg = h.Conns[k%len(h.Conns)]
	}
	ri := &Round{K: k, Method: req.Method, Path: req.URL.Path, Query: req.URL.RawQuery, ReqLen: req.ContentLength, Cmd: sniffCmd(req)}
	ri.Aliased = strings.HasPrefix(req.URL.Path, AliasPrefix+"/")
	h.Rounds = append(h.Rounds, ri)
	var fault *HTTPFault
	for i := range h.Faults {
		if h.Faults[i].Round == k {
			fault = &h.Faults[i]
			break
		}
	}
	h.mu.Unlock()

	canned := func(code int, hdr http.Header, body string) *http.Response {
		ri.Status = code
		if hdr == nil {
			hdr = http.Header{}
		}
		hdr.Set("Content-Type", "text/plain; charset=utf-8")
		return &http.Response{Status: fmt.Sprintf("%d %s", code, http.StatusText(code)), StatusCode: code, Proto: "HTTP/1.1", ProtoMajor: 1, ProtoMinor: 1,
			Header: hdr, Body: io.NopCloser(strings.NewReader(body)), ContentLength: int64(len(body)), Request: req}
	}
	if fault != nil {
		switch fault.Kind {
		case "error":
			ri.Fault = "error"
			closeBody(req)
			return nil, &netErr{syscall.ECONNREFUSED}
		case "status":
			ri.Fault = "status"
			closeBody(req)
			code := fault.Status
			if code < 400 || code > 599 {
				code = http.StatusBadGateway
			}
			return canned(code, nil, fmt.Sprintf("%d %s\n", code, http.StatusText(code))), nil
		case "redirect":
			if !ri.Aliased {
				ri.Fault = "redirect"
				closeBody(req)
				code := fault.Status
				switch code {
				case 301, 302, 307, 308:
				default:
					code = http.StatusFound
				}
				loc := *req.URL
				loc.User = nil
				loc.Path = AliasPrefix + loc.Path
				return canned(code, http.Header{"Location": []string{loc.String()}}, "moved\n"), nil
			}
		}
	}

	c2s := NewStream(fmt.Sprintf("http-c2s#%d", k), cfg.C2S)
	lost := req.Body != nil && req.Body != http.NoBody && cfg.C2S.CutAt > 0 && req.ContentLength >= cfg.C2S.CutAt
	s2cCfg := cfg.S2C
	if lost {
		// the connection dies while the request is on its way: whatever the
		// handler answers goes nowhere
		s2cCfg = Cfg{}
	}
	s2c := NewStream(fmt.Sprintf("http-s2c#%d", k), s2cCfg)
	ri.c2s, ri.s2c, ri.Lost, ri.served = c2s, s2c, lost, true
	h.mu.Lock()
	h.Streams = append(h.Streams, c2s, s2c)
	h.mu.Unlock()

	ctx, cancel := context.WithCancel(context.WithoutCancel(req.Context()))
	su := &url.URL{Path: strings.TrimPrefix(req.URL.Path, AliasPrefix), RawQuery: req.URL.RawQuery}
	sreq := (&http.Request{Method: req.Method, URL: su, Proto: "HTTP/1.1", ProtoMajor: 1, ProtoMinor: 1, Header: req.Header.Clone(), Host: req.URL.Host,
		ContentLength: req.ContentLength, RequestURI: su.RequestURI(), RemoteAddr: "sim:1"}).WithContext(ctx)
	if sreq.Header == nil {
		sreq.Header = http.Header{}
	}
	hasBody := req.Body != nil && req.Body != http.NoBody
	if hasBody {
		sreq.Body = &srvBody{s: c2s}
	} else {
		sreq.Body = http.NoBody
		c2s.CloseWrite(nil)
	}

	writerDone := make(chan struct{})
	if hasBody {
		h.wg.Add(1)
		go func() {
			defer h.wg.Done()
			defer close(writerDone)
			// one Write per buffer the body hands out (a bytes.Buffer: the whole
			// body); how it is cut into segments is the plan's business
			_, _ = io.Copy(writeHalf{c2s}, req.Body)
			_ = req.Body.Close()
			c2s.CloseWrite(nil)
		}()
	} else {
		close(writerDone)
	}

	rw := &respWriter{s2c: s2c, hdr: http.Header{}, committed: make(chan struct{})}
	handlerDone := make(chan struct{})
	h.wg.Add(1)
	go func() {
		defer h.wg.Done()
		defer close(handlerDone)
		defer cancel()
		defer func() {
			if p := recover(); p != nil {
				// net/http: log, abort the connection
				ri.Panic = fmt.Sprint(p)
				rw.abort()
				s2c.CloseWrite(io.ErrUnexpectedEOF)
				c2s.CloseRead()
				return
			}
			rw.commit(http.StatusOK)
			s2c.CloseWrite(nil)
			c2s.CloseRead()
		}()
		h.Handler.ServeHTTP(rw, sreq)
	}()

	if lost {
		<-writerDone
		<-handlerDone
		return nil, &netErr{syscall.EPIPE}
	}
	<-rw.committed
	if rw.aborted.Load() {
		<-handlerDone
		return nil, fmt.Errorf("simnet: server closed the connection without a response: %w", io.ErrUnexpectedEOF)
	}
	ri.Status = rw.status
	return &http.Response{Status: fmt.Sprintf("%d %s", rw.status, http.StatusText(rw.status)), StatusCode: rw.status, Proto: "HTTP/1.1", ProtoMajor: 1, ProtoMinor: 1,
		Header: rw.snap, Body: &respBody{s: s2c, r: ri}, ContentLength: -1, Request: req}, nil
}

type respWriter struct {
	s2c       *Stream
	hdr       http.Header
	once      sync.Once
	committed chan struct{}
	status    int
	snap      http.Header
	aborted   atomic.Bool
}

var (
	_ http.ResponseWriter = (*respWriter)(nil)
	_ http.Flusher        = (*respWriter)(nil)
)

func (w *respWriter) Header() http.Header { return w.hdr }

func (w *respWriter) commit(code int) {
	w.once.Do(func() {
		w.status = code
		w.snap = w.hdr.Clone()
		close(w.committed)
	})
}

func (w *respWriter) abort() {
	w.once.Do(func() {
		w.aborted.Store(true)
		close(w.committed)
	})
}

func (w *respWriter) WriteHeader(code int) { w.commit(code) }
func (w *respWriter) Flush()               { w.commit(http.StatusOK) }
func (w *respWriter) Write(p []byte) (int, error) {
	w.commit(http.StatusOK)
	return w.s2c.Write(p)
}

// srvBody is the handler's view of the request body, with the semantics of a
// net/http server body.
type srvBody struct {
	s      *Stream
	closed atomic.Bool
}

const maxPostHandlerReadBytes = 256 << 10

func (b *srvBody) Read(p []byte) (int, error) {
	if b.closed.Load() {
		return 0, http.ErrBodyReadAfterClose
	}
	return b.s.Read(p)
}

func (b *srvBody) Close() error {
	if b.closed.Swap(true) {
		return nil
	}
	// like net/http's body.Close with doEarlyClose: consume (discard) what is
	// left, up to a limit
	buf := make([]byte, 32<<10)
	total := 0
	for total <= maxPostHandlerReadBytes {
		n, err := b.s.Read(buf)
		total += n
		if err != nil {
			break
		}
	}
	return nil
}

type respBody struct {
	s *Stream
	r *Round
}

func (b *respBody) Read(p []byte) (int, error) {
	n, err := b.s.Read(p)
	if err != nil {
		// read to its end (or to the break): net/http releases the connection
		b.r.bodyClosed.Store(true)
	}
	return n, err
}

func (b *respBody) Close() error {
	b.r.bodyClosed.Store(true)
	b.s.CloseRead()
	return nil
}

// Wait blocks until every handler and body writer has returned.
func (h *HTTP) Wait() { h.wg.Wait() }

// Shutdown breaks every stream (so that a handler whose response the client
// abandoned without closing it can finish) and waits. It returns the number
// of served rounds whose response body the client never closed.
func (h *HTTP) Shutdown() (unclosed int) {
	h.mu.Lock()
	rounds := append([]*Round(nil), h.Rounds...)
	streams := append([]*Stream(nil), h.Streams...)
	h.mu.Unlock()
	for _, r := range rounds {
		if !r.BodyClosed() {
			unclosed++
		}
	}
	for _, s := range streams {
		s.CloseRead()
		s.CloseWrite(nil)
	}
	h.wg.Wait()
	return unclosed
}

// NRounds is the number of RoundTrips so far.
func (h *HTTP) NRounds() int {
	h.mu.Lock()
	defer h.mu.Unlock()
	return len(h.Rounds)
}

// RoundsFrom returns the rounds with index >= from.
func (h *HTTP) RoundsFrom(from int) []*Round {
	h.mu.Lock()
	defer h.mu.Unlock()
	if from > len(h.Rounds) {
		from = len(h.Rounds)
	}
	return append([]*Round(nil), h.Rounds[from:]...)
}

// Totals sums the statistics of all streams.
func (h *HTTP) Totals() Stats {
	h.mu.Lock()
	streams := append([]*Stream(nil), h.Streams...)
	h.mu.Unlock()
	var s Stats
	for _, st := range streams {
		st.mu.Lock()
		s.Writes += st.St.Writes
		s.Reads += st.St.Reads
		s.Segments += st.St.Segments
		s.Bytes += st.St.Bytes
		s.SplitWrites += st.St.SplitWrites
		s.ShortReads += st.St.ShortReads
		s.Blocked += st.St.Blocked
		s.Cut = s.Cut || st.St.Cut
		st.mu.Unlock()
	}
	return s
}

// Describe renders a round for an event log (plan-determined values only).
func (r *Round) Describe() string {
	what := r.Method + " " + path.Base(r.Path)
	if r.Query != "" {
		what += "?" + r.Query
	}
	if r.Cmd != "" {
		what += " " + r.Cmd
	}
	s := fmt.Sprintf("#%d %s req=%d -> %d", r.K, what, r.ReqLen, r.Status)
	if r.Fault != "" {
		s += " fault:" + r.Fault
	}
	if r.Lost {
		s += " request-cut"
	}
	if r.RespCut() {
		s += fmt.Sprintf(" response-cut@%d", r.RespBytes())
	}
	if r.Panic != "" {
		s += " handler-panic"
	}
	return s
}

// ServerErrors returns the errors the server commands of a stream Transport
// have returned so far (nil entries for commands that succeeded or are still
// running).
func (t *Transport) ServerErrors() []error {
	t.mu.Lock()
	defer t.mu.Unlock()
	return append([]error(nil), t.SrvErrs...)
}

// LoaderFunc adapts a function to transport.Loader (for backend.New).
type LoaderFunc func(u *url.URL) (storage.Storer, error)

// Load implements transport.Loader.
func (f LoaderFunc) Load(u *url.URL) (storage.Storer, error) { return f(u) }

// HTTPTransport is the go-git transport to register for the "http" scheme
// (client.WithTransport): the real plumbing/transport/http client whose
// http.Client uses a simulated RoundTripper. The only thing it adds is that
// FetchRequest.Haves is sorted before the real session sees it: Remote.fetch
// collects the haves from a Go map, and under stateless RPC the composition
// of each negotiation round (and hence every byte count and cut position)
// would otherwise depend on map iteration order. It is the harness-side
// equivalent of a simhook.SortHashes call in remote.go getHaves.
type HTTPTransport struct {
	Inner transport.Transport
}

// NewHTTPTransport builds the real HTTP transport on top of rt.
func NewHTTPTransport(rt http.RoundTripper, authorizer func(*http.Request) error) *HTTPTransport {
	return &HTTPTransport{Inner: xhttp.NewTransport(xhttp.Options{Client: &http.Client{Transport: rt}, Authorizer: authorizer})}
}

var _ transport.Transport = (*HTTPTransport)(nil)

// Handshake implements transport.Transport.
func (t *HTTPTransport) Handshake(ctx context.Context, req *transport.Request) (transport.Session, error) {
	s, err := t.Inner.Handshake(ctx, req)
	if err != nil {
		return nil, err
	}
	if c, ok := s.(transport.Commander); ok {
		return &sortedCmdSession{sortedSession{s}, c}, nil
	}
	return &sortedSession{s}, nil
}

type sortedSession struct{ transport.Session }

func (s *sortedSession) Fetch(ctx context.Context, st storage.Storer, req *transport.FetchRequest) error {
	sort.Slice(req.Haves, func(i, j int) bool { return req.Haves[i].Compare(req.Haves[j].Bytes()) < 0 })
	return s.Session.Fetch(ctx, st, req)
}

type sortedCmdSession struct {
	sortedSession
	c transport.Commander
}

func (s *sortedCmdSession) Command(ctx context.Context, cmd string, req packp.CommandArgs, resp packp.Decoder) error {
	return s.c.Command(ctx, cmd, req, resp)
}
