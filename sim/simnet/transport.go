//go:build verif

package simnet

import (
	"context"
	"fmt"
	"io"
	"sync"

	"github.com/go-git/go-git/v6/plumbing/transport"
	"github.com/go-git/go-git/v6/storage"
)

// ConnCfg configures both directions of every connection a Transport opens.
// Connection k uses Conns[k % len(Conns)].
type ConnCfg struct {
	C2S Cfg `json:"c2s"`
	S2C Cfg `json:"s2c"`
}

// Transport is a go-git transport (scheme of your choice, registered with
// client.WithTransport) whose Connect runs the real server command on the
// store returned by Open, over simulated streams.
type Transport struct {
	// Open returns the server-side storer for a request path (a fresh
	// Storage value per connection, like the file transport's loader).
	Open  func(path string) (storage.Storer, error)
	Conns []ConnCfg
	// Hooks for receive-pack (optional).
	Hooks transport.ReceivePackHooks
	// Drv, when non-nil, is set on every stream (scheduled configuration).
	Drv Parker

	mu      sync.Mutex
	n       int
	Streams []*Stream // all streams ever created (c2s, s2c, c2s, ...)
	SrvErrs []error   // error returned by each server command
	wg      sync.WaitGroup
}

var (
	_ transport.Transport = (*Transport)(nil)
	_ transport.Connector = (*Transport)(nil)
)

// Connect implements transport.Connector.
func (t *Transport) Connect(ctx context.Context, req *transport.Request) (transport.Conn, error) {
	st, err := t.Open(req.URL.Path)
	if err != nil {
		return nil, err
	}
	t.mu.Lock()
	k := t.n
	t.n++
	cfg := ConnCfg{}
	if len(t.Conns) > 0 {
		cfg = t.Conns[k%len(t.Conns)]
	}
	c2s := NewStream(fmt.Sprintf("c2s#%d", k), cfg.C2S)
	s2c := NewStream(fmt.Sprintf("s2c#%d", k), cfg.S2C)
	c2s.Drv, s2c.Drv = t.Drv, t.Drv
	t.Streams = append(t.Streams, c2s, s2c)
	t.SrvErrs = append(t.SrvErrs, nil)
	t.mu.Unlock()

	gitProtocol := transport.GitProtocolEnv(req.Protocol)
	done := make(chan struct{})
	t.wg.Add(1)
	go func() {
		defer t.wg.Done()
		defer close(done)
		var err error
		// like the file transport: the server command must not be able to
		// close the client->server direction from its side by closing r
		r := io.NopCloser(readHalf{c2s})
		w := writeHalf{s2c}
		switch req.Command {
		case transport.UploadPackService:
			err = transport.UploadPack(ctx, st, r, w, &transport.UploadPackRequest{GitProtocol: gitProtocol})
		case transport.ReceivePackService:
			err = transport.ReceivePack(ctx, st, r, w, &transport.ReceivePackRequest{GitProtocol: gitProtocol, Hooks: t.Hooks})
		default:
			err = fmt.Errorf("%w: %s", transport.ErrCommandUnsupported, req.Command)
		}
		s2c.CloseWrite(err)
		c2s.CloseRead()
		t.mu.Lock()
		t.SrvErrs[k] = err
		t.mu.Unlock()
		if c, ok := st.(io.Closer); ok {
			_ = c.Close()
		}
	}()
	return &conn{r: s2c, w: c2s, done: done}, nil
}

// Handshake implements transport.Transport.
func (t *Transport) Handshake(ctx context.Context, req *transport.Request) (transport.Session, error) {
	c, err := t.Connect(ctx, req)
	if err != nil {
		return nil, err
	}
	return transport.NewStreamSession(c, req.Command)
}

// Wait blocks until every server command has returned.
func (t *Transport) Wait() { t.wg.Wait() }

// Totals sums the statistics of all streams.
func (t *Transport) Totals() Stats {
	t.mu.Lock()
	defer t.mu.Unlock()
	var s Stats
	for _, st := range t.Streams {
		s.Writes += st.St.Writes
		s.Reads += st.St.Reads
		s.Segments += st.St.Segments
		s.Bytes += st.St.Bytes
		s.SplitWrites += st.St.SplitWrites
		s.ShortReads += st.St.ShortReads
		s.Blocked += st.St.Blocked
		s.Cut = s.Cut || st.St.Cut
	}
	return s
}

type conn struct {
	r    *Stream
	w    *Stream
	done chan struct{}
	once sync.Once
}

func (c *conn) Reader() io.Reader      { return readHalf{c.r} }
func (c *conn) Writer() io.WriteCloser { return writeHalf{c.w} }
func (c *conn) Close() error {
	c.once.Do(func() {
		c.w.CloseWrite(nil)
		c.r.CloseRead()
		<-c.done
	})
	return nil
}
