package gen

import (
	"fmt"
	"sort"
	"time"

	"github.com/go-git/go-git/v6/plumbing"
	"github.com/go-git/go-git/v6/plumbing/filemode"
	"github.com/go-git/go-git/v6/plumbing/object"
	"github.com/go-git/go-git/v6/storage"
	"github.com/go-git/go-git/v6/verifsim/core"
)

// DAGCommit is one commit of a generated history. The model knows, without
// asking go-git, which objects each commit needs and who its parents are.
type DAGCommit struct {
	Hash    plumbing.Hash
	Parents []int
	Tree    plumbing.Hash
	Blobs   []plumbing.Hash
	When    int64
}

// DAGTag is an annotated tag object.
type DAGTag struct {
	Hash       plumbing.Hash
	Target     plumbing.Hash
	TargetKind string // commit | tree | blob
	Commit     int    // index of the commit it (indirectly) belongs to
}

// DAG is a generated history with its references.
type DAG struct {
	Commits []DAGCommit
	Tags    []DAGTag
	// Refs: full name -> hash (branches -> commit, tags -> tag object or commit)
	Refs map[string]plumbing.Hash
	Head string // branch HEAD points at ("" = none)
	// Objects: every object hash the generator stored -> kind
	Objects map[plumbing.Hash]string
}

// DAGCfg controls the shape.
type DAGCfg struct {
	Commits    int
	Branches   int
	MergeRate  int // percent of commits that get a second parent
	ChainBias  int // percent of commits whose first parent is simply the previous commit
	Tags       int
	OddTags    bool // annotated tags on trees and blobs
	ClockSkew  bool
	SharedBlob bool
}

func put(st storage.Storer, o interface {
	Encode(plumbing.EncodedObject) error
}) (plumbing.Hash, error) {
	eo := st.NewEncodedObject()
	if err := o.Encode(eo); err != nil {
		return plumbing.ZeroHash, err
	}
	return st.SetEncodedObject(eo)
}

func putBlob(st storage.Storer, data []byte) (plumbing.Hash, error) {
	eo := st.NewEncodedObject()
	eo.SetType(plumbing.BlobObject)
	eo.SetSize(int64(len(data)))
	w, err := eo.Writer()
	if err != nil {
		return plumbing.ZeroHash, err
	}
	w.Write(data)
	w.Close()
	return st.SetEncodedObject(eo)
}

// BuildDAG stores a generated history into st and returns its model. upto<0
// stores everything; otherwise only the first upto commits (used to build a
// client that already has a prefix of the server's history). The same
// (seed,cfg) always yields the same hashes.
func BuildDAG(seed uint64, cfg DAGCfg, st storage.Storer) (*DAG, error) {
	r := core.NewRand(seed*2654435761 + 99)
	d := &DAG{Refs: map[string]plumbing.Hash{}, Objects: map[plumbing.Hash]string{}}
	n := cfg.Commits
	if n < 1 {
		n = 1
	}
	sharedData := []byte("shared content\n")
	for i := 0; i < n; i++ {
		// tree: 1-3 files, one of them unique to the commit
		var entries []object.TreeEntry
		var blobs []plumbing.Hash
		nf := 1 + r.Intn(3)
		for f := 0; f < nf; f++ {
			data := []byte(fmt.Sprintf("commit %d file %d seed %d\n%s", i, f, seed, string(r.Bytes(r.Intn(60)))))
			if cfg.SharedBlob && f == 1 {
				data = sharedData
			}
			bh, err := putBlob(st, data)
			if err != nil {
				return nil, err
			}
			d.Objects[bh] = "blob"
			blobs = append(blobs, bh)
			entries = append(entries, object.TreeEntry{Name: fmt.Sprintf("f%d.txt", f), Mode: filemode.Regular, Hash: bh})
		}
		sort.Slice(entries, func(a, b int) bool { return entries[a].Name < entries[b].Name })
		th, err := put(st, &object.Tree{Entries: entries})
		if err != nil {
			return nil, err
		}
		d.Objects[th] = "tree"
		var parents []int
		if i > 0 {
			p0 := i - 1
			if r.Intn(100) >= cfg.ChainBias {
				p0 = r.Intn(i)
			}
			parents = append(parents, p0)
			if i > 1 && r.Intn(100) < cfg.MergeRate {
				p1 := r.Intn(i)
				if p1 != p0 {
					parents = append(parents, p1)
				}
			}
		}
		when := int64(1_500_000_000 + i*100)
		if cfg.ClockSkew && r.Chance(1, 3) {
			when -= int64(r.Intn(2000))
		}
		sig := object.Signature{Name: "Gen", Email: "gen@example.com", When: time.Unix(when, 0).UTC()}
		c := &object.Commit{Author: sig, Committer: sig, Message: fmt.Sprintf("c%d\n", i), TreeHash: th}
		for _, p := range parents {
			c.ParentHashes = append(c.ParentHashes, d.Commits[p].Hash)
		}
		ch, err := put(st, c)
		if err != nil {
			return nil, err
		}
		d.Objects[ch] = "commit"
		d.Commits = append(d.Commits, DAGCommit{Hash: ch, Parents: parents, Tree: th, Blobs: blobs, When: when})
	}
	// branches
	nb := cfg.Branches
	if nb < 1 {
		nb = 1
	}
	d.Refs["refs/heads/main"] = d.Commits[n-1].Hash
	d.Head = "refs/heads/main"
	for b := 1; b < nb; b++ {
		d.Refs[fmt.Sprintf("refs/heads/b%d", b)] = d.Commits[r.Intn(n)].Hash
	}
	// tags
	for t := 0; t < cfg.Tags; t++ {
		ci := r.Intn(n)
		c := d.Commits[ci]
		name := fmt.Sprintf("refs/tags/t%d", t)
		switch k := r.Intn(6); {
		case k < 2: // lightweight
			d.Refs[name] = c.Hash
		default:
			target, kind, otype := c.Hash, "commit", plumbing.CommitObject
			if cfg.OddTags && k == 4 {
				target, kind, otype = c.Tree, "tree", plumbing.TreeObject
			} else if cfg.OddTags && k == 5 {
				target, kind, otype = c.Blobs[0], "blob", plumbing.BlobObject
			}
			sig := object.Signature{Name: "Tagger", Email: "t@example.com", When: time.Unix(1_600_000_000+int64(t), 0).UTC()}
			tg := &object.Tag{Name: fmt.Sprintf("t%d", t), Tagger: sig, Message: "tag\n", TargetType: otype, Target: target}
			th, err := put(st, tg)
			if err != nil {
				return nil, err
			}
			d.Objects[th] = "tag"
			d.Tags = append(d.Tags, DAGTag{Hash: th, Target: target, TargetKind: kind, Commit: ci})
			d.Refs[name] = th
		}
	}
	return d, nil
}

// WriteRefs stores the DAG's references (and HEAD) into st.
func (d *DAG) WriteRefs(st storage.Storer) error {
	names := make([]string, 0, len(d.Refs))
	for n := range d.Refs {
		names = append(names, n)
	}
	sort.Strings(names)
	for _, n := range names {
		if err := st.SetReference(plumbing.NewHashReference(plumbing.ReferenceName(n), d.Refs[n])); err != nil {
			return err
		}
	}
	if d.Head != "" {
		return st.SetReference(plumbing.NewSymbolicReference(plumbing.HEAD, plumbing.ReferenceName(d.Head)))
	}
	return nil
}

// CommitIndex returns the index of the commit with hash h, or -1.
func (d *DAG) CommitIndex(h plumbing.Hash) int {
	for i, c := range d.Commits {
		if c.Hash == h {
			return i
		}
	}
	return -1
}

// Closure returns every object needed by the given tip hashes (commits, tag
// objects, trees or blobs), following parents unless stop[commit] is set
// (shallow boundary: the commit itself is included, its parents are not).
func (d *DAG) Closure(tips []plumbing.Hash, stop map[plumbing.Hash]bool) map[plumbing.Hash]bool {
	out := map[plumbing.Hash]bool{}
	var addCommit func(i int)
	addCommit = func(i int) {
		c := d.Commits[i]
		if out[c.Hash] {
			return
		}
		out[c.Hash] = true
		out[c.Tree] = true
		for _, b := range c.Blobs {
			out[b] = true
		}
		if stop != nil && stop[c.Hash] {
			return
		}
		for _, p := range c.Parents {
			addCommit(p)
		}
	}
	for _, h := range tips {
		if i := d.CommitIndex(h); i >= 0 {
			addCommit(i)
			continue
		}
		handled := false
		for _, t := range d.Tags {
			if t.Hash == h {
				out[h] = true
				switch t.TargetKind {
				case "commit":
					addCommit(d.CommitIndex(t.Target))
				case "tree":
					// the tree of commit t.Commit and its blobs
					c := d.Commits[t.Commit]
					out[c.Tree] = true
					for _, b := range c.Blobs {
						out[b] = true
					}
				default:
					out[t.Target] = true
				}
				handled = true
			}
		}
		if !handled {
			out[h] = true
		}
	}
	return out
}

// ShallowBoundary computes, for a fetch of tips with the given depth, the set
// of commits that become shallow roots (depth counted from 1 at a tip;
// every commit at distance == depth is a boundary, as in git).
func (d *DAG) ShallowBoundary(tips []plumbing.Hash, depth int) map[plumbing.Hash]bool {
	dist := map[int]int{}
	var queue []int
	for _, h := range tips {
		i := d.CommitIndex(h)
		if i < 0 {
			for _, t := range d.Tags {
				if t.Hash == h && t.TargetKind == "commit" {
					i = d.CommitIndex(t.Target)
				}
			}
		}
		if i >= 0 {
			if _, ok := dist[i]; !ok {
				dist[i] = 1
				queue = append(queue, i)
			}
		}
	}
	for len(queue) > 0 {
		i := queue[0]
		queue = queue[1:]
		if dist[i] >= depth {
			continue
		}
		for _, p := range d.Commits[i].Parents {
			if old, ok := dist[p]; !ok || old > dist[i]+1 {
				dist[p] = dist[i] + 1
				queue = append(queue, p)
			}
		}
	}
	out := map[plumbing.Hash]bool{}
	for i, dd := range dist {
		// git's upload-pack marks every commit reached at the depth limit as
		// shallow, whether or not it has parents (verified with git 2.39:
		// clone --depth 2 of a two-commit history lists the root in .git/shallow)
		if dd == depth {
			out[d.Commits[i].Hash] = true
		}
	}
	return out
}

// IsAncestor reports whether commit a is an ancestor of (or equal to) commit b.
func (d *DAG) IsAncestor(a, b int) bool {
	seen := map[int]bool{}
	var walk func(i int) bool
	walk = func(i int) bool {
		if i == a {
			return true
		}
		if seen[i] {
			return false
		}
		seen[i] = true
		for _, p := range d.Commits[i].Parents {
			if walk(p) {
				return true
			}
		}
		return false
	}
	return walk(b)
}
