package gen

import (
	"testing"

	"github.com/go-git/go-git/v6/storage/filesystem"
	"github.com/go-git/go-git/v6/verifsim/core"
	"github.com/go-git/go-git/v6/verifsim/simfs"
)

func TestBuild(t *testing.T) {
	for seed := uint64(1); seed < 60; seed++ {
		d := simfs.NewDisk()
		env, err := Build(core.NewRand(seed), d, "/w", Cfg{MinCommits: 3, MaxCommits: 8, Repack: seed%2 == 0, PackRefs: seed%3 == 0, Tags: true, Side: true, Symlinks: seed%5 == 0})
		if err != nil {
			t.Fatalf("seed %d: %v", seed, err)
		}
		e2, err := Open(d.Clone(), "/w", "re", filesystem.Options{})
		if err != nil {
			t.Fatal(err)
		}
		w, _ := e2.Repo.Worktree()
		s, err := w.Status()
		if err != nil || !s.IsClean() {
			t.Fatalf("seed %d: status %v %v", seed, err, s)
		}
		head, _ := e2.Repo.Head()
		if head.Hash() != env.Model.Commits[env.Model.HeadIdx].Hash {
			t.Fatalf("head mismatch")
		}
		if d.OpenHandleCount() != 0 {
			t.Fatalf("seed %d: open handles %v", seed, d.OpenHandleNames())
		}
	}
}
