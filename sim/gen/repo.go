// Package gen builds generated repositories on a simulated disk (fault-free
// setup phase, through go-git's own API) together with a model that records
// what was put in: per-commit file maps, the commit DAG and the references.
package gen

import (
	"fmt"
	iofs "io/fs"
	"sort"
	"time"

	"github.com/go-git/go-billy/v6"
	"github.com/go-git/go-billy/v6/util"
	git "github.com/go-git/go-git/v6"
	"github.com/go-git/go-git/v6/plumbing"
	"github.com/go-git/go-git/v6/plumbing/cache"
	"github.com/go-git/go-git/v6/plumbing/object"
	"github.com/go-git/go-git/v6/storage/filesystem"
	"github.com/go-git/go-git/v6/verifsim/core"
	"github.com/go-git/go-git/v6/verifsim/simfs"
)

// File is one worktree entry of a model tree.
type File struct {
	Data string
	Exec bool
	Link bool // Data is the link target
}

// Commit is one generated commit.
type Commit struct {
	Hash    plumbing.Hash
	Tree    map[string]File
	Parents []int
}

// Model is what the generator knows about the repository it built.
type Model struct {
	Commits []Commit
	Refs    map[string]plumbing.Hash // full ref name -> hash (branches, tags; annotated tags point at the tag object)
	TagObjs map[string]plumbing.Hash // annotated tag name -> tag object hash
	Head    string                   // branch HEAD points to
	HeadIdx int                      // index of the commit checked out
}

// Env is an opened repository on a simulated disk.
type Env struct {
	Disk    *simfs.Disk
	Root    string
	WT      billy.Filesystem
	Dot     billy.Filesystem
	Storage *filesystem.Storage
	Repo    *git.Repository
	Model   *Model
}

// Cfg controls repository generation.
type Cfg struct {
	MinCommits, MaxCommits int
	Repack                 bool // repack objects part-way so some are packed, some loose
	PackRefs               bool
	Tags                   bool
	Side                   bool // side branch + merge
	Symlinks               bool
}

var paths = []string{"a.txt", "b.txt", "dir/c.txt", "dir/sub/d.txt", "e.sh", "z/y/x.txt", "dir/e.txt"}

// Sig returns a deterministic signature.
func Sig(i int) *object.Signature {
	return &object.Signature{Name: "Sim", Email: "sim@example.com", When: time.Unix(1_600_000_000+int64(i)*60, 0).UTC()}
}

// Open opens the repository at root on disk with a fresh Storage.
func Open(disk *simfs.Disk, root, actor string, opts filesystem.Options) (*Env, error) {
	wt := disk.FS(root, actor)
	dotfs, err := wt.Chroot(".git")
	if err != nil {
		return nil, err
	}
	st := filesystem.NewStorageWithOptions(dotfs, cache.NewObjectLRUDefault(), opts)
	r, err := git.Open(st, wt)
	if err != nil {
		return nil, err
	}
	return &Env{Disk: disk, Root: root, WT: wt, Dot: dotfs, Storage: st, Repo: r}, nil
}

func writeTree(wt billy.Filesystem, prev, next map[string]File) error {
	for p := range prev {
		if _, ok := next[p]; !ok {
			if err := wt.Remove(p); err != nil {
				return err
			}
		}
	}
	keys := make([]string, 0, len(next))
	for p := range next {
		keys = append(keys, p)
	}
	sort.Strings(keys)
	for _, p := range keys {
		f := next[p]
		if old, ok := prev[p]; ok && old == f {
			continue
		}
		if _, ok := prev[p]; ok {
			_ = wt.Remove(p)
		}
		if f.Link {
			if err := wt.Symlink(f.Data, p); err != nil {
				return err
			}
			continue
		}
		mode := 0o644
		if f.Exec {
			mode = 0o755
		}
		if err := util.WriteFile(wt, p, []byte(f.Data), 0o644); err != nil {
			return err
		}
		if ch, ok := wt.(billy.Chmod); ok {
			if err := ch.Chmod(p, iofs.FileMode(mode)); err != nil {
				return err
			}
		}
	}
	return nil
}

func mutate(r *core.Rand, prev map[string]File, n int, symlinks bool) map[string]File {
	next := map[string]File{}
	for k, v := range prev {
		next[k] = v
	}
	changes := r.Range(1, 3)
	for c := 0; c < changes; c++ {
		p := paths[r.Intn(len(paths))]
		switch k := r.Intn(10); {
		case k < 2 && len(next) > 1:
			delete(next, p)
		case k == 2 && symlinks:
			next[p] = File{Data: "a.txt", Link: true}
		default:
			next[p] = File{Data: fmt.Sprintf("content %d of %s\n%s", n, p, string(r.Bytes(r.Intn(40)))), Exec: p == "e.sh"}
		}
	}
	if len(next) == 0 {
		next["a.txt"] = File{Data: fmt.Sprintf("content %d\n", n)}
	}
	// never leave a path that is both a file and a directory prefix
	return next
}

// Build creates a repository at root on disk.
func Build(r *core.Rand, disk *simfs.Disk, root string, cfg Cfg) (*Env, error) {
	wt := disk.FS(root, "setup")
	dotfs, err := wt.Chroot(".git")
	if err != nil {
		return nil, err
	}
	st := filesystem.NewStorage(dotfs, cache.NewObjectLRUDefault())
	repo, err := git.Init(st, git.WithWorkTree(wt))
	if err != nil {
		return nil, err
	}
	w, err := repo.Worktree()
	if err != nil {
		return nil, err
	}
	m := &Model{Refs: map[string]plumbing.Hash{}, TagObjs: map[string]plumbing.Hash{}, Head: "refs/heads/master"}
	n := r.Range(cfg.MinCommits, cfg.MaxCommits)
	if n < 1 {
		n = 1
	}
	repackAt := -1
	// go-git's object walker (object_walker.go) has no case for a blob reached
	// through a non-regular tree entry, so RepackObjects/Prune fail with
	// "unknown object ... blob" on any history that contains a symlink; the
	// generator therefore never repacks such a history during setup.
	if cfg.Repack && n > 1 && !cfg.Symlinks {
		repackAt = r.Range(0, n-2)
	}
	sideAt, mergeAt := -1, -1
	if cfg.Side && n >= 4 {
		sideAt = r.Range(1, n-3)
		mergeAt = r.Range(sideAt+1, n-1)
	}
	cur := map[string]File{}
	mainline := -1 // index of last mainline commit
	side := -1
	for i := 0; i < n; i++ {
		next := mutate(r, cur, i, cfg.Symlinks)
		if err := writeTree(wt, cur, next); err != nil {
			return nil, fmt.Errorf("writeTree: %w", err)
		}
		if err := w.AddWithOptions(&git.AddOptions{All: true}); err != nil {
			return nil, fmt.Errorf("add: %w", err)
		}
		opts := &git.CommitOptions{Author: Sig(i), Committer: Sig(i), AllowEmptyCommits: true}
		var parents []int
		switch {
		case i == sideAt:
			// side commit: child of an earlier mainline commit
			p := r.Range(0, mainline)
			parents = []int{p}
		case i == mergeAt && side >= 0:
			parents = []int{mainline, side}
		case mainline >= 0:
			parents = []int{mainline}
		}
		for _, p := range parents {
			opts.Parents = append(opts.Parents, m.Commits[p].Hash)
		}
		h, err := w.Commit(fmt.Sprintf("commit %d", i), opts)
		if err != nil {
			return nil, fmt.Errorf("commit %d: %w", i, err)
		}
		tree := map[string]File{}
		for k, v := range next {
			tree[k] = v
		}
		m.Commits = append(m.Commits, Commit{Hash: h, Tree: tree, Parents: parents})
		if i == sideAt {
			side = i
			m.Refs["refs/heads/side"] = h
			if err := st.SetReference(plumbing.NewHashReference("refs/heads/side", h)); err != nil {
				return nil, err
			}
			// the worktree keeps the side content; mainline continues from it
			// content-wise (trees are arbitrary), DAG-wise from mainline.
		} else {
			mainline = i
		}
		cur = next
		if i == repackAt {
			if err := repo.RepackObjects(&git.RepackConfig{}); err != nil {
				return nil, fmt.Errorf("repack: %w", err)
			}
		}
	}
	last := m.Commits[mainline]
	if mainline != n-1 {
		// last generated commit was the side commit: make the worktree/HEAD be the mainline tip
		if err := st.SetReference(plumbing.NewHashReference("refs/heads/master", last.Hash)); err != nil {
			return nil, err
		}
		if err := w.Reset(&git.ResetOptions{Mode: git.HardReset, Commit: last.Hash}); err != nil {
			return nil, fmt.Errorf("reset: %w", err)
		}
	}
	m.Refs["refs/heads/master"] = last.Hash
	m.HeadIdx = mainline
	if n >= 2 {
		k := r.Range(0, n-1)
		m.Refs["refs/heads/old"] = m.Commits[k].Hash
		if err := st.SetReference(plumbing.NewHashReference("refs/heads/old", m.Commits[k].Hash)); err != nil {
			return nil, err
		}
	}
	if cfg.Tags {
		k := r.Range(0, n-1)
		ref, err := repo.CreateTag("v1", m.Commits[k].Hash, &git.CreateTagOptions{Tagger: Sig(100), Message: "annotated"})
		if err != nil {
			return nil, fmt.Errorf("tag: %w", err)
		}
		m.Refs["refs/tags/v1"] = ref.Hash()
		m.TagObjs["v1"] = ref.Hash()
		k2 := r.Range(0, n-1)
		if _, err := repo.CreateTag("light", m.Commits[k2].Hash, nil); err != nil {
			return nil, fmt.Errorf("tag: %w", err)
		}
		m.Refs["refs/tags/light"] = m.Commits[k2].Hash
	}
	if cfg.PackRefs {
		if err := st.PackRefs(); err != nil {
			return nil, fmt.Errorf("packrefs: %w", err)
		}
	}
	_ = st.Close()
	return &Env{Disk: disk, Root: root, WT: wt, Dot: dotfs, Storage: st, Repo: repo, Model: m}, nil
}
