//go:build verif

// C18 — objects are readable immediately after a successful write.
//
// One filesystem Storage on the simulated disk. A history interleaves object
// writers and pack writers that are opened, fed in parts and closed, with
// lookups (has, size, get, type iteration, prefix search) on the same
// storage. Once a writer's Close (or SetEncodedObject) returned nil, every
// object it carried must be visible to every lookup from then on. In the
// scheduled configuration the pack writer's own indexer goroutine is
// interleaved with the writing task at every disk operation and at the
// syncedReader sleep window.
package c18

import (
	"bytes"
	"crypto/sha1"
	"errors"
	"fmt"
	"io"
	"sort"
	"testing"

	"github.com/go-git/go-git/v6/plumbing"
	"github.com/go-git/go-git/v6/plumbing/cache"
	"github.com/go-git/go-git/v6/plumbing/format/packfile"
	"github.com/go-git/go-git/v6/storage/filesystem"
	"github.com/go-git/go-git/v6/storage/memory"
	"github.com/go-git/go-git/v6/verifsim/core"
	"github.com/go-git/go-git/v6/verifsim/hooks"
	"github.com/go-git/go-git/v6/verifsim/sched"
	"github.com/go-git/go-git/v6/verifsim/simfs"
)

type Op struct {
	Kind string `json:"kind"`
	K    int    `json:"k"`
}

type Plan struct {
	Exclusive bool           `json:"exclusive"`
	SmallLRU  bool           `json:"small_lru"`
	Seed      int            `json:"seed"`
	Packs     [][]int        `json:"packs"` // object indices per pack
	Ops       []Op           `json:"ops"`
	Fault     *simfs.Fault   `json:"fault,omitempty"`
	Scheduled bool           `json:"scheduled"`
	Sched     sched.Schedule `json:"sched"`
}

const nObj = 8

var kinds = []string{"ow-open", "ow-write", "ow-close", "pw-open", "pw-write", "pw-close", "set", "has", "size", "get", "iter", "prefix"}

func genPlan(r *core.Rand, tier string) any {
	p := &Plan{Exclusive: r.Bool(), SmallLRU: r.Chance(1, 3), Seed: r.Intn(50)}
	np := r.Range(1, 3)
	for i := 0; i < np; i++ {
		var objs []int
		for k := 0; k < nObj; k++ {
			if r.Chance(1, 3) {
				objs = append(objs, k)
			}
		}
		if len(objs) == 0 {
			objs = []int{r.Intn(nObj)}
		}
		p.Packs = append(p.Packs, objs)
	}
	n := r.Range(4, 18)
	for i := 0; i < n; i++ {
		var kind string
		switch x := r.Intn(20); {
		case x < 2:
			kind = "ow-open"
		case x < 4:
			kind = "ow-write"
		case x < 6:
			kind = "ow-close"
		case x < 8:
			kind = "pw-open"
		case x < 10:
			kind = "pw-write"
		case x < 12:
			kind = "pw-close"
		case x < 13:
			kind = "set"
		default:
			kind = []string{"has", "size", "get", "iter", "prefix"}[r.Intn(5)]
		}
		p.Ops = append(p.Ops, Op{Kind: kind, K: r.Intn(nObj)})
	}
	if r.Chance(1, 6) {
		p.Fault = &simfs.Fault{Class: []simfs.OpClass{simfs.OpWrite, simfs.OpRename, simfs.OpCreate, simfs.OpClose}[r.Intn(4)], Nth: r.Range(1, 12), Errno: r.Pick("EIO", "ENOSPC")}
	}
	if r.Chance(1, 4) {
		p.Scheduled = true
		np := r.Range(0, 8)
		for i := 0; i < np; i++ {
			p.Sched.Preempts = append(p.Sched.Preempts, sched.Preempt{At: r.Intn(400), Pick: r.Intn(4)})
		}
		for i := 0; i < 6; i++ {
			p.Sched.Fallback = append(p.Sched.Fallback, r.Intn(4))
		}
	}
	return p
}

type objSpec struct {
	typ  plumbing.ObjectType
	data []byte
	id   plumbing.Hash
}

// independent object id: sha1("<type> <len>\x00" + data)
func objID(t plumbing.ObjectType, data []byte) plumbing.Hash {
	h := sha1.New()
	fmt.Fprintf(h, "%s %d\x00", t.String(), len(data))
	h.Write(data)
	id, _ := plumbing.FromBytes(h.Sum(nil))
	return id
}

func universe(seed int) []objSpec {
	r := core.NewRand(uint64(seed)*977 + 5)
	out := make([]objSpec, nObj)
	for i := range out {
		t := plumbing.BlobObject
		var data []byte
		switch {
		case i == 6:
			t = plumbing.TreeObject // the empty tree is a valid tree
		default:
			data = []byte(fmt.Sprintf("object %d of universe %d\n", i, seed))
			data = append(data, bytes.Repeat([]byte{byte('a' + i)}, r.Intn(200))...)
		}
		out[i] = objSpec{typ: t, data: data, id: objID(t, data)}
	}
	return out
}

var packCache = map[string][]byte{}

func packBytes(seed int, objs []int, uni []objSpec) ([]byte, error) {
	key := fmt.Sprint(seed, objs)
	if b, ok := packCache[key]; ok {
		return b, nil
	}
	if len(packCache) > 2000 {
		packCache = map[string][]byte{}
	}
	ms := memory.NewStorage()
	var hs []plumbing.Hash
	seen := map[int]bool{}
	for _, k := range objs {
		k = mod(k, nObj)
		if seen[k] {
			continue
		}
		seen[k] = true
		o := ms.NewEncodedObject()
		o.SetType(uni[k].typ)
		o.SetSize(int64(len(uni[k].data)))
		w, _ := o.Writer()
		w.Write(uni[k].data)
		w.Close()
		h, err := ms.SetEncodedObject(o)
		if err != nil {
			return nil, err
		}
		if h != uni[k].id {
			return nil, fmt.Errorf("independent id %s != go-git id %s", uni[k].id, h)
		}
		hs = append(hs, h)
	}
	var buf bytes.Buffer
	enc := packfile.NewEncoder(&buf, ms, false)
	if _, err := enc.Encode(hs, 10); err != nil {
		return nil, err
	}
	packCache[key] = buf.Bytes()
	return buf.Bytes(), nil
}

func mod(a, n int) int {
	if n <= 0 {
		return 0
	}
	a %= n
	if a < 0 {
		a += n
	}
	return a
}

type objWriter struct {
	w       io.WriteCloser
	written int
}

type packWriter struct {
	w       io.WriteCloser
	data    []byte
	written int
}

func execPlan(t *testing.T, pa any) (out core.Outcome) {
	p := pa.(*Plan)
	hooks.Deterministic(true)
	if len(p.Packs) == 0 {
		p.Packs = [][]int{{0}}
	}
	uni := universe(p.Seed)
	var trace []string
	logf := func(format string, args ...any) {
		if len(trace) < 500 {
			trace = append(trace, fmt.Sprintf(format, args...))
		}
	}
	disk := simfs.NewDisk()
	var drv *sched.Driver

	body := func() {
		lru := cache.NewObjectLRUDefault()
		if p.SmallLRU {
			lru = cache.NewObjectLRU(64)
		}
		st := filesystem.NewStorageWithOptions(disk.FS("/g", "t"), lru, filesystem.Options{ExclusiveAccess: p.Exclusive})
		if err := st.Init(); err != nil {
			out.Inconclusive = "init-failed"
			return
		}
		disk.ResetCounters()
		if p.Fault != nil {
			disk.SetFaults([]simfs.Fault{*p.Fault})
		}
		visible := map[int]string{} // object index -> how it became visible
		touched := map[int]bool{}   // a writer carrying it was ever opened
		ows := map[int]*objWriter{}
		pws := map[int]*packWriter{}
		faulty := func(err error) bool { return err != nil && simfs.IsInjected(err) }
		defer func() {
			// always close what is still open so the indexer goroutines end
			okeys := make([]int, 0)
			for k := range ows {
				okeys = append(okeys, k)
			}
			sort.Ints(okeys)
			for _, k := range okeys {
				_ = ows[k].w.Close()
			}
			pkeys := make([]int, 0)
			for j := range pws {
				pkeys = append(pkeys, j)
			}
			sort.Ints(pkeys)
			for _, j := range pkeys {
				_ = pws[j].w.Close()
			}
			_ = st.Close()
		}()

		check := func(when string) bool {
			// every visible object must be found by every lookup
			keys := make([]int, 0, len(visible))
			for k := range visible {
				keys = append(keys, k)
			}
			sort.Ints(keys)
			for _, k := range keys {
				o := uni[k]
				how := visible[k]
				cfg := "shared"
				if p.Exclusive {
					cfg = "exclusive"
				}
				if err := st.HasEncodedObject(o.id); err != nil && !faulty(err) {
					out.Fail(fmt.Sprintf("C18|has|not-found-after-%s|%s", how, cfg), "%s: HasEncodedObject(obj %d) = %v after its %s returned nil", when, k, err, how)
					return false
				}
				if sz, err := st.EncodedObjectSize(o.id); (err != nil && !faulty(err)) || (err == nil && sz != int64(len(o.data))) {
					out.Fail(fmt.Sprintf("C18|size|wrong-or-missing-after-%s|%s", how, cfg), "%s: EncodedObjectSize(obj %d) = %d, %v; want %d", when, k, sz, err, len(o.data))
					return false
				}
				eo, err := st.EncodedObject(plumbing.AnyObject, o.id)
				if err != nil {
					if !faulty(err) {
						out.Fail(fmt.Sprintf("C18|get|not-found-after-%s|%s", how, cfg), "%s: EncodedObject(obj %d) = %v after its %s returned nil", when, k, err, how)
						return false
					}
					continue
				}
				rd, err := eo.Reader()
				if err != nil {
					if !faulty(err) {
						out.Fail(fmt.Sprintf("C18|get|reader-error-after-%s|%s", how, cfg), "%s: obj %d Reader: %v", when, k, err)
						return false
					}
					continue
				}
				b, err := io.ReadAll(rd)
				rd.Close()
				if err != nil && faulty(err) {
					continue
				}
				if err != nil || !bytes.Equal(b, o.data) || eo.Type() != o.typ {
					out.Fail(fmt.Sprintf("C18|get|wrong-content-after-%s|%s", how, cfg), "%s: obj %d read back %d bytes type %s err %v; want %d bytes type %s", when, k, len(b), eo.Type(), err, len(o.data), o.typ)
					return false
				}
			}
			return true
		}

		for i, op := range p.Ops {
			if i >= 40 || out.Signature != "" {
				break
			}
			k := mod(op.K, nObj)
			o := uni[k]
			switch op.Kind {
			case "ow-open":
				if ows[k] != nil || len(ows) >= 3 {
					continue
				}
				w, err := st.RawObjectWriter(o.typ, int64(len(o.data)))
				logf("ow-open %d: %v", k, errKind(err))
				if err != nil {
					continue
				}
				touched[k] = true
				ows[k] = &objWriter{w: w}
				out.Probe("object-writer-opened")
			case "ow-write":
				ow := ows[k]
				if ow == nil {
					continue
				}
				half := (len(o.data) - ow.written) / 2
				n, err := ow.w.Write(o.data[ow.written : ow.written+half])
				ow.written += n
				logf("ow-write %d +%d: %v", k, n, errKind(err))
			case "ow-close":
				ow := ows[k]
				if ow == nil {
					continue
				}
				delete(ows, k)
				_, werr := ow.w.Write(o.data[ow.written:])
				cerr := ow.w.Close()
				logf("ow-close %d: write %v close %v", k, errKind(werr), errKind(cerr))
				if werr == nil && cerr == nil {
					if _, ok := visible[k]; !ok {
						visible[k] = "object-writer-close"
					}
					if len(ows)+len(pws) > 0 {
						out.Probe("closed-while-other-writer-open")
					}
				}
			case "pw-open":
				j := mod(op.K, len(p.Packs))
				if pws[j] != nil || len(pws) >= 2 {
					continue
				}
				data, err := packBytes(p.Seed, p.Packs[j], uni)
				if err != nil {
					out.Inconclusive = "pack-build-failed"
					return
				}
				w, err := st.PackfileWriter()
				logf("pw-open %d: %v", j, errKind(err))
				if err != nil {
					continue
				}
				for _, x := range p.Packs[j] {
					touched[mod(x, nObj)] = true
				}
				pws[j] = &packWriter{w: w, data: data}
				out.Probe("pack-writer-opened")
			case "pw-write":
				j := mod(op.K, len(p.Packs))
				pw := pws[j]
				if pw == nil {
					continue
				}
				chunk := (len(pw.data) - pw.written) / 2
				n, err := pw.w.Write(pw.data[pw.written : pw.written+chunk])
				pw.written += n
				logf("pw-write %d +%d: %v", j, n, errKind(err))
			case "pw-close":
				j := mod(op.K, len(p.Packs))
				pw := pws[j]
				if pw == nil {
					continue
				}
				delete(pws, j)
				_, werr := pw.w.Write(pw.data[pw.written:])
				cerr := pw.w.Close()
				logf("pw-close %d: write %v close %v", j, errKind(werr), errKind(cerr))
				if werr == nil && cerr == nil {
					for _, x := range p.Packs[j] {
						if _, ok := visible[mod(x, nObj)]; !ok {
							visible[mod(x, nObj)] = "pack-writer-close"
						}
					}
					if len(ows)+len(pws) > 0 {
						out.Probe("closed-while-other-writer-open")
					}
				}
			case "set":
				eo := st.NewEncodedObject()
				eo.SetType(o.typ)
				eo.SetSize(int64(len(o.data)))
				w, _ := eo.Writer()
				w.Write(o.data)
				w.Close()
				touched[k] = true
				h, err := st.SetEncodedObject(eo)
				logf("set %d: %v", k, errKind(err))
				if err == nil {
					if h != o.id {
						out.Fail("C18|set|wrong-id", "SetEncodedObject(obj %d) returned %s, independent hasher says %s", k, h, o.id)
						return
					}
					if _, ok := visible[k]; !ok {
						visible[k] = "set"
					}
				}
			case "has":
				err := st.HasEncodedObject(o.id)
				logf("has %d: %v", k, errKind(err))
				if err == nil && !touched[k] {
					out.Fail("C18|has|ghost-object", "HasEncodedObject(obj %d) = nil but no writer ever carried it", k)
					return
				}
				if len(ows)+len(pws) > 0 {
					out.Probe("lookup-while-writer-open")
				}
			case "size":
				_, err := st.EncodedObjectSize(o.id)
				logf("size %d: %v", k, errKind(err))
			case "get":
				_, err := st.EncodedObject(plumbing.AnyObject, o.id)
				logf("get %d: %v", k, errKind(err))
				if err == nil && !touched[k] {
					out.Fail("C18|get|ghost-object", "EncodedObject(obj %d) found but no writer ever carried it", k)
					return
				}
				if len(ows)+len(pws) > 0 {
					out.Probe("lookup-while-writer-open")
				}
			case "iter":
				typ := plumbing.BlobObject
				if k == 6 {
					typ = plumbing.TreeObject
				}
				it, err := st.IterEncodedObjects(typ)
				got := map[plumbing.Hash]bool{}
				if err == nil {
					err = it.ForEach(func(eo plumbing.EncodedObject) error { got[eo.Hash()] = true; return nil })
				}
				logf("iter %s: %d %v", typ, len(got), errKind(err))
				if err != nil {
					if !faulty(err) {
						out.Fail("C18|iter|error", "IterEncodedObjects(%s): %v", typ, err)
						return
					}
					continue
				}
				keys := make([]int, 0, len(visible))
				for x := range visible {
					keys = append(keys, x)
				}
				sort.Ints(keys)
				for _, x := range keys {
					if uni[x].typ == typ && !got[uni[x].id] {
						cfg := "shared"
						if p.Exclusive {
							cfg = "exclusive"
						}
						out.Fail(fmt.Sprintf("C18|iter|missing-after-%s|%s", visible[x], cfg), "IterEncodedObjects(%s) does not list obj %d although its %s returned nil", typ, x, visible[x])
						return
					}
				}
				if len(ows)+len(pws) > 0 {
					out.Probe("lookup-while-writer-open")
				}
			case "prefix":
				hs, err := st.HashesWithPrefix(o.id.Bytes()[:2])
				logf("prefix %d: %d %v", k, len(hs), errKind(err))
				if err != nil {
					if !faulty(err) {
						out.Fail("C18|prefix|error", "HashesWithPrefix: %v", err)
						return
					}
					continue
				}
				if how, ok := visible[k]; ok {
					found := false
					for _, h := range hs {
						if h == o.id {
							found = true
						}
					}
					if !found {
						cfg := "shared"
						if p.Exclusive {
							cfg = "exclusive"
						}
						out.Fail(fmt.Sprintf("C18|prefix|missing-after-%s|%s", how, cfg), "HashesWithPrefix does not return obj %d although its %s returned nil", k, how)
						return
					}
				}
			}
			if !check(fmt.Sprintf("after op %d (%s %d)", i, op.Kind, op.K)) {
				return
			}
		}
		out.NonTrivial = out.Probes["lookup-while-writer-open"] > 0 || out.Probes["closed-while-other-writer-open"] > 0
	}

	if p.Scheduled {
		panicked := sched.Bubble(t, func() {
			drv = sched.New(p.Sched)
			drv.MaxSteps = 20000
			hooks.Install(drv)
			defer hooks.Uninstall()
			disk.Sched = drv
			drv.Run([]sched.Task{{Name: "main", Fn: body}})
		})
		out.Steps = drv.Steps
		out.SchedHash = drv.SchedHash()
		out.ProbeN("context-switches", drv.Switches)
		if panicked != nil {
			out.Signature, out.Message = "", ""
			out.Inconclusive = "bubble-panic"
			trace = append(trace, fmt.Sprint(panicked))
		} else if drv.Aborted == "deadlock" {
			out.Fail("C18|deadlock|pack-writer", "writer and indexer goroutine are both blocked after %d steps (lost wake-up)", drv.Steps)
		} else if drv.Aborted != "" {
			out.Signature, out.Message = "", ""
			out.Inconclusive = drv.Aborted
		}
		for name, pv := range drv.TaskPanic {
			out.Fail("C18|panic", "task %s panicked: %v", name, pv)
		}
		// The replay comparison uses the grant sequence by (task, operation
		// class), not by path: go-git closes cached pack handles while ranging
		// over a Go map (dotgit.cleanPackList), so WHICH pack file is closed
		// first is not a function of the plan, although the interleaving is.
		trace = append(trace, "sched:"+drv.SchedHash())
	} else {
		body()
		out.Steps = disk.OpCount()
	}
	out.Faults = map[string]int{}
	for k, v := range disk.FaultsFired {
		out.Faults[k] = v
	}
	out.Trace = trace
	out.LogHash = core.HashStrings(trace)
	out.StateHash = disk.Digest("/g", nil)
	return out
}

func errKind(err error) string {
	switch {
	case err == nil:
		return "ok"
	case simfs.IsInjected(err):
		return "injected"
	case errors.Is(err, plumbing.ErrObjectNotFound):
		return "not-found"
	}
	s := err.Error()
	if len(s) > 60 {
		s = s[:60]
	}
	return s
}

func TestCheck(t *testing.T) {
	core.Main(t, core.Check{
		ID:    "C18",
		Level: "exploration",
		Rule: "plan = ExclusiveAccess on/off x LRU size x 8-object universe x 1-3 packs x history of 4-18 ops (open/feed/close object and pack writers, SetEncodedObject, has/size/get/iter/prefix) x optional single disk fault x optional seeded schedule of the pack indexer goroutine; " +
			"after every op all objects whose writer returned nil are looked up on every path; non-trivial = a lookup happened while a writer was open or a writer closed while another was open",
		Assumptions: []string{"object ids computed by an independent sha1 over '<type> <len>\\0data'", "pack bytes are produced by go-git's own encoder (setup, not subject)",
			"after an injected fault the failing call may report an error; a call that returned nil is never excused"},
		Real:    []string{"storage/filesystem.ObjectStorage", "dotgit object/pack list caches", "dotgit.ObjectWriter", "dotgit.PackWriter + syncedReader + indexer goroutine"},
		Stub:    []string{"disk (simfs)", "scheduler (only in scheduled plans)"},
		Runs:    map[string]int{"quick": 60000, "thorough": 2000000},
		NewPlan: func() any { return &Plan{} },
		Gen:     genPlan,
		Exec:    execPlan,
		RequiredProbes: []string{"lookup-while-writer-open", "closed-while-other-writer-open", "pack-writer-opened", "object-writer-opened"},
	})
}
