//go:build verif

// C36 — fetch and clone deliver complete history and correct refs.
//
// go-git client and go-git server in one process, joined by simulated byte
// streams (sim/simnet): the real Remote.Fetch / git.Clone, negotiation, pack
// encode, UploadPack (protocol v0/v1/v2) and pack ingestion run on two
// simulated disks. The plan decides the server's commit DAG (merges,
// criss-cross parents, chains, annotated tags on commits/trees/blobs, skewed
// committer times), the client's prior state (empty, a prefix of the server
// history, a prefix plus stale remote-tracking refs), the options (tag mode,
// depth, prune, protocol version, single branch) and, per connection, buffer
// capacities, segmentation of every Write and an optional cut of either
// direction after N bytes.
//
// Two transports (plan field Transport):
//
//   - "" (stream, stateful): simnet.Transport runs transport.UploadPack
//     directly over two byte streams, one connection per operation.
//   - "http" (smart HTTP, stateless RPC): the real plumbing/transport/http
//     client (info/refs discovery, one POST per negotiation round, protocol v2
//     ls-refs + fetch commands) talks through an http.Client whose RoundTripper
//     is simnet.HTTP to the real backend.Backend.ServeHTTP, which opens a fresh
//     filesystem.Storage on the server's disk for every request. Each
//     request/response pair is a "connection" of the plan (Conns[k % len]), so
//     capacity, segmentation and cuts apply per round and direction; further
//     plan-drawn events replace a whole round by a transport error, by a
//     4xx/5xx answer of an intermediary, or by a redirect. The client can have
//     a long history of its own (Own commits on top of the shared prefix, or
//     unrelated) so that negotiation takes several rounds.
//
// What is real: Remote.Fetch / git.Clone, transport.NegotiatePack, FetchPack,
// internal/transport.FetchV2, the HTTP session (httpRequester/httpNegotiator),
// net/http's Client (redirect policy), backend.Backend (routing, content
// types, stateless UploadPack v0/v1/v2), pack encode/parse, both
// storage/filesystem instances. Stubbed: the wire (simnet), both disks
// (simfs), time (synctest). Of net/http's server only the request-body
// contract is modelled (Close discards the rest, Read after Close fails), see
// simnet/http.go. FetchRequest.Haves is sorted before the real HTTP session
// sees it (go-git collects it from a map; under stateless RPC the order decides
// the composition of every round).
//
// Oracle (unchanged by the transport): the call returns (a bubble deadlock
// before it returns is a violation); without an injected fault it succeeds;
// after success local refs = server refs through the refspec, prune and tag
// modes hold, every local ref names complete history up to the shallow roots,
// the shallow file equals git's boundary (clone/fetch into an empty client);
// after a failure or cut every local ref still names complete history; a
// follow-up fetch obeys the same rules; a failed operation leaves the shallow
// file as it was (only the network fails here, and the file is written after
// the pack is in); with Retry, the same fetch repeated
// over a fault-free transport after an injected failure must succeed and
// satisfy the success rules. Not judged: which tags are auto-followed, the
// number of rounds or bytes (efficiency), goroutines left behind after the
// call returned (probe).
//
// Signatures: C36|<op>|v<proto>|[http|]<buffers>|<clause>[|<fault class>];
// second-fetch:/retry: prefixes for the later phases.
package c36

import (
	"bytes"
	"errors"
	"fmt"
	"log"
	"net/url"
	"path"
	"sort"
	"strings"
	"sync"
	"testing"
	"testing/synctest"
	"time"

	git "github.com/go-git/go-git/v6"
	"github.com/go-git/go-git/v6/backend"
	"github.com/go-git/go-git/v6/config"
	"github.com/go-git/go-git/v6/plumbing"
	"github.com/go-git/go-git/v6/plumbing/cache"
	"github.com/go-git/go-git/v6/plumbing/client"
	"github.com/go-git/go-git/v6/plumbing/object"
	"github.com/go-git/go-git/v6/plumbing/protocol"
	"github.com/go-git/go-git/v6/storage"
	"github.com/go-git/go-git/v6/storage/filesystem"
	"github.com/go-git/go-git/v6/verifsim/core"
	"github.com/go-git/go-git/v6/verifsim/gen"
	"github.com/go-git/go-git/v6/verifsim/hooks"
	"github.com/go-git/go-git/v6/verifsim/sched"
	"github.com/go-git/go-git/v6/verifsim/simfs"
	"github.com/go-git/go-git/v6/verifsim/simnet"
)

type Plan struct {
	Seed      uint64           `json:"seed"`
	Commits   int              `json:"commits"`
	Branches  int              `json:"branches"`
	MergeRate int              `json:"merge_rate"`
	ChainBias int              `json:"chain_bias"`
	Tags      int              `json:"tags"`
	OddTags   bool             `json:"odd_tags"`
	Skew      bool             `json:"skew"`
	Prior     string           `json:"prior"` // empty | prefix | prefix+stale
	PrefixLen int              `json:"prefix_len"`
	Op        string           `json:"op"`       // fetch | clone
	TagMode   int              `json:"tag_mode"` // 0 following, 1 all, 2 none
	Depth     int              `json:"depth"`
	Prune     bool             `json:"prune"`
	Proto     int              `json:"proto"`
	Single    bool             `json:"single"`
	Conns     []simnet.ConnCfg `json:"conns"`
	Faulty    bool             `json:"faulty"`
	Second    *Second          `json:"second,omitempty"`
	// Transport: "" = stateful stream (simnet.Transport), "http" = smart HTTP
	// stateless RPC (simnet.HTTP under the real HTTP client and backend).
	Transport string `json:"transport,omitempty"`
	// HTTPFaults replace whole rounds (http only).
	HTTPFaults []simnet.HTTPFault `json:"http_faults,omitempty"`
	// Own: the client (fetch only) has this many commits of its own under
	// refs/heads/mine, on top of the shared prefix (or unrelated, when the
	// prior state is empty): haves the server does not know.
	Own int `json:"own,omitempty"`
	// Retry: after a fetch failed because of an injected fault, the same fetch
	// is repeated over a transport without faults and must succeed.
	Retry bool `json:"retry,omitempty"`
}

// Second is a follow-up fetch on the same client after the first operation
// succeeded: possibly of one branch only, with its own depth, after the server
// has grown.
type Second struct {
	Depth int `json:"depth"`
	Only  int `json:"only"` // branch index to fetch, -1 = all branches
	Grow  int `json:"grow"` // commits the server gains before it
	// Merge > 0: after growing, the server's main gains one more commit that
	// merges the old commit with index (Merge-1) mod Commits (history that may
	// lie below a shallow client's boundary).
	Merge int `json:"merge,omitempty"`
	// Proto 1..3: the follow-up fetch speaks protocol v0..v2 instead of the
	// first operation's version (0 = the same).
	Proto int `json:"proto,omitempty"`
}

func genCfg(r *core.Rand) simnet.Cfg {
	c := simnet.Cfg{Cap: r.Pick2(0, 0, 1, 7, 64, 4096, 65536)}
	switch r.Intn(5) {
	case 0: // whole writes
	case 1:
		c.Chunks = []int{1}
	case 2:
		c.Chunks = []int{r.Range(1, 9)}
	default:
		n := r.Range(2, 8)
		for i := 0; i < n; i++ {
			c.Chunks = append(c.Chunks, r.Pick2(1, 2, 3, 4, 5, 7, 16, 100, 1000, 0))
		}
	}
	return c
}

func genPlan(r *core.Rand, tier string) any {
	p := &Plan{Seed: r.Uint64() % 100000, Commits: r.Range(1, 14), Branches: r.Range(1, 4), MergeRate: r.Pick2(0, 20, 50), ChainBias: r.Pick2(30, 70, 100),
		Tags: r.Range(0, 4), OddTags: r.Chance(1, 3), Skew: r.Chance(1, 3), Op: r.Pick("fetch", "fetch", "clone"), TagMode: r.Intn(3), Proto: r.Intn(3), Prune: r.Chance(1, 3)}
	if tier == "thorough" {
		p.Commits = r.Range(1, 40)
	}
	switch r.Intn(4) {
	case 0, 1:
		p.Prior = "empty"
	case 2:
		p.Prior = "prefix"
	default:
		p.Prior = "prefix+stale"
	}
	p.PrefixLen = r.Range(1, p.Commits)
	if r.Chance(1, 4) {
		p.Depth = r.Range(1, 4)
	}
	if p.Op == "clone" {
		p.Prior = "empty"
		p.Single = r.Chance(1, 3)
	}
	nc := r.Range(1, 3)
	for i := 0; i < nc; i++ {
		p.Conns = append(p.Conns, simnet.ConnCfg{C2S: genCfg(r), S2C: genCfg(r)})
	}
	if r.Chance(1, 3) {
		p.Second = &Second{Depth: r.Pick2(0, 0, 1, 2, 3, 5), Only: r.Pick2(-1, 0, 1, 2), Grow: r.Pick2(0, 0, 1, 3)}
		if r.Chance(1, 5) {
			p.Second.Merge = r.Range(1, p.Commits)
		}
		if r.Chance(1, 6) {
			p.Second.Proto = r.Range(1, 3)
		}
	}
	if r.Chance(1, 5) {
		p.Faulty = true
		k := r.Intn(len(p.Conns))
		if r.Bool() {
			p.Conns[k].S2C.CutAt = int64(r.Range(1, 3000))
			p.Conns[k].S2C.CutKind = r.Intn(2)
		} else {
			p.Conns[k].C2S.CutAt = int64(r.Range(1, 600))
		}
	}
	if p.Op == "fetch" && r.Chance(1, 8) {
		// a commit or two of the client's own (few enough that all haves still fit
		// into the first batch: over the stateful transport the order of the haves
		// is go-git's map order)
		p.Own = r.Range(1, 2)
	}
	if r.Chance(1, 3) {
		genHTTP(r, p)
	}
	return p
}

// genHTTP turns a generated plan into a smart-HTTP one: a "connection" is now
// one request/response round, so there are more of them; the request
// direction is delivered whole in three plans out of five (go-git's stateless
// upload-pack v0/v1 fails when the request body reaches it in pieces -- known
// finding -- and would otherwise mask everything behind it); one fetch in
// four has a long shared history and one in five a history of its own, so
// that negotiation needs several rounds; a quarter of the plans inject a
// fault into one round.
func genHTTP(r *core.Rand, p *Plan) {
	p.Transport = "http"
	p.Conns, p.Faulty = nil, false
	whole := r.Chance(3, 5)
	nc := r.Range(2, 6)
	for i := 0; i < nc; i++ {
		c := simnet.ConnCfg{C2S: genCfg(r), S2C: genCfg(r)}
		if whole {
			c.C2S = simnet.Cfg{Cap: r.Pick2(0, 0, 65536)}
		}
		p.Conns = append(p.Conns, c)
	}
	if p.Op == "fetch" {
		switch r.Intn(16) {
		case 0, 1: // a long shared history: 17+ common haves, two rounds or more
			if p.Prior == "empty" {
				p.Prior = "prefix"
			}
			p.Commits = r.Range(18, 40)
			p.ChainBias = r.Pick2(100, 100, 90)
			p.PrefixLen = r.Range(17, p.Commits)
			if r.Chance(3, 4) {
				p.Depth = 0
			}
		case 2: // 49+ common haves: three rounds or more also under v0/v1
			if p.Prior == "empty" {
				p.Prior = "prefix"
			}
			p.Commits, p.Branches, p.ChainBias, p.Depth = r.Range(50, 56), 1, 100, 0
			p.PrefixLen = r.Range(49, p.Commits-1)
		case 3: // a deep shallow clone, then a follow-up: a shallow client with many haves
			p.Prior, p.Own = "empty", 0
			p.Commits, p.ChainBias, p.MergeRate = r.Range(28, 45), 100, r.Pick2(0, 0, 20)
			p.Depth = r.Range(17, 26)
			p.Second = &Second{Depth: r.Pick2(0, 0, p.Depth+3), Only: r.Pick2(-1, 0), Grow: r.Pick2(1, 2, 3)}
			if r.Chance(2, 3) {
				p.Second.Merge = r.Range(1, p.Commits-p.Depth) // below the boundary of a chain
			}
			if r.Bool() {
				// only protocol v2 leaves the history below the boundary out of the
				// pack (the v0/v1 server sends all of it): a truly shallow client
				// that then speaks v0/v1/v2
				p.Proto = 2
				p.Second.Proto = r.Range(1, 3)
			}
		}
	}
	if p.Op == "fetch" && r.Chance(1, 5) {
		p.Own = r.Pick2(1, 3, 17, 20, 40)
	}
	if r.Chance(1, 4) {
		p.Faulty = true
		p.Retry = r.Bool()
		k := r.Intn(len(p.Conns))
		switch r.Intn(6) {
		case 0, 1:
			p.Conns[k].S2C.CutAt = int64(r.Range(1, 3000))
			p.Conns[k].S2C.CutKind = r.Intn(2)
		case 2:
			p.Conns[k].C2S.CutAt = int64(r.Range(1, 600))
		case 3:
			p.HTTPFaults = []simnet.HTTPFault{{Round: r.Intn(6), Kind: "error"}}
		case 4:
			p.HTTPFaults = []simnet.HTTPFault{{Round: r.Intn(6), Kind: "status", Status: r.Pick2(400, 401, 403, 404, 429, 500, 502, 503)}}
		default:
			p.HTTPFaults = []simnet.HTTPFault{{Round: r.Pick2(0, 0, 0, 1, 2, 3), Kind: "redirect", Status: r.Pick2(301, 302, 307, 308)}}
		}
	}
}

func dagCfg(p *Plan, commits int) gen.DAGCfg {
	return gen.DAGCfg{Commits: commits, Branches: p.Branches, MergeRate: p.MergeRate, ChainBias: p.ChainBias, Tags: p.Tags, OddTags: p.OddTags, ClockSkew: p.Skew, SharedBlob: true}
}

func capClass(p *Plan) string {
	small := false
	for _, c := range p.Conns {
		if (c.C2S.Cap > 0 && c.C2S.Cap < 4096) || (c.S2C.Cap > 0 && c.S2C.Cap < 4096) {
			small = true
		}
	}
	if small {
		return "small-buffers"
	}
	return "large-buffers"
}

// lockedBuf collects the server's error log (backend.Backend.ErrorLog).
type lockedBuf struct {
	mu sync.Mutex
	b  bytes.Buffer
}

func (l *lockedBuf) Write(p []byte) (int, error) {
	l.mu.Lock()
	defer l.mu.Unlock()
	if l.b.Len() < 1<<16 {
		l.b.Write(p)
	}
	return len(p), nil
}

func (l *lockedBuf) String() string {
	l.mu.Lock()
	defer l.mu.Unlock()
	return l.b.String()
}

func putObj(st storage.Storer, o interface {
	Encode(plumbing.EncodedObject) error
}) (plumbing.Hash, error) {
	eo := st.NewEncodedObject()
	if err := o.Encode(eo); err != nil {
		return plumbing.ZeroHash, err
	}
	return st.SetEncodedObject(eo)
}

// cloneDAG copies a model far enough that commits, objects and refs can be
// added to the copy.
func cloneDAG(d *gen.DAG) *gen.DAG {
	c := &gen.DAG{Commits: append([]gen.DAGCommit(nil), d.Commits...), Tags: d.Tags, Head: d.Head, Refs: map[string]plumbing.Hash{}, Objects: map[plumbing.Hash]string{}}
	for k, v := range d.Refs {
		c.Refs[k] = v
	}
	for k, v := range d.Objects {
		c.Objects[k] = v
	}
	return c
}

// stripFaults returns the connection configurations without cuts.
func stripFaults(cs []simnet.ConnCfg) []simnet.ConnCfg {
	out := append([]simnet.ConnCfg(nil), cs...)
	for i := range out {
		out[i].C2S.CutAt, out[i].S2C.CutAt = 0, 0
	}
	return out
}

// serverMechanism names what the server's error log says about a 5xx (stable,
// bounded set): the mechanism part of an unexpected-error signature.
func serverMechanism(log string) string {
	switch {
	case strings.Contains(log, "invalid Read on closed Body"):
		return "server-read-after-body-close"
	case strings.Contains(log, "getting wanted object") && strings.Contains(log, "object not found"):
		return "server-walks-unknown-have"
	}
	return ""
}

const mineRef = "refs/heads/mine"

func execPlan(t *testing.T, pa any) (out core.Outcome) {
	p := pa.(*Plan)
	hooks.Deterministic(true)
	if p.Commits < 1 {
		p.Commits = 1
	}
	if p.Commits > 60 {
		p.Commits = 60
	}
	if p.PrefixLen < 1 {
		p.PrefixLen = 1
	}
	if p.PrefixLen > p.Commits {
		p.PrefixLen = p.Commits
	}
	if p.Own < 0 {
		p.Own = 0
	}
	if p.Own > 120 {
		p.Own = 120
	}
	isHTTP := p.Transport == "http"
	var trace []string
	logf := func(f string, a ...any) { trace = append(trace, fmt.Sprintf(f, a...)) }
	var tr *simnet.Transport
	var ht *simnet.HTTP
	var srvLog *lockedBuf
	opReturned := false
	cfgName := fmt.Sprintf("%s|v%d|%s", p.Op, mod(p.Proto, 3), capClass(p))
	if isHTTP {
		cfgName = fmt.Sprintf("%s|v%d|http|%s", p.Op, mod(p.Proto, 3), capClass(p))
	}

	panicked := sched.Bubble(t, func() {
		srvDisk, cliDisk := simfs.NewDisk(), simfs.NewDisk()
		srvSt := filesystem.NewStorage(srvDisk.FS("/srv/repo.git", "srv-setup"), cache.NewObjectLRUDefault())
		if _, err := git.Init(srvSt); err != nil {
			out.Inconclusive = "setup-failed"
			return
		}
		dag, err := gen.BuildDAG(p.Seed, dagCfg(p, p.Commits), srvSt)
		if err != nil || dag.WriteRefs(srvSt) != nil {
			out.Inconclusive = "setup-failed"
			return
		}
		_ = srvSt.Close()

		// ---- the network ----
		var copts []client.Option
		url_ := "sim://server/srv/repo.git"
		newNet := func(conns []simnet.ConnCfg, faults []simnet.HTTPFault) {
			if !isHTTP {
				tr = &simnet.Transport{Conns: conns, Open: func(path string) (storage.Storer, error) {
					return filesystem.NewStorage(srvDisk.FS(path, "server"), cache.NewObjectLRUDefault()), nil
				}}
				copts = []client.Option{client.WithTransport("sim", tr)}
				return
			}
			// a server process per request: a fresh Storage on the server's disk
			be := backend.New(simnet.LoaderFunc(func(u *url.URL) (storage.Storer, error) {
				return filesystem.NewStorage(srvDisk.FS(path.Clean("/"+u.Path), "server"), cache.NewObjectLRUDefault()), nil
			}))
			srvLog = &lockedBuf{}
			be.ErrorLog = log.New(srvLog, "", 0)
			ht = &simnet.HTTP{Handler: be, Conns: conns, Faults: faults}
			copts = []client.Option{client.WithTransport("http", simnet.NewHTTPTransport(ht, nil))}
			url_ = "http://server/srv/repo.git"
		}
		newNet(p.Conns, p.HTTPFaults)
		totals := func() simnet.Stats {
			// the server side may still be writing after the client has all it
			// wanted (or has given up): let everything else run until it has
			// returned or is blocked for good, so that the byte counts are final
			synctest.Wait()
			if isHTTP {
				return ht.Totals()
			}
			return tr.Totals()
		}
		// serverErrors: what the server side said (HTTP: the backend's error log;
		// stream: the errors the server commands returned). Only used to name the
		// mechanism of a failure nothing injected explains.
		serverErrors := func() string {
			if isHTTP {
				return srvLog.String()
			}
			synctest.Wait() // every server command has returned or is blocked for good
			var sb strings.Builder
			for _, e := range tr.ServerErrors() {
				if e != nil {
					sb.WriteString(e.Error() + "\n")
				}
			}
			return sb.String()
		}
		unclosed := 0
		shutdown := func() {
			if ht != nil {
				unclosed += ht.Shutdown()
			}
		}
		defer func() {
			shutdown()
			out.ProbeN("http-response-body-left-open", unclosed)
		}()
		// httpPhase summarises the rounds from index `from` on: logs them, counts
		// faults, and reports whether an injected fault excuses a failure.
		type phase struct {
			excused, panicked, lsRefs, fetchCmd, redirected, aliasedPost bool
			negRounds, postCut, laterCut                                 int
		}
		httpPhase := func(from int) (ph phase) {
			if !isHTTP {
				return ph
			}
			for _, r := range ht.RoundsFrom(from) {
				logf("  %s", r.Describe())
				post := r.Method == "POST"
				switch r.Fault {
				case "error":
					out.Faults["http-round-error"]++
					ph.excused = true
				case "status":
					out.Faults["http-status"]++
					ph.excused = true
				case "redirect":
					out.Faults["http-redirect"]++
					if post {
						// git's (and go-git's) default policy follows redirects of the
						// discovery request only
						ph.excused = true
					} else {
						ph.redirected = true
					}
				}
				if r.Panic != "" {
					ph.panicked = true
				}
				if r.Lost || r.RespCut() {
					out.Faults["stream-cut"]++
					ph.excused = true
					if post {
						ph.postCut++
						if r.K-from >= 2 {
							ph.laterCut++
						}
					}
				}
				if post && r.Fault == "" {
					if r.Aliased {
						ph.aliasedPost = true
					}
					switch r.Cmd {
					case "ls-refs":
						ph.lsRefs = true
					case "fetch":
						ph.fetchCmd = true
						ph.negRounds++
					default:
						ph.negRounds++
					}
				}
			}
			return ph
		}
		out.Faults = map[string]int{}
		defer func() {
			if len(out.Faults) == 0 {
				out.Faults = nil
			}
		}()

		cliSt := filesystem.NewStorage(cliDisk.FS("/cli/repo.git", "client"), cache.NewObjectLRUDefault())
		tagMode := []plumbing.TagMode{plumbing.TagFollowing, plumbing.AllTags, plumbing.NoTags}[mod(p.TagMode, 3)]
		proto := []protocol.Version{protocol.V0, protocol.V1, protocol.V2}[mod(p.Proto, 3)]

		var repo *git.Repository
		var opErr error
		staleRef := plumbing.ReferenceName("refs/remotes/origin/gone")
		hadStale := false
		var priorTip plumbing.Hash
		var own []plumbing.Hash // the client's own commits (refs/heads/mine), oldest first
		var ownTree plumbing.Hash
		doFetch := func() error {
			return repo.Fetch(&git.FetchOptions{RemoteName: "origin", ClientOptions: copts, Depth: p.Depth, Tags: tagMode, Prune: p.Prune})
		}
		if p.Op == "clone" {
			// protocol version for clone comes from the default config: set it globally through a pre-initialised repo is not
			// possible, so clone runs with go-git's default protocol; record that in the config name
			o := &git.CloneOptions{URL: url_, ClientOptions: copts, Depth: p.Depth, Tags: tagMode, Bare: true, SingleBranch: p.Single}
			if p.Single {
				o.ReferenceName = "refs/heads/main"
			}
			repo, opErr = git.Clone(cliSt, nil, o)
		} else {
			repo, err = git.Init(cliSt)
			if err != nil {
				out.Inconclusive = "setup-failed"
				return
			}
			if p.Prior != "empty" {
				pre, err := gen.BuildDAG(p.Seed, dagCfg(p, p.PrefixLen), cliSt)
				if err != nil {
					out.Inconclusive = "setup-failed"
					return
				}
				priorTip = pre.Commits[len(pre.Commits)-1].Hash
				ownTree = pre.Commits[len(pre.Commits)-1].Tree
				_ = cliSt.SetReference(plumbing.NewHashReference("refs/remotes/origin/main", priorTip))
				if p.Prior == "prefix+stale" {
					_ = cliSt.SetReference(plumbing.NewHashReference(staleRef, priorTip))
					hadStale = true
				}
			}
			if p.Own > 0 {
				if ownTree.IsZero() {
					if ownTree, err = putObj(cliSt, &object.Tree{}); err != nil {
						out.Inconclusive = "setup-failed"
						return
					}
				}
				parent := priorTip
				for i := 0; i < p.Own; i++ {
					sig := object.Signature{Name: "Own", Email: "own@example.com", When: time.Unix(1_550_000_000+int64(i)*50, 0).UTC()}
					c := &object.Commit{Author: sig, Committer: sig, Message: fmt.Sprintf("own %d of %d\n", i, p.Seed), TreeHash: ownTree}
					if !parent.IsZero() {
						c.ParentHashes = []plumbing.Hash{parent}
					}
					h, err := putObj(cliSt, c)
					if err != nil {
						out.Inconclusive = "setup-failed"
						return
					}
					own = append(own, h)
					parent = h
				}
				_ = cliSt.SetReference(plumbing.NewHashReference(mineRef, parent))
			}
			cfg, _ := repo.Config()
			cfg.Protocol.Version = proto
			cfg.Remotes["origin"] = &config.RemoteConfig{Name: "origin", URLs: []string{url_}, Fetch: []config.RefSpec{"+refs/heads/*:refs/remotes/origin/*"}}
			if err := repo.SetConfig(cfg); err != nil {
				out.Inconclusive = "setup-failed"
				return
			}
			opErr = doFetch()
		}
		opReturned = true
		st := totals()
		// (how often a writer had to wait for room depends on goroutine timing and stays out of the event log)
		nconns := 0
		if isHTTP {
			nconns = ht.NRounds()
		} else {
			nconns = len(tr.Streams) / 2
		}
		logf("%s -> %v (conns %d, bytes %d, segments %d, split writes %d, short reads %d, cut %v)", cfgName, errStr(opErr), nconns, st.Bytes, st.Segments, st.SplitWrites, st.ShortReads, st.Cut)
		out.ProbeN("split-writes", st.SplitWrites)
		out.ProbeN("short-reads", st.ShortReads)
		out.ProbeN("writer-blocked-on-full-buffer", st.Blocked)
		ph := httpPhase(0)
		excused := st.Cut || ph.excused
		if st.Cut && !isHTTP {
			out.Faults["stream-cut"] = 1
		}
		upToDate := errors.Is(opErr, git.NoErrAlreadyUpToDate)
		ok := opErr == nil || upToDate
		if ph.panicked {
			out.Fail("C36|"+cfgName+"|http-server-panic", "the server's HTTP handler panicked during %s (client got: %v); server log: %.200s", p.Op, opErr, srvLog.String())
		}
		if !ok {
			if excused {
				out.Probe("failed-after-cut")
				if isHTTP {
					out.Probe("http-failed-after-fault")
				}
			} else {
				out.Probe("failed-without-fault:" + short(opErr))
				if mech := serverMechanism(serverErrors()); mech != "" {
					out.Fail("C36|"+cfgName+"|"+mech+"|unexpected-error|no-fault", "%s failed although no fault was injected: %v; server: %.300s", p.Op, opErr, serverErrors())
				} else {
					out.Fail("C36|"+cfgName+"|unexpected-error|no-fault", "%s failed although nothing was cut: %v", p.Op, opErr)
				}
			}
		} else {
			out.Probe("ok:" + p.Op)
			if excused {
				out.Probe("ok-despite-cut")
			}
		}
		if isHTTP {
			out.ProbeN("http-round-cut", ph.postCut)
			out.ProbeN("http-round-cut:round>=2", ph.laterCut)
			if ok {
				out.Probe("http-ok:" + p.Op)
				if ph.negRounds >= 2 {
					out.Probe("http-negotiation-rounds>=2")
					out.Probe(fmt.Sprintf("http-negotiation-rounds>=2:v%d", mod(p.Proto, 3)))
				}
				if ph.negRounds >= 3 {
					out.Probe("http-negotiation-rounds>=3")
					out.Probe(fmt.Sprintf("http-negotiation-rounds>=3:v%d", mod(p.Proto, 3)))
				}
				if ph.lsRefs && ph.fetchCmd {
					out.Probe("http-v2-ls-refs+fetch")
				}
				if ph.redirected && ph.aliasedPost {
					out.Probe("http-discovery-redirect-followed")
				}
				if len(own) > 0 && ph.negRounds >= 1 {
					out.Probe("http-fetch-with-own-history")
				}
			}
		}
		if repo == nil {
			// failed clone: nothing to inspect beyond the error
			return
		}
		// ---- postconditions on the client image, read with a fresh Storage ----
		var vst *filesystem.Storage
		defer func() {
			if vst != nil {
				vst.Close()
			}
		}()
		var shallow []plumbing.Hash
		var stop map[plumbing.Hash]bool
		var local map[string]plumbing.Hash
		var names []string
		// inspect reads the client image and checks that every local ref names a
		// present, complete history (also after failures and cuts).
		inspect := func(pre string, ok bool) bool {
			if vst != nil {
				vst.Close()
			}
			vst = filesystem.NewStorage(cliDisk.Clone().FS("/cli/repo.git", "verify"), cache.NewObjectLRUDefault())
			have := func(h plumbing.Hash) bool { return vst.HasEncodedObject(h) == nil }
			shallow, _ = vst.Shallow()
			stop = map[plumbing.Hash]bool{}
			for _, h := range shallow {
				stop[h] = true
			}
			it, err := vst.IterReferences()
			if err != nil {
				out.Fail("C36|"+cfgName+"|"+pre+"client-refs-unlistable", "client IterReferences after %s: %v", p.Op, err)
				return false
			}
			local = map[string]plumbing.Hash{}
			_ = it.ForEach(func(r *plumbing.Reference) error {
				if r.Type() == plumbing.HashReference {
					local[r.Name().String()] = r.Hash()
				}
				return nil
			})
			names = make([]string, 0, len(local))
			for n := range local {
				names = append(names, n)
			}
			sort.Strings(names)
			why := "after-success"
			if !ok {
				why = "after-failure"
				// the shallow file is written once the pack is in (only the network
				// fails here): a failed operation leaves it as it was -- empty, no
				// generated client starts out shallow
				if len(shallow) > 0 {
					out.Fail("C36|"+cfgName+"|"+pre+"shallow-file-changed|after-failure", "%s failed (%v) but left %d shallow roots in a client that had none", p.Op, opErr, len(shallow))
					return false
				}
			}
			for _, n := range names {
				h := local[n]
				if n == mineRef && len(own) > 0 && h == own[len(own)-1] {
					// the client's own branch: its own commits, then the shared prefix
					for _, o := range append([]plumbing.Hash{ownTree}, own...) {
						if !have(o) {
							out.Fail(fmt.Sprintf("C36|%s|%smissing-object:own|%s", cfgName, pre, why), "client ref %s: its own object %s is gone", n, o)
							return false
						}
					}
					if priorTip.IsZero() {
						continue
					}
					h = priorTip
				}
				if _, known := dag.Objects[h]; !known {
					out.Fail("C36|"+cfgName+"|"+pre+"ref-to-unknown-object", "client ref %s = %s which the server never had", n, h)
					return false
				}
				for _, o := range sortedClosure(dag, h, stop) {
					if !have(o) {
						out.Fail(fmt.Sprintf("C36|%s|%smissing-object:%s|%s", cfgName, pre, dag.Objects[o], why), "client ref %s = %s but object %s (%s) reachable from it is missing (shallow roots: %d)", n, h, o, dag.Objects[o], len(shallow))
						return false
					}
				}
			}
			return true
		}
		if !inspect("", ok) {
			return
		}
		pre := "" // signature prefix of the phase the success rules are applied to
		if !ok {
			if !(p.Retry && excused && p.Op == "fetch") || out.Signature != "" {
				return
			}
			// ---- retry: the same fetch over a transport without faults ----
			shutdown()
			newNet(stripFaults(p.Conns), nil)
			opReturned = false
			opErr = doFetch()
			opReturned = true
			upToDate = errors.Is(opErr, git.NoErrAlreadyUpToDate)
			ok = opErr == nil || upToDate
			logf("retry without faults -> %v", errStr(opErr))
			rph := httpPhase(0)
			pre = "retry|"
			if rph.panicked {
				out.Fail("C36|"+cfgName+"|retry|http-server-panic", "the server's HTTP handler panicked during the retry; server log: %.200s", srvLog.String())
			}
			if !ok {
				mech := serverMechanism(serverErrors())
				if mech != "" {
					mech += "|"
				}
				out.Fail("C36|"+cfgName+"|retry|"+mech+"unexpected-error|after-fault", "the fetch failed because of an injected fault (%v cut); repeated over a fault-free transport it fails again: %v; server: %.300s", st.Cut, opErr, serverErrors())
				return
			}
			out.Probe("retry-ok")
			if isHTTP {
				out.Probe("http-retry-ok")
			}
			if !inspect(pre, ok) {
				return
			}
		}
		// ---- success: refs equal the server's refs mapped through the refspec ----
		wantBranches := map[string]plumbing.Hash{}
		for n, h := range dag.Refs {
			if strings.HasPrefix(n, "refs/heads/") {
				if p.Op == "clone" && p.Single && n != "refs/heads/main" {
					continue
				}
				wantBranches["refs/remotes/origin/"+strings.TrimPrefix(n, "refs/heads/")] = h
			}
		}
		bn := make([]string, 0, len(wantBranches))
		for n := range wantBranches {
			bn = append(bn, n)
		}
		sort.Strings(bn)
		for _, n := range bn {
			if got, okk := local[n]; !okk || got != wantBranches[n] {
				out.Fail("C36|"+cfgName+"|"+pre+"branch-ref-wrong", "after a successful %s the client's %s = %v, server has %s", p.Op, n, got, wantBranches[n])
				return
			}
		}
		for _, n := range names {
			if strings.HasPrefix(n, "refs/remotes/origin/") {
				if _, want := wantBranches[n]; !want {
					if n == string(staleRef) && hadStale && !p.Prune {
						continue // not pruned: stays
					}
					out.Fail("C36|"+cfgName+"|"+pre+"unexpected-remote-ref", "client has %s which no server branch maps to (prune=%v)", n, p.Prune)
					return
				}
			}
		}
		if len(own) > 0 && local[mineRef] != own[len(own)-1] {
			out.Fail("C36|"+cfgName+"|"+pre+"local-branch-changed", "the client's own %s was %s before the %s and is %v now", mineRef, own[len(own)-1], p.Op, local[mineRef])
			return
		}
		if hadStale && p.Prune {
			if _, still := local[string(staleRef)]; still {
				out.Fail("C36|"+cfgName+"|"+pre+"stale-ref-not-pruned", "Prune=true but %s is still there", staleRef)
				return
			}
			out.Probe("pruned")
		}
		// tags
		for n, h := range dag.Refs {
			if !strings.HasPrefix(n, "refs/tags/") {
				continue
			}
			got, has := local[n]
			switch tagMode {
			case plumbing.AllTags:
				if p.Op == "clone" && p.Single {
					break
				}
				if !has || got != h {
					out.Fail("C36|"+cfgName+"|"+pre+"tag-missing|all-tags", "AllTags: client's %s = %v, server has %s", n, got, h)
					return
				}
			case plumbing.NoTags:
				if has {
					out.Fail("C36|"+cfgName+"|"+pre+"tag-created|no-tags", "NoTags: client nevertheless has %s", n)
					return
				}
			default:
				if has && got != h {
					out.Fail("C36|"+cfgName+"|"+pre+"tag-wrong|following", "client's %s = %s, server has %s", n, got, h)
					return
				}
			}
		}
		// shallow boundary
		if p.Depth > 0 && p.Prior == "empty" && len(own) == 0 && !upToDate && pre == "" && !(p.Op == "clone" && p.Single) {
			var tips []plumbing.Hash
			for _, n := range bn {
				tips = append(tips, wantBranches[n])
			}
			if tagMode == plumbing.AllTags {
				for n, h := range dag.Refs {
					if strings.HasPrefix(n, "refs/tags/") && !(p.Op == "clone" && p.Single) {
						tips = append(tips, h)
					}
				}
			}
			want := dag.ShallowBoundary(tips, p.Depth)
			if tagMode != plumbing.TagFollowing { // with tag following the wanted set is decided by the server's include-tag
				if !sameSet(want, stop) {
					out.Fail("C36|"+cfgName+"|shallow-boundary-differs", "depth %d: shallow file has %d roots, model boundary has %d", p.Depth, len(stop), len(want))
					return
				}
			}
			out.Probe("shallow-fetch")
		} else if p.Depth == 0 && len(shallow) > 0 {
			out.Fail("C36|"+cfgName+"|"+pre+"unexpected-shallow", "full fetch left %d shallow roots", len(shallow))
		}
		if isHTTP && p.Depth > 0 && len(shallow) > 0 && !upToDate {
			out.Probe("http-shallow-over-stateless")
			if ph.negRounds >= 2 && pre == "" {
				out.Probe("http-shallow-over-stateless:multi-round")
			}
		}
		if p.Prior != "empty" && !upToDate {
			out.Probe("incremental-fetch")
		}
		// ---- second phase: a follow-up fetch on the same client ----
		if p.Second == nil || out.Signature != "" {
			return
		}
		s2 := p.Second
		dag2 := dag
		if s2.Grow > 0 {
			g := s2.Grow
			if g > 5 {
				g = 5
			}
			gst := filesystem.NewStorage(srvDisk.FS("/srv/repo.git", "srv-setup"), cache.NewObjectLRUDefault())
			d2, err := gen.BuildDAG(p.Seed, dagCfg(p, p.Commits+g), gst)
			if err != nil {
				out.Inconclusive = "setup-failed"
				return
			}
			// branches keep their names; only heads move (tags are left as they were)
			for n, h := range d2.Refs {
				if strings.HasPrefix(n, "refs/heads/") {
					_ = gst.SetReference(plumbing.NewHashReference(plumbing.ReferenceName(n), h))
				}
			}
			_ = gst.Close()
			dag2 = d2
		}
		if s2.Merge > 0 {
			// one more commit on main: a merge of an old commit
			gst := filesystem.NewStorage(srvDisk.FS("/srv/repo.git", "srv-setup"), cache.NewObjectLRUDefault())
			d3 := cloneDAG(dag2)
			ti := d3.CommitIndex(d3.Refs["refs/heads/main"])
			k := mod(s2.Merge-1, len(dag.Commits))
			if ti < 0 {
				out.Inconclusive = "setup-failed"
				return
			}
			when := int64(1_500_000_000 + len(d3.Commits)*100)
			sig := object.Signature{Name: "Gen", Email: "gen@example.com", When: time.Unix(when, 0).UTC()}
			mc := &object.Commit{Author: sig, Committer: sig, Message: "merge of an old commit\n", TreeHash: d3.Commits[ti].Tree,
				ParentHashes: []plumbing.Hash{d3.Commits[ti].Hash, d3.Commits[k].Hash}}
			mh, err := putObj(gst, mc)
			if err != nil || gst.SetReference(plumbing.NewHashReference("refs/heads/main", mh)) != nil {
				out.Inconclusive = "setup-failed"
				return
			}
			_ = gst.Close()
			d3.Commits = append(d3.Commits, gen.DAGCommit{Hash: mh, Parents: []int{ti, k}, Tree: d3.Commits[ti].Tree, Blobs: d3.Commits[ti].Blobs, When: when})
			d3.Objects[mh] = "commit"
			d3.Refs["refs/heads/main"] = mh
			dag2 = d3
		}
		var heads []string
		for n := range dag2.Refs {
			if strings.HasPrefix(n, "refs/heads/") {
				heads = append(heads, n)
			}
		}
		sort.Strings(heads)
		fetched := heads
		var specs []config.RefSpec
		if s2.Only >= 0 {
			b := heads[mod(s2.Only, len(heads))]
			fetched = []string{b}
			specs = []config.RefSpec{config.RefSpec("+" + b + ":refs/remotes/origin/" + strings.TrimPrefix(b, "refs/heads/"))}
		} else {
			specs = []config.RefSpec{"+refs/heads/*:refs/remotes/origin/*"}
		}
		if s2.Proto >= 1 && s2.Proto <= 3 {
			cfg, err := repo.Config()
			if err == nil {
				cfg.Protocol.Version = []protocol.Version{protocol.V0, protocol.V1, protocol.V2}[s2.Proto-1]
				err = repo.SetConfig(cfg)
			}
			if err != nil {
				out.Inconclusive = "setup-failed"
				return
			}
		}
		shallowBefore := len(shallow)
		cutBefore := totals().Cut
		roundsBefore := 0
		if isHTTP {
			roundsBefore = ht.NRounds()
		}
		opReturned = false
		err2 := repo.Fetch(&git.FetchOptions{RemoteName: "origin", ClientOptions: copts, Depth: s2.Depth, Tags: plumbing.NoTags, RefSpecs: specs})
		opReturned = true
		ok2 := err2 == nil || errors.Is(err2, git.NoErrAlreadyUpToDate)
		st2 := totals()
		if s2.Proto >= 1 && s2.Proto <= 3 {
			logf("second fetch %v depth %d protocol v%d -> %v (cut %v)", specs, s2.Depth, s2.Proto-1, errStr(err2), st2.Cut)
		} else {
			logf("second fetch %v depth %d -> %v (cut %v)", specs, s2.Depth, errStr(err2), st2.Cut)
		}
		ph2 := httpPhase(roundsBefore)
		if st2.Cut && !cutBefore && !isHTTP {
			out.Faults["stream-cut"] = 1
		}
		if ph2.panicked {
			out.Fail("C36|"+cfgName+"|second-fetch|http-server-panic", "the server's HTTP handler panicked during the follow-up fetch; server log: %.200s", srvLog.String())
			return
		}
		excused2 := st2.Cut || ph2.excused
		if !ok2 && !excused2 {
			mech := serverMechanism(serverErrors())
			if mech != "" {
				mech += "|"
			}
			out.Fail("C36|"+cfgName+"|second-fetch|"+mech+"unexpected-error|no-fault", "follow-up fetch of %v (depth %d, %d shallow roots before) failed although nothing was cut: %v; server: %.300s", specs, s2.Depth, shallowBefore, err2, serverErrors())
			return
		}
		if isHTTP {
			out.ProbeN("http-round-cut", ph2.postCut)
			if ok2 && shallowBefore > 0 && ph2.negRounds >= 1 {
				out.Probe("http-shallow-client-follow-up")
				if ph2.negRounds >= 2 {
					out.Probe("http-shallow-client-follow-up:rounds>=2")
				}
			}
		}
		v2 := filesystem.NewStorage(cliDisk.Clone().FS("/cli/repo.git", "verify2"), cache.NewObjectLRUDefault())
		defer v2.Close()
		shallow2, _ := v2.Shallow()
		stop2 := map[plumbing.Hash]bool{}
		for _, h := range shallow2 {
			stop2[h] = true
		}
		it2, err := v2.IterReferences()
		if err != nil {
			out.Fail("C36|"+cfgName+"|second-fetch|client-refs-unlistable", "client IterReferences after the follow-up fetch: %v", err)
			return
		}
		local2 := map[string]plumbing.Hash{}
		_ = it2.ForEach(func(r *plumbing.Reference) error {
			if r.Type() == plumbing.HashReference {
				local2[r.Name().String()] = r.Hash()
			}
			return nil
		})
		names2 := make([]string, 0, len(local2))
		for n := range local2 {
			names2 = append(names2, n)
		}
		sort.Strings(names2)
		why := "after-success"
		if !ok2 {
			why = "after-failure"
			before := map[plumbing.Hash]bool{}
			for _, h := range shallow {
				before[h] = true
			}
			if !sameSet(before, stop2) {
				out.Fail("C36|"+cfgName+"|second-fetch|shallow-file-changed|after-failure", "the follow-up fetch failed (%v) but changed the shallow file: %d roots before, %d after", err2, len(shallow), len(shallow2))
				return
			}
		}
		kind := "all-branches"
		if s2.Only >= 0 {
			kind = "one-branch"
		}
		if shallowBefore > 0 {
			kind += "+shallow-client"
		}
		// sigKind: in signatures a follow-up that switches the protocol version
		// says so (and whether it deepens a shallow client): a different
		// mechanism from the same-version follow-ups
		sigKind := kind
		if s2.Proto >= 1 && s2.Proto <= 3 {
			if shallowBefore > 0 && s2.Depth > 0 {
				sigKind += "+deepen"
			}
			sigKind += fmt.Sprintf("+as-v%d", s2.Proto-1)
		}
		for _, n := range names2 {
			h := local2[n]
			if n == mineRef && len(own) > 0 && h == own[len(own)-1] {
				for _, o := range append([]plumbing.Hash{ownTree}, own...) {
					if v2.HasEncodedObject(o) != nil {
						out.Fail(fmt.Sprintf("C36|%s|second-fetch:%s|missing-object:own|%s", cfgName, sigKind, why), "client ref %s: its own object %s is gone", n, o)
						return
					}
				}
				if priorTip.IsZero() {
					continue
				}
				h = priorTip
			}
			dm := dag2
			if _, known := dag2.Objects[h]; !known {
				// (a tag object of the server's earlier state)
				dm = dag
				if _, known := dag.Objects[h]; !known {
					out.Fail("C36|"+cfgName+"|second-fetch|ref-to-unknown-object", "client ref %s = %s which the server never had", n, h)
					return
				}
			}
			for _, o := range sortedClosure(dm, h, stop2) {
				if v2.HasEncodedObject(o) != nil {
					out.Fail(fmt.Sprintf("C36|%s|second-fetch:%s|missing-object:%s|%s", cfgName, sigKind, dm.Objects[o], why), "after the follow-up fetch of %v (depth %d; shallow roots %d -> %d) client ref %s = %s but object %s (%s) reachable from it is missing", specs, s2.Depth, shallowBefore, len(shallow2), n, h, o, dm.Objects[o])
					return
				}
			}
		}
		if ok2 {
			for _, b := range fetched {
				n := "refs/remotes/origin/" + strings.TrimPrefix(b, "refs/heads/")
				if local2[n] != dag2.Refs[b] {
					out.Fail("C36|"+cfgName+"|second-fetch|branch-ref-wrong", "after the follow-up fetch the client's %s = %v, server has %s", n, local2[n], dag2.Refs[b])
					return
				}
			}
			if s2.Depth == 0 && shallowBefore == 0 && len(shallow2) > 0 {
				out.Fail("C36|"+cfgName+"|second-fetch|unexpected-shallow", "a full follow-up fetch on a complete client left %d shallow roots", len(shallow2))
				return
			}
			out.Probe("second-fetch:" + kind)
			if sigKind != kind {
				out.Probe("second-fetch:other-protocol")
				if shallowBefore > 0 {
					out.Probe("second-fetch:other-protocol+shallow-client")
				}
			}
			if len(shallow2) != shallowBefore {
				out.Probe("second-fetch:boundary-moved")
			}
		}
	})
	out.Trace = trace
	out.LogHash = core.HashStrings(trace)
	out.NonTrivial = out.Probes["split-writes"] > 0 || out.Probes["writer-blocked-on-full-buffer"] > 0 || len(out.Faults) > 0
	if panicked != nil {
		msg := fmt.Sprint(panicked)
		switch {
		case strings.Contains(msg, "deadlock") && opReturned:
			// the operation returned; what is still blocked are goroutines
			// go-git left behind (e.g. NegotiatePack's readShallows helper after a
			// failed write, or a server command whose peer went away). That is a
			// leak, not non-termination of the fetch: counted, not judged.
			out.Probe("goroutines-left-blocked-after-return")
			if isHTTP {
				out.Probe("goroutines-left-blocked-after-return:http")
			}
		case strings.Contains(msg, "deadlock"):
			out.Signature, out.Message = "", ""
			out.Fail("C36|"+cfgName+"|deadlock", "client and server are both blocked (simulated streams, capacities %s): the operation does not terminate", capClass(p))
		default:
			out.Signature, out.Message = "", ""
			out.Fail("C36|"+cfgName+"|panic", "panic: %s", short(errors.New(msg)))
		}
	}
	return out
}

// sortedClosure lists the model closure commits first, then trees, then blobs,
// each by id, so that the first missing object named in a signature does not
// depend on map order.
func sortedClosure(d *gen.DAG, h plumbing.Hash, stop map[plumbing.Hash]bool) []plumbing.Hash {
	var out []plumbing.Hash
	for o := range d.Closure([]plumbing.Hash{h}, stop) {
		out = append(out, o)
	}
	rank := map[string]int{"tag": 0, "commit": 1, "tree": 2, "blob": 3}
	sort.Slice(out, func(a, b int) bool {
		ra, rb := rank[d.Objects[out[a]]], rank[d.Objects[out[b]]]
		if ra != rb {
			return ra < rb
		}
		return out[a].String() < out[b].String()
	})
	return out
}

func sameSet(a, b map[plumbing.Hash]bool) bool {
	if len(a) != len(b) {
		return false
	}
	for k := range a {
		if !b[k] {
			return false
		}
	}
	return true
}

func errStr(err error) string {
	if err == nil {
		return "ok"
	}
	return short(err)
}

func short(err error) string {
	s := err.Error()
	if len(s) > 70 {
		s = s[:70]
	}
	return s
}

func mod(a, n int) int {
	a %= n
	if a < 0 {
		a += n
	}
	return a
}

func TestCheck(t *testing.T) {
	core.Main(t, core.Check{
		ID:    "C36",
		Level: "exploration",
		Rule: "plan = server DAG (1-14 commits quick / 1-40 thorough, merge rate, chain bias, 1-4 branches, 0-4 tags incl. annotated tags on trees and blobs, committer clock skew) x client prior state (empty / prefix of the history / prefix + stale remote-tracking ref; optionally 1-2 commits of its own, over HTTP up to 40) x fetch|clone x tag mode x depth x prune x protocol v0/v1/v2 x optional follow-up fetch on the same client (one branch or all, own depth, after the server gained 0-3 commits and optionally a merge of an old commit, optionally speaking another protocol version than the first operation) " +
			"x transport: stateful stream (2/3 of the plans; one connection per operation) or smart HTTP stateless RPC (1/3; real HTTP client and backend.Backend, one simulated connection per request/response round; a quarter of the HTTP fetches have 17-56 commits in common or a deep shallow clone so that negotiation takes 2-5 rounds) " +
			"x per-connection stream behaviour (buffer capacity 1 B..unbounded, segmentation of every Write, optional cut after N bytes in either direction) x per-round HTTP events (transport error before any response byte, 4xx/5xx from an intermediary, redirect of the discovery or of a later request) x optional retry of a fetch that failed under a fault over a fault-free transport; " +
			"non-trivial = some Write was delivered in several segments, a writer blocked on a full buffer, or a fault fired",
		Assumptions: []string{"both peers are go-git (real git as a peer is not simulated)", "streams are reliable ordered byte streams (TCP/pipe model): no loss, duplication or reordering inside a stream",
			"under tag-following the set of auto-followed tags is not judged, only that created tags equal the server's and are complete", "the shallow boundary is compared with a BFS model for clones/fetches into an empty client",
			"HTTP: of net/http's server only the request-body contract is modelled (Close discards the rest of the body, Read after Close fails; validated once against a real net/http server); a cut response body surfaces as a read error (chunked / Content-Length framing), never as a clean EOF; a cut of the request direction loses the whole round",
			"HTTP: FetchRequest.Haves is sorted before the real HTTP session sees it (go-git collects the haves from a map; under stateless RPC their order decides the composition of every round); TLS, authentication challenges, proxies, gzip request bodies and the dumb protocol are not explored",
			"number of rounds and bytes (efficiency of negotiation) is not judged; goroutines left blocked after the call returned are counted, not judged"},
		Real: []string{"Remote.Fetch", "git.Clone", "transport.NegotiatePack / FetchPack (stateful and stateless)", "internal/transport.FetchV2 + LsRefs", "plumbing/transport/http: Handshake (info/refs discovery, smart reply, version detection), smartPackSession, httpRequester/httpNegotiator (one POST per round), redirect policy, status handling",
			"net/http.Client (redirects)", "backend.Backend.ServeHTTP (routing, content types, info/refs advertisement with service header, stateless-rpc UploadPack on a fresh Storage per request)", "packfile encoder/parser", "transport.UploadPack v0/v1/v2", "storage/filesystem on both sides"},
		Stub:    []string{"network (simnet streams, Kahn-deterministic segmentation; simnet.HTTP RoundTripper + ResponseWriter instead of sockets and net/http's server)", "both disks (simfs)", "clock (synctest)"},
		Runs:    map[string]int{"quick": 16000, "thorough": 480000},
		NewPlan: func() any { return &Plan{} },
		Gen:     genPlan,
		Exec:    execPlan,
		RequiredProbes: []string{"ok:fetch", "ok:clone", "split-writes", "writer-blocked-on-full-buffer", "failed-after-cut", "incremental-fetch", "shallow-fetch", "pruned", "second-fetch:one-branch+shallow-client", "second-fetch:all-branches+shallow-client", "second-fetch:one-branch", "second-fetch:boundary-moved",
			"http-ok:fetch", "http-ok:clone", "http-negotiation-rounds>=2", "http-negotiation-rounds>=3", "http-negotiation-rounds>=2:v0", "http-negotiation-rounds>=2:v1", "http-negotiation-rounds>=2:v2", "http-round-cut", "http-round-cut:round>=2", "http-shallow-over-stateless", "http-shallow-client-follow-up:rounds>=2",
			"http-v2-ls-refs+fetch", "http-failed-after-fault", "http-retry-ok", "http-discovery-redirect-followed", "http-fetch-with-own-history", "second-fetch:other-protocol+shallow-client"},
	})
}
