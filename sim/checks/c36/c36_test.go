//go:build verif

// C36 — fetch and clone deliver complete history and correct refs.
//
// go-git client and go-git server in one process, joined by simulated byte
// streams (sim/simnet): the real Remote.Fetch / git.Clone, negotiation, pack
// encode, UploadPack (protocol v0/v1/v2) and pack ingestion run on two
// simulated disks. The plan decides the server's commit DAG (merges,
// criss-cross parents, chains, annotated tags on commits/trees/blobs, skewed
// committer times), the client's prior state (empty, a prefix of the server
// history, a prefix plus stale remote-tracking refs), the options (tag mode,
// depth, prune, protocol version, single branch) and, per connection, buffer
// capacities, segmentation of every Write and an optional cut of either
// direction after N bytes.
package c36

import (
	"errors"
	"fmt"
	"sort"
	"strings"
	"testing"

	git "github.com/go-git/go-git/v6"
	"github.com/go-git/go-git/v6/config"
	"github.com/go-git/go-git/v6/plumbing"
	"github.com/go-git/go-git/v6/plumbing/cache"
	"github.com/go-git/go-git/v6/plumbing/client"
	"github.com/go-git/go-git/v6/plumbing/protocol"
	"github.com/go-git/go-git/v6/storage"
	"github.com/go-git/go-git/v6/storage/filesystem"
	"github.com/go-git/go-git/v6/verifsim/core"
	"github.com/go-git/go-git/v6/verifsim/gen"
	"github.com/go-git/go-git/v6/verifsim/hooks"
	"github.com/go-git/go-git/v6/verifsim/sched"
	"github.com/go-git/go-git/v6/verifsim/simfs"
	"github.com/go-git/go-git/v6/verifsim/simnet"
)

type Plan struct {
	Seed      uint64           `json:"seed"`
	Commits   int              `json:"commits"`
	Branches  int              `json:"branches"`
	MergeRate int              `json:"merge_rate"`
	ChainBias int              `json:"chain_bias"`
	Tags      int              `json:"tags"`
	OddTags   bool             `json:"odd_tags"`
	Skew      bool             `json:"skew"`
	Prior     string           `json:"prior"` // empty | prefix | prefix+stale
	PrefixLen int              `json:"prefix_len"`
	Op        string           `json:"op"`       // fetch | clone
	TagMode   int              `json:"tag_mode"` // 0 following, 1 all, 2 none
	Depth     int              `json:"depth"`
	Prune     bool             `json:"prune"`
	Proto     int              `json:"proto"`
	Single    bool             `json:"single"`
	Conns     []simnet.ConnCfg `json:"conns"`
	Faulty    bool             `json:"faulty"`
	Second    *Second          `json:"second,omitempty"`
}

// Second is a follow-up fetch on the same client after the first operation
// succeeded: possibly of one branch only, with its own depth, after the server
// has grown.
type Second struct {
	Depth int `json:"depth"`
	Only  int `json:"only"` // branch index to fetch, -1 = all branches
	Grow  int `json:"grow"` // commits the server gains before it
}

func genCfg(r *core.Rand) simnet.Cfg {
	c := simnet.Cfg{Cap: r.Pick2(0, 0, 1, 7, 64, 4096, 65536)}
	switch r.Intn(5) {
	case 0: // whole writes
	case 1:
		c.Chunks = []int{1}
	case 2:
		c.Chunks = []int{r.Range(1, 9)}
	default:
		n := r.Range(2, 8)
		for i := 0; i < n; i++ {
			c.Chunks = append(c.Chunks, r.Pick2(1, 2, 3, 4, 5, 7, 16, 100, 1000, 0))
		}
	}
	return c
}

func genPlan(r *core.Rand, tier string) any {
	p := &Plan{Seed: r.Uint64() % 100000, Commits: r.Range(1, 14), Branches: r.Range(1, 4), MergeRate: r.Pick2(0, 20, 50), ChainBias: r.Pick2(30, 70, 100),
		Tags: r.Range(0, 4), OddTags: r.Chance(1, 3), Skew: r.Chance(1, 3), Op: r.Pick("fetch", "fetch", "clone"), TagMode: r.Intn(3), Proto: r.Intn(3), Prune: r.Chance(1, 3)}
	if tier == "thorough" {
		p.Commits = r.Range(1, 40)
	}
	switch r.Intn(4) {
	case 0, 1:
		p.Prior = "empty"
	case 2:
		p.Prior = "prefix"
	default:
		p.Prior = "prefix+stale"
	}
	p.PrefixLen = r.Range(1, p.Commits)
	if r.Chance(1, 4) {
		p.Depth = r.Range(1, 4)
	}
	if p.Op == "clone" {
		p.Prior = "empty"
		p.Single = r.Chance(1, 3)
	}
	nc := r.Range(1, 3)
	for i := 0; i < nc; i++ {
		p.Conns = append(p.Conns, simnet.ConnCfg{C2S: genCfg(r), S2C: genCfg(r)})
	}
	if r.Chance(1, 3) {
		p.Second = &Second{Depth: r.Pick2(0, 0, 1, 2, 3, 5), Only: r.Pick2(-1, 0, 1, 2), Grow: r.Pick2(0, 0, 1, 3)}
	}
	if r.Chance(1, 5) {
		p.Faulty = true
		k := r.Intn(len(p.Conns))
		if r.Bool() {
			p.Conns[k].S2C.CutAt = int64(r.Range(1, 3000))
			p.Conns[k].S2C.CutKind = r.Intn(2)
		} else {
			p.Conns[k].C2S.CutAt = int64(r.Range(1, 600))
		}
	}
	return p
}

func dagCfg(p *Plan, commits int) gen.DAGCfg {
	return gen.DAGCfg{Commits: commits, Branches: p.Branches, MergeRate: p.MergeRate, ChainBias: p.ChainBias, Tags: p.Tags, OddTags: p.OddTags, ClockSkew: p.Skew, SharedBlob: true}
}

func capClass(p *Plan) string {
	small := false
	for _, c := range p.Conns {
		if (c.C2S.Cap > 0 && c.C2S.Cap < 4096) || (c.S2C.Cap > 0 && c.S2C.Cap < 4096) {
			small = true
		}
	}
	if small {
		return "small-buffers"
	}
	return "large-buffers"
}

func execPlan(t *testing.T, pa any) (out core.Outcome) {
	p := pa.(*Plan)
	hooks.Deterministic(true)
	if p.Commits < 1 {
		p.Commits = 1
	}
	if p.Commits > 60 {
		p.Commits = 60
	}
	if p.PrefixLen < 1 {
		p.PrefixLen = 1
	}
	if p.PrefixLen > p.Commits {
		p.PrefixLen = p.Commits
	}
	var trace []string
	logf := func(f string, a ...any) { trace = append(trace, fmt.Sprintf(f, a...)) }
	var tr *simnet.Transport
	opReturned := false
	cfgName := fmt.Sprintf("%s|v%d|%s", p.Op, mod(p.Proto, 3), capClass(p))

	panicked := sched.Bubble(t, func() {
		srvDisk, cliDisk := simfs.NewDisk(), simfs.NewDisk()
		srvSt := filesystem.NewStorage(srvDisk.FS("/srv/repo.git", "srv-setup"), cache.NewObjectLRUDefault())
		if _, err := git.Init(srvSt); err != nil {
			out.Inconclusive = "setup-failed"
			return
		}
		dag, err := gen.BuildDAG(p.Seed, dagCfg(p, p.Commits), srvSt)
		if err != nil || dag.WriteRefs(srvSt) != nil {
			out.Inconclusive = "setup-failed"
			return
		}
		_ = srvSt.Close()

		tr = &simnet.Transport{Conns: p.Conns, Open: func(path string) (storage.Storer, error) {
			return filesystem.NewStorage(srvDisk.FS(path, "server"), cache.NewObjectLRUDefault()), nil
		}}
		copts := []client.Option{client.WithTransport("sim", tr)}
		const url = "sim://server/srv/repo.git"
		cliSt := filesystem.NewStorage(cliDisk.FS("/cli/repo.git", "client"), cache.NewObjectLRUDefault())
		tagMode := []plumbing.TagMode{plumbing.TagFollowing, plumbing.AllTags, plumbing.NoTags}[mod(p.TagMode, 3)]
		proto := []protocol.Version{protocol.V0, protocol.V1, protocol.V2}[mod(p.Proto, 3)]

		var repo *git.Repository
		var opErr error
		staleRef := plumbing.ReferenceName("refs/remotes/origin/gone")
		hadStale := false
		var priorTip plumbing.Hash
		if p.Op == "clone" {
			// protocol version for clone comes from the default config: set it globally through a pre-initialised repo is not
			// possible, so clone runs with go-git's default protocol; record that in the config name
			o := &git.CloneOptions{URL: url, ClientOptions: copts, Depth: p.Depth, Tags: tagMode, Bare: true, SingleBranch: p.Single}
			if p.Single {
				o.ReferenceName = "refs/heads/main"
			}
			repo, opErr = git.Clone(cliSt, nil, o)
		} else {
			repo, err = git.Init(cliSt)
			if err != nil {
				out.Inconclusive = "setup-failed"
				return
			}
			if p.Prior != "empty" {
				pre, err := gen.BuildDAG(p.Seed, dagCfg(p, p.PrefixLen), cliSt)
				if err != nil {
					out.Inconclusive = "setup-failed"
					return
				}
				priorTip = pre.Commits[len(pre.Commits)-1].Hash
				_ = cliSt.SetReference(plumbing.NewHashReference("refs/remotes/origin/main", priorTip))
				if p.Prior == "prefix+stale" {
					_ = cliSt.SetReference(plumbing.NewHashReference(staleRef, priorTip))
					hadStale = true
				}
			}
			cfg, _ := repo.Config()
			cfg.Protocol.Version = proto
			cfg.Remotes["origin"] = &config.RemoteConfig{Name: "origin", URLs: []string{url}, Fetch: []config.RefSpec{"+refs/heads/*:refs/remotes/origin/*"}}
			if err := repo.SetConfig(cfg); err != nil {
				out.Inconclusive = "setup-failed"
				return
			}
			opErr = repo.Fetch(&git.FetchOptions{RemoteName: "origin", ClientOptions: copts, Depth: p.Depth, Tags: tagMode, Prune: p.Prune})
		}
		opReturned = true
		st := tr.Totals()
		// (how often a writer had to wait for room depends on goroutine timing and stays out of the event log)
		logf("%s -> %v (conns %d, bytes %d, segments %d, split writes %d, short reads %d, cut %v)", cfgName, errStr(opErr), len(tr.Streams)/2, st.Bytes, st.Segments, st.SplitWrites, st.ShortReads, st.Cut)
		out.ProbeN("split-writes", st.SplitWrites)
		out.ProbeN("short-reads", st.ShortReads)
		out.ProbeN("writer-blocked-on-full-buffer", st.Blocked)
		if st.Cut {
			out.Faults = map[string]int{"stream-cut": 1}
		}
		upToDate := errors.Is(opErr, git.NoErrAlreadyUpToDate)
		ok := opErr == nil || upToDate
		if !ok {
			if st.Cut {
				out.Probe("failed-after-cut")
			} else {
				out.Probe("failed-without-fault:" + short(opErr))
				out.Fail("C36|"+cfgName+"|unexpected-error|no-fault", "%s failed although nothing was cut: %v", p.Op, opErr)
			}
		} else {
			out.Probe("ok:" + p.Op)
			if st.Cut {
				out.Probe("ok-despite-cut")
			}
		}
		if repo == nil {
			// failed clone: nothing to inspect beyond the error
			return
		}
		// ---- postconditions on the client image, read with a fresh Storage ----
		vst := filesystem.NewStorage(cliDisk.Clone().FS("/cli/repo.git", "verify"), cache.NewObjectLRUDefault())
		defer vst.Close()
		have := func(h plumbing.Hash) bool { return vst.HasEncodedObject(h) == nil }
		shallow, _ := vst.Shallow()
		stop := map[plumbing.Hash]bool{}
		for _, h := range shallow {
			stop[h] = true
		}
		// every local ref must name a present, complete history (also after failures and cuts)
		it, err := vst.IterReferences()
		if err != nil {
			out.Fail("C36|"+cfgName+"|client-refs-unlistable", "client IterReferences after %s: %v", p.Op, err)
			return
		}
		local := map[string]plumbing.Hash{}
		_ = it.ForEach(func(r *plumbing.Reference) error {
			if r.Type() == plumbing.HashReference {
				local[r.Name().String()] = r.Hash()
			}
			return nil
		})
		names := make([]string, 0, len(local))
		for n := range local {
			names = append(names, n)
		}
		sort.Strings(names)
		for _, n := range names {
			h := local[n]
			if _, known := dag.Objects[h]; !known {
				out.Fail("C36|"+cfgName+"|ref-to-unknown-object", "client ref %s = %s which the server never had", n, h)
				return
			}
			for _, o := range sortedClosure(dag, h, stop) {
				if !have(o) {
					why := "after-success"
					if !ok {
						why = "after-failure"
					}
					out.Fail(fmt.Sprintf("C36|%s|missing-object:%s|%s", cfgName, dag.Objects[o], why), "client ref %s = %s but object %s (%s) reachable from it is missing (shallow roots: %d)", n, h, o, dag.Objects[o], len(shallow))
					return
				}
			}
		}
		if !ok {
			return
		}
		// ---- success: refs equal the server's refs mapped through the refspec ----
		wantBranches := map[string]plumbing.Hash{}
		for n, h := range dag.Refs {
			if strings.HasPrefix(n, "refs/heads/") {
				if p.Op == "clone" && p.Single && n != "refs/heads/main" {
					continue
				}
				wantBranches["refs/remotes/origin/"+strings.TrimPrefix(n, "refs/heads/")] = h
			}
		}
		bn := make([]string, 0, len(wantBranches))
		for n := range wantBranches {
			bn = append(bn, n)
		}
		sort.Strings(bn)
		for _, n := range bn {
			if got, okk := local[n]; !okk || got != wantBranches[n] {
				out.Fail("C36|"+cfgName+"|branch-ref-wrong", "after a successful %s the client's %s = %v, server has %s", p.Op, n, got, wantBranches[n])
				return
			}
		}
		for _, n := range names {
			if strings.HasPrefix(n, "refs/remotes/origin/") {
				if _, want := wantBranches[n]; !want {
					if n == string(staleRef) && hadStale && !p.Prune {
						continue // not pruned: stays
					}
					out.Fail("C36|"+cfgName+"|unexpected-remote-ref", "client has %s which no server branch maps to (prune=%v)", n, p.Prune)
					return
				}
			}
		}
		if hadStale && p.Prune {
			if _, still := local[string(staleRef)]; still {
				out.Fail("C36|"+cfgName+"|stale-ref-not-pruned", "Prune=true but %s is still there", staleRef)
				return
			}
			out.Probe("pruned")
		}
		// tags
		for n, h := range dag.Refs {
			if !strings.HasPrefix(n, "refs/tags/") {
				continue
			}
			got, has := local[n]
			switch tagMode {
			case plumbing.AllTags:
				if p.Op == "clone" && p.Single {
					break
				}
				if !has || got != h {
					out.Fail("C36|"+cfgName+"|tag-missing|all-tags", "AllTags: client's %s = %v, server has %s", n, got, h)
					return
				}
			case plumbing.NoTags:
				if has {
					out.Fail("C36|"+cfgName+"|tag-created|no-tags", "NoTags: client nevertheless has %s", n)
					return
				}
			default:
				if has && got != h {
					out.Fail("C36|"+cfgName+"|tag-wrong|following", "client's %s = %s, server has %s", n, got, h)
					return
				}
			}
		}
		// shallow boundary
		if p.Depth > 0 && p.Prior == "empty" && !upToDate && !(p.Op == "clone" && p.Single) {
			var tips []plumbing.Hash
			for _, n := range bn {
				tips = append(tips, wantBranches[n])
			}
			if tagMode == plumbing.AllTags {
				for n, h := range dag.Refs {
					if strings.HasPrefix(n, "refs/tags/") && !(p.Op == "clone" && p.Single) {
						tips = append(tips, h)
					}
				}
			}
			want := dag.ShallowBoundary(tips, p.Depth)
			if tagMode != plumbing.TagFollowing { // with tag following the wanted set is decided by the server's include-tag
				if !sameSet(want, stop) {
					out.Fail("C36|"+cfgName+"|shallow-boundary-differs", "depth %d: shallow file has %d roots, model boundary has %d", p.Depth, len(stop), len(want))
					return
				}
			}
			out.Probe("shallow-fetch")
		} else if p.Depth == 0 && len(shallow) > 0 {
			out.Fail("C36|"+cfgName+"|unexpected-shallow", "full fetch left %d shallow roots", len(shallow))
		}
		if p.Prior != "empty" && !upToDate {
			out.Probe("incremental-fetch")
		}
		// ---- second phase: a follow-up fetch on the same client ----
		if p.Second == nil || out.Signature != "" {
			return
		}
		s2 := p.Second
		dag2 := dag
		if s2.Grow > 0 {
			g := s2.Grow
			if g > 5 {
				g = 5
			}
			gst := filesystem.NewStorage(srvDisk.FS("/srv/repo.git", "srv-setup"), cache.NewObjectLRUDefault())
			d2, err := gen.BuildDAG(p.Seed, dagCfg(p, p.Commits+g), gst)
			if err != nil {
				out.Inconclusive = "setup-failed"
				return
			}
			// branches keep their names; only heads move (tags are left as they were)
			for n, h := range d2.Refs {
				if strings.HasPrefix(n, "refs/heads/") {
					_ = gst.SetReference(plumbing.NewHashReference(plumbing.ReferenceName(n), h))
				}
			}
			_ = gst.Close()
			dag2 = d2
		}
		var heads []string
		for n := range dag2.Refs {
			if strings.HasPrefix(n, "refs/heads/") {
				heads = append(heads, n)
			}
		}
		sort.Strings(heads)
		fetched := heads
		var specs []config.RefSpec
		if s2.Only >= 0 {
			b := heads[mod(s2.Only, len(heads))]
			fetched = []string{b}
			specs = []config.RefSpec{config.RefSpec("+" + b + ":refs/remotes/origin/" + strings.TrimPrefix(b, "refs/heads/"))}
		} else {
			specs = []config.RefSpec{"+refs/heads/*:refs/remotes/origin/*"}
		}
		shallowBefore := len(shallow)
		err2 := repo.Fetch(&git.FetchOptions{RemoteName: "origin", ClientOptions: copts, Depth: s2.Depth, Tags: plumbing.NoTags, RefSpecs: specs})
		ok2 := err2 == nil || errors.Is(err2, git.NoErrAlreadyUpToDate)
		st2 := tr.Totals()
		logf("second fetch %v depth %d -> %v (cut %v)", specs, s2.Depth, errStr(err2), st2.Cut)
		if st2.Cut && !st.Cut {
			out.Faults = map[string]int{"stream-cut": 1}
		}
		if !ok2 && !st2.Cut {
			out.Fail("C36|"+cfgName+"|second-fetch|unexpected-error|no-fault", "follow-up fetch of %v (depth %d, %d shallow roots before) failed although nothing was cut: %v", specs, s2.Depth, shallowBefore, err2)
			return
		}
		v2 := filesystem.NewStorage(cliDisk.Clone().FS("/cli/repo.git", "verify2"), cache.NewObjectLRUDefault())
		defer v2.Close()
		shallow2, _ := v2.Shallow()
		stop2 := map[plumbing.Hash]bool{}
		for _, h := range shallow2 {
			stop2[h] = true
		}
		it2, err := v2.IterReferences()
		if err != nil {
			out.Fail("C36|"+cfgName+"|second-fetch|client-refs-unlistable", "client IterReferences after the follow-up fetch: %v", err)
			return
		}
		local2 := map[string]plumbing.Hash{}
		_ = it2.ForEach(func(r *plumbing.Reference) error {
			if r.Type() == plumbing.HashReference {
				local2[r.Name().String()] = r.Hash()
			}
			return nil
		})
		names2 := make([]string, 0, len(local2))
		for n := range local2 {
			names2 = append(names2, n)
		}
		sort.Strings(names2)
		why := "after-success"
		if !ok2 {
			why = "after-failure"
		}
		kind := "all-branches"
		if s2.Only >= 0 {
			kind = "one-branch"
		}
		if shallowBefore > 0 {
			kind += "+shallow-client"
		}
		for _, n := range names2 {
			h := local2[n]
			dm := dag2
			if _, known := dag2.Objects[h]; !known {
				// (a tag object of the server's earlier state)
				dm = dag
				if _, known := dag.Objects[h]; !known {
					out.Fail("C36|"+cfgName+"|second-fetch|ref-to-unknown-object", "client ref %s = %s which the server never had", n, h)
					return
				}
			}
			for _, o := range sortedClosure(dm, h, stop2) {
				if v2.HasEncodedObject(o) != nil {
					out.Fail(fmt.Sprintf("C36|%s|second-fetch:%s|missing-object:%s|%s", cfgName, kind, dm.Objects[o], why), "after the follow-up fetch of %v (depth %d; shallow roots %d -> %d) client ref %s = %s but object %s (%s) reachable from it is missing", specs, s2.Depth, shallowBefore, len(shallow2), n, h, o, dm.Objects[o])
					return
				}
			}
		}
		if ok2 {
			for _, b := range fetched {
				n := "refs/remotes/origin/" + strings.TrimPrefix(b, "refs/heads/")
				if local2[n] != dag2.Refs[b] {
					out.Fail("C36|"+cfgName+"|second-fetch|branch-ref-wrong", "after the follow-up fetch the client's %s = %v, server has %s", n, local2[n], dag2.Refs[b])
					return
				}
			}
			if s2.Depth == 0 && shallowBefore == 0 && len(shallow2) > 0 {
				out.Fail("C36|"+cfgName+"|second-fetch|unexpected-shallow", "a full follow-up fetch on a complete client left %d shallow roots", len(shallow2))
				return
			}
			out.Probe("second-fetch:" + kind)
			if len(shallow2) != shallowBefore {
				out.Probe("second-fetch:boundary-moved")
			}
		}
	})
	out.Trace = trace
	out.LogHash = core.HashStrings(trace)
	out.NonTrivial = out.Probes["split-writes"] > 0 || out.Probes["writer-blocked-on-full-buffer"] > 0 || len(out.Faults) > 0
	if panicked != nil {
		msg := fmt.Sprint(panicked)
		switch {
		case strings.Contains(msg, "deadlock") && opReturned:
			// the operation returned; what is still blocked are goroutines
			// go-git left behind (e.g. NegotiatePack's readShallows helper after a
			// failed write, or a server command whose peer went away). That is a
			// leak, not non-termination of the fetch: counted, not judged.
			out.Probe("goroutines-left-blocked-after-return")
		case strings.Contains(msg, "deadlock"):
			out.Signature, out.Message = "", ""
			out.Fail("C36|"+cfgName+"|deadlock", "client and server are both blocked (simulated streams, capacities %s): the operation does not terminate", capClass(p))
		default:
			out.Signature, out.Message = "", ""
			out.Fail("C36|"+cfgName+"|panic", "panic: %s", short(errors.New(msg)))
		}
	}
	return out
}

// sortedClosure lists the model closure commits first, then trees, then blobs,
// each by id, so that the first missing object named in a signature does not
// depend on map order.
func sortedClosure(d *gen.DAG, h plumbing.Hash, stop map[plumbing.Hash]bool) []plumbing.Hash {
	var out []plumbing.Hash
	for o := range d.Closure([]plumbing.Hash{h}, stop) {
		out = append(out, o)
	}
	rank := map[string]int{"tag": 0, "commit": 1, "tree": 2, "blob": 3}
	sort.Slice(out, func(a, b int) bool {
		ra, rb := rank[d.Objects[out[a]]], rank[d.Objects[out[b]]]
		if ra != rb {
			return ra < rb
		}
		return out[a].String() < out[b].String()
	})
	return out
}

func sameSet(a, b map[plumbing.Hash]bool) bool {
	if len(a) != len(b) {
		return false
	}
	for k := range a {
		if !b[k] {
			return false
		}
	}
	return true
}

func errStr(err error) string {
	if err == nil {
		return "ok"
	}
	return short(err)
}

func short(err error) string {
	s := err.Error()
	if len(s) > 70 {
		s = s[:70]
	}
	return s
}

func mod(a, n int) int {
	a %= n
	if a < 0 {
		a += n
	}
	return a
}

func TestCheck(t *testing.T) {
	core.Main(t, core.Check{
		ID:    "C36",
		Level: "exploration",
		Rule: "plan = server DAG (1-14 commits quick / 1-40 thorough, merge rate, chain bias, 1-4 branches, 0-4 tags incl. annotated tags on trees and blobs, committer clock skew) x client prior state (empty / prefix of the history / prefix + stale remote-tracking ref) x fetch|clone x tag mode x depth x prune x protocol v0/v1/v2 x optional follow-up fetch on the same client (one branch or all, own depth, after the server gained 0-3 commits) x per-connection stream behaviour (buffer capacity 1 B..unbounded, segmentation of every Write, optional cut after N bytes in either direction); " +
			"non-trivial = some Write was delivered in several segments, a writer blocked on a full buffer, or a cut fired",
		Assumptions: []string{"both peers are go-git (real git as a peer is not simulated)", "streams are reliable ordered byte streams (TCP/pipe model): no loss, duplication or reordering inside a stream",
			"under tag-following the set of auto-followed tags is not judged, only that created tags equal the server's and are complete", "the shallow boundary is compared with a BFS model for clones/fetches into an empty client"},
		Real:    []string{"Remote.Fetch", "git.Clone", "transport negotiation", "packfile encoder/parser", "transport.UploadPack v0/v1/v2", "storage/filesystem on both sides"},
		Stub:    []string{"network (simnet streams, Kahn-deterministic segmentation)", "both disks (simfs)", "clock (synctest)"},
		Runs:    map[string]int{"quick": 20000, "thorough": 600000},
		NewPlan: func() any { return &Plan{} },
		Gen:     genPlan,
		Exec:    execPlan,
		RequiredProbes: []string{"ok:fetch", "ok:clone", "split-writes", "writer-blocked-on-full-buffer", "failed-after-cut", "incremental-fetch", "shallow-fetch", "pruned", "second-fetch:one-branch+shallow-client", "second-fetch:all-branches+shallow-client", "second-fetch:one-branch", "second-fetch:boundary-moved"},
	})
}
