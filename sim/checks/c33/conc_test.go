//go:build verif

package c33

// Concurrent configuration: after a sequential prefix, two or three parties
// (each its own Storage / manager / Repository, opened inside the bubble)
// work at the same time in DIFFERENT worktrees under the seeded scheduler:
// every disk operation of every party is a scheduling point. Oracle: what a
// party ends up with in its own worktree (HEAD bytes, index entries, files,
// private admin files), the result of each of its calls and the shared
// references it wrote are exactly what the same party gets when it runs the
// same operations ALONE on a copy of the image ("solo run"); the shared
// reference store at the end is the initial one plus every party's solo
// changes; worktrees nobody worked in are byte-identical.

import (
	"fmt"
	"sort"
	"strings"
	"testing"
	"time"

	git "github.com/go-git/go-git/v6"
	"github.com/go-git/go-git/v6/plumbing"
	"github.com/go-git/go-git/v6/verifsim/core"
	"github.com/go-git/go-git/v6/verifsim/gen"
	"github.com/go-git/go-git/v6/verifsim/hooks"
	"github.com/go-git/go-git/v6/verifsim/sched"
	"github.com/go-git/go-git/v6/verifsim/simfs"
	xwt "github.com/go-git/go-git/v6/x/plumbing/worktree"
)

func genConc(r *core.Rand) *ConcPlan {
	c := &ConcPlan{}
	nt := r.Range(2, 3)
	total := 0
	for i := 0; i < nt; i++ {
		tk := ConcTask{W: r.Intn(6)}
		n := r.Range(1, 3)
		for j := 0; j < n; j++ {
			kind := []string{"commit", "commit", "commit", "commit", "commit", "commit", "checkout-create", "checkout-create", "wt-add", "wt-add", "status"}[r.Intn(11)]
			tk.Ops = append(tk.Ops, Step{Kind: kind, A: r.Intn(40), B: r.Intn(40), F: r.Chance(1, 3)})
			total++
		}
		c.Tasks = append(c.Tasks, tk)
	}
	est := 150 * total
	if r.Chance(1, 3) {
		n := r.Range(10, est)
		for i := 0; i < n; i++ {
			c.Sched.Uniform = append(c.Sched.Uniform, r.Intn(8))
		}
	} else {
		np := r.Range(0, 8)
		for i := 0; i < np; i++ {
			c.Sched.Preempts = append(c.Sched.Preempts, sched.Preempt{At: r.Intn(est), Pick: r.Intn(8)})
		}
	}
	for i := 0; i < 8; i++ {
		c.Sched.Fallback = append(c.Sched.Fallback, r.Intn(8))
	}
	if r.Bool() {
		at := 0
		for i, n := 0, r.Range(1, 3); i < n; i++ {
			at += r.Intn(est/2 + 1)
			c.Sched.TimeSteps = append(c.Sched.TimeSteps, sched.TimeStep{At: at, Ms: r.Pick2(1, 1000, 2500)})
		}
	}
	return c
}

// taskResult is what one party's work produced.
type taskResult struct {
	results []string // outcome of each call
	commits int
	added   []string // worktrees the task added (names)
}

var concNames = []string{"ca", "cb", "cc"}

// concOps runs one party's operations. i is the task index.
func (w *world) concOps(d *simfs.Disk, p *party, i int, ops []Step) taskResult {
	var res taskResult
	s := p.wt
	for k, op := range ops {
		if k >= 3 {
			break
		}
		wt, err := p.repo.Worktree()
		if err != nil {
			res.results = append(res.results, "worktree:"+errKind(err))
			continue
		}
		commit := w.pickCommit(op.B)
		switch op.Kind {
		case "commit":
			path := filePool[mod(op.A, len(filePool))]
			full := s.root + "/" + path
			if kd := d.Lookup(full); kd == "dir" || kd == "link" || blockedByFile(d, s.root, path) {
				res.results = append(res.results, "commit:skipped")
				continue
			}
			_ = d.WriteFile(full, []byte(fmt.Sprintf("concurrent edit %d of task %d in %s\n", k, i, s.label())), 0o644)
			if _, err := wt.Add(path); err != nil {
				res.results = append(res.results, "add:"+errKind(err))
				continue
			}
			h, err := wt.Commit(fmt.Sprintf("concurrent commit %d of task %d", k, i), &git.CommitOptions{Author: gen.Sig(300 + 10*i + k), Committer: gen.Sig(300 + 10*i + k)})
			if err == nil {
				res.commits++
				res.results = append(res.results, "commit:"+h.String())
			} else {
				res.results = append(res.results, "commit:"+errKind(err))
			}
		case "checkout-create":
			err := wt.Checkout(&git.CheckoutOptions{Branch: plumbing.ReferenceName("refs/heads/cb" + fmt.Sprint(i)), Create: true, Hash: commit, Force: op.F})
			res.results = append(res.results, "checkout-create:"+errKind(err))
		case "wt-add":
			name := concNames[mod(i, len(concNames))]
			opts := []xwt.Option{xwt.WithCommit(commit)}
			if op.F {
				opts = append(opts, xwt.WithDetachedHead())
			}
			err := p.mgr.Add(d.FS(w.root+"/wt/"+name, p.actor), name, opts...)
			res.results = append(res.results, "wt-add:"+errKind(err))
			dup := false
			for _, a := range res.added {
				dup = dup || a == name
			}
			if !dup {
				res.added = append(res.added, name)
			}
		case "status":
			_, err := wt.Status()
			res.results = append(res.results, "status:"+errKind(err))
		}
	}
	return res
}

// ownedSnap renders the private state of a worktree without clock-dependent
// bytes (the index is rendered entry by entry).
func ownedSnap(d *simfs.Disk, common string, s *wtState) map[string]string {
	sn := takeSnap(d, common, s)
	out := map[string]string{"HEAD": sn.head}
	if sn.index != "" {
		if idx, err := decodeIndex([]byte(sn.index)); err == nil {
			out["index"] = indexEntries(idx)
		} else {
			out["index"] = "<undecodable>"
		}
	}
	for k, v := range sn.files {
		out["files:"+k] = v
	}
	for k, v := range sn.admin {
		if strings.HasPrefix(k, ".tmp/") {
			continue
		}
		out["admin:"+k] = v
	}
	return out
}

func (w *world) concPhase(t *testing.T, p *Plan) {
	out := w.out
	w.closeAll()
	var live []*wtState
	for _, s := range w.wts {
		if s.status == "live" {
			live = append(live, s)
		}
	}
	nt := len(p.Conc.Tasks)
	if nt > 3 {
		nt = 3
	}
	if nt > len(live) {
		nt = len(live)
	}
	if nt < 2 {
		out.Inconclusive = "conc-needs-two-worktrees"
		return
	}
	start := mod(p.Conc.Tasks[0].W, len(live))
	var own []*wtState
	seenBranch := map[string]bool{}
	for i := 0; i < nt; i++ {
		s := live[(start+i)%len(live)]
		own = append(own, s)
		hb, _ := w.d.ReadFile(s.gitdir + "/HEAD")
		if b := symTarget(string(hb)); b != "" {
			if seenBranch[b] {
				// two worktrees on one branch (git would have refused): their
				// commits race on the shared branch by construction
				out.Inconclusive = "conc-same-branch"
				return
			}
			seenBranch[b] = true
		}
	}
	// worktrees a task may add must not exist yet in any form
	for i := 0; i < nt; i++ {
		name := concNames[i]
		if w.d.Lookup(w.root+"/wt/"+name) != "" || w.d.Lookup(w.common()+"/worktrees/"+name) != "" {
			out.Inconclusive = "conc-name-taken"
			return
		}
	}
	pre := w.d.Clone()
	preRefs := groundRefs(pre, w.common())
	preSnaps := w.snapAll()
	// solo runs
	type solo struct {
		res   taskResult
		snaps map[string]map[string]string
		delta map[string]string // ref -> value ("" deleted)
	}
	solos := make([]solo, nt)
	for i := 0; i < nt; i++ {
		ds := pre.Clone()
		sp, err := w.openParty(ds, own[i], true)
		if err != nil {
			out.Inconclusive = "conc-solo-open-failed"
			return
		}
		solos[i].res = w.concOps(ds, sp, i, p.Conc.Tasks[i].Ops)
		sp.close()
		solos[i].snaps = map[string]map[string]string{own[i].name: ownedSnap(ds, w.common(), own[i])}
		for _, n := range solos[i].res.added {
			solos[i].snaps[n] = ownedSnap(ds, w.common(), &wtState{name: n, root: w.root + "/wt/" + n, gitdir: w.common() + "/worktrees/" + n})
		}
		solos[i].delta = map[string]string{}
		g := groundRefs(ds, w.common())
		for n, v := range g {
			if preRefs[n] != v {
				solos[i].delta[n] = v
			}
		}
		for n := range preRefs {
			if _, ok := g[n]; !ok {
				solos[i].delta[n] = ""
			}
		}
	}
	// the concurrent run on the world's own disk
	d := w.d
	results := make([]taskResult, nt)
	var drv *sched.Driver
	var openErr error
	var panicked any
	func() {
		t0, now0 := time.Now(), d.Now()
		d.Clock = func() time.Time { return now0.Add(time.Since(t0)) }
		drv = sched.New(p.Conc.Sched)
		drv.MaxSteps = 40000
		drv.TraceCap = 300
		// locks go-git holds across disk operations (SharedFile, pack handles)
		// must park at the driver, or the bubble never becomes quiescent
		hooks.Install(drv)
		defer hooks.Uninstall()
		parties := make([]*party, nt)
		for i := 0; i < nt; i++ {
			parties[i], openErr = w.openParty(d, own[i], true)
			if openErr != nil {
				return
			}
		}
		d.Sched = drv
		var tasks []sched.Task
		for i := 0; i < nt; i++ {
			i := i
			tasks = append(tasks, sched.Task{Name: fmt.Sprintf("t%d", i), Fn: func() {
				results[i] = w.concOps(d, parties[i], i, p.Conc.Tasks[i].Ops)
			}})
		}
		drv.Run(tasks)
		d.Sched = nil
		for _, pp := range parties {
			pp.close()
		}
		d.Clock = nil
	}()
	d.Sched = nil
	if drv != nil {
		out.Steps += drv.Steps
		out.SchedHash = drv.SchedHash()
		w.logf("concurrent phase: %d grants, %d switches, log %s", drv.Steps, drv.Switches, drv.LogHash())
		for _, l := range drv.Trace {
			w.logf("  %s", l)
		}
		out.ProbeN("conc:context-switches", drv.Switches)
		if drv.Switches > 0 {
			out.NonTrivial = true
		}
	}
	switch {
	case openErr != nil:
		out.Inconclusive = "conc-open-failed"
		return
	case panicked != nil:
		out.Inconclusive = "bubble-panic"
		w.logf("panic: %v", panicked)
		return
	case drv.Aborted != "":
		out.Inconclusive = "conc-" + drv.Aborted
		return
	}
	var names []string
	for n := range drv.TaskPanic {
		names = append(names, n)
	}
	sort.Strings(names)
	for _, n := range names {
		out.Fail("C33|conc|panic", "task %s panicked: %v", n, drv.TaskPanic[n])
		return
	}
	// compare with the solo runs
	landed := 0
	for i := 0; i < nt; i++ {
		cls := own[i].class()
		if a, b := strings.Join(results[i].results, " "), strings.Join(solos[i].res.results, " "); a != b {
			out.Fail("C33|conc|result-differs-from-solo-run|"+cls, "party %d in worktree %s got [%s] while others worked, [%s] alone", i, own[i].label(), a, b)
			return
		}
		var wn []string
		for n := range solos[i].snaps {
			wn = append(wn, n)
		}
		sort.Strings(wn)
		for _, n := range wn {
			s := w.find(n)
			if s == nil {
				s = &wtState{name: n, root: w.root + "/wt/" + n, gitdir: w.common() + "/worktrees/" + n}
			}
			got := ownedSnap(d, w.common(), s)
			if !sameMap(got, solos[i].snaps[n]) {
				k := mapDiffKey(got, solos[i].snaps[n])
				out.Fail(fmt.Sprintf("C33|conc|%s-differs-from-solo-run|%s", strings.SplitN(k, ":", 2)[0], cls), "worktree %s of party %d ended with %s = %q while others worked, %q when the party runs alone", label(s), i, k, got[k], solos[i].snaps[n][k])
				return
			}
		}
		if results[i].commits > 0 {
			landed++
		}
	}
	want := map[string]string{}
	for n, v := range preRefs {
		want[n] = v
	}
	for i := 0; i < nt; i++ {
		for n, v := range solos[i].delta {
			if v == "" {
				delete(want, n)
			} else {
				want[n] = v
			}
		}
	}
	if g := groundRefs(d, w.common()); !sameMap(g, want) {
		k := mapDiffKey(g, want)
		out.Fail("C33|conc|refs-differs-from-solo-run|shared", "after the concurrent phase the shared reference %s is %q, the parties' solo runs give %q", k, g[k], want[k])
		return
	}
	// worktrees nobody worked in
	after := w.snapAll()
	for _, s := range w.wts {
		isOwn := false
		for _, o := range own {
			isOwn = isOwn || o == s
		}
		for i := 0; i < nt; i++ {
			for _, a := range results[i].added {
				isOwn = isOwn || a == s.name
			}
		}
		if isOwn {
			continue
		}
		if comp, what := preSnaps[s.name].diff(after[s.name]); comp != "" {
			out.Fail(fmt.Sprintf("C33|conc|changed-other:%s|%s|none", comp, s.class()), "the concurrent phase changed %s of worktree %s, in which no party worked (%s)", comp, s.label(), what)
			return
		}
	}
	if landed >= 2 {
		out.Probe("conc:both-commits-landed")
	}
	for i := 0; i < nt; i++ {
		for _, r := range results[i].results {
			if r == "wt-add:ok" {
				out.Probe("conc:worktree-added-while-others-worked")
			}
		}
	}
	out.Probe("conc:judged")
}
