//go:build verif

package c33

// The world of one run: ONE simulated disk holding the main repository
// (<root>/main, common dir <root>/main/.git) and the linked worktrees
// (<root>/wt/<name>), and the "parties" acting on it. A party is what a
// process would be: its own Storage over the common dir, its own
// x/plumbing/worktree manager, its own Repository opened through the
// manager's Open for its worktree. Parties share nothing but the disk.

import (
	"fmt"
	iofs "io/fs"
	"strings"
	"time"

	"github.com/go-git/go-billy/v6"
	git "github.com/go-git/go-git/v6"
	"github.com/go-git/go-git/v6/plumbing"
	"github.com/go-git/go-git/v6/plumbing/cache"
	"github.com/go-git/go-git/v6/storage/filesystem"
	"github.com/go-git/go-git/v6/verifsim/core"
	"github.com/go-git/go-git/v6/verifsim/gen"
	"github.com/go-git/go-git/v6/verifsim/simfs"
	xwt "github.com/go-git/go-git/v6/x/plumbing/worktree"
)

// Step is one action of a history; its meaning is a total function of its
// fields and the world.
type Step struct {
	Kind string `json:"kind"`
	W    int    `json:"w"` // acting worktree / party (index into the live list, modulo)
	A    int    `json:"a"`
	B    int    `json:"b"`
	F    bool   `json:"f"`
	Adv  int    `json:"adv"` // clock advance before the step, in ticks (0 = same tick)
}

var (
	// worktree names Add draws from: "side" names an existing branch (Add always
	// creates refs/heads/<name>, so that is the "existing branch" case), "nb0"
	// collides with a branch the history may create
	wtNames  = []string{"wa", "wb", "wc", "wa", "wb", "side", "nb0", "wc"}
	filePool = []string{"a.txt", "b.txt", "dir/c.txt", "dir/sub/d.txt", "e.sh", "z/y/x.txt", "dir/e.txt", "new1.txt", "dir/new2.txt", "un/tracked.txt"}
	branches = []string{"refs/heads/master", "refs/heads/old", "refs/heads/side", "refs/heads/nb0", "refs/heads/nb1", "refs/heads/wa", "refs/heads/wb", "refs/heads/wc", "refs/heads/missing"}
	delPool  = []string{"refs/heads/old", "refs/heads/side", "refs/heads/nb0", "refs/heads/nb1", "refs/heads/wa", "refs/heads/wb"}
	// namespaces git keeps per worktree (git-worktree(1) REFS) and one it shares
	setRefPool = []string{"refs/worktree/x", "refs/bisect/x", "refs/rewritten/x", "refs/notes/x"}
)

func mod(a, n int) int {
	if n <= 0 {
		return 0
	}
	a %= n
	if a < 0 {
		a += n
	}
	return a
}

// wtState is what the harness knows about one worktree directory.
type wtState struct {
	name   string // "" = main
	root   string // image path of the worktree directory
	gitdir string // image path of its private git dir
	// live: added successfully and not removed. debris: an Add failed and left
	// admin files behind. removed: admin dir removed, files may remain.
	status string
	party  *party
	// for the git snapshot oracle: nothing acted in this worktree since a
	// successful Add into an empty directory (git status must be clean), or
	// exactly one tracked file was edited since then.
	fresh   bool
	oneEdit string
	freshAt string // commit its HEAD resolved to right after the Add
}

func (w *wtState) class() string {
	if w.name == "" {
		return "main"
	}
	return "linked"
}

func (w *wtState) label() string {
	if w.name == "" {
		return "main"
	}
	return w.name
}

type party struct {
	actor  string
	wt     *wtState
	common billy.Filesystem
	st     *filesystem.Storage // over the common dir: the manager's storer
	mgr    *xwt.Worktree
	wtfs   billy.Filesystem
	repo   *git.Repository
}

type world struct {
	d       *simfs.Disk
	root    string
	model   *gen.Model
	commits []plumbing.Hash
	ncommit int
	nparty  int
	wts     []*wtState // [0] = main, then linked worktrees in order of first Add
	refs    map[string]string
	trace   []string
	out     *core.Outcome
	// branch -> name of the linked worktree whose commit last advanced it
	advancedBy  map[string]string
	everRemoved map[string]bool
}

func (w *world) logf(format string, args ...any) {
	if len(w.trace) < 500 {
		w.trace = append(w.trace, fmt.Sprintf(format, args...))
	}
}

func (w *world) common() string { return w.root + "/main/.git" }

func (w *world) find(name string) *wtState {
	for _, s := range w.wts {
		if s.name == name {
			return s
		}
	}
	return nil
}

// live lists the worktrees a step can act in (main first).
func (w *world) live() []*wtState {
	var out []*wtState
	for _, s := range w.wts {
		if s.status == "live" && s.party != nil {
			out = append(out, s)
		}
	}
	return out
}

// openParty opens worktree s as a fresh process would.
func (w *world) openParty(d *simfs.Disk, s *wtState, viaAPI bool) (*party, error) {
	w.nparty++
	p := &party{actor: fmt.Sprintf("p%d:%s", w.nparty, s.label()), wt: s}
	mainFS := d.FS(w.root+"/main", p.actor)
	common, err := mainFS.Chroot(".git")
	if err != nil {
		return nil, err
	}
	p.common = common
	p.st = filesystem.NewStorage(common, cache.NewObjectLRUDefault())
	p.mgr, err = xwt.New(p.st)
	if err != nil {
		return nil, err
	}
	p.wtfs = d.FS(s.root, p.actor)
	if s.name == "" && !viaAPI {
		p.repo, err = git.Open(p.st, p.wtfs)
	} else {
		p.repo, err = p.mgr.Open(p.wtfs)
	}
	if err != nil {
		_ = p.st.Close()
		return nil, err
	}
	return p, nil
}

func (p *party) close() {
	if p == nil {
		return
	}
	if p.repo != nil {
		_ = p.repo.Close()
	}
	_ = p.st.Close()
}

func (w *world) closeAll() {
	for _, s := range w.wts {
		if s.party != nil {
			s.party.close()
			s.party = nil
		}
	}
}

func errKind(err error) string {
	switch {
	case err == nil:
		return "ok"
	case simfs.IsInjected(err):
		return "injected"
	}
	s := err.Error()
	for _, known := range []string{"worktree already exists", "worktree not found", "already exists", "worktree contains unstaged changes", "reference not found", "object not found",
		"entry not found", "clean working tree", "empty commit", "tag already exists", "tag not found", "invalid", "cannot", "no such file", "not found"} {
		if strings.Contains(s, known) {
			return strings.ReplaceAll(known, " ", "-")
		}
	}
	if strings.Contains(s, "simfs: injected") || strings.Contains(s, "simfs: process crashed") {
		return "injected"
	}
	return "other"
}

// stepInfo describes what a step did, for the oracles.
type stepInfo struct {
	kind      string   // variant, e.g. "checkout:create"
	user      bool     // harness/user action, no go-git call
	actor     *wtState // worktree of the party whose code ran (nil for user steps)
	target    *wtState // worktree the operation acts in (may change); nil = none may change
	err       error
	touched   []string          // shared refs the operation may legitimately write
	set       map[string]string // on success: shared refs -> new value ("" = deleted)
	newObjs   []plumbing.Hash   // objects the call reported creating
	addOK     bool              // a worktree was added successfully (target)
	addMode   string
	removed   bool
	clobbered *wtState // Add succeeded over a live worktree
	named     *wtState // the live worktree an Add named (it has to be refused)
}

func (w *world) pickCommit(i int) plumbing.Hash {
	return w.commits[mod(i, len(w.commits))]
}

// do performs one step.
func (w *world) do(s Step) stepInfo {
	d := w.d
	if s.Adv > 0 {
		d.Advance(time.Duration(mod(s.Adv, 4)) * d.Tick)
	}
	live := w.live()
	if len(live) == 0 {
		return stepInfo{kind: "none", user: true}
	}
	cur := live[mod(s.W, len(live))]
	p := cur.party
	info := stepInfo{kind: s.Kind, actor: cur, target: cur}
	headSym := ""
	if h, ok := d.ReadFile(cur.gitdir + "/HEAD"); ok {
		headSym = symTarget(string(h))
	}
	headAt := w.headCommit(cur) // commit HEAD of cur resolves to before the step ("" = unborn)
	path := filePool[mod(s.A, len(filePool))]
	switch s.Kind {
	case "tick":
		d.Advance(time.Duration(1+mod(s.A, 3)) * d.Tick)
		return stepInfo{kind: "tick", user: true}
	case "edit":
		info.user = true
		full := cur.root + "/" + path
		if k := d.Lookup(full); k == "dir" || k == "link" || blockedByFile(d, cur.root, path) {
			w.logf("edit %s:%s skipped", cur.label(), path)
			return info
		}
		mode := 0o644
		if path == "e.sh" {
			mode = 0o755
		}
		existed := d.Lookup(full) == "file"
		_ = d.WriteFile(full, []byte(fmt.Sprintf("edit %d %d in %s\n", s.A, s.B, cur.label())), iofs.FileMode(mode))
		switch {
		case cur.fresh && existed:
			cur.fresh, cur.oneEdit = false, path
		case cur.oneEdit == path && existed:
		default:
			cur.fresh, cur.oneEdit = false, ""
		}
		w.logf("edit %s:%s", cur.label(), path)
		return info
	case "rmfile":
		info.user = true
		if d.Lookup(cur.root+"/"+path) == "file" {
			d.RemoveAllDirect(cur.root + "/" + path)
		}
		cur.fresh, cur.oneEdit = false, ""
		w.logf("rmfile %s:%s", cur.label(), path)
		return info
	case "reopen":
		info.target = nil // opening must change nothing anywhere
		cur.party.close()
		cur.party = nil
		np, err := w.openParty(d, cur, s.F)
		info.err = err
		if err == nil {
			cur.party = np
			w.out.Probe("reopen:" + cur.class())
		}
		w.logf("reopen %s api=%v: %s", cur.label(), s.F, errKind(err))
		return info
	case "wt-add":
		name := wtNames[mod(s.A, len(wtNames))]
		t := w.find(name)
		if t == nil {
			t = &wtState{name: name, root: w.root + "/wt/" + name, gitdir: w.common() + "/worktrees/" + name, status: "absent"}
			w.wts = append(w.wts, t)
		}
		info.target = t
		var opts []xwt.Option
		c := w.pickCommit(s.B)
		mode := []string{"new-branch-at-head", "new-branch-at-commit", "detached-at-commit", "detached-at-head"}[mod(s.B/7, 4)]
		switch mode {
		case "new-branch-at-commit":
			opts = append(opts, xwt.WithCommit(c))
		case "detached-at-commit":
			opts = append(opts, xwt.WithCommit(c), xwt.WithDetachedHead())
		case "detached-at-head":
			opts = append(opts, xwt.WithDetachedHead())
		}
		info.kind, info.addMode = "add", mode
		detached := strings.HasPrefix(mode, "detached")
		if !detached {
			info.touched = []string{"refs/heads/" + name}
		}
		wasEmpty := len(d.List(t.root)) == 0
		// without WithCommit, Add resolves HEAD of the manager's storer: the MAIN
		// worktree's HEAD, whichever party calls it
		addAt := c.String()
		if strings.HasSuffix(mode, "at-head") {
			addAt = w.headCommit(w.wts[0])
		}
		prev := t.status
		if prev == "live" {
			// the name belongs to a live worktree: Add has to refuse (as git
			// does) and that worktree, like every other, must stay as it is
			info.target = nil
			info.named = t
		}
		err := p.mgr.Add(d.FS(t.root, p.actor), name, opts...)
		info.err = err
		switch {
		case err == nil && prev == "live":
			info.clobbered = t
			w.out.Probe("add-over-live-worktree-succeeded")
		case err == nil:
			t.status, t.fresh, t.oneEdit = "live", wasEmpty, ""
			t.freshAt = w.headCommit(t)
			info.addOK = true
			if !detached {
				info.set = map[string]string{"refs/heads/" + name: addAt}
			}
			if w.everRemoved[name] {
				w.out.Probe("removed-then-readded-same-name")
			}
			w.out.Probe("add-ok:" + mode)
		case prev == "live":
			// refused (or failed) while the worktree exists: it stays what it was
			w.out.Probe("add-refused:" + errKind(err))
		default:
			if d.Lookup(t.gitdir) != "" || d.Lookup(t.root+"/.git") != "" {
				t.status = "debris"
			}
			w.out.Probe("add-refused:" + errKind(err))
		}
		w.logf("wt-add %s by %s %s: %s", name, cur.label(), mode, errKind(err))
		return info
	case "wt-remove":
		name := wtNames[mod(s.A, len(wtNames))]
		t := w.find(name)
		info.kind = "remove"
		if t == nil {
			t = &wtState{name: name, root: w.root + "/wt/" + name, gitdir: w.common() + "/worktrees/" + name, status: "absent"}
			w.wts = append(w.wts, t)
		}
		info.target = t
		err := p.mgr.Remove(name)
		info.err = err
		if err == nil {
			info.removed = true
			if t.status == "live" {
				w.everRemoved[name] = true
			}
			if t.party != nil {
				t.party.close()
				t.party = nil
			}
			t.status, t.fresh, t.oneEdit = "removed", false, ""
			w.out.Probe("remove-ok")
		} else if d.Lookup(t.gitdir) == "" && t.status != "absent" {
			t.status = "removed"
			if t.party != nil {
				t.party.close()
				t.party = nil
			}
		}
		w.logf("wt-remove %s by %s: %s", name, cur.label(), errKind(err))
		return info
	}

	// operations inside worktree cur through its party's Repository
	repo := p.repo
	wt, werr := repo.Worktree()
	if werr != nil {
		info.err = werr
		return info
	}
	commit := w.pickCommit(s.B)
	dirty := func() { cur.fresh, cur.oneEdit = false, "" }
	switch s.Kind {
	case "add":
		_, info.err = wt.Add(path)
		dirty()
	case "commit":
		w.ncommit++
		var h plumbing.Hash
		h, info.err = wt.Commit(fmt.Sprintf("history commit %d in %s", w.ncommit, cur.label()), &git.CommitOptions{Author: gen.Sig(200 + w.ncommit), Committer: gen.Sig(200 + w.ncommit), All: s.F})
		if headSym != "" {
			info.touched = []string{headSym}
		}
		if info.err == nil {
			w.commits = append(w.commits, h)
			info.newObjs = append(info.newObjs, h)
			if headSym != "" {
				info.set = map[string]string{headSym: h.String()}
				if cur.name != "" {
					w.advancedBy[headSym] = cur.name
				} else {
					delete(w.advancedBy, headSym)
				}
			}
			w.out.Probe("commit-ok:" + cur.class())
		}
		if s.F {
			info.kind = "commit:all"
		}
		dirty()
	case "checkout":
		o := &git.CheckoutOptions{Force: s.F}
		form := []string{"branch", "hash", "create", "branch", "create-existing"}[mod(s.A, 5)]
		switch form {
		case "branch":
			o.Branch = plumbing.ReferenceName(branches[mod(s.B, len(branches))])
			// Checkout ends in Reset, which writes the (unchanged) commit back
			// to the branch HEAD now names: the loose ref file is rewritten
			info.touched = []string{string(o.Branch)}
		case "hash":
			o.Hash = commit
		case "create":
			o.Branch = plumbing.ReferenceName(branches[3+mod(s.B, 2)])
			o.Create, o.Hash = true, commit
			info.touched = []string{string(o.Branch)}
		case "create-existing":
			o.Branch = plumbing.ReferenceName(branches[mod(s.B, 3)])
			o.Create = true
			info.touched = []string{string(o.Branch)}
		}
		info.kind = "checkout:" + form
		atHead := o.Hash.IsZero() // Checkout fills o.Hash in when it creates a branch at HEAD
		info.err = wt.Checkout(o)
		if info.err == nil {
			if o.Create {
				if atHead {
					info.set = map[string]string{string(o.Branch): headAt}
				} else {
					info.set = map[string]string{string(o.Branch): commit.String()}
				}
			}
			if form == "branch" && cur.name == "" {
				if by, ok := w.advancedBy[string(o.Branch)]; ok && by != "" {
					w.out.Probe("linked-commit-advanced-branch-then-main-checked-it-out")
				}
			}
			w.out.Probe("checkout-ok:" + form + ":" + cur.class())
		}
		dirty()
	case "reset":
		mode := []git.ResetMode{git.SoftReset, git.MixedReset, git.HardReset}[mod(s.A, 3)]
		info.kind = "reset:" + []string{"soft", "mixed", "hard"}[mod(s.A, 3)]
		if headSym != "" {
			info.touched = []string{headSym}
		}
		info.err = wt.Reset(&git.ResetOptions{Mode: mode, Commit: commit})
		if info.err == nil && headSym != "" {
			info.set = map[string]string{headSym: commit.String()}
			delete(w.advancedBy, headSym)
		}
		dirty()
	case "status":
		_, info.err = wt.Status()
	case "branch-create":
		name := branches[3+mod(s.A, 2)]
		info.touched = []string{name}
		info.err = repo.Storer.SetReference(plumbing.NewHashReference(plumbing.ReferenceName(name), commit))
		if info.err == nil {
			info.set = map[string]string{name: commit.String()}
			delete(w.advancedBy, name)
		}
	case "branch-delete":
		name := delPool[mod(s.A, len(delPool))]
		info.touched = []string{name}
		info.err = repo.Storer.RemoveReference(plumbing.ReferenceName(name))
		if info.err == nil {
			info.set = map[string]string{name: ""}
			delete(w.advancedBy, name)
		}
	case "tag":
		name := fmt.Sprintf("t%d", mod(s.A, 3))
		info.touched = []string{"refs/tags/" + name}
		if s.F {
			info.kind = "tag-delete"
			if mod(s.A, 2) == 0 {
				name = "light" // generated, packed when the base has packed refs
				info.touched = []string{"refs/tags/" + name}
			}
			info.err = repo.DeleteTag(name)
			if info.err == nil {
				info.set = map[string]string{"refs/tags/" + name: ""}
			}
		} else {
			_, info.err = repo.CreateTag(name, commit, nil)
			if info.err == nil {
				info.set = map[string]string{"refs/tags/" + name: commit.String()}
			}
		}
	case "set-ref":
		name := setRefPool[mod(s.A, len(setRefPool))]
		info.touched = []string{name}
		info.err = repo.Storer.SetReference(plumbing.NewHashReference(plumbing.ReferenceName(name), commit))
		if info.err == nil {
			info.set = map[string]string{name: commit.String()}
		}
	case "pack-refs":
		info.touched = []string{"*"}
		if pr, ok := repo.Storer.(interface{ PackRefs() error }); ok {
			info.err = pr.PackRefs()
		}
	default:
		info.user = true
		info.kind = "none"
		return info
	}
	w.logf("%s in %s a=%d b=%d f=%v: %s", info.kind, cur.label(), s.A, s.B, s.F, errKind(info.err))
	return info
}

// blockedByFile reports whether a parent component of rel is a file or link.
func blockedByFile(d *simfs.Disk, root, rel string) bool {
	parts := strings.Split(rel, "/")
	for i := 1; i < len(parts); i++ {
		if k := d.Lookup(root + "/" + strings.Join(parts[:i], "/")); k == "file" || k == "link" {
			return true
		}
	}
	return false
}

// symTarget returns the branch a HEAD file names, or "" when detached/unreadable.
func symTarget(head string) string {
	if strings.HasPrefix(head, "ref: ") {
		return strings.TrimSpace(strings.TrimPrefix(head, "ref: "))
	}
	return ""
}
