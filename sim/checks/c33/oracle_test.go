//go:build verif

package c33

// Observation straight from the disk image (never through go-git) and the
// oracles built on it.

import (
	"bytes"
	"crypto/sha1"
	"fmt"
	"sort"
	"strings"

	"github.com/go-git/go-git/v6/plumbing"
	"github.com/go-git/go-git/v6/plumbing/format/index"
	"github.com/go-git/go-git/v6/plumbing/object"
	"github.com/go-git/go-git/v6/plumbing/storer"
	"github.com/go-git/go-git/v6/verifsim/core"
	"github.com/go-git/go-git/v6/verifsim/simfs"
)

// snap is the per-worktree state the property speaks about, plus the other
// administrative files git keeps per worktree.
type snap struct {
	head  string            // bytes of the worktree's HEAD file ("<absent>" if none)
	index string            // raw bytes of its index file
	imt   int64             // mtime of the index file (0 = none)
	files map[string]string // every path in the worktree directory -> kind|mode|content
	admin map[string]string // other private files: ORIG_HEAD, gitdir, commondir, the .git file, ...
}

func fileVal(e simfs.Entry) string {
	switch e.Kind {
	case "link":
		return "link|" + e.Target
	case "dir":
		return "dir"
	}
	return fmt.Sprintf("file|%o|%s", e.Mode&0o777, core.HashStrings([]string{string(e.Data)}))
}

// mainPrivate lists the files of the common dir that belong to the MAIN
// worktree only (gitrepository-layout: everything that is not shared when
// $GIT_COMMON_DIR is set).
var mainPrivate = []string{"ORIG_HEAD", "FETCH_HEAD", "MERGE_HEAD", "CHERRY_PICK_HEAD", "logs/HEAD", "info/sparse-checkout", "config.worktree"}

func takeSnap(d *simfs.Disk, common string, w *wtState) snap {
	s := snap{head: "<absent>", files: map[string]string{}, admin: map[string]string{}}
	if b, ok := d.ReadFile(w.gitdir + "/HEAD"); ok {
		s.head = string(b)
	}
	if w.name == "" {
		if b, ok := d.ReadFile(w.gitdir + "/index"); ok {
			s.index = string(b)
		}
		for _, f := range mainPrivate {
			if b, ok := d.ReadFile(w.gitdir + "/" + f); ok {
				s.admin[f] = string(b)
			}
		}
		for _, e := range d.List(w.gitdir) {
			if e.Path == w.gitdir+"/index" {
				s.imt = e.MTime.UnixNano()
			}
		}
	} else {
		for _, e := range d.List(w.gitdir) {
			rel := strings.TrimPrefix(e.Path, w.gitdir+"/")
			switch {
			case rel == "HEAD":
			case rel == "index":
				s.index = string(e.Data)
				s.imt = e.MTime.UnixNano()
			case e.Kind == "dir":
			default:
				s.admin[rel] = fileVal(e)
			}
		}
	}
	for _, e := range d.List(w.root) {
		rel := strings.TrimPrefix(e.Path, w.root+"/")
		if w.name == "" && (rel == ".git" || strings.HasPrefix(rel, ".git/")) {
			continue
		}
		if w.name != "" && rel == ".git" {
			s.admin["<gitfile>"] = fileVal(e)
			if e.Kind == "file" {
				s.admin["<gitfile>"] = string(e.Data)
			}
			continue
		}
		if e.Kind == "dir" {
			continue
		}
		s.files[rel] = fileVal(e)
	}
	return s
}

func sameMap(a, b map[string]string) bool {
	if len(a) != len(b) {
		return false
	}
	for k, v := range a {
		if bv, ok := b[k]; !ok || bv != v {
			return false
		}
	}
	return true
}

func mapDiffKey(a, b map[string]string) string {
	var keys []string
	for k, v := range a {
		if bv, ok := b[k]; !ok || bv != v {
			keys = append(keys, k)
		}
	}
	for k := range b {
		if _, ok := a[k]; !ok {
			keys = append(keys, k)
		}
	}
	sort.Strings(keys)
	if len(keys) == 0 {
		return ""
	}
	return keys[0]
}

// diff names the first component that differs, in the statement's order.
func (a snap) diff(b snap) (string, string) {
	switch {
	case a.head != b.head:
		return "HEAD", fmt.Sprintf("%q -> %q", a.head, b.head)
	case a.index != b.index:
		return "index", fmt.Sprintf("%d bytes -> %d bytes", len(a.index), len(b.index))
	case !sameMap(a.files, b.files):
		return "files", mapDiffKey(a.files, b.files)
	case !sameMap(a.admin, b.admin):
		return "admin", mapDiffKey(a.admin, b.admin)
	}
	return "", ""
}

func (w *world) snapAll() map[string]snap {
	out := map[string]snap{}
	for _, s := range w.wts {
		out[s.name] = takeSnap(w.d, w.common(), s)
	}
	return out
}

// perWorktreeRef reports whether git keeps a ref name per worktree.
func perWorktreeRef(name string) bool {
	for _, p := range []string{"refs/worktree/", "refs/bisect/", "refs/rewritten/"} {
		if strings.HasPrefix(name, p) {
			return true
		}
	}
	return false
}

// groundRefs reads the shared reference store straight from the common dir:
// loose files under refs/ override packed-refs entries. Namespaces git keeps
// per worktree are left out (they are not judged).
func groundRefs(d *simfs.Disk, common string) map[string]string {
	out := map[string]string{}
	for _, e := range d.List(common + "/refs") {
		if e.Kind != "file" {
			continue
		}
		name := strings.TrimPrefix(e.Path, common+"/")
		if perWorktreeRef(name) {
			continue
		}
		v := strings.TrimSpace(string(e.Data))
		if v == "" {
			v = "<empty>"
		}
		out[name] = v
	}
	if b, ok := d.ReadFile(common + "/packed-refs"); ok {
		for _, line := range strings.Split(string(b), "\n") {
			f := strings.Fields(line)
			if len(f) == 2 && !strings.HasPrefix(line, "#") && !strings.HasPrefix(line, "^") && !perWorktreeRef(f[1]) {
				if _, loose := out[f[1]]; !loose {
					out[f[1]] = f[0]
				}
			}
		}
	}
	return out
}

// headCommit resolves a worktree's HEAD on the disk ("" = unborn/unreadable).
func (w *world) headCommit(s *wtState) string {
	b, ok := w.d.ReadFile(s.gitdir + "/HEAD")
	if !ok {
		return ""
	}
	if t := symTarget(string(b)); t != "" {
		v := groundRefs(w.d, w.common())[t]
		if v == "<empty>" {
			return ""
		}
		return v
	}
	return strings.TrimSpace(string(b))
}

func decodeIndex(b []byte) (*index.Index, error) {
	idx := &index.Index{}
	if err := index.NewDecoder(bytes.NewReader(b), sha1.New()).Decode(idx); err != nil {
		return nil, err
	}
	return idx, nil
}

func indexEntries(idx *index.Index) string {
	if idx == nil {
		return ""
	}
	var sb strings.Builder
	for _, e := range idx.Entries {
		fmt.Fprintf(&sb, "%s %s %o %d\n", e.Name, e.Hash, uint32(e.Mode), e.Stage)
	}
	return sb.String()
}

// viewRefs lists the shared references as one party's Repository sees them.
func viewRefs(p *party) (map[string]string, error) {
	it, err := p.repo.Storer.IterReferences()
	if err != nil {
		return nil, err
	}
	out := map[string]string{}
	err = it.ForEach(func(r *plumbing.Reference) error {
		n := string(r.Name())
		if !strings.HasPrefix(n, "refs/") || perWorktreeRef(n) {
			return nil
		}
		if r.Type() == plumbing.SymbolicReference {
			out[n] = "ref: " + string(r.Target())
		} else {
			out[n] = r.Hash().String()
		}
		return nil
	})
	return out, err
}

// sharedClass classifies a path relative to a LINKED worktree's private git
// dir that git keeps in the common dir: writing it privately means the data
// is no longer shared.
func sharedClass(rel string) string {
	switch {
	case rel == "packed-refs":
		return "packed-refs"
	case rel == "config":
		return "config"
	case rel == "shallow":
		return "shallow"
	case strings.HasPrefix(rel, "objects/"):
		return "objects"
	case strings.HasPrefix(rel, "refs/") && !perWorktreeRef(rel) && rel != "refs/worktree" && rel != "refs/bisect" && rel != "refs/rewritten":
		return "refs"
	}
	return ""
}

// footprint inspects the mutating disk operations of one go-git call.
// target is the worktree the call acts in (nil: none), actor the worktree of
// the party whose code ran. It returns (component, victim, path) of the first
// write that lands in ANOTHER worktree's private state, or a shared path
// written privately.
func (w *world) footprint(log []simfs.Op, actor, target *wtState) (comp string, victim *wtState, path string) {
	common := w.common()
	for _, op := range log {
		if !op.Mutating || op.Err != "" && !strings.Contains(op.Detail, "CRASH") {
			continue
		}
		for _, p := range []string{op.Path, op.Path2} {
			if p == "" {
				continue
			}
			for _, s := range w.wts {
				if s == target {
					continue
				}
				switch {
				case s.name != "" && (p == s.root || strings.HasPrefix(p, s.root+"/")):
					if p == s.root+"/.git" {
						return "admin", s, p
					}
					return "files", s, p
				case s.name != "" && (p == s.gitdir || strings.HasPrefix(p, s.gitdir+"/")):
					switch strings.TrimPrefix(p, s.gitdir+"/") {
					case "HEAD":
						return "HEAD", s, p
					case "index":
						return "index", s, p
					}
					return "admin", s, p
				case s.name == "" && strings.HasPrefix(p, s.root+"/") && p != common && !strings.HasPrefix(p, common+"/"):
					return "files", s, p
				case s.name == "" && strings.HasPrefix(p, common+"/"):
					rel := strings.TrimPrefix(p, common+"/")
					switch rel {
					case "HEAD":
						return "HEAD", s, p
					case "index":
						return "index", s, p
					}
					for _, f := range mainPrivate {
						if rel == f {
							return "admin", s, p
						}
					}
				}
			}
			if target != nil && target.name != "" && strings.HasPrefix(p, target.gitdir+"/") {
				if c := sharedClass(strings.TrimPrefix(p, target.gitdir+"/")); c != "" {
					return "shared-path-written-privately:" + c, target, p
				}
			}
		}
	}
	return "", nil, ""
}

// newObjectsIn lists the objects a call stored (renames into objects/xx/).
func newObjectsIn(log []simfs.Op, common string) []plumbing.Hash {
	var out []plumbing.Hash
	for _, op := range log {
		if op.Class != simfs.OpRename || op.Err != "" {
			continue
		}
		rel := strings.TrimPrefix(op.Path2, common+"/objects/")
		if rel == op.Path2 || len(rel) != 41 || rel[2] != '/' {
			continue
		}
		out = append(out, plumbing.NewHash(rel[:2]+rel[3:]))
	}
	return out
}

// adminFormat validates the administrative files of a freshly added worktree
// against git's documented layout (gitrepository-layout(5), git-worktree(1)).
func (w *world) adminFormat(t *wtState, detached bool) (file, msg string) {
	d := w.d
	want := map[string]string{
		"gitdir":    t.root + "/.git\n",
		"commondir": "../..\n",
	}
	for _, f := range []string{"gitdir", "commondir"} {
		b, ok := d.ReadFile(t.gitdir + "/" + f)
		if !ok || string(b) != want[f] {
			return f, fmt.Sprintf("%s/%s is %q, git expects %q", t.gitdir, f, b, want[f])
		}
	}
	b, ok := d.ReadFile(t.root + "/.git")
	if !ok || string(b) != "gitdir: "+t.gitdir+"\n" {
		return "gitfile", fmt.Sprintf("%s/.git is %q, git expects %q", t.root, b, "gitdir: "+t.gitdir+"\n")
	}
	h, ok := d.ReadFile(t.gitdir + "/HEAD")
	if !ok {
		return "HEAD", "the new worktree has no HEAD"
	}
	hs := string(h)
	switch {
	case detached:
		if len(hs) != 41 || hs[40] != '\n' || plumbing.NewHash(hs[:40]).IsZero() {
			return "HEAD", fmt.Sprintf("detached worktree HEAD is %q", hs)
		}
	default:
		if hs != "ref: refs/heads/"+t.name+"\n" {
			return "HEAD", fmt.Sprintf("worktree HEAD is %q, want %q", hs, "ref: refs/heads/"+t.name+"\n")
		}
	}
	if ib, ok := d.ReadFile(t.gitdir + "/index"); ok {
		if _, err := decodeIndex(ib); err != nil {
			return "index", fmt.Sprintf("the new worktree's index does not decode: %v", err)
		}
	}
	return "", ""
}

// readableFrom checks that party p can read object h completely (a commit
// with its tree and blobs).
func readableFrom(p *party, h plumbing.Hash) error {
	eo, err := p.repo.Storer.EncodedObject(plumbing.AnyObject, h)
	if err != nil {
		return err
	}
	if eo.Type() != plumbing.CommitObject {
		return nil
	}
	c, err := object.DecodeCommit(p.repo.Storer, eo)
	if err != nil {
		return err
	}
	t, err := c.Tree()
	if err != nil {
		return err
	}
	return t.Files().ForEach(func(f *object.File) error {
		_, err := f.Contents()
		return err
	})
}

var _ storer.IndexStorer // the party's own index is read through this interface
