//go:build verif

// C33 — linked worktrees are isolated and recognised by git.
//
// What is real: go-git's x/plumbing/worktree (Add / Remove / Open), the
// RepositoryFilesystem that routes paths between a linked worktree's private
// git dir and the common dir, storage/filesystem, and the porcelain
// (Worktree.Add/Commit/Checkout/Reset/Status, CreateTag/DeleteTag,
// SetReference/RemoveReference/PackRefs). What is simulated: the disk (simfs,
// one image shared by every party), its clock and mtime granularity, disk
// faults and process stops, and — in the concurrent configuration — the
// scheduler (sim/sched, every disk operation of every party is a scheduling
// point).
//
// Image: <root>/main is a generated repository (3-7 commits, side branch,
// tags, optionally packed refs / repacked objects); linked worktrees live at
// <root>/wt/<name> and are created only through go-git's Add. <root> is
// /var/tmp/c33-x/s<slot>: the administrative files of a linked worktree hold
// ABSOLUTE paths, so the image uses the very path it is later exported to for
// the git snapshot oracle and nothing has to be rewritten (slot 0 = never
// exported; slots 1-8 are taken under an flock while git looks at them).
//
// Every run executes inside a testing/synctest bubble (sim/sched.Bubble):
// go-git closes idle pack files from a 1 s time.AfterFunc, which on the real
// clock fires whenever the process is slow and then shifts fault ordinals; in
// the bubble time stands still (sequential configurations) or is advanced by
// the scheduler only (concurrent configuration). git runs after the bubble.
//
// Parties: the main worktree and every linked worktree are each opened "as a
// process": own Storage over the common dir, own worktree manager, own
// Repository from the manager's Open. Parties share nothing but the disk and
// are re-opened mid-history by "reopen" steps.
//
// Plan space: history of 3-14 steps over {wt-add (new branch at HEAD / at a
// commit, detached; names include an existing branch and a re-used name),
// wt-remove, reopen, user edit / delete, add, commit, checkout (branch, hash,
// create, create-existing; force or not), reset (soft, mixed, hard), status,
// branch create / delete, tag create / delete, SetReference in namespaces git
// keeps per worktree, pack-refs, clock tick}, each step in a drawn worktree
// and preceded by a drawn clock advance that may be zero, under an mtime tick
// of 1 ns / 1 ms / 1 s. Configurations (plan field "mode"): plain; fault (one
// injected disk error at an enumerated (class, ordinal) of one step); crash
// (process stop at an enumerated mutating operation of one step, torn or
// not); conc (two or three parties run add+commit / checkout-create / wt-add
// concurrently under the seeded scheduler).
//
// Oracle, after EVERY step:
//  1. isolation: for every worktree other than the one the step acts in, the
//     HEAD file bytes, the index file bytes, every file of the worktree
//     directory and the other private administrative files (ORIG_HEAD,
//     gitdir, commondir, the .git file ...) read straight from the image are
//     identical to before the step;
//  2. footprint: no mutating disk operation of the call lands in another
//     worktree's directory or private git dir (or, for a linked actor, on
//     the main worktree's HEAD / index / ORIG_HEAD ...), and a linked actor
//     writes no path git keeps in the common dir (packed-refs, refs/heads,
//     refs/tags, objects, config, shallow) into its private git dir;
//  3. after a successful Add the new worktree's gitdir / commondir / HEAD /
//     .git file have exactly git's documented content and its index decodes;
//     an Add that names a LIVE worktree has to be refused (as git does) and
//     must leave that worktree, like every other, byte-identical;
//  4. sharing: a small model of refs/** (updated only by operations whose
//     effect on references is certain) equals the reference store read from
//     the common dir (loose over packed); every party's existing Repository
//     lists exactly that store; every party reads its OWN HEAD and index;
//     every object the step stored is completely readable from every other
//     party.
//
// At the end of a plain history every worktree is re-opened by a fresh
// process and must see the same. In 1 of 50 plain quick plans (1 of 8 thorough)
// the image is exported and git 2.39 must list every live worktree in
// `git worktree list --porcelain` with the HEAD and branch found on the
// disk, `git status --porcelain` must exit 0 in each (and be empty / one
// " M" line for the two states the harness can predict), `git fsck` exits 0.
// After an injected fault or a process stop the run ends with: 1-3 as above
// on the frozen image, every OTHER worktree opens in a fresh process and
// reads its own HEAD, every shared reference the failed call does not write
// still resolves to its value, the common dir opens.
//
// Deliberately not judged: the acting worktree's own result (C25/C28/C29/C30
// judge porcelain results); what a failed Add leaves behind ("debris", only
// the other worktrees matter); that go-git lets two worktrees check out the
// same branch (git refuses; the statement does not ask for the refusal, and
// with references shared the other worktree's RESOLVED HEAD then moves by
// construction — only HEAD's bytes are compared; counted as probes); where
// refs/worktree/*, refs/bisect/*, refs/rewritten/* land (git keeps them per
// worktree, go-git shares them; the statement says references are shared —
// counted as probes, excluded from the model); torn or empty loose ref files
// after a fault (C21/C15 territory: references the failed call writes are
// not compared).
//
// Signatures:
//
//	C33|<step>|changed-other:<HEAD|index|files|admin>|<actor>→<victim>|<none|fault:<class>|crash>
//	C33|<step>|footprint:<HEAD|index|files|admin>|<actor>→<victim>|…
//	C33|<step>|shared-path-written-privately:<packed-refs|refs|objects|config|shallow>|<actor>|…
//	C33|<step>|shared-ref-wrong:<lost|stale|unexpected>|<actor>|…
//	C33|<step>|shared-ref-not-visible|<actor>→<viewer>|…      C33|<step>|shared-refs-unlistable|…
//	C33|<step>|shared-object-not-visible|<actor>→<viewer>|…
//	C33|<step>|party-reads-wrong:<HEAD|index>|<viewer>|…
//	C33|add|admin-format:<gitdir|commondir|gitfile|HEAD|index>|<mode>|…      C33|add|open-failed|<mode>|…      C33|add|clobbered-live-worktree:<readded|HEAD|index|files|admin>|<actor>→linked|…
//	C33|<step>|other-worktree-unopenable|…   C33|<step>|shared-ref-lost-after-fault|…   C33|<step>|common-dir-unopenable|…
//	C33|git-rejects|<worktree-list|status|fsck>:<what>|<class>
//	C33|conc|<component>-differs-from-solo-run|<class>   C33|route|<path>-><where>
package c33

import (
	"fmt"
	"os"
	"sort"
	"strings"
	"testing"
	"time"

	"github.com/go-git/go-git/v6/plumbing"
	"github.com/go-git/go-git/v6/plumbing/storer"
	"github.com/go-git/go-git/v6/verifsim/core"
	"github.com/go-git/go-git/v6/verifsim/gen"
	"github.com/go-git/go-git/v6/verifsim/hooks"
	"github.com/go-git/go-git/v6/verifsim/sched"
	"github.com/go-git/go-git/v6/verifsim/simfs"
)

type Plan struct {
	RepoSeed   uint64       `json:"repo_seed"`
	Repack     bool         `json:"repack"`
	PackRefs   bool         `json:"pack_refs"`
	TickMs     int          `json:"tick_ms"`
	Slot       int          `json:"slot"` // image root /var/tmp/c33-x/s<slot>; 0 = not exported
	MainViaAPI bool         `json:"main_via_api"`
	Steps      []Step       `json:"steps"`
	Mode       string       `json:"mode"`       // "" plain | fault | crash | conc
	FaultStep  int          `json:"fault_step"` // index into Steps
	Fault      *simfs.Fault `json:"fault,omitempty"`
	Crash      *simfs.Crash `json:"crash,omitempty"`
	Git        bool         `json:"git"`
	Route      bool         `json:"route"`
	Conc       *ConcPlan    `json:"conc,omitempty"`
}

// ConcPlan: after the (sequential) Steps prefix, tasks run concurrently.
type ConcPlan struct {
	Tasks []ConcTask     `json:"tasks"`
	Sched sched.Schedule `json:"sched"`
}

type ConcTask struct {
	W   int    `json:"w"`
	Ops []Step `json:"ops"`
}

var weights = map[string]int{"wt-add": 12, "wt-remove": 4, "reopen": 5, "edit": 12, "rmfile": 2, "add": 9, "commit": 12, "checkout": 12, "reset": 8,
	"status": 3, "branch-create": 4, "branch-delete": 3, "tag": 4, "set-ref": 2, "pack-refs": 1, "tick": 2}

var bag = func() []string {
	var keys, out []string
	for k := range weights {
		keys = append(keys, k)
	}
	sort.Strings(keys)
	for _, k := range keys {
		for i := 0; i < weights[k]; i++ {
			out = append(out, k)
		}
	}
	return out
}()

func genStep(r *core.Rand, kind string) Step {
	return Step{Kind: kind, W: r.Intn(6), A: r.Intn(40), B: r.Intn(40), F: r.Chance(1, 3), Adv: []int{0, 0, 1, 2}[r.Intn(4)]}
}

func genPlan(r *core.Rand, tier string) any {
	p := &Plan{RepoSeed: r.Uint64() % 32, Repack: r.Chance(1, 3), PackRefs: r.Chance(1, 3), TickMs: []int{0, 1, 1000}[r.Intn(3)], MainViaAPI: r.Bool()}
	if tier == "thorough" {
		p.RepoSeed = r.Uint64() % 1024
	}
	n := r.Range(3, 14)
	if r.Chance(1, 12) {
		// scenario: a linked worktree on its own new branch commits, then the
		// main worktree checks that branch out
		x := r.Intn(40)
		p.Steps = append(p.Steps,
			Step{Kind: "wt-add", W: 0, A: 0, B: 7 * r.Intn(2), Adv: r.Intn(2)},
			Step{Kind: "edit", W: 1, A: x, B: r.Intn(40), Adv: r.Intn(2)},
			Step{Kind: "add", W: 1, A: x},
			Step{Kind: "commit", W: 1, Adv: r.Intn(2)})
		for k := r.Intn(3); k > 0; k-- {
			p.Steps = append(p.Steps, genStep(r, bag[r.Intn(len(bag))]))
		}
		p.Steps = append(p.Steps, Step{Kind: "checkout", W: 0, A: 0, B: 5, F: r.Bool(), Adv: r.Intn(2)})
	}
	for len(p.Steps) < n {
		switch {
		case len(p.Steps) == 0 && r.Chance(9, 10), len(p.Steps) == 1 && r.Chance(1, 2):
			p.Steps = append(p.Steps, genStep(r, "wt-add"))
		case r.Chance(1, 8):
			// a piece of work in one worktree: edit, stage, commit
			w := r.Intn(6)
			a := r.Intn(40)
			for _, k := range []string{"edit", "add", "commit"} {
				s := genStep(r, k)
				s.W, s.A = w, a
				p.Steps = append(p.Steps, s)
			}
		default:
			p.Steps = append(p.Steps, genStep(r, bag[r.Intn(len(bag))]))
		}
	}
	switch k := r.Intn(100); {
	case k < 58:
		gitEvery := 50
		if tier == "thorough" {
			gitEvery = 8
		}
		if r.Chance(1, gitEvery) {
			p.Git, p.Slot = true, 1+r.Intn(8)
		}
		p.Route = r.Chance(1, 64)
	case k < 78:
		p.Mode = "fault"
	case k < 93:
		p.Mode = "crash"
	default:
		p.Mode = "conc"
		p.Conc = genConc(r)
		if len(p.Steps) > 6 {
			p.Steps = p.Steps[:6]
		}
	}
	if p.Mode == "fault" || p.Mode == "crash" {
		// the step that fails: prefer worktree management and commits
		var pref, any []int
		for i, s := range p.Steps {
			switch s.Kind {
			case "wt-add", "wt-remove", "commit":
				pref = append(pref, i)
				any = append(any, i)
			case "edit", "rmfile", "tick":
			default:
				any = append(any, i)
			}
		}
		switch {
		case len(pref) > 0 && r.Chance(3, 4):
			p.FaultStep = pref[r.Intn(len(pref))]
		case len(any) > 0:
			p.FaultStep = any[r.Intn(len(any))]
		}
	}
	return p
}

type base struct {
	disk  *simfs.Disk
	model *gen.Model
	err   error
}

var baseCache = map[string]*base{}

func imageRoot(slot int) string { return fmt.Sprintf("/var/tmp/c33-x/s%d", mod(slot, 9)) }

func getBase(p *Plan) *base {
	key := fmt.Sprintf("%d/%v/%v/%d", p.RepoSeed, p.Repack, p.PackRefs, mod(p.Slot, 9))
	if b, ok := baseCache[key]; ok {
		return b
	}
	if len(baseCache) > 300 {
		baseCache = map[string]*base{}
	}
	d := simfs.NewDisk()
	env, err := gen.Build(core.NewRand(p.RepoSeed*7919+1), d, imageRoot(p.Slot)+"/main", gen.Cfg{MinCommits: 3, MaxCommits: 7, Repack: p.Repack, PackRefs: p.PackRefs, Tags: true, Side: true, Symlinks: p.RepoSeed%5 == 0})
	b := &base{disk: d, err: err}
	if err == nil {
		b.model = env.Model
	}
	baseCache[key] = b
	return b
}

func faultClass(p *Plan, fired bool, crashed bool) string {
	switch {
	case crashed:
		return "crash"
	case fired && p.Fault != nil:
		return "fault:" + string(p.Fault.Class)
	}
	return "none"
}

type stepObs struct {
	step   int
	counts map[simfs.OpClass]int
	muts   []simfs.Op
}

func execPlan(t *testing.T, pa any) core.Outcome { return run(t, pa.(*Plan), nil) }

// run executes one plan. The whole simulated part runs inside a synctest
// bubble: go-git closes idle pack files from a 1 s time.AfterFunc, and on
// the real clock that timer fires whenever the process happens to be slow,
// which moves fault ordinals. In the bubble time stands still unless the
// scheduler of the concurrent phase advances it. git runs after the bubble.
func run(t *testing.T, p *Plan, observe func(o stepObs)) (out core.Outcome) {
	hooks.Deterministic(true)
	b := getBase(p)
	if b.err != nil {
		out.Inconclusive = "setup-failed"
		out.Message = b.err.Error()
		return out
	}
	var after func()
	panicked := sched.Bubble(t, func() { after = runInBubble(t, p, b, observe, &out) })
	if panicked != nil {
		if out.Signature == "" {
			out.Inconclusive = "bubble-panic"
			out.Message = fmt.Sprint(panicked)
		}
		return out
	}
	if after != nil && out.Signature == "" && out.Inconclusive == "" {
		after()
	}
	return out
}

func runInBubble(t *testing.T, p *Plan, b *base, observe func(o stepObs), outp *core.Outcome) (after func()) {
	d := b.disk.Clone()
	if p.TickMs > 0 {
		d.Tick = time.Duration(p.TickMs) * time.Millisecond
	}
	out := outp
	w := newWorld(d, imageRoot(p.Slot), b.model, out)
	defer w.closeAll()
	defer func() {
		out.Trace = w.trace
		out.LogHash = core.HashStrings(w.trace)
		out.StateHash = d.Digest(w.root, nil)
	}()
	if msg := w.start(p.MainViaAPI); msg != "" {
		out.Inconclusive = "setup-open-failed"
		out.Message = msg
		return nil
	}
	before := w.snapAll()
	gitSteps := 0
	for i, s := range p.Steps {
		if i >= 16 {
			break
		}
		armed := (p.Mode == "fault" && p.Fault != nil || p.Mode == "crash" && p.Crash != nil) && p.FaultStep == i
		headsBefore := w.resolvedHeads()
		d.ResetCounters()
		d.Record = true
		if armed && p.Mode == "fault" {
			d.SetFaults([]simfs.Fault{*p.Fault})
		}
		if armed && p.Mode == "crash" {
			d.SetCrash(*p.Crash)
		}
		nlive := len(w.live())
		info := w.do(s)
		log := d.Log
		d.Record = false
		fired := 0
		for _, v := range d.FaultsFired {
			fired += v
		}
		crashed := d.Crashed()
		if armed {
			d.SetFaults(nil)
			if fired > 0 {
				out.Faults = map[string]int{string(p.Fault.Class) + ":" + p.Fault.Errno: 1}
			}
			if crashed {
				out.Faults = map[string]int{"crash@" + info.kind: 1}
			}
		}
		if observe != nil && !info.user {
			var muts []simfs.Op
			for _, op := range log {
				if op.MutN > 0 {
					muts = append(muts, op)
				}
			}
			observe(stepObs{step: i, counts: d.ClassCounts(), muts: muts})
		}
		out.Steps++
		fc := faultClass(p, fired > 0, crashed)
		if !info.user {
			gitSteps++
			if nlive >= 2 {
				out.NonTrivial = true
			}
		}
		if crashed {
			w.afterStop(p, info, log, before, fc)
			return nil
		}
		if info.addOK {
			np, err := w.openParty(d, info.target, true)
			if err != nil {
				out.Fail(fmt.Sprintf("C33|add|open-failed|%s|%s", info.addMode, fc), "Add of worktree %q (%s) succeeded but opening it fails: %v", info.target.name, info.addMode, err)
				return nil
			}
			info.target.party = np
		}
		after := w.snapAll()
		if w.judgeStep(p, info, log, before, after, headsBefore, fc) {
			return nil
		}
		if fired > 0 {
			w.afterFault(p, info, fc)
			return nil
		}
		before = after
	}
	if p.Mode == "conc" && p.Conc != nil {
		w.concPhase(t, p)
		return nil
	}
	if p.Mode != "" {
		if p.Mode == "fault" && p.Fault != nil || p.Mode == "crash" && p.Crash != nil {
			out.Inconclusive = "fault-point-not-reached"
		}
		return nil
	}
	if w.finalReopen() {
		return nil
	}
	if p.Route {
		routeTable(out)
		if out.Signature != "" {
			return nil
		}
	}
	if p.Git && mod(p.Slot, 9) != 0 {
		img := d.Clone()
		return func() { w.gitOracle(p, img) }
	}
	return nil
}

func newWorld(d *simfs.Disk, root string, m *gen.Model, out *core.Outcome) *world {
	w := &world{d: d, root: root, model: m, out: out, refs: map[string]string{}, advancedBy: map[string]string{}, everRemoved: map[string]bool{}}
	for _, c := range m.Commits {
		w.commits = append(w.commits, c.Hash)
	}
	w.wts = []*wtState{{name: "", root: root + "/main", gitdir: root + "/main/.git", status: "live"}}
	return w
}

// start opens the main party and initialises the reference model from the
// generator's model, cross-checked against the disk.
func (w *world) start(viaAPI bool) string {
	mp, err := w.openParty(w.d, w.wts[0], viaAPI)
	if err != nil {
		return err.Error()
	}
	w.wts[0].party = mp
	for n, h := range w.model.Refs {
		w.refs[n] = h.String()
	}
	if g := groundRefs(w.d, w.common()); !sameMap(g, w.refs) {
		return "generator model and disk disagree on refs: " + mapDiffKey(g, w.refs)
	}
	return ""
}

func (w *world) resolvedHeads() map[string]string {
	out := map[string]string{}
	for _, s := range w.wts {
		out[s.name] = w.headCommit(s)
	}
	return out
}

func arrow(a, v *wtState) string {
	ac := "none"
	if a != nil {
		ac = a.class()
	}
	return ac + "→" + v.class()
}

// judgeStep applies oracles 1-4 to one completed step. true = violation.
func (w *world) judgeStep(p *Plan, info stepInfo, log []simfs.Op, before, after map[string]snap, headsBefore map[string]string, fc string) bool {
	out, d := w.out, w.d
	kind := info.kind
	if info.clobbered != nil {
		out.Fail(fmt.Sprintf("C33|add|clobbered-live-worktree:readded|%s|%s", arrow(info.actor, info.clobbered), fc), "Add(%q) by %s succeeded although worktree %s is live: its HEAD, index and files were re-initialised under the party working in it", info.clobbered.name, label(info.actor), info.clobbered.name)
		return true
	}
	// 1. isolation
	for _, s := range w.wts {
		if s == info.target {
			continue
		}
		bs, ok := before[s.name]
		if !ok {
			continue
		}
		if comp, what := bs.diff(after[s.name]); comp != "" {
			if s == info.named {
				out.Fail(fmt.Sprintf("C33|add|clobbered-live-worktree:%s|%s|%s", comp, arrow(info.actor, s), fc),
					"Add(%q) by %s (result %s) changed %s of the live worktree of that name (%s)", s.name, label(info.actor), errKind(info.err), comp, what)
				return true
			}
			out.Fail(fmt.Sprintf("C33|%s|changed-other:%s|%s|%s", kind, comp, arrow(info.actor, s), fc),
				"step %s acting in %s changed %s of worktree %s (%s)", kind, label(info.target), comp, s.label(), what)
			return true
		}
	}
	if info.user {
		return false
	}
	// 2. footprint
	if comp, victim, path := w.footprint(log, info.actor, info.target); comp != "" {
		if strings.HasPrefix(comp, "shared-path-written-privately") {
			out.Fail(fmt.Sprintf("C33|%s|%s|%s|%s", kind, comp, info.actor.class(), fc),
				"step %s in linked worktree %s wrote %s: git keeps that path in the common dir, so what was written is not shared", kind, label(info.target), path)
		} else {
			out.Fail(fmt.Sprintf("C33|%s|footprint:%s|%s|%s", kind, comp, arrow(info.actor, victim), fc),
				"step %s acting in %s wrote %s, which belongs to worktree %s", kind, label(info.target), path, victim.label())
		}
		return true
	}
	// 3. administrative files of a new worktree (VERIF_C33_NOSTRUCT=1 is a
	// development aid for sensitivity trials of the git oracle alone)
	if info.addOK && os.Getenv("VERIF_C33_NOSTRUCT") == "" {
		if f, msg := w.adminFormat(info.target, strings.HasPrefix(info.addMode, "detached")); f != "" {
			out.Fail(fmt.Sprintf("C33|add|admin-format:%s|%s|%s", f, info.addMode, fc), "Add returned success: %s", msg)
			return true
		}
	}
	// 4a. reference model against the common dir
	ground := groundRefs(d, w.common())
	if info.err == nil {
		for k, v := range info.set {
			if perWorktreeRef(k) {
				continue
			}
			if v == "" {
				delete(w.refs, k)
			} else {
				w.refs[k] = v
			}
		}
	} else {
		for _, k := range info.touched {
			if k == "*" {
				w.refs = map[string]string{}
				for n, v := range ground {
					w.refs[n] = v
				}
				break
			}
			if v, ok := ground[k]; ok {
				w.refs[k] = v
			} else {
				delete(w.refs, k)
			}
		}
	}
	if !sameMap(w.refs, ground) {
		name := mapDiffKey(w.refs, ground)
		how := "stale"
		switch {
		case ground[name] == "":
			how = "lost"
		case w.refs[name] == "":
			how = "unexpected"
		}
		out.Fail(fmt.Sprintf("C33|%s|shared-ref-wrong:%s|%s|%s", kind, how, info.actor.class(), fc),
			"after step %s in %s (result %s) the shared reference %s is %q in the common dir, expected %q", kind, label(info.target), errKind(info.err), name, ground[name], w.refs[name])
		return true
	}
	if fc != "none" && info.err != nil {
		return false // the fault oracle takes over (listing may meet a torn ref file: C21's subject)
	}
	// 4b. every party sees the shared store, and its own HEAD and index
	for _, s := range w.live() {
		pv, err := viewRefs(s.party)
		if err != nil {
			out.Fail(fmt.Sprintf("C33|%s|shared-refs-unlistable|%s|%s", kind, arrow(info.actor, s), fc), "after step %s in %s, worktree %s cannot list references: %v", kind, label(info.target), s.label(), err)
			return true
		}
		if !sameMap(pv, ground) {
			name := mapDiffKey(pv, ground)
			out.Fail(fmt.Sprintf("C33|%s|shared-ref-not-visible|%s|%s", kind, arrow(info.actor, s), fc),
				"after step %s in %s, worktree %s sees %s = %q but the common dir has %q", kind, label(info.target), s.label(), name, pv[name], ground[name])
			return true
		}
		if msg := w.ownState(s); msg != "" {
			out.Fail(fmt.Sprintf("C33|%s|party-reads-wrong:%s|%s|%s", kind, strings.SplitN(msg, ":", 2)[0], s.class(), fc), "after step %s in %s, worktree %s: %s", kind, label(info.target), s.label(), msg)
			return true
		}
	}
	// 4c. objects stored by the step are readable from everyone else
	objs := append(append([]plumbing.Hash{}, info.newObjs...), newObjectsIn(log, w.common())...)
	if len(objs) > 8 {
		objs = objs[:8]
	}
	for _, s := range w.live() {
		if s == info.actor {
			continue
		}
		for _, h := range objs {
			if err := readableFrom(s.party, h); err != nil {
				out.Fail(fmt.Sprintf("C33|%s|shared-object-not-visible|%s|%s", kind, arrow(info.actor, s), fc), "object %s stored by step %s in %s is not readable from worktree %s: %v", h, kind, label(info.target), s.label(), err)
				return true
			}
		}
		if len(objs) > 0 {
			out.Probe("object-from-one-worktree-read-from-another")
		}
	}
	w.stepProbes(info, before, after, headsBefore)
	return false
}

func label(s *wtState) string {
	if s == nil {
		return "no worktree"
	}
	return s.label()
}

// ownState compares what a party reads as its HEAD and index with its own
// files on the disk.
func (w *world) ownState(s *wtState) string {
	hb, _ := w.d.ReadFile(s.gitdir + "/HEAD")
	ref, err := s.party.repo.Storer.Reference(plumbing.HEAD)
	if err != nil {
		return fmt.Sprintf("HEAD: unreadable through its Repository: %v", err)
	}
	got := ref.Hash().String()
	if ref.Type() == plumbing.SymbolicReference {
		got = "ref: " + string(ref.Target())
	}
	if got != strings.TrimSpace(string(hb)) {
		return fmt.Sprintf("HEAD: its Repository reads %q, its HEAD file holds %q", got, strings.TrimSpace(string(hb)))
	}
	is, ok := s.party.repo.Storer.(storer.IndexStorer)
	if !ok {
		return ""
	}
	idx, err := is.Index()
	if err != nil {
		return fmt.Sprintf("index: unreadable through its Repository: %v", err)
	}
	want := ""
	if ib, ok := w.d.ReadFile(s.gitdir + "/index"); ok {
		di, err := decodeIndex(ib)
		if err != nil {
			return "" // the acting worktree's own index is not this property's subject
		}
		want = indexEntries(di)
	}
	if got := indexEntries(idx); got != want {
		return fmt.Sprintf("index: its Repository reads %d bytes of entries, its index file holds %d", len(got), len(want))
	}
	return ""
}

func (w *world) stepProbes(info stepInfo, before, after map[string]snap, headsBefore map[string]string) {
	out := w.out
	t := info.target
	if t != nil {
		// two index files written within one mtime tick
		if a, b := after[t.name], before[t.name]; a.imt != 0 && (a.imt != b.imt || a.index != b.index) {
			for _, s := range w.wts {
				if s != t && s.status == "live" && after[s.name].imt == a.imt {
					out.Probe("two-worktrees-index-same-mtime-tick")
					break
				}
			}
		}
	}
	if info.err != nil {
		return
	}
	// resolved HEAD of another worktree moved because a shared branch moved
	for _, s := range w.wts {
		if s != t && s.status == "live" && headsBefore[s.name] != w.headCommit(s) {
			out.Probe("shared-branch-moved-under-other-worktree")
		}
	}
	if strings.HasPrefix(info.kind, "checkout") && t != nil {
		seen := map[string]bool{}
		for _, s := range w.live() {
			if b := symTarget(after[s.name].head); b != "" {
				if seen[b] {
					out.Probe("same-branch-checked-out-in-two-worktrees")
				}
				seen[b] = true
			}
		}
		if t.name != "" && before[t.name].head != after[t.name].head {
			out.Probe("main-head-untouched-by-linked-checkout")
		}
	}
	if len(info.set) > 0 && len(w.live()) >= 2 {
		for k, v := range info.set {
			if v != "" && !perWorktreeRef(k) {
				out.Probe("ref-written-in-one-worktree-listed-from-another")
				break
			}
		}
	}
	if info.kind == "set-ref" {
		for k := range info.set {
			if !perWorktreeRef(k) {
				continue
			}
			for _, s := range w.live() {
				if s == info.actor {
					continue
				}
				ns := strings.SplitN(k, "/", 3)[1]
				if _, err := s.party.repo.Storer.Reference(plumbing.ReferenceName(k)); err == nil {
					out.Probe("git-per-worktree-ref-shared-by-go-git:" + ns)
				} else {
					out.Probe("git-per-worktree-ref-private:" + ns)
				}
				break
			}
		}
	}
}

// finalReopen: every live worktree is opened by a fresh process and must see
// the shared store and its own HEAD and index.
func (w *world) finalReopen() bool {
	ground := groundRefs(w.d, w.common())
	for _, s := range w.wts {
		if s.status != "live" {
			continue
		}
		np, err := w.openParty(w.d, s, true)
		if err != nil {
			w.out.Fail(fmt.Sprintf("C33|open|open-failed|%s|none", s.class()), "worktree %s does not open at the end of the history: %v", s.label(), err)
			return true
		}
		old := s.party
		s.party = np
		old.close()
		pv, err := viewRefs(np)
		if err != nil || !sameMap(pv, ground) {
			w.out.Fail(fmt.Sprintf("C33|open|shared-ref-not-visible|none→%s|none", s.class()), "a fresh process opening worktree %s sees %s differently from the common dir (%v)", s.label(), mapDiffKey(pv, ground), err)
			return true
		}
		if msg := w.ownState(s); msg != "" {
			w.out.Fail(fmt.Sprintf("C33|open|party-reads-wrong:%s|%s|none", strings.SplitN(msg, ":", 2)[0], s.class()), "a fresh process opening worktree %s: %s", s.label(), msg)
			return true
		}
	}
	return false
}

// afterFault: the run ends after a step during which an injected disk error
// fired. Isolation, footprint and the reference model were already judged by
// judgeStep; here the OTHER worktrees and the common dir are re-opened.
func (w *world) afterFault(p *Plan, info stepInfo, fc string) {
	w.out.Probe("reopen-after-fault")
	if info.err != nil {
		w.out.Probe("op-failed-after-fault:" + strings.SplitN(info.kind, ":", 2)[0])
	} else {
		w.out.Probe("op-succeeded-despite-fault")
	}
	w.reopenOthers(w.d, info, fc)
}

// afterStop: the process died inside the step. Everything is judged on the
// frozen image, through brand-new parties on a copy of it.
func (w *world) afterStop(p *Plan, info stepInfo, log []simfs.Op, before map[string]snap, fc string) {
	out := w.out
	out.Probe("reopen-after-crash")
	out.Probe("crash-in:" + strings.SplitN(info.kind, ":", 2)[0])
	after := w.snapAll()
	for _, s := range w.wts {
		if s == info.target {
			continue
		}
		bs, ok := before[s.name]
		if !ok {
			continue
		}
		if comp, what := bs.diff(after[s.name]); comp != "" {
			if s == info.named {
				out.Fail(fmt.Sprintf("C33|add|clobbered-live-worktree:%s|%s|%s", comp, arrow(info.actor, s), fc), "Add(%q) by %s, stopped part-way, changed %s of the live worktree of that name (%s)", s.name, label(info.actor), comp, what)
				return
			}
			out.Fail(fmt.Sprintf("C33|%s|changed-other:%s|%s|%s", info.kind, comp, arrow(info.actor, s), fc), "step %s acting in %s, stopped part-way, changed %s of worktree %s (%s)", info.kind, label(info.target), comp, s.label(), what)
			return
		}
	}
	if comp, victim, path := w.footprint(log, info.actor, info.target); comp != "" && !strings.HasPrefix(comp, "shared-path") {
		out.Fail(fmt.Sprintf("C33|%s|footprint:%s|%s|%s", info.kind, comp, arrow(info.actor, victim), fc), "step %s acting in %s wrote %s, which belongs to worktree %s", info.kind, label(info.target), path, victim.label())
		return
	}
	post := w.d.Clone()
	w.reopenOthers(post, info, fc)
}

// reopenOthers opens every live worktree other than the step's target, and
// the common dir, with fresh parties over disk d.
func (w *world) reopenOthers(d *simfs.Disk, info stepInfo, fc string) {
	out := w.out
	touched := map[string]bool{}
	all := false
	for _, k := range info.touched {
		if k == "*" {
			all = true
		}
		touched[k] = true
	}
	for _, s := range w.wts {
		if s.status != "live" || s == info.target {
			continue
		}
		np, err := w.openParty(d, s, true)
		if err != nil {
			out.Fail(fmt.Sprintf("C33|%s|other-worktree-unopenable|%s|%s", info.kind, arrow(info.actor, s), fc), "after step %s in %s failed part-way, worktree %s no longer opens: %v", info.kind, label(info.target), s.label(), err)
			return
		}
		hb, _ := d.ReadFile(s.gitdir + "/HEAD")
		ref, err := np.repo.Storer.Reference(plumbing.HEAD)
		got := ""
		if err == nil {
			got = ref.Hash().String()
			if ref.Type() == plumbing.SymbolicReference {
				got = "ref: " + string(ref.Target())
			}
		}
		if err != nil || got != strings.TrimSpace(string(hb)) {
			np.close()
			out.Fail(fmt.Sprintf("C33|%s|party-reads-wrong:HEAD|%s|%s", info.kind, s.class(), fc), "after step %s in %s failed part-way, a fresh process reads HEAD of worktree %s as %q (%v), its file holds %q", info.kind, label(info.target), s.label(), got, err, strings.TrimSpace(string(hb)))
			return
		}
		if !all {
			names := make([]string, 0, len(w.refs))
			for n := range w.refs {
				names = append(names, n)
			}
			sort.Strings(names)
			for _, n := range names {
				if touched[n] {
					continue
				}
				r, err := np.repo.Storer.Reference(plumbing.ReferenceName(n))
				if err != nil || r.Hash().String() != w.refs[n] {
					np.close()
					out.Fail(fmt.Sprintf("C33|%s|shared-ref-lost-after-fault|%s|%s", info.kind, arrow(info.actor, s), fc), "after step %s in %s failed part-way, worktree %s reads %s as %v (%v), expected %s", info.kind, label(info.target), s.label(), n, r, err, w.refs[n])
					return
				}
				if err := readableFrom(np, r.Hash()); err != nil {
					np.close()
					out.Fail(fmt.Sprintf("C33|%s|shared-object-not-visible|%s|%s", info.kind, arrow(info.actor, s), fc), "after step %s in %s failed part-way, worktree %s cannot read the object %s points at: %v", info.kind, label(info.target), s.label(), n, err)
					return
				}
			}
		}
		np.close()
		out.Probe("other-worktree-reopened-after-failure")
	}
}

func TestCheck(t *testing.T) {
	core.Main(t, core.Check{
		ID:    "C33",
		Level: "exploration",
		Rule: "plan = generated repository (3-7 commits, side branch, tags, optionally packed refs / repacked) at <root>/main x mtime tick {1ns,1ms,1s} x history of 3-14 steps over " +
			"{wt-add (new branch at HEAD/at commit, detached; names incl. an existing branch and re-used names), wt-remove, reopen, edit, rmfile, add, commit, checkout (branch/hash/create/create-existing, force or not), " +
			"reset soft/mixed/hard, status, branch create/delete, tag create/delete, SetReference in refs/worktree|bisect|rewritten|notes, pack-refs, tick}, each in a drawn worktree (main or one of the linked ones, every one opened as its own party) after a drawn clock advance that may be zero; " +
			"configurations: plain (58%), one injected disk error at a sampled (class, ordinal) of one step (20%), process stop at a sampled mutating operation of one step, torn or whole (15%), " +
			"2-3 parties working concurrently under the seeded scheduler (7%); non-trivial = a go-git call ran while at least two worktrees were live",
		Assumptions: []string{"per-worktree state is read straight from the disk image (HEAD bytes, index bytes, every file, private admin files), the shared reference store as loose-over-packed from the common dir",
			"a party = own Storage + own worktree manager + own Repository over the one disk; parties share no Go values",
			"crash = process stop (completed disk operations persist, the stopping write may be torn)",
			"git 2.39.5 is a function of the exported end image only (1 in 50 plain plans in quick, 1 in 8 in thorough), pinned environment",
			"references the failed call itself writes are not judged after a fault (torn loose refs are C21's subject)"},
		Real: []string{"x/plumbing/worktree Add/Remove/Open", "dotgit.RepositoryFilesystem path routing", "storage/filesystem (refs, packed-refs, objects, index)",
			"Worktree.Add/Commit/Checkout/Reset/Status", "Repository.CreateTag/DeleteTag", "Storer.SetReference/RemoveReference/PackRefs"},
		Stub:    []string{"disk (simfs): one image for all parties, mtime tick, fault ordinals, process stop", "clock (manual; synctest in the concurrent configuration)", "scheduler (seeded driver, concurrent configuration only)"},
		Runs:    map[string]int{"quick": 4000, "thorough": 60000},
		NewPlan: func() any { return &Plan{} },
		Gen:     genPlan,
		Expand:  expand,
		Exec:    execPlan,
		RequiredProbes: []string{"add-ok:new-branch-at-head", "add-ok:new-branch-at-commit", "add-ok:detached-at-commit", "add-ok:detached-at-head", "add-refused:already-exists", "add-refused:worktree-already-exists",
			"remove-ok", "removed-then-readded-same-name", "reopen:main", "reopen:linked", "two-worktrees-index-same-mtime-tick", "linked-commit-advanced-branch-then-main-checked-it-out",
			"same-branch-checked-out-in-two-worktrees", "shared-branch-moved-under-other-worktree", "main-head-untouched-by-linked-checkout", "ref-written-in-one-worktree-listed-from-another",
			"object-from-one-worktree-read-from-another", "commit-ok:linked", "commit-ok:main", "reopen-after-fault", "reopen-after-crash", "other-worktree-reopened-after-failure",
			"op-failed-after-fault:add", "crash-in:add", "crash-in:remove", "crash-in:commit", "op-failed-after-fault:remove", "op-succeeded-despite-fault",
			"git-oracle-run", "git-listed:linked", "git-status-clean-verified", "conc:both-commits-landed", "conc:worktree-added-while-others-worked", "conc:context-switches"},
	})
}
