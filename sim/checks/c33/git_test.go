//go:build verif

package c33

// git 2.39 as a function of the exported end image. The image already lives
// at the path it is exported to (/var/tmp/c33-x/s<slot>), so the absolute
// paths inside gitdir files and .git files are valid as written by go-git
// and nothing is rewritten. A slot is held under an flock while it exists on
// the real disk (several worker processes may draw the same slot) and is
// removed before the lock is released; only the empty lock files
// /var/tmp/c33-x/s<slot>.lock are left behind.

import (
	"fmt"
	"os"
	"os/exec"
	"strings"
	"syscall"

	"github.com/go-git/go-git/v6/verifsim/simfs"
)

const zeroHash = "0000000000000000000000000000000000000000"

type wtBlock struct {
	path, head, branch string
	detached, prunable bool
}

func parseWorktreeList(s string) []wtBlock {
	var out []wtBlock
	for _, blk := range strings.Split(strings.TrimSpace(s), "\n\n") {
		var b wtBlock
		for _, line := range strings.Split(blk, "\n") {
			switch {
			case strings.HasPrefix(line, "worktree "):
				b.path = strings.TrimPrefix(line, "worktree ")
			case strings.HasPrefix(line, "HEAD "):
				b.head = strings.TrimPrefix(line, "HEAD ")
			case strings.HasPrefix(line, "branch "):
				b.branch = strings.TrimPrefix(line, "branch ")
			case line == "detached":
				b.detached = true
			case strings.HasPrefix(line, "prunable"):
				b.prunable = true
			}
		}
		if b.path != "" {
			out = append(out, b)
		}
	}
	return out
}

func (w *world) gitOracle(p *Plan, img *simfs.Disk) {
	out := w.out
	root := w.root
	if err := os.MkdirAll("/var/tmp/c33-x", 0o755); err != nil {
		out.Probe("git-oracle-skipped")
		return
	}
	lf, err := os.OpenFile(root+".lock", os.O_CREATE|os.O_RDWR, 0o644)
	if err != nil {
		out.Probe("git-oracle-skipped")
		return
	}
	defer lf.Close()
	if err := syscall.Flock(int(lf.Fd()), syscall.LOCK_EX); err != nil {
		out.Probe("git-oracle-skipped")
		return
	}
	defer syscall.Flock(int(lf.Fd()), syscall.LOCK_UN)
	_ = os.RemoveAll(root)
	defer os.RemoveAll(root)
	if err := img.Export(root, root); err != nil {
		out.Probe("git-oracle-skipped")
		return
	}
	home := root + "/home"
	_ = os.MkdirAll(home, 0o755)
	env := []string{"PATH=" + os.Getenv("PATH"), "HOME=" + home, "GIT_CONFIG_NOSYSTEM=1", "GIT_CONFIG_GLOBAL=/dev/null", "LC_ALL=C", "TZ=UTC",
		"GIT_AUTHOR_NAME=Sim", "GIT_AUTHOR_EMAIL=sim@example.com", "GIT_COMMITTER_NAME=Sim", "GIT_COMMITTER_EMAIL=sim@example.com",
		"GIT_AUTHOR_DATE=1600000000 +0000", "GIT_COMMITTER_DATE=1600000000 +0000", "GIT_TERMINAL_PROMPT=0", "GIT_OPTIONAL_LOCKS=0"}
	git := func(dir string, args ...string) (string, error) {
		cmd := exec.Command("/usr/bin/git", append([]string{"-C", dir}, args...)...)
		cmd.Env = env
		o, err := cmd.CombinedOutput()
		return string(o), err
	}
	first := func(s string) string {
		s = strings.SplitN(strings.TrimSpace(s), "\n", 2)[0]
		if len(s) > 200 {
			s = s[:200]
		}
		return s
	}
	out.Probe("git-oracle-run")
	lst, err := git(root+"/main", "worktree", "list", "--porcelain")
	if err != nil {
		out.Fail("C33|git-rejects|worktree-list:exit|main", "git worktree list --porcelain fails on the end image: %v: %s", err, first(lst))
		return
	}
	blocks := parseWorktreeList(lst)
	for _, s := range w.wts {
		if s.status != "live" {
			continue
		}
		var b *wtBlock
		for i := range blocks {
			if blocks[i].path == s.root {
				b = &blocks[i]
			}
		}
		if b == nil {
			out.Fail("C33|git-rejects|worktree-list:missing|"+s.class(), "git worktree list does not list live worktree %s (%s)", s.label(), s.root)
			return
		}
		hb, _ := img.ReadFile(s.gitdir + "/HEAD")
		wantBranch := symTarget(string(hb))
		wantHead := w.headCommit(s)
		if wantHead == "" {
			wantHead = zeroHash
		}
		switch {
		case b.prunable:
			out.Fail("C33|git-rejects|worktree-list:prunable|"+s.class(), "git considers live worktree %s prunable", s.label())
			return
		case b.head != wantHead:
			out.Fail("C33|git-rejects|worktree-list:head|"+s.class(), "git lists worktree %s at %s, its HEAD on the disk resolves to %s", s.label(), b.head, wantHead)
			return
		case wantBranch != b.branch || (wantBranch == "") != b.detached:
			out.Fail("C33|git-rejects|worktree-list:branch|"+s.class(), "git lists worktree %s on branch %q (detached=%v), its HEAD names %q", s.label(), b.branch, b.detached, wantBranch)
			return
		}
		out.Probe("git-listed:" + s.class())
	}
	for _, s := range w.wts {
		if s.status != "live" {
			continue
		}
		st, err := git(s.root, "status", "--porcelain", "--untracked-files=all")
		if err != nil {
			out.Fail("C33|git-rejects|status:exit|"+s.class(), "git -C %s status fails: %v: %s", s.root, err, first(st))
			return
		}
		sameHead := s.freshAt != "" && s.freshAt == w.headCommit(s)
		switch {
		case s.fresh && sameHead:
			if st != "" {
				out.Fail("C33|git-rejects|status:not-clean-after-add|"+s.class(), "nothing happened in worktree %s since go-git added it, git status says: %s", s.label(), first(st))
				return
			}
			out.Probe("git-status-clean-verified")
		case s.oneEdit != "" && sameHead:
			if st != " M "+s.oneEdit+"\n" {
				out.Fail("C33|git-rejects|status:one-edit-mismatch|"+s.class(), "only %s was edited in worktree %s since go-git added it, git status says: %q", s.oneEdit, s.label(), st)
				return
			}
			out.Probe("git-status-one-edit-verified")
		}
		out.Probe("git-status-ok:" + s.class())
	}
	if fo, err := git(root+"/main", "fsck", "--no-dangling"); err != nil {
		out.Fail("C33|git-rejects|fsck:"+fsckClass(fo)+"|main", "git fsck fails on the end image: %v: %s", err, first(fo))
		return
	}
	_ = fmt.Sprint
}

func fsckClass(o string) string {
	switch {
	case strings.Contains(o, "worktrees/"):
		return "worktree-admin"
	case strings.Contains(o, "index"):
		return "index"
	case strings.Contains(o, "missing"), strings.Contains(o, "broken link"):
		return "missing-object"
	case strings.Contains(o, "ref"):
		return "ref"
	}
	return "other"
}
