//go:build verif

package c33

import (
	"fmt"
	"sort"
	"testing"

	"github.com/go-git/go-git/v6/storage/filesystem/dotgit"
	"github.com/go-git/go-git/v6/verifsim/core"
	"github.com/go-git/go-git/v6/verifsim/simfs"
)

// expand turns a fault / crash plan into runs: a fault-free dry run of the
// history up to the chosen step counts that step's disk operations, then a
// sample of (class, ordinal) faults or of (mutating operation, torn variant)
// process stops is executed, one per run.
func expand(t *testing.T, pa any, tier string) []any {
	p := pa.(*Plan)
	if p.Mode != "fault" && p.Mode != "crash" {
		return []any{p}
	}
	if p.FaultStep < 0 || p.FaultStep >= len(p.Steps) {
		return []any{p}
	}
	q := *p
	q.Mode, q.Fault, q.Crash, q.Git, q.Route = "dry", nil, nil, false, false
	q.Steps = p.Steps[:p.FaultStep+1]
	var obs *stepObs
	run(t, &q, func(o stepObs) {
		if o.step == p.FaultStep {
			oc := o
			obs = &oc
		}
	})
	if obs == nil {
		return []any{p}
	}
	r := core.NewRand(p.RepoSeed*131 + uint64(len(p.Steps))*17 + uint64(p.FaultStep)*7 + 3)
	limit := 5
	if tier == "thorough" {
		limit = 24
	}
	var out []any
	if p.Mode == "fault" {
		type cand struct {
			class simfs.OpClass
			nth   int
		}
		var cands []cand
		for _, c := range []simfs.OpClass{simfs.OpWrite, simfs.OpCreate, simfs.OpOpen, simfs.OpRead, simfs.OpStat, simfs.OpRename, simfs.OpClose, simfs.OpRemove, simfs.OpReadDir, simfs.OpMkdir, simfs.OpChmod, simfs.OpSymlink} {
			for k := 1; k <= obs.counts[c]; k++ {
				cands = append(cands, cand{c, k})
			}
		}
		// mutating classes first in the sample: half of the picks
		var mut, rest []cand
		for _, c := range cands {
			switch c.class {
			case simfs.OpWrite, simfs.OpCreate, simfs.OpRename, simfs.OpRemove, simfs.OpMkdir, simfs.OpClose:
				mut = append(mut, c)
			default:
				rest = append(rest, c)
			}
		}
		pick := func(from []cand, n int) []cand {
			for i := len(from) - 1; i > 0; i-- {
				j := r.Intn(i + 1)
				from[i], from[j] = from[j], from[i]
			}
			if len(from) > n {
				from = from[:n]
			}
			return from
		}
		chosen := append(pick(mut, limit-limit/3), pick(rest, limit/3)...)
		sort.Slice(chosen, func(i, j int) bool {
			if chosen[i].class != chosen[j].class {
				return chosen[i].class < chosen[j].class
			}
			return chosen[i].nth < chosen[j].nth
		})
		for _, c := range chosen {
			errno := "EIO"
			switch c.class {
			case simfs.OpWrite:
				errno = []string{"ENOSPC", "SHORT", "EIO"}[r.Intn(3)]
			case simfs.OpCreate, simfs.OpOpen:
				errno = []string{"EACCES", "EMFILE"}[r.Intn(2)]
			}
			v := *p
			v.Fault = &simfs.Fault{Class: c.class, Nth: c.nth, Errno: errno, Short: r.Intn(64)}
			out = append(out, &v)
		}
	} else {
		n := len(obs.muts)
		var ks []int
		for k := 1; k <= n; k++ {
			ks = append(ks, k)
		}
		for i := len(ks) - 1; i > 0; i-- {
			j := r.Intn(i + 1)
			ks[i], ks[j] = ks[j], ks[i]
		}
		if len(ks) > limit {
			ks = ks[:limit]
		}
		sort.Ints(ks)
		for _, k := range ks {
			torn := 1
			switch obs.muts[k-1].Class {
			case simfs.OpWrite:
				torn = []int{1, 3, 2 + 17, 0}[r.Intn(4)]
			case simfs.OpMkdir:
				torn = []int{1, 3}[r.Intn(2)]
			default:
				torn = []int{1, 1, 0}[r.Intn(3)]
			}
			v := *p
			v.Crash = &simfs.Crash{AtMut: k, Torn: torn}
			out = append(out, &v)
		}
	}
	if len(out) == 0 {
		return []any{p}
	}
	return out
}

// routeTable drives dotgit.RepositoryFilesystem directly: one Create per path
// through the dual filesystem, then a look at where the file landed. Rows the
// statement covers (HEAD and index private; refs/heads, refs/tags,
// packed-refs, objects, config shared) are judged; rows where go-git merely
// differs from git's documented list are counted.
func routeTable(out *core.Outcome) {
	d := simfs.NewDisk()
	common := d.FS("/c/.git", "route")
	private := d.FS("/c/.git/worktrees/x", "route")
	rfs := dotgit.NewRepositoryFilesystem(private, common)
	rows := []struct {
		path    string
		private bool // git's rule
		judged  bool
	}{
		{"HEAD", true, true}, {"index", true, true},
		{"refs/heads/b", false, true}, {"refs/tags/t", false, true}, {"packed-refs", false, true}, {"objects/ab/cdef", false, true}, {"config", false, true},
		{"ORIG_HEAD", true, false}, {"FETCH_HEAD", true, false}, {"MERGE_HEAD", true, false}, {"logs/HEAD", true, false}, {"logs/refs/heads/b", false, false},
		{"refs/worktree/x", true, false}, {"refs/bisect/x", true, false}, {"refs/rewritten/x", true, false}, {"info/sparse-checkout", true, false},
		{"info/exclude", false, false}, {"shallow", false, false}, {"config.worktree", true, false}, {"hooks/pre-commit", false, false},
	}
	for _, row := range rows {
		f, err := rfs.Create(row.path)
		if err != nil {
			continue
		}
		_, _ = f.Write([]byte("x\n"))
		_ = f.Close()
		_, inPrivate := d.ReadFile("/c/.git/worktrees/x/" + row.path)
		if inPrivate == row.private {
			continue
		}
		where := map[bool]string{true: "private", false: "common"}[inPrivate]
		if row.judged {
			out.Fail(fmt.Sprintf("C33|route|%s->%s", row.path, where), "RepositoryFilesystem creates %s in the %s git dir", row.path, where)
			return
		}
		out.Probe("route-differs-from-git:" + row.path + "->" + where)
	}
	// the packed-refs rewrite: a temporary file without a directory, renamed over packed-refs
	if tf, err := rfs.TempFile("", "._packed-refs"); err == nil {
		_, _ = tf.Write([]byte("# pack-refs with: peeled fully-peeled sorted \n"))
		name := tf.Name()
		_ = tf.Close()
		if err := rfs.Rename(name, "packed-refs"); err == nil {
			if b, ok := d.ReadFile("/c/.git/packed-refs"); !ok || string(b) == "x\n" {
				out.Fail("C33|route|shared-path-written-privately:packed-refs|linked|none", "a temporary file created with TempFile(\"\", ...) and renamed to packed-refs through RepositoryFilesystem does not replace the common dir's packed-refs")
				return
			}
		}
	}
	out.Probe("route-table-run")
}
