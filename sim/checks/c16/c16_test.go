// C16 — reference updates are atomic compare-and-swap operations.
//
// N client tasks issue reads and check-and-set updates on ONE reference while
// a maintenance task may run PackRefs. Every disk operation of every task is
// a scheduling point chosen by the seeded driver. The recorded history is
// checked for linearizability against a CAS-register model with porcupine.
package c16

import (
	"encoding/json"
	"errors"
	"fmt"
	"os"
	"strings"
	"sync/atomic"
	"testing"
	"time"

	"github.com/anishathalye/porcupine"
	"github.com/go-git/go-git/v6/plumbing"
	"github.com/go-git/go-git/v6/plumbing/cache"
	"github.com/go-git/go-git/v6/storage"
	"github.com/go-git/go-git/v6/storage/filesystem"
	"github.com/go-git/go-git/v6/verifsim/core"
	"github.com/go-git/go-git/v6/verifsim/sched"
	"github.com/go-git/go-git/v6/verifsim/simfs"
)

type TaskPlan struct {
	Ops []string `json:"ops"` // read | cas | pack
}

type Plan struct {
	Init   string         `json:"init"`   // loose | packed | loose+stale
	Shared bool           `json:"shared"` // one Storage shared by all tasks (goroutines) vs one per task (processes)
	Tasks  []TaskPlan     `json:"tasks"`
	Sched  sched.Schedule `json:"sched"`
	TickMs int            `json:"tick_ms"`
}

const refName = plumbing.ReferenceName("refs/heads/r")

func val(k int) plumbing.Hash { return plumbing.NewHash(fmt.Sprintf("%040x", k+1)) }

func gen(r *core.Rand, tier string) any {
	p := &Plan{Init: r.Pick("loose", "packed", "loose+stale"), Shared: r.Bool()}
	nt := r.Range(2, 4)
	total := 0
	for i := 0; i < nt; i++ {
		var tp TaskPlan
		n := r.Range(1, 4)
		for j := 0; j < n && total < 12; j++ {
			switch k := r.Intn(10); {
			case k < 4:
				tp.Ops = append(tp.Ops, "read")
			case k < 9:
				tp.Ops = append(tp.Ops, "cas")
			default:
				tp.Ops = append(tp.Ops, "pack")
			}
			total++
		}
		p.Tasks = append(p.Tasks, tp)
	}
	if r.Chance(1, 3) {
		p.Tasks = append(p.Tasks, TaskPlan{Ops: []string{"pack"}})
	}
	// schedule: either uniform random walk or a few preemptions
	est := 25 * total
	if r.Chance(1, 3) {
		n := r.Range(10, est)
		for i := 0; i < n; i++ {
			p.Sched.Uniform = append(p.Sched.Uniform, r.Intn(8))
		}
	} else {
		np := r.Range(0, 6)
		for i := 0; i < np; i++ {
			p.Sched.Preempts = append(p.Sched.Preempts, sched.Preempt{At: r.Intn(est), Pick: r.Intn(8)})
		}
	}
	for i := 0; i < 8; i++ {
		p.Sched.Fallback = append(p.Sched.Fallback, r.Intn(8))
	}
	if r.Bool() {
		nts := r.Range(1, 4)
		at := 0
		for i := 0; i < nts; i++ {
			at += r.Intn(est/2 + 1)
			p.Sched.TimeSteps = append(p.Sched.TimeSteps, sched.TimeStep{At: at, Ms: r.Pick2(1, 1000, 2500)})
		}
	}
	p.TickMs = []int{0, 1, 1000}[r.Intn(3)]
	return p
}

type regIn struct {
	kind     string // read | cas
	old, new string
}
type regOut struct {
	val string // read: value or "" (absent) or "!err"
	res string // cas: ok | changed | error
}

var model = porcupine.NondeterministicModel{
	Init: func() []interface{} { return []interface{}{""} }, // replaced per run
	Step: func(state, input, output interface{}) []interface{} {
		s := state.(string)
		in := input.(regIn)
		out := output.(regOut)
		switch in.kind {
		case "read":
			if out.val == s {
				return []interface{}{s}
			}
			return nil
		case "cas":
			switch out.res {
			case "ok":
				if s == in.old {
					return []interface{}{in.new}
				}
				return nil
			case "changed":
				return []interface{}{s}
			default: // failed with some other error: may or may not have applied
				if s == in.old {
					return []interface{}{s, in.new}
				}
				return []interface{}{s}
			}
		}
		return nil
	},
}

func exec(t *testing.T, pa any) (out core.Outcome) {
	p := pa.(*Plan)
	var ops []porcupine.Operation
	var ts atomic.Int64
	v0 := val(0)
	stale := val(1)
	next := 2
	var drv *sched.Driver
	var disk *simfs.Disk
	var packIvals [][2]int64

	packedVals := map[string]bool{}
	notePacked := func() {
		b, ok := disk.ReadFile("/g/packed-refs")
		if !ok {
			return
		}
		for _, line := range strings.Split(string(b), "\n") {
			if f := strings.Fields(line); len(f) == 2 && f[1] == string(refName) {
				packedVals[f[0]] = true
			}
		}
	}
	panicked := sched.Bubble(t, func() {
		disk = simfs.NewDisk()
		disk.Clock = time.Now
		if p.TickMs > 0 {
			disk.Tick = time.Duration(p.TickMs) * time.Millisecond
		}
		disk.WriteFile("/g/HEAD", []byte("ref: refs/heads/r\n"), 0o644)
		switch p.Init {
		case "packed":
			disk.WriteFile("/g/packed-refs", []byte("# pack-refs with: peeled fully-peeled sorted \n"+v0.String()+" "+string(refName)+"\n"), 0o644)
		case "loose+stale":
			disk.WriteFile("/g/packed-refs", []byte("# pack-refs with: peeled fully-peeled sorted \n"+stale.String()+" "+string(refName)+"\n"), 0o644)
			disk.WriteFile("/g/"+string(refName), []byte(v0.String()+"\n"), 0o644)
		default:
			disk.WriteFile("/g/"+string(refName), []byte(v0.String()+"\n"), 0o644)
		}
		notePacked()
		drv = sched.New(p.Sched)
		drv.MaxSteps = 3000
		// every value that is EVER in packed-refs counts as "packed" for the readers' classification: a PackRefs
		// publishes its rewrite (rename) before it returns, so a reader can fall back to it mid-pack
		drv.OnStep = func(int) { notePacked() }
		var sharedSt *filesystem.Storage
		if p.Shared {
			// created before the disk is attached to the driver: its I/O is setup, not workload
			sharedSt = filesystem.NewStorage(disk.FS("/g", "shared"), cache.NewObjectLRUDefault())
		}
		disk.Sched = drv
		var tasks []sched.Task
		var mu = make(chan struct{}, 1) // guards ops slice; never contended across parks
		mu <- struct{}{}
		record := func(op porcupine.Operation) { <-mu; ops = append(ops, op); mu <- struct{}{} }
		for i, tp := range p.Tasks {
			if i >= 6 {
				break
			}
			i, tp := i, tp
			name := fmt.Sprintf("c%d", i)
			tasks = append(tasks, sched.Task{Name: name, Fn: func() {
				st := sharedSt
				if st == nil {
					st = filesystem.NewStorage(disk.FS("/g", name), cache.NewObjectLRUDefault())
				}
				var last *plumbing.Reference
				read := func() {
					call := ts.Add(1)
					ref, err := st.Reference(refName)
					o := regOut{}
					switch {
					case err == nil && ref.Type() == plumbing.HashReference:
						o.val = ref.Hash().String()
						last = ref
					case errors.Is(err, plumbing.ErrReferenceNotFound):
						o.val = "absent"
					default:
						o.val = fmt.Sprintf("!%v", err)
					}
					ret := ts.Add(1)
					drv.Logf("%s read -> %s", name, short(o.val))
					record(porcupine.Operation{ClientId: i, Input: regIn{kind: "read"}, Call: call, Output: o, Return: ret})
				}
				for k, op := range tp.Ops {
					if k >= 8 {
						break
					}
					switch op {
					case "read":
						read()
					case "cas":
						if last == nil {
							read()
							if last == nil {
								continue
							}
						}
						<-mu
						nv := val(next)
						next++
						mu <- struct{}{}
						nr := plumbing.NewHashReference(refName, nv)
						call := ts.Add(1)
						err := st.CheckAndSetReference(nr, last)
						o := regOut{}
						switch {
						case err == nil:
							o.res = "ok"
						case errors.Is(err, storage.ErrReferenceHasChanged):
							o.res = "changed"
						default:
							o.res = "error"
							out.Probe("cas-other-error")
						}
						ret := ts.Add(1)
						drv.Logf("%s cas %s->%s : %s (%v)", name, short(last.Hash().String()), short(nv.String()), o.res, err)
						record(porcupine.Operation{ClientId: i, Input: regIn{kind: "cas", old: last.Hash().String(), new: nv.String()}, Call: call, Output: o, Return: ret})
						if err == nil {
							last = nr
						}
					case "pack":
						pc := ts.Add(1)
						err := st.PackRefs()
						pr := ts.Add(1)
						<-mu
						packIvals = append(packIvals, [2]int64{pc, pr})
						notePacked()
						mu <- struct{}{}
						drv.Logf("%s pack : %v", name, err)
						if err != nil {
							out.Probe("pack-error:" + err.Error())
						} else {
							out.Probe("pack-ok")
						}
					}
				}
			}})
		}
		drv.Run(tasks)
	})
	out.Steps = drv.Steps
	out.SimNS = int64(drv.Now())
	out.LogHash = drv.LogHash()
	out.SchedHash = drv.SchedHash()
	out.Trace = drv.Trace
	out.NonTrivial = drv.Switches > 0
	out.ProbeN("context-switches", drv.Switches)
	// Writers meet at <ref>.lock (O_EXCL) since /repo d0aa523: every successful creation of the lock file ends in
	// exactly one rename or removal of it, so the surplus of creations is the number of times a writer found the
	// reference locked by someone else and had to wait. (flock waits, counted by the disk, remain for packed-refs.)
	{
		creates, ends := 0, 0
		for _, line := range drv.Trace {
			f := strings.Fields(line)
			if len(f) == 4 && strings.HasSuffix(f[3], ".lock") {
				switch f[2] {
				case "create":
					creates++
				case "rename", "remove":
					ends++
				}
			}
		}
		if creates > ends {
			out.ProbeN("lock-waits", creates-ends)
		}
		out.ProbeN("lock-waits", disk.LockBlocked)
	}
	if panicked != nil {
		out.Inconclusive = "bubble-panic"
		if os.Getenv("VERIF_DEBUG") != "" {
			fmt.Println("PANIC:", panicked)
			js, _ := json.Marshal(p)
			fmt.Println(string(js))
			for _, l := range drv.Trace {
				fmt.Println("   ", l)
			}
		}
		out.Trace = append(out.Trace, fmt.Sprint(panicked))
		return out
	}
	if drv.Aborted != "" {
		out.Inconclusive = drv.Aborted
		return out
	}
	for name, pv := range drv.TaskPanic {
		out.Fail("C16|panic", "task %s panicked: %v", name, pv)
		return out
	}
	// classify
	type ival struct{ call, ret int64 }
	var casOK, packs []ival
	for _, pi := range packIvals {
		packs = append(packs, ival{pi[0], pi[1]})
	}
	for _, op := range ops {
		if in := op.Input.(regIn); in.kind == "cas" && op.Output.(regOut).res != "changed" {
			casOK = append(casOK, ival{op.Call, op.Return})
		}
	}
	overlaps := func(a ival, bs []ival) bool {
		for _, b := range bs {
			if a.call < b.ret && b.call < a.ret {
				return true
			}
		}
		return false
	}
	packOverlapsCas := false
	for _, c := range casOK {
		if overlaps(c, packs) {
			packOverlapsCas = true
		}
	}
	// The recorded PackRefs defect has one precise shape on the disk: the packing task reads the loose file, ANOTHER
	// task writes the loose file, and then the packing task removes it (the value it carried into packed-refs is the
	// one from before that write). A non-linearizable history in which a PackRefs merely overlaps a check-and-set
	// without that window is something else and must not hide behind the recorded finding.
	// A second recorded shape of the same PackRefs defect: a writer has OPENED the loose file (not yet locked it), the
	// packing task unlinks it, and the writer then locks, checks and rewrites the unlinked inode: its update
	// "succeeds" into a file nobody can see.
	lostWriteWindow, writeToUnlinked := false, false
	{
		loose := "/g/" + string(refName)
		lastRead := map[string]int{} // task -> index of its first read of the loose file since it last opened it
		lastOpen := map[string]int{} // task -> index of its latest open/create of the loose file
		lastRemove := -1
		removeBy := ""
		type wr struct {
			task string
			at   int
		}
		var writes []wr
		for i, line := range drv.Trace {
			f := strings.Fields(line)
			if len(f) != 4 || f[3] != loose {
				continue
			}
			switch f[2] {
			case "open", "create":
				lastOpen[f[1]] = i
				delete(lastRead, f[1])
			}
			switch f[2] {
			case "read":
				// the FIRST read after the task's latest open is the one that fetched the value (a second read
				// only sees the end of the file)
				if _, seen := lastRead[f[1]]; !seen {
					lastRead[f[1]] = i
				}
			case "write", "truncate":
				writes = append(writes, wr{f[1], i})
				if o, ok := lastOpen[f[1]]; ok && lastRemove > o && removeBy != f[1] {
					writeToUnlinked = true
				}
			case "remove":
				lastRemove, removeBy = i, f[1]
				if r, ok := lastRead[f[1]]; ok {
					for _, w := range writes {
						if w.task != f[1] && w.at > r && w.at < i {
							lostWriteWindow = true
						}
					}
				}
			}
		}
	}
	m := model
	init := v0.String()
	m.Init = func() []interface{} { return []interface{}{init} }
	pm := m.ToModel()
	check := func(h []porcupine.Operation) porcupine.CheckResult {
		return porcupine.CheckOperationsTimeout(pm, h, 20*time.Second)
	}
	for _, op := range ops {
		if in := op.Input.(regIn); in.kind == "read" {
			switch o := op.Output.(regOut); {
			case o.val == "absent":
				out.Probe("reader-saw-absent")
			case len(o.val) > 0 && o.val[0] == '!':
				out.Probe("reader-saw-error")
			}
		}
	}
	res := check(ops)
	if res == porcupine.Unknown {
		out.Inconclusive = "porcupine-unknown"
		return out
	}
	if res == porcupine.Ok {
		return out
	}
	// The full history is not linearizable. First decide whether the
	// check-and-set operations alone are (writers' half of the property).
	var kept []porcupine.Operation
	var reads []porcupine.Operation
	for _, op := range ops {
		if op.Input.(regIn).kind == "read" {
			reads = append(reads, op)
		} else {
			kept = append(kept, op)
		}
	}
	switch check(kept) {
	case porcupine.Unknown:
		out.Inconclusive = "porcupine-unknown"
		return out
	case porcupine.Illegal:
		when := "no-pack"
		if len(packs) > 0 {
			when = "pack-quiescent"
			if packOverlapsCas {
				when = "pack-overlaps-cas"
				packsOverlap := false
				for i := range packs {
					for j := i + 1; j < len(packs); j++ {
						if packs[i].call < packs[j].ret && packs[j].call < packs[i].ret {
							packsOverlap = true
						}
					}
				}
				switch {
				case lostWriteWindow:
				case writeToUnlinked:
					when = "pack-overlaps-cas:write-to-unlinked-file"
				case packsOverlap:
					// two PackRefs calls ran at the same time: the recorded hole in openAndLockPackedRefs (a flock
					// taken on a packed-refs inode that the other call's rename has already replaced)
					when = "pack-overlaps-pack"
				default:
					when = "pack-overlaps-cas:no-recorded-window"
				}
			}
		}
		out.Fail("C16|non-linearizable-cas|"+when, "the %d check-and-set operations alone are not linearizable against a CAS register (init %s): an update succeeded against a value that was not current, or a successful update was lost", len(kept), short(init))
		return out
	}
	// Writers are fine; find the reads that cannot be placed (readers' half).
	for _, rd := range reads {
		try := append(append([]porcupine.Operation{}, kept...), rd)
		r := check(try)
		if r == porcupine.Unknown {
			out.Inconclusive = "porcupine-unknown"
			return out
		}
		if r == porcupine.Ok {
			kept = try
			continue
		}
		o := rd.Output.(regOut)
		kind := "reader-saw-old-value"
		switch {
		case o.val == "absent":
			kind = "reader-saw-absent"
		case len(o.val) > 0 && o.val[0] == '!':
			kind = "reader-saw-error"
		case packedVals[o.val]:
			kind = "reader-saw-stale-packed"
			out.Probe("reader-saw-stale-packed")
		}
		iv := ival{rd.Call, rd.Return}
		when := "quiescent"
		switch {
		case packOverlapsCas:
			when = "pack-overlaps-cas"
		case overlaps(iv, casOK):
			when = "during-cas"
		case overlaps(iv, packs):
			when = "during-pack"
		}
		out.Fail("C16|"+kind+"|"+when, "a reader observed %s (%s) which is neither the previous nor the new value at any point of its execution (%d ops, init %s)", kind, short(o.val), len(ops), p.Init)
		return out
	}
	out.Fail("C16|non-linearizable|unclassified", "history of %d ops not linearizable but every read can be placed individually", len(ops))
	return out
}

func short(s string) string {
	if len(s) == 40 {
		return s[34:]
	}
	return s
}

func TestCheck(t *testing.T) {
	core.Main(t, core.Check{
		ID:    "C16",
		Level: "exploration",
		Rule: "plan = initial ref layout x shared/separate Storage x 2-5 tasks of read/cas/pack ops x seeded schedule (uniform walk or <=6 preemptions, clock steps); " +
			"non-trivial = at least one context switch between tasks; distinct = distinct plan JSON",
		Assumptions: []string{"simulated disk has POSIX/osfs semantics incl. flock per open file description",
			"processes are modelled as tasks with separate Storage values over one disk", "linearizability decided by porcupine v1.3.0"},
		Real:           []string{"storage/filesystem ReferenceStorage", "dotgit.SetRef/Ref/PackRefs/packedRef/openAndLockPackedRefs"},
		Stub:           []string{"disk (simfs)", "clock (synctest)", "scheduler (seeded driver)"},
		Runs:           map[string]int{"quick": 24000, "thorough": 1600000},
		NewPlan:        func() any { return &Plan{} },
		Gen:            gen,
		Exec:           exec,
		RequiredProbes: []string{"context-switches", "lock-waits", "pack-ok"},
	})
}
