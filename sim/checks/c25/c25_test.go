//go:build verif

// C25 — forced checkout and hard reset materialise exactly the target commit.
//
// World: a generated repository (gen.Build through porc.GetBase) extended, in
// the setup phase, with up to four extra commits whose trees come from the
// plan (file<->dir swaps, file<->symlink swaps, exec-bit-only changes, deep
// paths, case variants, deletions, gitlinks). The state before the operation
// is built by the harness straight on the simulated disk (worktree files of
// the current commit, an index encoded by the harness, HEAD), then dirtied by
// "user" modifications (edits, mode changes, deletions, untracked files at
// chosen places, staged and unstaged, removal from the index only, type
// changes). One operation is run: Checkout{Force:true} by branch / by hash /
// with Create, or Reset{HardReset}. Whenever it returns nil the image on the
// simulated disk is compared, path by path, with the model tree of the target
// commit; the on-disk index is decoded and compared with independently
// computed blob ids; HEAD and the references are read from their files;
// untracked files that the target does not have must be byte-identical.
// A second configuration injects one disk fault into the operation: when the
// call still returns nil the same postcondition is required.
package c25

import (
	"bytes"
	"compress/zlib"
	"crypto/sha1"
	"encoding/hex"
	"encoding/json"
	"errors"
	"fmt"
	iofs "io/fs"
	"os"
	"os/exec"
	"runtime/debug"
	"sort"
	"strconv"
	"strings"
	"testing"
	"time"

	git "github.com/go-git/go-git/v6"
	"github.com/go-git/go-git/v6/plumbing"
	"github.com/go-git/go-git/v6/plumbing/filemode"
	"github.com/go-git/go-git/v6/plumbing/format/index"
	"github.com/go-git/go-git/v6/plumbing/object"
	"github.com/go-git/go-git/v6/storage/filesystem"
	"github.com/go-git/go-git/v6/verifsim/core"
	"github.com/go-git/go-git/v6/verifsim/gen"
	"github.com/go-git/go-git/v6/verifsim/hooks"
	"github.com/go-git/go-git/v6/verifsim/porc"
	"github.com/go-git/go-git/v6/verifsim/simfs"
)

// ===================================================================
// shared world code (copied verbatim into checks/c30)
// ===================================================================

const (
	kFile = 0
	kExec = 1
	kLink = 2
	kSub  = 3
)

// Ent is one entry of a plan tree.
type Ent struct {
	P string `json:"p"`
	D string `json:"d"`
	K int    `json:"k"`
}

// TreeSpec is the tree of one extra commit as written in the plan.
type TreeSpec []Ent

type file struct {
	Data string // bytes, link target, or commit id (gitlink)
	K    int
}

type tree map[string]file

// Mod is one "user" modification of the worktree made before the operation.
// sameLenToken as Mod.Data of an "edit": replace the content by bytes of the same length.
const sameLenToken = "\x01same-length"

type Mod struct {
	Kind  string `json:"kind"`
	Path  string `json:"path"`
	Data  string `json:"data"`
	Stage bool   `json:"stage"`
}

func mod(a, n int) int {
	if n <= 0 {
		return 0
	}
	a %= n
	if a < 0 {
		a += n
	}
	return a
}

func validPath(p string) bool {
	if p == "" || len(p) > 96 {
		return false
	}
	parts := strings.Split(p, "/")
	if len(parts) > 8 {
		return false
	}
	for _, c := range parts {
		if c == "" || c == "." || c == ".." || strings.HasPrefix(strings.ToLower(c), ".git") {
			return false
		}
		for i := 0; i < len(c); i++ {
			ch := c[i]
			ok := ch >= 'a' && ch <= 'z' || ch >= 'A' && ch <= 'Z' || ch >= '0' && ch <= '9' || ch == '.' || ch == '_' || ch == '-'
			if !ok {
				return false
			}
		}
		if strings.HasSuffix(c, ".") {
			return false
		}
	}
	return true
}

func conflicts(t tree, p string) bool {
	if _, ok := t[p]; ok {
		return true
	}
	for q := range t {
		if strings.HasPrefix(q, p+"/") || strings.HasPrefix(p, q+"/") {
			return true
		}
	}
	return false
}

// sanitize turns a plan tree into a consistent model tree (total on any input).
func sanitize(spec TreeSpec, subHash func(int) string) tree {
	t := tree{}
	var subs []string
	for i, e := range spec {
		if i >= 24 {
			break
		}
		if !validPath(e.P) || conflicts(t, e.P) {
			continue
		}
		k := mod(e.K, 4)
		f := file{Data: e.D, K: k}
		if len(f.Data) > 200 {
			f.Data = f.Data[:200]
		}
		switch k {
		case kLink:
			if f.Data == "" || strings.ContainsAny(f.Data, "\x00\n") || len(f.Data) > 60 {
				f.Data = "a.txt"
			}
		case kSub:
			n, _ := strconv.Atoi(e.D)
			f.Data = subHash(n)
			subs = append(subs, e.P)
		}
		t[e.P] = f
	}
	if len(subs) > 0 {
		sort.Strings(subs)
		var b strings.Builder
		for _, s := range subs {
			fmt.Fprintf(&b, "[submodule %q]\n\tpath = %s\n\turl = https://example.invalid/%s.git\n", s, s, strings.ReplaceAll(s, "/", "-"))
		}
		t[".gitmodules"] = file{Data: b.String()}
	}
	if len(t) == 0 {
		t["a.txt"] = file{Data: "only\n"}
	}
	return t
}

func sortedPaths(t tree) []string {
	out := make([]string, 0, len(t))
	for p := range t {
		out = append(out, p)
	}
	sort.Strings(out)
	return out
}

func isDirIn(t tree, p string) bool {
	for q := range t {
		if strings.HasPrefix(q, p+"/") {
			return true
		}
	}
	return false
}

func blobID(data string) string {
	h := sha1.New()
	fmt.Fprintf(h, "blob %d\x00", len(data))
	h.Write([]byte(data))
	return hex.EncodeToString(h.Sum(nil))
}

func fileMode(f file) filemode.FileMode {
	switch f.K {
	case kExec:
		return filemode.Executable
	case kLink:
		return filemode.Symlink
	case kSub:
		return filemode.Submodule
	}
	return filemode.Regular
}

func entryHash(f file) string {
	if f.K == kSub {
		return f.Data
	}
	return blobID(f.Data)
}

// relation classifies how path p differs between trees a (current) and b (target).
func relation(p string, a, b tree) string {
	fa, inA := a[p]
	fb, inB := b[p]
	dirA, dirB := isDirIn(a, p), isDirIn(b, p)
	switch {
	case inA && dirB:
		return swapName(fa)
	case dirA && inB:
		return swapName(fb)
	case inA && inB:
		switch {
		case fa == fb:
			return "unchanged"
		case fa.K == kSub || fb.K == kSub:
			return "submodule"
		case fa.K == kLink && fb.K == kLink:
			return "symlink-retarget"
		case fa.K == kLink || fb.K == kLink:
			return "file-symlink-swap"
		case fa.Data == fb.Data:
			return "mode-only"
		}
		return "plain"
	case inA:
		if fa.K == kSub {
			return "submodule"
		}
		return "removed"
	case inB:
		if fb.K == kSub {
			return "submodule"
		}
		return "added"
	case dirA && dirB:
		return "dir-in-both"
	case dirA:
		return "removed-dir"
	case dirB:
		return "added-dir"
	}
	// not a path of either tree: look at the nearest ancestor either tree knows
	for q := parent(p); q != ""; q = parent(q) {
		if _, ok := b[q]; ok {
			return "under-target-file"
		}
		if _, ok := a[q]; ok {
			return "under-current-file"
		}
		if isDirIn(a, q) && !isDirIn(b, q) {
			return "in-removed-dir"
		}
	}
	return "elsewhere"
}

func swapName(f file) string {
	switch f.K {
	case kLink:
		return "symlink-dir-swap"
	case kSub:
		return "submodule"
	}
	return "file-dir-swap"
}

func parent(p string) string {
	i := strings.LastIndexByte(p, '/')
	if i < 0 {
		return ""
	}
	return p[:i]
}

var pairPriority = []string{"file-dir-swap", "symlink-dir-swap", "file-symlink-swap", "submodule", "mode-only", "case-variant", "symlink-retarget", "deep", "plain", "removed", "added", "same"}

// pairClasses lists the classes present in the pair (in priority order).
func pairClasses(a, b tree) []string {
	set := map[string]bool{}
	union := map[string]bool{}
	for p := range a {
		union[p] = true
	}
	for p := range b {
		union[p] = true
	}
	for p := range union {
		r := relation(p, a, b)
		if r == "unchanged" {
			continue
		}
		set[r] = true
		if strings.Count(p, "/") >= 4 {
			set["deep"] = true
		}
	}
	for p := range a {
		if _, ok := b[p]; ok {
			continue
		}
		for q := range b {
			if _, ok := a[q]; !ok && p != q && strings.EqualFold(p, q) {
				set["case-variant"] = true
			}
		}
	}
	if len(set) == 0 {
		set["same"] = true
	}
	var out []string
	for _, c := range pairPriority {
		if set[c] {
			out = append(out, c)
		}
	}
	return out
}

func trivialPair(cs []string) bool {
	for _, c := range cs {
		switch c {
		case "plain", "removed", "added", "same":
		default:
			return false
		}
	}
	return true
}

type commitInfo struct {
	Hash plumbing.Hash
	Tree tree
}

type prepared struct {
	disk    *simfs.Disk
	commits []commitInfo
	nModel  int
	err     string
}

var prepCache = map[string]*prepared{}

func fromGen(t map[string]gen.File) tree {
	out := tree{}
	for p, f := range t {
		k := kFile
		switch {
		case f.Link:
			k = kLink
		case f.Exec:
			k = kExec
		}
		out[p] = file{Data: f.Data, K: k}
	}
	return out
}

// modelTrees returns the trees of every commit of the world (model commits
// then extras) without touching a disk; Gen and Exec agree on it.
func modelTrees(seed uint64, repack bool, extra []TreeSpec) ([]tree, int) {
	// the generator calls this before any Exec: the base repository must be
	// built under the same settings as in Exec (pack names depend on it)
	hooks.Deterministic(true)
	b := porc.GetBase(seed, repack, false)
	if b.Err != nil || b.Model == nil {
		return nil, 0
	}
	var out []tree
	for _, c := range b.Model.Commits {
		out = append(out, fromGen(c.Tree))
	}
	n := len(out)
	subHash := func(i int) string { return b.Model.Commits[mod(i, n)].Hash.String() }
	for i, s := range extra {
		if i >= 4 {
			break
		}
		out = append(out, sanitize(s, subHash))
	}
	return out, n
}

type dnode struct {
	files map[string]file
	dirs  map[string]*dnode
}

func newDnode() *dnode { return &dnode{files: map[string]file{}, dirs: map[string]*dnode{}} }

func writeBlob(st *filesystem.Storage, data string) (plumbing.Hash, error) {
	obj := st.NewEncodedObject()
	obj.SetType(plumbing.BlobObject)
	w, err := obj.Writer()
	if err != nil {
		return plumbing.ZeroHash, err
	}
	if _, err := w.Write([]byte(data)); err != nil {
		return plumbing.ZeroHash, err
	}
	if err := w.Close(); err != nil {
		return plumbing.ZeroHash, err
	}
	return st.SetEncodedObject(obj)
}

func writeTreeObjects(st *filesystem.Storage, n *dnode) (plumbing.Hash, error) {
	var entries []object.TreeEntry
	names := make([]string, 0, len(n.files))
	for k := range n.files {
		names = append(names, k)
	}
	sort.Strings(names)
	for _, name := range names {
		f := n.files[name]
		var h plumbing.Hash
		if f.K == kSub {
			h = plumbing.NewHash(f.Data)
		} else {
			var err error
			h, err = writeBlob(st, f.Data)
			if err != nil {
				return plumbing.ZeroHash, err
			}
			if h.String() != blobID(f.Data) {
				return plumbing.ZeroHash, fmt.Errorf("blob id mismatch for %q", name)
			}
		}
		entries = append(entries, object.TreeEntry{Name: name, Mode: fileMode(f), Hash: h})
	}
	dnames := make([]string, 0, len(n.dirs))
	for k := range n.dirs {
		dnames = append(dnames, k)
	}
	sort.Strings(dnames)
	for _, name := range dnames {
		h, err := writeTreeObjects(st, n.dirs[name])
		if err != nil {
			return plumbing.ZeroHash, err
		}
		entries = append(entries, object.TreeEntry{Name: name, Mode: filemode.Dir, Hash: h})
	}
	sort.Sort(object.TreeEntrySorter(entries))
	obj := st.NewEncodedObject()
	if err := (&object.Tree{Entries: entries}).Encode(obj); err != nil {
		return plumbing.ZeroHash, err
	}
	return st.SetEncodedObject(obj)
}

func nest(t tree) *dnode {
	root := newDnode()
	for _, p := range sortedPaths(t) {
		parts := strings.Split(p, "/")
		n := root
		for _, c := range parts[:len(parts)-1] {
			if n.dirs[c] == nil {
				n.dirs[c] = newDnode()
			}
			n = n.dirs[c]
		}
		n.files[parts[len(parts)-1]] = t[p]
	}
	return root
}

// prepare builds (or returns the cached) repository image that holds the
// model commits plus the plan's extra commits, and a branch refs/heads/c<k>
// for every commit k. Extra commits are written with go-git's object encoders
// and storage (not with Worktree.Add/Commit, which have their own check).
func prepare(seed uint64, repack bool, extra []TreeSpec) *prepared {
	if len(extra) > 4 {
		extra = extra[:4]
	}
	js, _ := json.Marshal(extra)
	key := fmt.Sprintf("%d/%v/%s", seed, repack, js)
	if p, ok := prepCache[key]; ok {
		return p
	}
	if len(prepCache) > 48 {
		prepCache = map[string]*prepared{}
	}
	p := &prepared{}
	prepCache[key] = p
	b := porc.GetBase(seed, repack, false)
	if b.Err != nil || b.Model == nil || len(b.Model.Commits) == 0 {
		p.err = "setup-failed"
		return p
	}
	trees, n := modelTrees(seed, repack, extra)
	d := b.Disk.Clone()
	env, err := gen.Open(d, "/w", "setup", filesystem.Options{})
	if err != nil {
		p.err = "setup-open-failed"
		return p
	}
	st := env.Storage
	for i, c := range b.Model.Commits {
		p.commits = append(p.commits, commitInfo{Hash: c.Hash, Tree: trees[i]})
	}
	p.nModel = n
	parentHash := b.Model.Commits[mod(b.Model.HeadIdx, n)].Hash
	for i := n; i < len(trees); i++ {
		th, err := writeTreeObjects(st, nest(trees[i]))
		if err != nil {
			p.err = "setup-tree-write-failed"
			return p
		}
		sig := *gen.Sig(300 + i)
		obj := st.NewEncodedObject()
		c := &object.Commit{Author: sig, Committer: sig, Message: fmt.Sprintf("extra %d\n", i-n), TreeHash: th, ParentHashes: []plumbing.Hash{parentHash}}
		if err := c.Encode(obj); err != nil {
			p.err = "setup-commit-encode-failed"
			return p
		}
		h, err := st.SetEncodedObject(obj)
		if err != nil {
			p.err = "setup-commit-write-failed"
			return p
		}
		p.commits = append(p.commits, commitInfo{Hash: h, Tree: trees[i]})
		parentHash = h
	}
	for k, c := range p.commits {
		if err := st.SetReference(plumbing.NewHashReference(branchOf(k), c.Hash)); err != nil {
			p.err = "setup-ref-failed"
			return p
		}
	}
	_ = st.Close()
	p.disk = d
	return p
}

func branchOf(k int) plumbing.ReferenceName {
	return plumbing.ReferenceName(fmt.Sprintf("refs/heads/c%d", k))
}

// pick maps a plan number onto a commit index, counting from the END of the
// commit list (0 = last extra commit), so that small numbers name the extras.
func pick(x, n int) int { return n - 1 - mod(x, n) }

type node struct {
	Kind string // file | link
	Exec bool
	Data string // bytes or link target
}

func (n node) String() string {
	if n.Kind == "link" {
		return "link->" + n.Data
	}
	return fmt.Sprintf("file(exec=%v,%d bytes)", n.Exec, len(n.Data))
}

// snapshotWT reads every file and symlink of the worktree (outside .git)
// straight from the image; dirs lists the directories.
func snapshotWT(d *simfs.Disk) (files map[string]node, dirs map[string]bool, mtimes map[string]time.Time) {
	files, dirs, mtimes = map[string]node{}, map[string]bool{}, map[string]time.Time{}
	for _, e := range d.List("/w") {
		rel := strings.TrimPrefix(e.Path, "/w/")
		if rel == ".git" || strings.HasPrefix(rel, ".git/") {
			continue
		}
		switch e.Kind {
		case "dir":
			dirs[rel] = true
		case "link":
			files[rel] = node{Kind: "link", Data: e.Target}
			mtimes[rel] = e.MTime
		default:
			files[rel] = node{Kind: "file", Exec: e.Mode&0o100 != 0, Data: string(e.Data)}
			mtimes[rel] = e.MTime
		}
	}
	return
}

func nodeOf(f file) node {
	switch f.K {
	case kLink:
		return node{Kind: "link", Data: f.Data}
	case kExec:
		return node{Kind: "file", Exec: true, Data: f.Data}
	}
	return node{Kind: "file", Data: f.Data}
}

type idxEnt struct {
	Hash  string
	Mode  filemode.FileMode
	Size  uint32
	MTime time.Time
}

// world is one run's repository state under construction.
type world struct {
	d      *simfs.Disk
	idx    map[string]idxEnt
	prior  map[string]string // path -> class of the user modification that touched it
	trace  []string
	tick   time.Duration
	gap    int
	nprior int
}

func (w *world) logf(format string, args ...any) {
	if len(w.trace) < 400 {
		w.trace = append(w.trace, fmt.Sprintf(format, args...))
	}
}

func (w *world) advance() {
	if w.gap > 0 {
		w.d.Advance(time.Duration(w.gap) * w.tick)
	}
}

func (w *world) statEnt(p string) (idxEnt, bool) {
	abs := "/w/" + p
	switch w.d.Lookup(abs) {
	case "file":
		// List on a file path returns the file itself
		for _, e := range w.d.List(abs) {
			m := filemode.Regular
			if e.Mode&0o100 != 0 {
				m = filemode.Executable
			}
			return idxEnt{Hash: blobID(string(e.Data)), Mode: m, Size: uint32(len(e.Data)), MTime: e.MTime}, true
		}
	case "link":
		for _, e := range w.d.List(abs) {
			return idxEnt{Hash: blobID(e.Target), Mode: filemode.Symlink, Size: uint32(len(e.Target)), MTime: e.MTime}, true
		}
	}
	return idxEnt{}, false
}

func (w *world) writeLooseBlob(data string) {
	id := blobID(data)
	abs := "/w/.git/objects/" + id[:2] + "/" + id[2:]
	if w.d.Lookup(abs) != "" {
		return
	}
	var buf bytes.Buffer
	zw := zlib.NewWriter(&buf)
	fmt.Fprintf(zw, "blob %d\x00", len(data))
	zw.Write([]byte(data))
	zw.Close()
	_ = w.d.WriteFile(abs, buf.Bytes(), 0o444)
}

func (w *world) stage(p string) {
	e, ok := w.statEnt(p)
	if !ok {
		delete(w.idx, p)
		return
	}
	// a path cannot be in the index together with an entry above or below it
	for q := range w.idx {
		if strings.HasPrefix(q, p+"/") || strings.HasPrefix(p, q+"/") {
			delete(w.idx, q)
		}
	}
	w.idx[p] = e
	if n, _, _ := snapshotOne(w.d, p); n != nil {
		w.writeLooseBlob(n.Data)
	}
}

func snapshotOne(d *simfs.Disk, p string) (*node, time.Time, bool) {
	abs := "/w/" + p
	k := d.Lookup(abs)
	if k != "file" && k != "link" {
		return nil, time.Time{}, false
	}
	for _, e := range d.List(abs) {
		if e.Kind == "link" {
			return &node{Kind: "link", Data: e.Target}, e.MTime, true
		}
		return &node{Kind: "file", Exec: e.Mode&0o100 != 0, Data: string(e.Data)}, e.MTime, true
	}
	return nil, time.Time{}, false
}

// parentsFree: every proper ancestor of p is absent or a directory.
func parentsFree(d *simfs.Disk, p string) bool {
	for q := parent(p); q != ""; q = parent(q) {
		if k := d.Lookup("/w/" + q); k != "" && k != "dir" {
			return false
		}
	}
	return true
}

// materialise wipes the worktree and writes tree t, and fills the index map.
func (w *world) materialise(t tree) {
	d := w.d
	top := map[string]bool{}
	for _, e := range d.List("/w") {
		rel := strings.TrimPrefix(e.Path, "/w/")
		if i := strings.IndexByte(rel, '/'); i >= 0 {
			rel = rel[:i]
		}
		if rel != ".git" && rel != "" {
			top[rel] = true
		}
	}
	for name := range top {
		d.RemoveAllDirect("/w/" + name)
	}
	fs := d.FS("/w", "setup")
	for _, p := range sortedPaths(t) {
		f := t[p]
		switch f.K {
		case kLink:
			_ = d.PlantSymlink(f.Data, "/w/"+p)
		case kSub:
			_ = fs.MkdirAll(p, 0o755)
		case kExec:
			_ = d.WriteFile("/w/"+p, []byte(f.Data), 0o755)
		default:
			_ = d.WriteFile("/w/"+p, []byte(f.Data), 0o644)
		}
	}
	w.idx = map[string]idxEnt{}
	for _, p := range sortedPaths(t) {
		f := t[p]
		if f.K == kSub {
			w.idx[p] = idxEnt{Hash: f.Data, Mode: filemode.Submodule}
			continue
		}
		if e, ok := w.statEnt(p); ok {
			w.idx[p] = e
		}
	}
}

func (w *world) writeIndex() error {
	idx := &index.Index{Version: 2}
	names := make([]string, 0, len(w.idx))
	for p := range w.idx {
		names = append(names, p)
	}
	sort.Strings(names)
	for _, p := range names {
		e := w.idx[p]
		idx.Entries = append(idx.Entries, &index.Entry{Name: p, Hash: plumbing.NewHash(e.Hash), Mode: e.Mode, Size: e.Size, ModifiedAt: e.MTime, CreatedAt: e.MTime})
	}
	var buf bytes.Buffer
	if err := index.NewEncoder(&buf, sha1.New()).Encode(idx); err != nil {
		return err
	}
	return w.d.WriteFile("/w/.git/index", buf.Bytes(), 0o644)
}

// applyMod performs one user modification. staged selects the pass: staged
// modifications are made before the index is written, the others after.
func (w *world) applyMod(m Mod) {
	d := w.d
	p := m.Path
	if !validPath(p) {
		w.logf("mod %s %q: skipped (path)", m.Kind, p)
		return
	}
	abs := "/w/" + p
	kind := d.Lookup(abs)
	_, tracked := w.idx[p]
	data := m.Data
	if len(data) > 200 {
		data = data[:200]
	}
	class := ""
	switch m.Kind {
	case "edit":
		if kind != "file" || !tracked {
			break
		}
		n, _, _ := snapshotOne(d, p)
		mode := iofs.FileMode(0o644)
		if n.Exec {
			mode = 0o755
		}
		if data == sameLenToken {
			b := []byte(n.Data)
			for i := range b {
				b[i] ^= 1 // stays printable enough; same length, every byte differs
			}
			data = string(b)
		}
		if n.Data == data {
			data += "+"
		}
		_ = d.WriteFile(abs, []byte(data), mode)
		class = "edit"
	case "chmod":
		if kind != "file" || !tracked {
			break
		}
		n, _, _ := snapshotOne(d, p)
		mode := iofs.FileMode(0o755)
		if n.Exec {
			mode = 0o644
		}
		_ = d.WriteFile(abs, []byte(n.Data), mode)
		class = "chmod"
	case "delete":
		if (kind != "file" && kind != "link") || !tracked {
			break
		}
		d.RemoveAllDirect(abs)
		class = "delete"
	case "untracked", "untracked-link":
		if kind != "" || tracked || !parentsFree(d, p) {
			break
		}
		if m.Kind == "untracked-link" {
			if data == "" || strings.ContainsAny(data, "\x00\n") || len(data) > 60 {
				data = "a.txt"
			}
			if d.PlantSymlink(data, abs) != nil {
				break
			}
		} else {
			mode := iofs.FileMode(0o644)
			if strings.HasPrefix(data, "#!") {
				mode = 0o755
			}
			if d.WriteFile(abs, []byte(data), mode) != nil {
				break
			}
		}
		class = "untracked"
		if m.Stage {
			class = "add" // becomes staged-add below
		}
	case "rmcached":
		if !tracked || w.idx[p].Mode == filemode.Submodule {
			break
		}
		delete(w.idx, p)
		w.prior[p] = "rmcached"
		w.nprior++
		w.logf("mod rmcached %s: applied", p)
		return
	case "retype-link":
		if kind != "file" || !tracked {
			break
		}
		if data == "" || strings.ContainsAny(data, "\x00\n") || len(data) > 60 {
			data = "b.txt"
		}
		d.RemoveAllDirect(abs)
		_ = d.PlantSymlink(data, abs)
		class = "retype-link"
	case "retype-dir":
		if (kind != "file" && kind != "link") || !tracked {
			break
		}
		d.RemoveAllDirect(abs)
		_ = d.WriteFile(abs+"/inner.txt", []byte(data), 0o644)
		class = "retype-dir"
		w.prior[p+"/inner.txt"] = "retype-dir"
		if m.Stage {
			delete(w.idx, p)
			w.stage(p + "/inner.txt")
			w.prior[p+"/inner.txt"] = "staged-retype-dir"
		}
	case "relink":
		if kind != "link" || !tracked {
			break
		}
		if data == "" || strings.ContainsAny(data, "\x00\n") || len(data) > 60 {
			data = "b.txt"
		}
		if n, _, _ := snapshotOne(d, p); n != nil && n.Data == data {
			data += "x"
		}
		d.RemoveAllDirect(abs)
		_ = d.PlantSymlink(data, abs)
		class = "relink"
	}
	if class == "" {
		w.logf("mod %s %s: skipped (state)", m.Kind, p)
		return
	}
	if m.Stage {
		if class != "retype-dir" {
			w.stage(p)
		}
		class = "staged-" + class
	}
	if w.prior[p] != "staged-add" { // a later edit of a staged new file keeps the class of its origin
		w.prior[p] = class
	}
	w.nprior++
	w.logf("mod %s %s: applied as %s", m.Kind, p, class)
}

// priorClassFor names the user modification responsible for path p (the one
// that touched p itself, or something above or below it).
func (w *world) priorClassFor(p string) string {
	if c, ok := w.prior[p]; ok {
		return c
	}
	keys := make([]string, 0, len(w.prior))
	for k := range w.prior {
		keys = append(keys, k)
	}
	sort.Strings(keys)
	for _, k := range keys {
		if strings.HasPrefix(k, p+"/") || strings.HasPrefix(p, k+"/") {
			return w.prior[k] + "-nearby"
		}
	}
	return "untouched"
}

// buildState puts the repository into "commit cur checked out, then dirtied
// by mods". HEAD is symbolic to c<cur> unless detached.
func buildState(d *simfs.Disk, cur int, ci commitInfo, mods []Mod, detached bool, tickMs, gap int) *world {
	w := &world{d: d, prior: map[string]string{}, tick: time.Millisecond, gap: mod(gap, 4)}
	if tickMs > 0 {
		if tickMs > 2000 {
			tickMs = 2000
		}
		d.Tick = time.Duration(tickMs) * time.Millisecond
		w.tick = d.Tick
	}
	w.materialise(ci.Tree)
	w.advance()
	for i, m := range mods {
		if i >= 8 {
			break
		}
		if m.Stage || m.Kind == "rmcached" {
			w.applyMod(m)
		}
	}
	w.advance()
	if err := w.writeIndex(); err != nil {
		w.logf("index write failed: %v", err)
	}
	head := "ref: " + string(branchOf(cur)) + "\n"
	if detached {
		head = ci.Hash.String() + "\n"
	}
	_ = d.WriteFile("/w/.git/HEAD", []byte(head), 0o644)
	w.advance()
	for i, m := range mods {
		if i >= 8 {
			break
		}
		if !(m.Stage || m.Kind == "rmcached") {
			w.applyMod(m)
		}
	}
	w.advance()
	return w
}

func errKind(err error) string {
	switch {
	case err == nil:
		return "ok"
	case simfs.IsInjected(err):
		return "injected"
	case errors.Is(err, git.ErrLocalChanges):
		return "local-changes"
	case errors.Is(err, git.ErrUnstagedChanges):
		return "unstaged-changes"
	}
	for _, known := range []string{"is a directory", "not a directory", "file exists", "directory not empty", "submodule not found"} {
		if strings.Contains(err.Error(), known) {
			return strings.ReplaceAll(known, " ", "-")
		}
	}
	k := porc.ErrKind(err)
	k = strings.Map(func(r rune) rune {
		if r >= 'a' && r <= 'z' || r >= 'A' && r <= 'Z' || r == '-' {
			return r
		}
		return '-'
	}, k)
	if len(k) > 32 {
		k = k[:32]
	}
	return k
}

// ---- generators shared by both checks ----

var universe = []string{"a.txt", "b.txt", "dir/c.txt", "dir/sub/d.txt", "e.sh", "z/y/x.txt", "dir/e.txt", "p", "q/r", "deep/1/2/3/4/f.txt", "Readme.md", "link", "sub", "n.txt", "dir/sub/k/m.txt"}

func genContent(r *core.Rand, p string) string {
	// Sizes matter: go-git decides "unchanged" from (size, mtime, mode) before it hashes. A tenth of the contents are
	// empty (a stat-less index entry records size 0) and three tenths have a width that depends on the path only, so
	// that two versions of one path often have EQUAL size and different bytes.
	switch k := r.Intn(10); {
	case k == 0:
		return ""
	case k < 4:
		return fmt.Sprintf("%s v%03d\n", p, r.Intn(1000))
	}
	return fmt.Sprintf("%s v%d\n%s", p, r.Intn(1000), hex.EncodeToString(r.Bytes(r.Intn(12))))
}

func genEnt(r *core.Rand, p string) file {
	switch {
	case p == "link":
		return file{Data: r.Pick("a.txt", "dir", "dir/c.txt", "missing"), K: kLink}
	case p == "sub" && r.Chance(1, 2):
		return file{Data: strconv.Itoa(r.Intn(6)), K: kSub}
	case p == "e.sh" || r.Chance(1, 8):
		return file{Data: genContent(r, p), K: kExec}
	}
	return file{Data: genContent(r, p), K: kFile}
}

func genTree(r *core.Rand) tree {
	t := tree{}
	for _, p := range universe {
		if p == "sub" && !r.Chance(1, 5) {
			continue
		}
		if r.Chance(1, 2) && !conflicts(t, p) {
			t[p] = genEnt(r, p)
		}
	}
	if len(t) == 0 {
		t["a.txt"] = genEnt(r, "a.txt")
	}
	return t
}

func cloneTree(t tree) tree {
	n := tree{}
	for k, v := range t {
		n[k] = v
	}
	return n
}

func swapCase(p string) string {
	i := strings.LastIndexByte(p, '/') + 1
	b := []byte(p)
	for j := i; j < len(b); j++ {
		switch {
		case b[j] >= 'a' && b[j] <= 'z':
			b[j] -= 32
		case b[j] >= 'A' && b[j] <= 'Z':
			b[j] += 32
		}
	}
	return string(b)
}

// transform derives a neighbouring tree by 1-3 structural changes.
func transform(r *core.Rand, src tree) tree {
	t := cloneTree(src)
	for n := r.Range(1, 3); n > 0; n-- {
		paths := sortedPaths(t)
		if len(paths) == 0 {
			break
		}
		p := paths[r.Intn(len(paths))]
		f := t[p]
		switch r.Intn(13) {
		case 0, 1: // content
			if f.K == kFile || f.K == kExec {
				t[p] = file{Data: genContent(r, p), K: f.K}
			}
		case 2: // mode only
			if f.K == kFile {
				t[p] = file{Data: f.Data, K: kExec}
			} else if f.K == kExec {
				t[p] = file{Data: f.Data, K: kFile}
			}
		case 3: // delete
			if len(t) > 1 {
				delete(t, p)
			}
		case 4: // add
			q := universe[r.Intn(len(universe))]
			if !conflicts(t, q) {
				t[q] = genEnt(r, q)
			}
		case 5: // file -> dir
			if f.K != kSub {
				delete(t, p)
				t[p+"/q"] = file{Data: genContent(r, p), K: kFile}
				if r.Bool() {
					t[p+"/r/s.txt"] = file{Data: genContent(r, p), K: kFile}
				}
			}
		case 6: // dir -> file (or symlink)
			if i := strings.IndexByte(p, '/'); i > 0 {
				parts := strings.Split(p, "/")
				prefix := strings.Join(parts[:r.Range(1, len(parts)-1)], "/")
				for _, q := range paths {
					if strings.HasPrefix(q, prefix+"/") {
						delete(t, q)
					}
				}
				if r.Chance(1, 4) {
					t[prefix] = file{Data: r.Pick("z", "dir", "a.txt"), K: kLink}
				} else {
					t[prefix] = file{Data: genContent(r, prefix), K: kFile}
				}
			}
		case 7: // file -> symlink
			if f.K == kFile || f.K == kExec {
				t[p] = file{Data: r.Pick("a.txt", "b.txt", "dir", "z/y"), K: kLink}
			}
		case 8: // symlink -> file, or retarget
			if f.K == kLink {
				if r.Bool() {
					t[p] = file{Data: genContent(r, p), K: kFile}
				} else {
					t[p] = file{Data: f.Data + "x", K: kLink}
				}
			}
		case 9: // case variant
			q := swapCase(p)
			if q != p && f.K != kSub && !conflicts(t, q) {
				delete(t, p)
				t[q] = f
			}
		case 10: // gitlink add / remove / move
			if f.K == kSub {
				if r.Bool() {
					delete(t, p)
					if len(t) == 0 {
						t["a.txt"] = genEnt(r, "a.txt")
					}
				} else {
					t[p] = file{Data: strconv.Itoa(r.Intn(6)), K: kSub}
				}
			} else if r.Chance(1, 3) && !conflicts(t, "sub") {
				t["sub"] = file{Data: strconv.Itoa(r.Intn(6)), K: kSub}
			}
		case 11: // deep add
			q := fmt.Sprintf("deep/1/2/3/4/g%d.txt", r.Intn(3))
			if !conflicts(t, q) {
				t[q] = file{Data: genContent(r, q), K: kFile}
			}
		case 12: // delete a whole directory
			if i := strings.IndexByte(p, '/'); i > 0 {
				prefix := p[:i]
				for _, q := range paths {
					if strings.HasPrefix(q, prefix+"/") && len(t) > 1 {
						delete(t, q)
					}
				}
			}
		}
	}
	return t
}

func toSpec(t tree) TreeSpec {
	var s TreeSpec
	for _, p := range sortedPaths(t) {
		if p == ".gitmodules" {
			continue
		}
		s = append(s, Ent{P: p, D: t[p].Data, K: t[p].K})
	}
	return s
}

// genMods draws user modifications aimed at the interesting places of the
// (current, target) pair.
func genMods(r *core.Rand, cur, tgt tree, n int) []Mod {
	var mods []Mod
	curPaths := sortedPaths(cur)
	var changed, added, removed []string
	for _, p := range curPaths {
		if f, ok := tgt[p]; !ok {
			removed = append(removed, p)
		} else if f != cur[p] {
			changed = append(changed, p)
		}
	}
	for _, p := range sortedPaths(tgt) {
		if _, ok := cur[p]; !ok {
			added = append(added, p)
		}
	}
	pickFrom := func(ls ...[]string) string {
		var nonEmpty [][]string
		for _, l := range ls {
			if len(l) > 0 {
				nonEmpty = append(nonEmpty, l)
			}
		}
		if len(nonEmpty) == 0 {
			return "a.txt"
		}
		l := nonEmpty[r.Intn(len(nonEmpty))]
		return l[r.Intn(len(l))]
	}
	tracked := func() string {
		if r.Bool() {
			return pickFrom(changed, removed)
		}
		return pickFrom(curPaths)
	}
	for i := 0; i < n; i++ {
		m := Mod{Stage: r.Chance(1, 3)}
		switch k := r.Intn(20); {
		case k < 5:
			m.Kind, m.Path = "edit", tracked()
			m.Data = fmt.Sprintf("local edit %d\n", r.Intn(1000))
			switch r.Intn(8) {
			case 0:
				m.Data = "" // truncated by the user
			case 1, 2:
				m.Data = sameLenToken // same length as the current content, different bytes
			}
			if f, ok := tgt[m.Path]; ok && r.Chance(1, 6) {
				m.Data = f.Data // the user's content equals the target's
			}
		case k < 7:
			m.Kind, m.Path = "chmod", tracked()
		case k < 9:
			m.Kind, m.Path = "delete", tracked()
		case k < 15:
			m.Kind = "untracked"
			m.Data = fmt.Sprintf("untracked %d\n", r.Intn(1000))
			if r.Chance(1, 8) {
				m.Data = "" // an empty stale file
			}
			switch r.Intn(7) {
			case 0:
				m.Path = r.Pick("untracked.txt", "un/tracked.txt", "dir/untracked.tmp", "zz/deep/er/u.txt")
			case 1: // a path the target adds
				m.Path = pickFrom(added)
				if f, ok := tgt[m.Path]; ok && r.Chance(1, 4) {
					m.Data = f.Data
				}
			case 2: // inside a directory the target removes (or just changes)
				q := pickFrom(removed, removed, curPaths)
				if d := parent(q); d != "" {
					m.Path = d + "/untracked.tmp"
				} else {
					m.Path = "untracked2.txt"
				}
			case 3: // where the target needs a directory
				q := pickFrom(added)
				parts := strings.Split(q, "/")
				if len(parts) > 1 {
					m.Path = strings.Join(parts[:r.Range(1, len(parts)-1)], "/")
				} else {
					m.Path = q
				}
			case 4: // below a file the target adds
				m.Path = pickFrom(added) + "/under.txt"
			case 5: // case variant
				m.Path = swapCase(pickFrom(added, curPaths))
			case 6: // beside a tracked file in a kept directory
				q := pickFrom(curPaths)
				if d := parent(q); d != "" {
					m.Path = d + "/beside.txt"
				} else {
					m.Path = "beside.txt"
				}
			}
		case k < 16:
			m.Kind, m.Path, m.Data = "untracked-link", r.Pick("ulink", "dir/ulink", pickFrom(added)), r.Pick("a.txt", "dir", "nowhere")
		case k < 17:
			m.Kind, m.Path = "rmcached", tracked()
		case k < 18:
			m.Kind, m.Path, m.Data = "retype-link", tracked(), r.Pick("a.txt", "dir", "b.txt")
		case k < 19:
			m.Kind, m.Path, m.Data = "retype-dir", tracked(), "inner\n"
		default:
			m.Kind, m.Path, m.Data = "relink", tracked(), r.Pick("b.txt", "dir/sub", "gone")
		}
		mods = append(mods, m)
	}
	return mods
}

// ===================================================================
// C25 proper
// ===================================================================

type Plan struct {
	RepoSeed uint64       `json:"repo_seed"`
	Repack   bool         `json:"repack"`
	TickMs   int          `json:"tick_ms"`
	Gap      int          `json:"gap"`
	Extra    []TreeSpec   `json:"extra"`
	From     int          `json:"from"` // counted from the end of the commit list
	To       int          `json:"to"`
	Detached bool         `json:"detached"`
	Prior    []Mod        `json:"prior"`
	Op       int          `json:"op"`
	Git      bool         `json:"git"`
	Fault    *simfs.Fault `json:"fault,omitempty"`
}

var opNames = []string{"co-branch", "co-hash", "co-create", "reset-hard", "co-newhead"}

func genPlan(r *core.Rand, tier string) any {
	p := &Plan{RepoSeed: r.Uint64() % 48, Repack: r.Bool(), TickMs: []int{0, 1, 1000}[r.Intn(3)], Gap: r.Intn(3)}
	if tier == "thorough" {
		p.RepoSeed = r.Uint64() % 2048
		p.Git = true
	}
	t1 := genTree(r)
	t2 := transform(r, t1)
	p.Extra = []TreeSpec{toSpec(t1), toSpec(t2)}
	if r.Chance(1, 4) {
		p.Extra = append(p.Extra, toSpec(transform(r, t2)))
	}
	switch k := r.Intn(10); {
	case k < 4:
		p.From, p.To = 1, 0
	case k < 8:
		p.From, p.To = 0, 1
	case k < 9:
		p.From, p.To = r.Intn(10), r.Intn(10)
	default:
		p.From = r.Intn(3)
		p.To = p.From
	}
	p.Detached = r.Chance(1, 5)
	p.Op = r.Intn(9) % 5 // create-at-head less often
	trees, _ := modelTrees(p.RepoSeed, p.Repack, p.Extra)
	if len(trees) > 0 && !r.Chance(1, 5) {
		cur, tgt := trees[pick(p.From, len(trees))], trees[pick(p.To, len(trees))]
		p.Prior = genMods(r, cur, tgt, r.Range(1, 4))
	}
	return p
}

func expand(t *testing.T, pa any, tier string) []any {
	p := pa.(*Plan)
	out := []any{p}
	q := *p
	q.Fault, q.Git = nil, false
	var counts map[simfs.OpClass]int
	run(t, &q, func(d *simfs.Disk) { counts = d.ClassCounts() })
	if counts == nil {
		return out
	}
	js, _ := json.Marshal(p)
	r := core.NewRand(uint64(len(js))*7919 + p.RepoSeed*131 + uint64(p.Op))
	type cand struct {
		class simfs.OpClass
		nth   int
	}
	var cands []cand
	classes := []simfs.OpClass{simfs.OpWrite, simfs.OpCreate, simfs.OpOpen, simfs.OpRead, simfs.OpStat, simfs.OpRename, simfs.OpClose, simfs.OpRemove, simfs.OpReadDir, simfs.OpMkdir, simfs.OpChmod, simfs.OpSymlink, simfs.OpReadlink, simfs.OpTruncate}
	for _, c := range classes {
		for k := 1; k <= counts[c]; k++ {
			cands = append(cands, cand{c, k})
		}
	}
	limit := 20
	if tier == "thorough" {
		limit = 400
	}
	if len(cands) > limit {
		for i := len(cands) - 1; i > 0; i-- {
			j := r.Intn(i + 1)
			cands[i], cands[j] = cands[j], cands[i]
		}
		cands = cands[:limit]
		sort.Slice(cands, func(i, j int) bool {
			if cands[i].class != cands[j].class {
				return cands[i].class < cands[j].class
			}
			return cands[i].nth < cands[j].nth
		})
	}
	for _, c := range cands {
		v := *p
		v.Git = false
		errno := "EIO"
		switch c.class {
		case simfs.OpWrite:
			errno = []string{"ENOSPC", "SHORT", "EIO"}[r.Intn(3)]
		case simfs.OpCreate, simfs.OpOpen:
			errno = []string{"EACCES", "EMFILE"}[r.Intn(2)]
		}
		v.Fault = &simfs.Fault{Class: c.class, Nth: c.nth, Errno: errno, Short: r.Intn(64)}
		out = append(out, &v)
	}
	return out
}

func execPlan(t *testing.T, pa any) core.Outcome {
	p := pa.(*Plan)
	out := run(t, p, nil)
	if out.Signature != "" && p.Fault != nil && !strings.HasSuffix(out.Signature, "|none") {
		// a divergence that the same plan shows without the fault is not the
		// fault's doing: report it under the fault-free signature
		q := *p
		q.Fault, q.Git = nil, false
		base := run(t, &q, nil)
		cut := func(s string) string { return strings.SplitN(s, "|", 4)[2] } // the divergence
		if base.Signature != "" && cut(base.Signature) == cut(out.Signature) {
			out.Signature = base.Signature
			out.Message += " [the same divergence occurs without the fault]"
		}
	}
	return out
}

func faultWhere(d *simfs.Disk) string {
	for _, op := range d.Log {
		if op.Injected {
			p := strings.TrimPrefix(op.Path, "/w/")
			switch {
			case !strings.HasPrefix(p, ".git"):
				return "wt"
			case strings.HasPrefix(p, ".git/objects"):
				return "obj"
			case p == ".git/index":
				return "idx"
			case p == ".git/HEAD", strings.HasPrefix(p, ".git/refs"), p == ".git/packed-refs":
				return "refs"
			case p == ".git/config":
				return "cfg"
			}
			return "git"
		}
	}
	return "none"
}

func faultPath(d *simfs.Disk) string {
	for _, op := range d.Log {
		if op.Injected {
			return op.Path
		}
	}
	return "?"
}

func run(t *testing.T, p *Plan, observe func(d *simfs.Disk)) (out core.Outcome) {
	hooks.Deterministic(true)
	pre := prepare(p.RepoSeed, p.Repack, p.Extra)
	if pre.err != "" {
		out.Inconclusive = pre.err
		return out
	}
	n := len(pre.commits)
	from, to := pick(p.From, n), pick(p.To, n)
	opKind := mod(p.Op, len(opNames))
	op := opNames[opKind]
	if opKind == 4 {
		to = from
	}
	cur, tgt := pre.commits[from], pre.commits[to]
	d := pre.disk.Clone()
	w := buildState(d, from, cur, p.Prior, p.Detached, p.TickMs, p.Gap)
	w.logf("state: commit #%d checked out (detached=%v), target #%d, op %s, %d user modification(s)", from, p.Detached, to, op, w.nprior)
	defer func() {
		out.Trace = w.trace
		out.LogHash = core.HashStrings(w.trace)
		out.StateHash = d.Digest("/w", nil)
		out.Steps = 1 + w.nprior
	}()

	pcs := pairClasses(cur.Tree, tgt.Tree)
	for _, c := range pcs {
		out.Probe("pair:" + c)
	}
	if w.nprior == 0 {
		out.Probe("prior:clean")
	}
	{
		keys := make([]string, 0, len(w.prior))
		for k := range w.prior {
			keys = append(keys, k)
		}
		sort.Strings(keys)
		for _, k := range keys {
			out.Probe("prior:" + w.prior[k])
		}
	}
	out.NonTrivial = !trivialPair(pcs) || w.nprior > 0

	// observation before the call, straight from the image
	preFiles, _, _ := snapshotWT(d)
	preIdx, decodable := porc.DecodeIndexOnDisk(d)
	if !decodable || preIdx == nil {
		out.Inconclusive = "setup-index-undecodable"
		return out
	}
	preTracked := map[string]bool{}
	for _, e := range preIdx.Entries {
		preTracked[e.Name] = true
	}
	preSnap := porc.TakeSnapshot(d)

	env, err := gen.Open(d, "/w", "op", filesystem.Options{})
	if err != nil {
		out.Inconclusive = "setup-open-failed"
		return out
	}
	defer func() { _ = env.Storage.Close() }()
	wt, err := env.Repo.Worktree()
	if err != nil {
		out.Inconclusive = "setup-worktree-failed"
		return out
	}

	d.ResetCounters()
	if p.Fault != nil {
		d.Record = true
		d.SetFaults([]simfs.Fault{*p.Fault})
		if os.Getenv("VERIF_C25_STACK") != "" { // debugging aid: where does the faulted operation come from
			seen := 0
			d.Footprint = func(op *simfs.Op) string {
				if op.Class == p.Fault.Class {
					if seen++; seen == p.Fault.Nth {
						fmt.Fprintf(os.Stderr, "FAULTED OP %s\n%s\n", op.String(), debug.Stack())
					}
				}
				return ""
			}
		}
	}
	newBranch := plumbing.ReferenceName("refs/heads/nb")
	switch opKind {
	case 0:
		err = wt.Checkout(&git.CheckoutOptions{Branch: branchOf(to), Force: true})
	case 1:
		err = wt.Checkout(&git.CheckoutOptions{Hash: tgt.Hash, Force: true})
	case 2:
		err = wt.Checkout(&git.CheckoutOptions{Branch: newBranch, Create: true, Hash: tgt.Hash, Force: true})
	case 3:
		err = wt.Reset(&git.ResetOptions{Mode: git.HardReset, Commit: tgt.Hash})
	case 4:
		err = wt.Checkout(&git.CheckoutOptions{Branch: newBranch, Create: true, Force: true})
	}
	fired := 0
	for _, v := range d.FaultsFired {
		fired += v
	}
	fault := "none"
	if p.Fault != nil {
		d.SetFaults(nil)
		if fired > 0 {
			fault = "swallowed:" + string(p.Fault.Class) + "@" + faultWhere(d)
			out.Faults = map[string]int{string(p.Fault.Class) + ":" + p.Fault.Errno: 1}
			w.logf("fault %s:%s #%d fired on %s", p.Fault.Class, p.Fault.Errno, p.Fault.Nth, faultPath(d))
		}
		d.Record = false
	}
	if observe != nil {
		observe(d)
	}
	w.logf("%s -> %s", op, errKind(err))
	if err != nil {
		if fired > 0 {
			out.Probe("op-failed-after-fault")
		} else {
			out.Probe("outcome:" + op + ":refused:" + errKind(err))
		}
		return out // a call that returned an error is C29's business
	}
	out.Probe("outcome:" + op + ":ok")
	if fired > 0 {
		out.Probe("fault-swallowed")
		out.Probe("fault-swallowed:" + string(p.Fault.Class) + "@" + faultWhere(d))
	}

	// Every component is examined and contributes at most one divergence; the
	// one reported is the first in the order worktree content, index, HEAD,
	// other references, untracked files, left-over tracked files, git status.
	type divergence struct{ sig, msg string }
	var divs []divergence
	fail := func(div, path, format string, args ...any) {
		pc, prc := pcs[0], "clean"
		if path != "" {
			pc = relation(path, cur.Tree, tgt.Tree)
			prc = w.priorClassFor(path)
		} else if w.nprior > 0 {
			prc = "dirty"
		}
		msg := fmt.Sprintf(format, args...)
		if path != "" {
			msg += fmt.Sprintf(" [path relation %s, prior state of the path: %s]", pc, prc)
		}
		sop := op
		if fault != "none" {
			// after a swallowed I/O error, which operation form was running and
			// which path diverges are incidental: one signature per (divergence,
			// operation class and place of the swallowed error)
			sop, pc, prc = "any", "any", "any"
		}
		w.logf("DIVERGENCE %s: %s", div, msg)
		divs = append(divs, divergence{fmt.Sprintf("C25|%s|%s|%s|%s|%s", sop, div, pc, prc, fault),
			fmt.Sprintf("%s from commit #%d to #%d returned nil but %s (fault: %s)", op, from, to, msg, fault)})
	}

	postFiles, postDirs, _ := snapshotWT(d)

	// 1. every path of tree(C) is there with its bytes, exec bit, link target
	mark := len(divs)
	for _, path := range sortedPaths(tgt.Tree) {
		if len(divs) > mark {
			break
		}
		f := tgt.Tree[path]
		got, ok := postFiles[path]
		if f.K == kSub {
			if !postDirs[path] {
				fail("missing-file", path, "the submodule directory %q does not exist", path)
			}
			continue
		}
		want := nodeOf(f)
		switch {
		case !ok:
			what := "is absent"
			if postDirs[path] {
				what = "is a directory"
			}
			fail("missing-file", path, "%q %s; the target commit has %s", path, what, want)
		case want.Kind == "link" && (got.Kind != "link" || got.Data != want.Data):
			fail("wrong-link", path, "%q is %s; the target commit has %s", path, got, want)
		case want.Kind == "file" && got.Kind != "file":
			fail("wrong-mode", path, "%q is %s; the target commit has %s", path, got, want)
		case got.Data != want.Data:
			fail("wrong-bytes", path, "%q holds %q; the target commit has %q", path, clip(got.Data), clip(want.Data))
		case got.Exec != want.Exec:
			fail("wrong-mode", path, "%q has exec=%v; the target commit has exec=%v", path, got.Exec, want.Exec)
		}
	}
	// 2. the on-disk index is exactly tree(C)
	postIdx, ok := porc.DecodeIndexOnDisk(d)
	if !ok || postIdx == nil {
		fail("index-differs", "", "the on-disk index is missing or does not decode")
	} else {
		mark = len(divs)
		seen := map[string]bool{}
		prev := ""
		for i, e := range postIdx.Entries {
			if len(divs) > mark {
				break
			}
			f, ok := tgt.Tree[e.Name]
			switch {
			case !ok:
				fail("index-differs", e.Name, "the index has an entry %q that the target commit does not have", e.Name)
			case seen[e.Name]:
				fail("index-differs", e.Name, "the index has two entries for %q", e.Name)
			case i > 0 && e.Name < prev:
				fail("index-differs", e.Name, "index entries are not sorted (%q after %q)", e.Name, prev)
			case e.Stage != 0:
				fail("index-differs", e.Name, "index entry %q has stage %d", e.Name, e.Stage)
			case e.Hash.String() != entryHash(f):
				fail("index-differs", e.Name, "index entry %q has id %s, the target's content hashes to %s", e.Name, e.Hash, entryHash(f))
			case e.Mode != fileMode(f):
				fail("index-differs", e.Name, "index entry %q has mode %o, the target has %o", e.Name, uint32(e.Mode), uint32(fileMode(f)))
			case e.SkipWorktree || e.IntentToAdd:
				fail("index-differs", e.Name, "index entry %q has skip-worktree=%v intent-to-add=%v", e.Name, e.SkipWorktree, e.IntentToAdd)
			}
			seen[e.Name] = true
			prev = e.Name
		}
		for _, path := range sortedPaths(tgt.Tree) {
			if len(divs) > mark {
				break
			}
			if !seen[path] {
				fail("index-differs", path, "the index has no entry for %q of the target commit", path)
			}
		}
	}
	// 3. HEAD and the references
	postSnap := porc.TakeSnapshot(d)
	{
		mark = len(divs)
		head := strings.TrimSpace(postSnap.Head)
		allowed := "" // the one reference the operation may move or create
		switch opKind {
		case 0:
			if head != "ref: "+string(branchOf(to)) {
				fail("head-differs", "", "HEAD is %q, expected a symbolic reference to %s", head, branchOf(to))
			}
		case 1:
			if head != tgt.Hash.String() {
				fail("head-differs", "", "HEAD is %q, expected the detached target commit", head)
			}
		case 2, 4:
			allowed = string(newBranch)
			if head != "ref: "+allowed {
				fail("head-differs", "", "HEAD is %q, expected a symbolic reference to the created branch", head)
			} else if postSnap.Refs[allowed] != tgt.Hash.String() {
				fail("head-differs", "", "the created branch holds %q, not the target commit", postSnap.Refs[allowed])
			}
		case 3:
			preHead := strings.TrimSpace(preSnap.Head)
			switch {
			case strings.HasPrefix(preHead, "ref: "):
				allowed = strings.TrimPrefix(preHead, "ref: ")
				if head != preHead {
					fail("head-differs", "", "HEAD was %q and is %q after reset --hard", preHead, head)
				} else if postSnap.Refs[allowed] != tgt.Hash.String() {
					fail("head-differs", "", "the current branch %s holds %q, not the target commit", allowed, postSnap.Refs[allowed])
				}
			case head != tgt.Hash.String():
				fail("head-differs", "", "detached HEAD is %q, not the target commit", head)
			}
		}
		names := map[string]bool{}
		for k := range preSnap.Refs {
			names[k] = true
		}
		for k := range postSnap.Refs {
			names[k] = true
		}
		var ns []string
		for k := range names {
			ns = append(ns, k)
		}
		sort.Strings(ns)
		for _, k := range ns {
			if len(divs) > mark {
				break
			}
			if k != allowed && preSnap.Refs[k] != postSnap.Refs[k] {
				fail("other-ref-changed", "", "reference %s changed from %q to %q", k, preSnap.Refs[k], postSnap.Refs[k])
			}
		}
	}
	// 4. untracked files that the target does not have are untouched
	var untracked []string
	for path := range preFiles {
		if !preTracked[path] {
			untracked = append(untracked, path)
		}
	}
	sort.Strings(untracked)
	mark = len(divs)
	for _, path := range untracked {
		if _, ok := tgt.Tree[path]; ok {
			out.Probe("not-judged:untracked-at-target-path")
			continue
		}
		inTheWay := isDirIn(tgt.Tree, path)
		for q := parent(path); q != "" && !inTheWay; q = parent(q) {
			if _, ok := tgt.Tree[q]; ok {
				inTheWay = true
			}
		}
		if inTheWay {
			out.Probe("not-judged:untracked-in-the-way-of-target")
			continue
		}
		out.Probe("untracked-judged:" + relation(path, cur.Tree, tgt.Tree))
		if len(divs) > mark {
			continue
		}
		got, ok := postFiles[path]
		if !ok {
			fail("untracked-lost", path, "the untracked %q (%s), which the target commit does not have, is gone", path, preFiles[path])
		} else if got != preFiles[path] {
			fail("untracked-lost", path, "the untracked %q was %s and is now %s", path, preFiles[path], got)
		}
	}
	// 5. no other tracked path exists
	var tracked []string
	for path := range preTracked {
		tracked = append(tracked, path)
	}
	sort.Strings(tracked)
	mark = len(divs)
	for _, path := range tracked {
		if _, ok := tgt.Tree[path]; ok || len(divs) > mark {
			continue
		}
		if got, ok := postFiles[path]; ok {
			fail("extra-tracked-file", path, "%q (%s) was in the index before the call, is not in the target commit, and is still in the worktree", path, got)
		}
	}
	// 6. thorough tier: git's own opinion about the exported image
	if p.Git && p.Fault == nil {
		lines, gerr := gitStatus(d)
		switch {
		case gerr == errNoGit:
			out.Probe("git-unavailable")
		case gerr != nil:
			fail("git-status-failed", "", "git status on the exported image failed: %v", gerr)
		default:
			out.Probe("git-status-consulted")
			for _, l := range lines {
				if l != "" && !strings.HasPrefix(l, "??") {
					fail("git-status-differs", strings.TrimSpace(l[min(3, len(l)):]), "git status --porcelain reports a tracked change: %q", l)
					break
				}
			}
		}
	}
	if len(divs) > 0 {
		out.Fail(divs[0].sig, "%s", divs[0].msg)
		if len(divs) > 1 {
			out.Message += fmt.Sprintf(" [+%d further divergence(s) in the trace]", len(divs)-1)
		}
	}
	return out
}

func clip(s string) string {
	if len(s) > 48 {
		return s[:48] + "..."
	}
	return s
}

var errNoGit = errors.New("git not available")

func gitStatus(d *simfs.Disk) ([]string, error) {
	if _, err := exec.LookPath("git"); err != nil {
		return nil, errNoGit
	}
	dir, err := os.MkdirTemp("/var/tmp", "verif-c25-git-")
	if err != nil {
		return nil, errNoGit
	}
	defer os.RemoveAll(dir)
	if err := d.Export("/w", dir); err != nil {
		return nil, errNoGit
	}
	cmd := exec.Command("git", "-C", dir, "-c", "core.fileMode=true", "-c", "core.symlinks=true", "-c", "core.ignoreCase=false", "status", "--porcelain", "--untracked-files=all")
	cmd.Env = []string{"GIT_CONFIG_NOSYSTEM=1", "HOME=" + dir, "LC_ALL=C", "TZ=UTC", "PATH=" + os.Getenv("PATH"), "GIT_CONFIG_GLOBAL=/dev/null", "GIT_OPTIONAL_LOCKS=0"}
	var stdout, stderr bytes.Buffer
	cmd.Stdout, cmd.Stderr = &stdout, &stderr
	if err := cmd.Run(); err != nil {
		line := strings.SplitN(strings.TrimSpace(stderr.String()), "\n", 2)[0]
		return nil, fmt.Errorf("%v: %s", err, strings.ReplaceAll(line, dir, "<dir>"))
	}
	return strings.Split(strings.TrimRight(stdout.String(), "\n"), "\n"), nil
}

func TestCheck(t *testing.T) {
	core.Main(t, core.Check{
		ID:    "C25",
		Level: "fault_enumeration",
		Rule: "plan = generated repository x 2-3 extra commits with generated trees (second derived from the first by 1-3 of: content change, exec-bit flip, deletion, addition, file->dir, dir->file/symlink, file<->symlink, symlink retarget, case-variant rename, gitlink add/remove/move, deep path, directory removal) x (current, target) commit pair (mostly the two extras in either order, sometimes model commits or current==target) x attached/detached HEAD x mtime tick (1ns/1ms/1s) and clock gap (0-2 ticks) x 0-4 user modifications before the call (edit, chmod, delete, untracked file at fresh path / at a path the target adds / inside a directory the target removes / where the target needs a directory / below a file the target adds / case variant, untracked symlink, removal from the index only, type change to symlink or directory, symlink retarget; each staged or unstaged) x operation (Checkout Force by branch / by hash / Create with hash / Create at HEAD, Reset Hard); " +
			"each plan runs fault-free and is expanded into single-fault variants at enumerated (operation class, ordinal) pairs of the call's disk operations (sample of 20 in quick, up to 400 in thorough); the postcondition is judged whenever the call returns nil; non-trivial = the pair is not plain/same or the prior state is not clean",
		Assumptions: []string{"the state before the call (worktree files, index, HEAD) is written by the harness directly into the image, so the code under test is not used to build its own precondition",
			"extra commits are written with go-git's object encoders and storage, not Worktree.Add/Commit",
			"tracked = paths of the target tree plus paths in the index before the call; untracked files at a path the target has, below a file of the target, or where the target needs a directory may be overwritten and are not judged",
			"calls that return an error are not judged here (C29)", "POSIX name semantics only (no case-folding personality)"},
		Real:    []string{"Worktree.Checkout (Force) / Worktree.Reset (HardReset)", "resetIndex, resetWorktreeToTree, checkoutChange, checkoutFile", "merkletrie filesystem/index noders", "storage/filesystem"},
		Stub:    []string{"disk (simfs) with fault ordinals", "clock (simfs manual clock)"},
		Runs:    map[string]int{"quick": 4000, "thorough": 20000},
		NewPlan: func() any { return &Plan{} },
		Gen:     genPlan,
		Expand:  expand,
		Exec:    execPlan,
		RequiredProbes: []string{"pair:file-dir-swap", "pair:file-symlink-swap", "pair:symlink-dir-swap", "pair:mode-only", "pair:case-variant", "pair:deep", "pair:submodule", "pair:plain", "pair:same",
			"prior:clean", "prior:edit", "prior:staged-edit", "prior:chmod", "prior:delete", "prior:untracked", "prior:staged-add", "prior:rmcached", "prior:retype-link", "prior:retype-dir",
			"outcome:co-branch:ok", "outcome:co-hash:ok", "outcome:co-create:ok", "outcome:reset-hard:ok", "fault-swallowed", "op-failed-after-fault",
			"untracked-judged:in-removed-dir", "untracked-judged:elsewhere", "not-judged:untracked-at-target-path"},
	})
}
