//go:build verif

// C23 — concurrent reads on shared storage are correct.
//
// 2-5 reader tasks share ONE filesystem Storage over a repository with loose
// objects, two packs and an alternate; a writer task works on a SECOND Storage
// over the same disk image (adds loose objects, adds packs, repacks, packs
// refs) or, in a separate configuration, on the readers' own Storage (additive
// writes only); an optional maintenance task calls Reindex /
// CloseIdleDescriptors on the readers' Storage. Every disk operation and every
// hooked lock of go-git is a scheduling point; the fake clock is stepped across
// the descriptor grace period.
//
// Oracle: the stable set (every object present at the start; repacking keeps
// them) must read back with the ground-truth type, size and bytes on every read
// path, and never with an error; ids that exist nowhere must be not-found;
// objects the writer is adding may be either until then; references and the
// index never change in value and must always read as they are.
package c23

import (
	"bytes"
	"crypto/sha1"
	"errors"
	"fmt"
	"io"
	"os"
	"sort"
	"strings"
	"testing"
	"time"

	git "github.com/go-git/go-git/v6"
	"github.com/go-git/go-git/v6/plumbing"
	"github.com/go-git/go-git/v6/plumbing/cache"
	"github.com/go-git/go-git/v6/plumbing/format/index"
	"github.com/go-git/go-git/v6/plumbing/format/packfile"
	"github.com/go-git/go-git/v6/storage/filesystem"
	"github.com/go-git/go-git/v6/storage/memory"
	"github.com/go-git/go-git/v6/verifsim/core"
	"github.com/go-git/go-git/v6/verifsim/gen"
	"github.com/go-git/go-git/v6/verifsim/hooks"
	"github.com/go-git/go-git/v6/verifsim/sched"
	"github.com/go-git/go-git/v6/verifsim/simfs"
	"github.com/go-git/go-git/v6/x/fdpool"
)

type Op struct {
	Kind string `json:"kind"` // get | gettyped | getwrong | has | size | prefix | iter | ref | refs | index | absent | growing
	K    int    `json:"k"`
}

type WOp struct {
	Kind string `json:"kind"` // loose | pack | repack | packrefs | dup-pack
	Ks   []int  `json:"ks"`
}

type Plan struct {
	Seed      uint64         `json:"seed"`
	Commits   int            `json:"commits"`
	Layout    []int          `json:"layout"`   // per stable object: 0 loose, 1 pack A, 2 pack B, 3 alternate loose, 4 alternate pack
	PoolCap   int            `json:"pool_cap"` // 0 default pool, -1 no-op pool, n>0 capacity
	InMemIdx  bool           `json:"in_mem_idx"`
	SmallLRU  bool           `json:"small_lru"`
	Exclusive bool           `json:"exclusive"`
	Readers   [][]Op         `json:"readers"`
	Writer    []WOp          `json:"writer"`
	SameInst  bool           `json:"same_instance"` // the writer uses the readers' Storage (additive writes only)
	Maint     []string       `json:"maint"`         // reindex | close-idle, on the readers' Storage
	Sched     sched.Schedule `json:"sched"`
}

const nGrow = 6

func genPlan(r *core.Rand, tier string) any {
	p := &Plan{Seed: r.Uint64() % 50000, Commits: r.Range(2, 5), PoolCap: r.Pick2(0, -1, 1, 1, 2, 3, 8), InMemIdx: r.Bool(), SmallLRU: r.Bool(), Exclusive: r.Chance(1, 10)}
	for i := 0; i < 40; i++ {
		p.Layout = append(p.Layout, r.Pick2(0, 0, 1, 1, 2, 2, 3, 4))
	}
	nr := r.Range(2, 5)
	kinds := []string{"get", "get", "get", "gettyped", "getwrong", "has", "size", "prefix", "iter", "ref", "refs", "index", "absent", "growing"}
	total := 0
	for i := 0; i < nr; i++ {
		var ops []Op
		n := r.Range(1, 6)
		if r.Chance(1, 3) {
			// a late reader: it first touches the storage (so that the pack
			// indexes are loaded), then lets the others (the writer) run for a while
			ops = append(ops, Op{Kind: "has", K: r.Intn(64)}, Op{Kind: "pause", K: r.Pick2(50, 200, 600, 1500)})
		}
		for j := 0; j < n; j++ {
			ops = append(ops, Op{Kind: kinds[r.Intn(len(kinds))], K: r.Intn(64)})
			total++
		}
		p.Readers = append(p.Readers, ops)
	}
	p.SameInst = r.Chance(1, 5)
	nw := r.Range(0, 3)
	for i := 0; i < nw; i++ {
		w := WOp{Kind: r.Pick("loose", "pack", "pack", "repack", "repack", "packrefs", "dup-pack")}
		n := r.Range(1, 3)
		for j := 0; j < n; j++ {
			w.Ks = append(w.Ks, r.Intn(64))
		}
		p.Writer = append(p.Writer, w)
	}
	nm := r.Pick2(0, 0, 1, 2)
	for i := 0; i < nm; i++ {
		p.Maint = append(p.Maint, r.Pick("reindex", "close-idle"))
	}
	est := 40*total + 200*nw
	if r.Chance(1, 3) {
		n := r.Range(10, est)
		for i := 0; i < n; i++ {
			p.Sched.Uniform = append(p.Sched.Uniform, r.Intn(8))
		}
	} else {
		np := r.Range(0, 8)
		for i := 0; i < np; i++ {
			p.Sched.Preempts = append(p.Sched.Preempts, sched.Preempt{At: r.Intn(est), Pick: r.Intn(8)})
		}
	}
	for i := 0; i < 8; i++ {
		p.Sched.Fallback = append(p.Sched.Fallback, r.Intn(8))
	}
	if r.Bool() {
		nts := r.Range(1, 3)
		at := 0
		for i := 0; i < nts; i++ {
			at += r.Intn(est/2 + 1)
			p.Sched.TimeSteps = append(p.Sched.TimeSteps, sched.TimeStep{At: at, Ms: r.Pick2(500, 1100, 2500)})
		}
	}
	return p
}

func mod(a, n int) int {
	if n <= 0 {
		return 0
	}
	a %= n
	if a < 0 {
		a += n
	}
	return a
}

type obj struct {
	id   plumbing.Hash
	typ  plumbing.ObjectType
	data []byte
}

// objID is an independent git object id (SHA-1 of "<type> <len>\0<data>").
func objID(t plumbing.ObjectType, data []byte) plumbing.Hash {
	h := sha1.New()
	fmt.Fprintf(h, "%s %d\x00", t.String(), len(data))
	h.Write(data)
	id, _ := plumbing.FromBytes(h.Sum(nil))
	return id
}

func readAll(eo plumbing.EncodedObject) ([]byte, error) {
	rd, err := eo.Reader()
	if err != nil {
		return nil, err
	}
	defer rd.Close()
	return io.ReadAll(rd)
}

func copyObj(dst interface {
	NewEncodedObject() plumbing.EncodedObject
	SetEncodedObject(plumbing.EncodedObject) (plumbing.Hash, error)
}, o obj) error {
	eo := dst.NewEncodedObject()
	eo.SetType(o.typ)
	eo.SetSize(int64(len(o.data)))
	w, err := eo.Writer()
	if err != nil {
		return err
	}
	if _, err := w.Write(o.data); err != nil {
		return err
	}
	if err := w.Close(); err != nil {
		return err
	}
	_, err = dst.SetEncodedObject(eo)
	return err
}

func packOf(objs []obj) ([]byte, error) {
	ms := memory.NewStorage()
	var hs []plumbing.Hash
	for _, o := range objs {
		if err := copyObj(ms, o); err != nil {
			return nil, err
		}
		hs = append(hs, o.id)
	}
	var buf bytes.Buffer
	if _, err := packfile.NewEncoder(&buf, ms, false).Encode(hs, 10); err != nil {
		return nil, err
	}
	return buf.Bytes(), nil
}

func writePack(st *filesystem.Storage, objs []obj) error {
	if len(objs) == 0 {
		return nil
	}
	b, err := packOf(objs)
	if err != nil {
		return err
	}
	w, err := st.PackfileWriter()
	if err != nil {
		return err
	}
	if _, err := w.Write(b); err != nil {
		w.Close()
		return err
	}
	return w.Close()
}

func errKind(err error) string {
	switch {
	case err == nil:
		return "ok"
	case errors.Is(err, plumbing.ErrObjectNotFound):
		return "not-found"
	case errors.Is(err, plumbing.ErrReferenceNotFound):
		return "ref-not-found"
	}
	s := err.Error()
	for _, k := range []string{"packfile not found", "no such file", "file already closed", "closed", "bad file descriptor", "EOF", "malformed", "checksum", "zlib", "invalid"} {
		if strings.Contains(s, k) {
			return strings.ReplaceAll(k, " ", "-")
		}
	}
	return "other-error"
}

func execPlan(t *testing.T, pa any) (out core.Outcome) {
	p := pa.(*Plan)
	hooks.Deterministic(true)
	if os.Getenv("C23_DEBUG") != "" {
		simfs.DebugUseAfterClose = func(name, closedAt, usedAt string) {
			fmt.Fprintf(os.Stderr, "USE-AFTER-CLOSE %s\nCLOSED AT:\n%s\nUSED AT:\n%s\n", name, closedAt, usedAt)
		}
	}
	if p.Commits < 1 {
		p.Commits = 1
	}
	if p.Commits > 8 {
		p.Commits = 8
	}
	var trace []string
	var drv *sched.Driver
	// A repacking writer removes files the readers' Storage has indexed; an
	// additive one never does. The two are told apart in every signature.
	cfgName := "other-instance-writer:additive"
	for _, w := range p.Writer {
		if w.Kind == "repack" {
			cfgName = "other-instance-writer:repack"
		}
	}
	if p.SameInst {
		cfgName = "same-instance-writer"
	}
	if len(p.Writer) == 0 {
		cfgName = "readers-only"
	}
	if p.Exclusive {
		cfgName += "+exclusive"
	}
	setupFailed := func(what string, err error) {
		out.Inconclusive = "setup-failed"
		trace = append(trace, fmt.Sprintf("setup %s: %v", what, err))
	}

	panicked := sched.Bubble(t, func() {
		// ---- ground truth ----
		ms := memory.NewStorage()
		dag, err := gen.BuildDAG(p.Seed, gen.DAGCfg{Commits: p.Commits, Branches: 2, MergeRate: 20, ChainBias: 80, Tags: 1, SharedBlob: true}, ms)
		if err != nil {
			setupFailed("dag", err)
			return
		}
		var stable []obj
		ids := make([]plumbing.Hash, 0, len(dag.Objects))
		for h := range dag.Objects {
			ids = append(ids, h)
		}
		sort.Slice(ids, func(a, b int) bool { return ids[a].String() < ids[b].String() })
		for _, h := range ids {
			eo, err := ms.EncodedObject(plumbing.AnyObject, h)
			if err != nil {
				setupFailed("truth", err)
				return
			}
			b, err := readAll(eo)
			if err != nil {
				setupFailed("truth", err)
				return
			}
			if objID(eo.Type(), b) != h {
				setupFailed("truth", fmt.Errorf("independent id differs for %s", h))
				return
			}
			stable = append(stable, obj{h, eo.Type(), b})
		}
		// Bucket mates: a prefix search walks the index entries that share the prefix's first byte and stops at the
		// first name that does not match. With a few dozen objects hardly any two share a first byte, so that path
		// (early end of the walk inside a bucket, iterator closed before its caller closes it) never ran. Three
		// stable objects get a blob whose id has the same first byte and a greater second one, stored in the same
		// place as their partner.
		partner := map[int]int{}
		for i := 0; i < len(stable) && i < 3; i++ {
			h := stable[i].id.Bytes()
			if h[1] == 0xff {
				continue
			}
			for j := 0; j < 200000; j++ {
				d := []byte(fmt.Sprintf("bucket mate %d of %s\n", j, stable[i].id))
				id := objID(plumbing.BlobObject, d)
				if b := id.Bytes(); b[0] == h[0] && b[1] > h[1] {
					partner[len(stable)] = i
					stable = append(stable, obj{id, plumbing.BlobObject, d})
					break
				}
			}
		}
		grow := make([]obj, nGrow)
		for i := range grow {
			d := []byte(fmt.Sprintf("growing object %d of run %d\n%s", i, p.Seed, strings.Repeat("g", 30*i)))
			grow[i] = obj{objID(plumbing.BlobObject, d), plumbing.BlobObject, d}
		}
		// ---- image ----
		disk := simfs.NewDisk()
		disk.Clock = time.Now
		rootFS := disk.FS("/", "setup")
		mk := func(path, actor string) *filesystem.Storage {
			return filesystem.NewStorageWithOptions(disk.FS(path, actor), cache.NewObjectLRUDefault(), filesystem.Options{AlternatesFS: disk.FS("/", actor)})
		}
		setup := mk("/r/.git", "setup")
		alt := mk("/alt/.git", "setup")
		if _, err := git.Init(setup); err != nil {
			setupFailed("init", err)
			return
		}
		if _, err := git.Init(alt); err != nil {
			setupFailed("init-alt", err)
			return
		}
		layoutOf := func(i int) int {
			if pi, ok := partner[i]; ok {
				i = pi
			}
			if i < len(p.Layout) {
				return mod(p.Layout[i], 5)
			}
			return 0
		}
		var parts [5][]obj
		for i, o := range stable {
			parts[layoutOf(i)] = append(parts[layoutOf(i)], o)
		}
		for _, o := range parts[0] {
			if err := copyObj(setup, o); err != nil {
				setupFailed("loose", err)
				return
			}
		}
		for _, o := range parts[3] {
			if err := copyObj(alt, o); err != nil {
				setupFailed("alt-loose", err)
				return
			}
		}
		for _, w := range []struct {
			st *filesystem.Storage
			os []obj
		}{{setup, parts[1]}, {setup, parts[2]}, {alt, parts[4]}} {
			if err := writePack(w.st, w.os); err != nil {
				setupFailed("pack", err)
				return
			}
		}
		if len(parts[3])+len(parts[4]) > 0 {
			_ = rootFS.MkdirAll("/r/.git/objects/info", 0o755)
			disk.WriteFile("/r/.git/objects/info/alternates", []byte("/alt/.git/objects\n"), 0o644)
		}
		if err := dag.WriteRefs(setup); err != nil {
			setupFailed("refs", err)
			return
		}
		idx := &index.Index{Version: 2}
		for i, o := range stable {
			if o.typ == plumbing.BlobObject {
				idx.Entries = append(idx.Entries, &index.Entry{Name: fmt.Sprintf("f%02d", i), Hash: o.id, Mode: 0o100644, Size: uint32(len(o.data))})
			}
		}
		if err := setup.SetIndex(idx); err != nil {
			setupFailed("index", err)
			return
		}
		_ = setup.Close()
		_ = alt.Close()
		refNames := make([]string, 0, len(dag.Refs))
		for n := range dag.Refs {
			refNames = append(refNames, n)
		}
		sort.Strings(refNames)

		// ---- the readers' storage ----
		var pool *fdpool.Pool
		switch {
		case p.PoolCap < 0:
			pool = fdpool.New(0)
		case p.PoolCap > 0:
			pool = fdpool.New(p.PoolCap)
		}
		lru := cache.NewObjectLRUDefault()
		if p.SmallLRU {
			lru = cache.NewObjectLRU(96)
		}
		shared := filesystem.NewStorageWithOptions(disk.FS("/r/.git", "shared"), lru, filesystem.Options{
			AlternatesFS: disk.FS("/", "shared"), Pool: pool, UseInMemoryIdx: p.InMemIdx, ExclusiveAccess: p.Exclusive})
		defer shared.Close()

		drv = sched.New(p.Sched)
		drv.MaxSteps = 40000
		hooks.Install(drv)
		defer hooks.Uninstall()
		disk.Sched = drv

		// The statement covers readers of one Storage, alone or while ANOTHER
		// instance writes. A writer on the readers' own Storage and
		// ExclusiveAccess (which declares that nobody else touches the
		// repository) are driven too, but what they show is counted, not judged.
		outside := p.Exclusive || (p.SameInst && len(p.Writer) > 0)
		stopped := false
		fail := func(sig, format string, a ...any) {
			if outside {
				parts := strings.Split(sig, "|")
				if len(parts) > 3 {
					parts = parts[:3]
				}
				out.Probe("outside-statement:" + strings.Join(parts, "|") + "|" + cfgName)
				stopped = true
				return
			}
			if out.Signature == "" {
				out.Fail(sig, format, a...)
			}
		}
		_ = stopped
		addStarted := make([]bool, nGrow) // the writer began adding grow[i]
		absentID := func(k int) plumbing.Hash {
			return objID(plumbing.BlobObject, []byte(fmt.Sprintf("never stored %d %d", p.Seed, k)))
		}
		checkContent := func(who, path string, o obj, eo plumbing.EncodedObject) {
			if eo.Type() != o.typ || eo.Size() != int64(len(o.data)) {
				fail(fmt.Sprintf("C23|%s|wrong-header|%s", path, cfgName), "%s: %s(%s) reports type %s size %d; stored %s %d", who, path, o.id, eo.Type(), eo.Size(), o.typ, len(o.data))
				return
			}
			b, err := readAll(eo)
			if err != nil {
				fail(fmt.Sprintf("C23|%s|read-error:%s|%s", path, errKind(err), cfgName), "%s: reading %s after %s: %v", who, o.id, path, err)
				return
			}
			if !bytes.Equal(b, o.data) {
				fail(fmt.Sprintf("C23|%s|wrong-bytes|%s", path, cfgName), "%s: %s(%s) returned %d bytes that differ from the %d stored", who, path, o.id, len(b), len(o.data))
			}
		}
		var tasks []sched.Task
		for ri, ops := range p.Readers {
			if ri >= 6 {
				break
			}
			ri, ops := ri, ops
			who := fmt.Sprintf("r%d", ri)
			tasks = append(tasks, sched.Task{Name: who, Fn: func() {
				for oi, op := range ops {
					if oi >= 10 || out.Signature != "" || stopped {
						return
					}
					o := stable[mod(op.K, len(stable))]
					switch op.Kind {
					case "pause":
						for y := 0; y < op.K && y < 3000 && out.Signature == "" && !stopped; y++ {
							drv.Yield("pause")
						}
					case "get", "gettyped":
						want := plumbing.AnyObject
						if op.Kind == "gettyped" {
							want = o.typ
						}
						eo, err := shared.EncodedObject(want, o.id)
						drv.Logf("%s %s %s -> %s", who, op.Kind, o.id.String()[:6], errKind(err))
						if err != nil {
							fail(fmt.Sprintf("C23|get|%s-for-stable-object|%s", errKind(err), cfgName), "%s: EncodedObject(%s, %s) = %v; the object is stored (%s) and was never removed", who, want, o.id, err, o.typ)
							return
						}
						checkContent(who, "get", o, eo)
					case "getwrong":
						wrong := plumbing.BlobObject
						if o.typ == plumbing.BlobObject {
							wrong = plumbing.CommitObject
						}
						eo, err := shared.EncodedObject(wrong, o.id)
						drv.Logf("%s getwrong %s -> %s", who, o.id.String()[:6], errKind(err))
						if err == nil {
							fail("C23|get|wrong-type-served|"+cfgName, "%s: EncodedObject(%s, %s) returned an object of type %s", who, wrong, o.id, eo.Type())
						} else if !errors.Is(err, plumbing.ErrObjectNotFound) {
							fail(fmt.Sprintf("C23|get|%s-for-wrong-type-request|%s", errKind(err), cfgName), "%s: EncodedObject(%s, %s) = %v; want ErrObjectNotFound", who, wrong, o.id, err)
						}
					case "has":
						err := shared.HasEncodedObject(o.id)
						drv.Logf("%s has %s -> %s", who, o.id.String()[:6], errKind(err))
						if err != nil {
							fail(fmt.Sprintf("C23|has|%s-for-stable-object|%s", errKind(err), cfgName), "%s: HasEncodedObject(%s) = %v; the object is stored and was never removed", who, o.id, err)
						}
					case "size":
						sz, err := shared.EncodedObjectSize(o.id)
						drv.Logf("%s size %s -> %s", who, o.id.String()[:6], errKind(err))
						if err != nil {
							fail(fmt.Sprintf("C23|size|%s-for-stable-object|%s", errKind(err), cfgName), "%s: EncodedObjectSize(%s) = %v; the object is stored and was never removed", who, o.id, err)
						} else if sz != int64(len(o.data)) {
							fail("C23|size|wrong-size|"+cfgName, "%s: EncodedObjectSize(%s) = %d; stored %d", who, o.id, sz, len(o.data))
						}
					case "prefix":
						hs, err := shared.HashesWithPrefix(o.id.Bytes()[:2])
						drv.Logf("%s prefix %s -> %s", who, o.id.String()[:4], errKind(err))
						if err != nil {
							fail(fmt.Sprintf("C23|prefix|%s|%s", errKind(err), cfgName), "%s: HashesWithPrefix(%x) = %v", who, o.id.Bytes()[:2], err)
							return
						}
						found := false
						for _, h := range hs {
							if h == o.id {
								found = true
							}
						}
						// (objects of the alternate are outside a prefix search by design: see Assumptions)
						if !found && layoutOf(mod(op.K, len(stable))) < 3 {
							fail("C23|prefix|stable-object-missing|"+cfgName, "%s: HashesWithPrefix(%x) does not list %s", who, o.id.Bytes()[:2], o.id)
						}
					case "iter":
						typ := []plumbing.ObjectType{plumbing.AnyObject, plumbing.BlobObject, plumbing.TreeObject, plumbing.CommitObject}[mod(op.K, 4)]
						it, err := shared.IterEncodedObjects(typ)
						if err != nil {
							drv.Logf("%s iter %s -> %s", who, typ, errKind(err))
							fail(fmt.Sprintf("C23|iter|%s|%s", errKind(err), cfgName), "%s: IterEncodedObjects(%s) = %v", who, typ, err)
							return
						}
						seen := map[plumbing.Hash]bool{}
						n := 0
						err = it.ForEach(func(eo plumbing.EncodedObject) error {
							seen[eo.Hash()] = true
							n++
							if n%3 == 0 {
								for _, so := range stable {
									if so.id == eo.Hash() {
										checkContent(who, "iter", so, eo)
									}
								}
							}
							return nil
						})
						it.Close()
						drv.Logf("%s iter %s -> %s", who, typ, errKind(err))
						if err != nil {
							fail(fmt.Sprintf("C23|iter|%s|%s", errKind(err), cfgName), "%s: iterating %s objects failed after %d: %v", who, typ, n, err)
							return
						}
						for si, so := range stable {
							if layoutOf(si) >= 3 {
								continue // iteration does not descend into alternates (sequential behaviour, not this property's)
							}
							if (typ == plumbing.AnyObject || so.typ == typ) && !seen[so.id] {
								fail("C23|iter|stable-object-missing|"+cfgName, "%s: IterEncodedObjects(%s) yielded %d objects but not the stored %s %s", who, typ, n, so.typ, so.id)
								return
							}
						}
					case "ref":
						name := refNames[mod(op.K, len(refNames))]
						ref, err := shared.Reference(plumbing.ReferenceName(name))
						drv.Logf("%s ref %s -> %s", who, name, errKind(err))
						if err != nil {
							fail(fmt.Sprintf("C23|ref|%s|%s", errKind(err), cfgName), "%s: Reference(%s) = %v; it exists and never changes", who, name, err)
						} else if ref.Hash() != dag.Refs[name] {
							fail("C23|ref|wrong-value|"+cfgName, "%s: Reference(%s) = %s; stored %s", who, name, ref.Hash(), dag.Refs[name])
						}
					case "refs":
						it, err := shared.IterReferences()
						if err != nil {
							fail(fmt.Sprintf("C23|refs|%s|%s", errKind(err), cfgName), "%s: IterReferences = %v", who, err)
							return
						}
						got := map[string]plumbing.Hash{}
						err = it.ForEach(func(r *plumbing.Reference) error {
							if r.Type() == plumbing.HashReference {
								got[r.Name().String()] = r.Hash()
							}
							return nil
						})
						drv.Logf("%s refs -> %s", who, errKind(err))
						if err != nil {
							fail(fmt.Sprintf("C23|refs|%s|%s", errKind(err), cfgName), "%s: iterating references: %v", who, err)
							return
						}
						for _, n := range refNames {
							if got[n] != dag.Refs[n] {
								fail("C23|refs|reference-missing-or-wrong|"+cfgName, "%s: IterReferences gives %s = %s; stored %s", who, n, got[n], dag.Refs[n])
								return
							}
						}
					case "index":
						ix, err := shared.Index()
						drv.Logf("%s index -> %s", who, errKind(err))
						if err != nil {
							fail(fmt.Sprintf("C23|index|%s|%s", errKind(err), cfgName), "%s: Index() = %v", who, err)
						} else if len(ix.Entries) != len(idx.Entries) {
							fail("C23|index|wrong-entries|"+cfgName, "%s: Index() has %d entries; stored %d", who, len(ix.Entries), len(idx.Entries))
						}
					case "absent":
						id := absentID(op.K)
						_, err := shared.EncodedObject(plumbing.AnyObject, id)
						err2 := shared.HasEncodedObject(id)
						drv.Logf("%s absent -> %s %s", who, errKind(err), errKind(err2))
						if !errors.Is(err, plumbing.ErrObjectNotFound) || !errors.Is(err2, plumbing.ErrObjectNotFound) {
							fail("C23|absent|not-reported-as-not-found|"+cfgName, "%s: an id stored nowhere: EncodedObject = %v, HasEncodedObject = %v; want ErrObjectNotFound", who, err, err2)
						}
					case "growing":
						gi := mod(op.K, nGrow)
						g := grow[gi]
						started := addStarted[gi]
						eo, err := shared.EncodedObject(plumbing.AnyObject, g.id)
						drv.Logf("%s growing %d -> %s", who, gi, errKind(err))
						switch {
						case err == nil:
							if !started && !addStarted[gi] {
								fail("C23|growing|served-before-any-writer-touched-it|"+cfgName, "%s: object %s was served although no writer has begun adding it", who, g.id)
								return
							}
							checkContent(who, "growing", g, eo)
							out.Probe("growing-object-seen")
						case errors.Is(err, plumbing.ErrObjectNotFound):
						default:
							fail(fmt.Sprintf("C23|growing|%s|%s", errKind(err), cfgName), "%s: EncodedObject(%s) for an object another task is adding = %v; want the object or ErrObjectNotFound", who, g.id, err)
						}
					}
				}
			}})
		}
		if len(p.Writer) > 0 {
			tasks = append(tasks, sched.Task{Name: "w", Fn: func() {
				st := shared
				if !p.SameInst {
					st = filesystem.NewStorageWithOptions(disk.FS("/r/.git", "writer"), cache.NewObjectLRUDefault(), filesystem.Options{AlternatesFS: disk.FS("/", "writer")})
					defer st.Close()
				}
				for wi, w := range p.Writer {
					if wi >= 4 || out.Signature != "" || stopped {
						return
					}
					switch w.Kind {
					case "loose":
						for _, k := range w.Ks {
							gi := mod(k, nGrow)
							addStarted[gi] = true
							err := copyObj(st, grow[gi])
							drv.Logf("w loose %d -> %s", gi, errKind(err))
						}
						out.Probe("writer:loose")
					case "pack", "dup-pack":
						var os []obj
						seen := map[int]bool{}
						for _, k := range w.Ks {
							gi := mod(k, nGrow)
							if !seen[gi] {
								seen[gi] = true
								addStarted[gi] = true
								os = append(os, grow[gi])
							}
						}
						if w.Kind == "dup-pack" {
							// a pack that also repeats objects the repository already has
							os = append(os, stable[mod(w.Ks[0], len(stable))])
						}
						err := writePack(st, os)
						drv.Logf("w %s %d objects -> %s", w.Kind, len(os), errKind(err))
						out.Probe("writer:" + w.Kind)
					case "repack":
						if p.SameInst {
							continue // repacking under one's own readers is not part of the statement
						}
						repo, err := git.Open(st, nil)
						if err == nil {
							err = repo.RepackObjects(&git.RepackConfig{UseRefDeltas: mod(w.Ks[0], 2) == 1})
						}
						drv.Logf("w repack -> %s", errKind(err))
						if err != nil && os.Getenv("C23_DEBUG") != "" {
							fmt.Fprintf(os.Stderr, "REPACKERR %v\n", err)
							for si, so := range stable {
								if _, e2 := st.EncodedObject(plumbing.AnyObject, so.id); e2 != nil {
									fmt.Fprintf(os.Stderr, "  writer cannot read stable[%d] %s %s layout=%d: %v\n", si, so.typ, so.id, layoutOf(si), e2)
								}
							}
						}
						if err == nil {
							out.Probe("writer:repack")
						} else {
							out.Probe("writer:repack-failed")
						}
					case "packrefs":
						err := st.PackRefs()
						drv.Logf("w packrefs -> %s", errKind(err))
						out.Probe("writer:packrefs")
					}
				}
			}})
		}
		if len(p.Maint) > 0 {
			tasks = append(tasks, sched.Task{Name: "m", Fn: func() {
				for mi, m := range p.Maint {
					if mi >= 3 || out.Signature != "" || stopped {
						return
					}
					var err error
					switch m {
					case "reindex":
						err = shared.Reindex()
					default:
						err = shared.CloseIdleDescriptors()
					}
					drv.Logf("m %s -> %s", m, errKind(err))
					out.Probe("maint:" + m)
					if err != nil {
						fail(fmt.Sprintf("C23|%s|%s|%s", m, errKind(err), cfgName), "%s on the readers' storage = %v", m, err)
					}
				}
			}})
		}
		drv.Run(tasks)
	})
	if drv != nil {
		out.Steps = drv.Steps
		out.SchedHash = drv.SchedHash()
		out.ProbeN("context-switches", drv.Switches)
		trace = append(trace, drv.Trace...)
		trace = append(trace, "sched:"+drv.SchedHash())
	}
	if panicked != nil && out.Inconclusive == "" {
		msg := fmt.Sprint(panicked)
		if out.Signature == "" {
			out.Inconclusive = "bubble-panic"
		}
		trace = append(trace, msg)
		if os.Getenv("C23_DEBUG") != "" {
			fmt.Fprintf(os.Stderr, "BUBBLEPANIC %.300s\n", msg)
		}
	} else if drv != nil {
		if drv.Aborted == "deadlock" && (p.Exclusive || (p.SameInst && len(p.Writer) > 0)) {
			out.Probe("outside-statement:C23|deadlock|" + cfgName)
		} else if drv.Aborted == "deadlock" && out.Signature == "" {
			out.Fail("C23|deadlock|"+cfgName, "all tasks blocked after %d steps", drv.Steps)
		} else if drv.Aborted != "" && out.Signature == "" {
			out.Inconclusive = drv.Aborted
		}
		names := make([]string, 0)
		for n := range drv.TaskPanic {
			names = append(names, n)
		}
		sort.Strings(names)
		for _, n := range names {
			if p.Exclusive || (p.SameInst && len(p.Writer) > 0) {
				out.Probe("outside-statement:C23|panic|" + cfgName)
			} else if out.Signature == "" {
				out.Fail("C23|panic|"+cfgName, "task %s panicked: %.120v", n, drv.TaskPanic[n])
			}
		}
	}
	out.Trace = trace
	// The replay comparison uses the operations' results and the grant sequence
	// by (task, operation class), not the path-level disk log: go-git closes
	// cached pack handles while ranging over a Go map, so WHICH file is closed
	// first is not a function of the plan, although the interleaving is.
	var results []string
	for _, l := range trace {
		if l != "" && (l[0] < '0' || l[0] > '9') {
			results = append(results, l)
		}
	}
	out.LogHash = core.HashStrings(results)
	if os.Getenv("C23_TRACE") != "" {
		fmt.Fprintf(os.Stderr, "TRACE-BEGIN seed=%d\n%s\nTRACE-END\n", p.Seed, strings.Join(trace, "\n"))
	}
	out.NonTrivial = out.Probes["context-switches"] > 2
	return out
}

func TestCheck(t *testing.T) {
	core.Main(t, core.Check{
		ID:    "C23",
		Level: "exploration",
		Rule: "plan = generated history (2-5 commits, tag, shared blobs) laid out over loose objects, two packs and an alternate (loose + pack) x descriptor pool (default, no-op, capacity 1/2/3/8) x lazy or in-memory idx x small or default object cache x 2-5 reader tasks of 1-6 reads (by id any/typed/wrong type, has, size, prefix, type iteration, one reference, all references, index, an id stored nowhere, an object being added) on ONE Storage x a writer task of 0-3 steps (loose objects, packs, pack repeating a stored object, RepackObjects, PackRefs) on a second Storage over the same image (1 in 5: additive writes on the readers' own Storage) x optional Reindex / CloseIdleDescriptors task x schedule (uniform prefix or up to 8 preemptions; clock steps of 0.5-2.5 s); every disk operation and hooked go-git lock is a scheduling point; " +
			"non-trivial = more than two context switches",
		Assumptions: []string{"ground truth comes from the generator's memory storage, every id re-derived with an independent SHA-1",
			"the stable set is every object present at the start: the writer only adds or repacks, repacking keeps all objects",
			"a prefix search or an iteration is not required to list objects that live only in the alternate (go-git does not descend into alternates there, with or without concurrency)",
			"the serialising driver adds happens-before edges between all tasks, so nothing is claimed about the statement's 'never race on shared memory' clause (DESIGN.md section 9)",
			"ExclusiveAccess and same-instance writers are separate configurations named in the signature; they are outside the statement's listed configurations and are triaged on its wording"},
		Real:           []string{"storage/filesystem ObjectStorage (requireIndex, findObjectInPackfile, alternates, iterators)", "dotgit", "internal/packhandle, sharedfile, x/fdpool", "packfile reader and idx (lazy / in-memory)", "Repository.RepackObjects, PackRefs, PackfileWriter on the writer side"},
		Stub:           []string{"disk (simfs)", "clock (synctest)", "goroutine choice (seeded driver)"},
		Runs:           map[string]int{"quick": 6000, "thorough": 300000},
		NewPlan:        func() any { return &Plan{} },
		Gen:            genPlan,
		Exec:           execPlan,
		RequiredProbes: []string{"writer:loose", "writer:pack", "writer:repack", "writer:packrefs", "maint:reindex", "maint:close-idle", "growing-object-seen"},
	})
}
