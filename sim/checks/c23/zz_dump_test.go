//go:build verif

package c23

import (
	"fmt"
	"os"
	"strconv"
	"testing"

	"github.com/go-git/go-git/v6/verifsim/core"
)

// TestDumpPlan prints the event trace of the plan a sub-seed generates (debug aid: C23_SUBSEED=<n>).
func TestDumpPlan(t *testing.T) {
	s := os.Getenv("C23_SUBSEED")
	if s == "" {
		t.Skip("C23_SUBSEED not set")
	}
	sub, _ := strconv.ParseUint(s, 10, 64)
	p := genPlan(core.NewRand(sub), "quick")
	o := execPlan(t, p)
	fmt.Println("LOGHASH", o.LogHash, "SIG", o.Signature)
	for _, l := range o.Trace {
		fmt.Println(l)
	}
}
