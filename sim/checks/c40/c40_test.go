//go:build verif

// C40 — repository loaders never serve a repository outside their root.
//
// One simulated disk holds a serving root R = /srv/repos with legitimate
// repositories (bare, non-bare, nested, a gitfile worktree) and, outside R,
// several repositories with unique, recognisable refs (/srv/secret.git,
// /other/x.git, the prefix traps /srv/repos-evil.git and /srv/repos.git, and
// /secret.git). The real transport.FilesystemLoader is rooted at R and driven
// directly, through the real HTTP backend (smart info/refs, dumb files, RPC),
// through the git-daemon request path (packp.GitProtoRequest ->
// backend.RequestFromProto -> Backend.Serve) and through the file transport.
// The plan decides request paths (dot-dot, absolute, encoded, backslash,
// trailing .git, scp/scheme forms), planted gitfiles and planted symlinks.
//
// The disk is the reference monitor: every operation is recorded with its
// path after symlink resolution; nothing a request causes may resolve outside
// R, and what is served must never be one of the outside repositories.
package c40

import (
	"bufio"
	"bytes"
	"context"
	"fmt"
	"io"
	"io/fs"
	"net/http"
	"net/http/httptest"
	"net/url"
	"path"
	"sort"
	"strings"
	"testing"

	"github.com/go-git/go-billy/v6"
	git "github.com/go-git/go-git/v6"
	"github.com/go-git/go-git/v6/backend"
	"github.com/go-git/go-git/v6/plumbing"
	"github.com/go-git/go-git/v6/plumbing/cache"
	"github.com/go-git/go-git/v6/plumbing/protocol"
	"github.com/go-git/go-git/v6/plumbing/protocol/packp"
	"github.com/go-git/go-git/v6/plumbing/storer"
	"github.com/go-git/go-git/v6/plumbing/transport"
	"github.com/go-git/go-git/v6/plumbing/transport/file"
	"github.com/go-git/go-git/v6/storage/filesystem"
	"github.com/go-git/go-git/v6/verifsim/core"
	"github.com/go-git/go-git/v6/verifsim/gen"
	"github.com/go-git/go-git/v6/verifsim/hooks"
	"github.com/go-git/go-git/v6/verifsim/simfs"
)

const root = "/srv/repos"

// ---------------------------------------------------------------- plan ----

type Fixture struct {
	Kind    string `json:"kind"`    // gitfile | symlink
	At      string `json:"at"`      // path below R (gitfile: the worktree directory; symlink: the link itself)
	Content string `json:"content"` // gitfile text, or symlink target
}

type Req struct {
	Entry string `json:"entry"` // load | http | httpdumb | httprpc | daemon | file
	Path  string `json:"path"`
	Aux   int    `json:"aux"` // http: 0 upload-pack / 1 receive-pack; httpdumb: file index; file: protocol version
}

type Plan struct {
	View     string    `json:"view"` // bound | unbound | rawjoin
	Strict   bool      `json:"strict"`
	Prefix   string    `json:"prefix"`
	Fixtures []Fixture `json:"fixtures"`
	Reqs     []Req     `json:"reqs"`
}

// ------------------------------------------------------- disk image ----

type repoSpec struct {
	id      string
	dir     string
	seed    uint64
	outside bool
}

var repoSpecs = []repoSpec{
	{"a", root + "/a.git", 11, false},
	{"b", root + "/b/.git", 12, false},
	{"c", root + "/sub/c.git", 13, false},
	{"secret", "/srv/secret.git", 21, true},
	{"x", "/other/x.git", 22, true},
	{"evil", "/srv/repos-evil.git", 23, true},
	{"rootdotgit", "/srv/repos.git", 24, true},
	{"topsecret", "/secret.git", 25, true},
}

type image struct {
	disk   *simfs.Disk
	hashes []string          // main hash per repoSpecs index
	byHash map[string]string // hash -> id
	out    map[string]bool   // id -> outside
	err    error
}

var baseImage *image

func getImage() *image {
	if baseImage != nil {
		return baseImage
	}
	im := &image{disk: simfs.NewDisk(), byHash: map[string]string{}, out: map[string]bool{}}
	baseImage = im
	d := im.disk
	for _, rs := range repoSpecs {
		st := filesystem.NewStorage(d.FS(rs.dir, "setup"), cache.NewObjectLRUDefault())
		if _, err := git.Init(st); err != nil {
			im.err = fmt.Errorf("init %s: %w", rs.dir, err)
			return im
		}
		dag, err := gen.BuildDAG(rs.seed, gen.DAGCfg{Commits: 1, Branches: 1, ChainBias: 100}, st)
		if err != nil {
			im.err = fmt.Errorf("dag %s: %w", rs.dir, err)
			return im
		}
		if err := dag.WriteRefs(st); err != nil {
			im.err = err
			return im
		}
		h, ok := dag.Refs["refs/heads/main"]
		if !ok {
			// fall back to the commit itself under a fixed name
			h = dag.Commits[len(dag.Commits)-1].Hash
			if err := st.SetReference(plumbing.NewHashReference("refs/heads/main", h)); err != nil {
				im.err = err
				return im
			}
		}
		_ = st.Close()
		hs := h.String()
		if _, dup := im.byHash[hs]; dup {
			im.err = fmt.Errorf("repositories are not distinguishable (%s)", rs.id)
			return im
		}
		im.hashes = append(im.hashes, hs)
		im.byHash[hs] = rs.id
		im.out[rs.id] = rs.outside
		// what `git update-server-info` would leave for dumb HTTP, made unique
		_ = d.WriteFile(rs.dir+"/info/refs", []byte(hs+"\trefs/heads/main\n"), 0o644)
		_ = d.WriteFile(rs.dir+"/objects/info/packs", []byte("P pack-"+hs+".pack\n\n"), 0o644)
	}
	_ = d.WriteFile(root+"/b/README", []byte("worktree file\n"), 0o644)
	_ = d.WriteFile("/srv/outside-gitfile", []byte("gitdir: "+root+"/a.git\n"), 0o644)
	_ = d.WriteFile("/srv/notes.txt", []byte("not a repository\n"), 0o644)
	return im
}

func inside(p string) bool { return p == root || strings.HasPrefix(p, root+"/") }

// ------------------------------------------------------- loader views ----

// vfs is the filesystem handed to the loader. For "bound" and "unbound" it
// is a simfs view of R whose name handling is first normalised exactly like
// billy's osfs.BoundOS/RootOS (toRelative + cleanUnderRoot): an absolute name
// that lexically stays below the base is taken as it is, anything else is
// cleaned as if the base were "/" and then placed under the base. (simfs does
// the same except that it does not clean BEFORE testing the base prefix, so
// "/srv/repos/../secret.git" would be taken literally; the real osfs maps it
// to R/srv/secret.git. The wrapper removes that difference.) Backslashes are
// treated as separators, as simfs does on every personality (the
// Windows-flavoured, more hostile choice).
//
// "rawjoin" is a deliberately naive filesystem: name = join(base, name) with
// no clamping at all. It is NOT what osfs provides; it shows what the loader
// does when nothing below it contains the request.
type vfs struct {
	in   *simfs.FS
	raw  bool
	base string // raw only
}

var (
	_ billy.Filesystem = (*vfs)(nil)
	_ billy.Capable    = (*vfs)(nil)
)

func (v *vfs) nm(name string) string {
	name = strings.ReplaceAll(name, "\\", "/")
	if v.raw {
		return path.Join(v.base, name)
	}
	base := v.in.Root()
	if strings.HasPrefix(name, "/") {
		c := path.Clean(name)
		if base == "/" || c == base || strings.HasPrefix(c, base+"/") {
			return c
		}
	}
	rel := strings.TrimLeft(path.Join("/", name), "/")
	if rel == "" {
		return "."
	}
	return rel
}

func (v *vfs) Capabilities() billy.Capability       { return v.in.Capabilities() }
func (v *vfs) Join(elem ...string) string           { return path.Join(elem...) }
func (v *vfs) Create(n string) (billy.File, error)  { return v.in.Create(v.nm(n)) }
func (v *vfs) Open(n string) (billy.File, error)    { return v.in.Open(v.nm(n)) }
func (v *vfs) Stat(n string) (fs.FileInfo, error)   { return v.in.Stat(v.nm(n)) }
func (v *vfs) Lstat(n string) (fs.FileInfo, error)  { return v.in.Lstat(v.nm(n)) }
func (v *vfs) Rename(a, b string) error             { return v.in.Rename(v.nm(a), v.nm(b)) }
func (v *vfs) Remove(n string) error                { return v.in.Remove(v.nm(n)) }
func (v *vfs) Readlink(n string) (string, error)    { return v.in.Readlink(v.nm(n)) }
func (v *vfs) Symlink(target, link string) error    { return v.in.Symlink(target, v.nm(link)) }
func (v *vfs) Chmod(n string, m fs.FileMode) error  { return v.in.Chmod(v.nm(n), m) }
func (v *vfs) MkdirAll(n string, m fs.FileMode) error {
	return v.in.MkdirAll(v.nm(n), m)
}
func (v *vfs) ReadDir(n string) ([]fs.DirEntry, error) { return v.in.ReadDir(v.nm(n)) }
func (v *vfs) OpenFile(n string, flag int, perm fs.FileMode) (billy.File, error) {
	return v.in.OpenFile(v.nm(n), flag, perm)
}
func (v *vfs) TempFile(dir, prefix string) (billy.File, error) {
	if dir == "" {
		dir = ".tmp"
	}
	return v.in.TempFile(v.nm(dir), prefix)
}
func (v *vfs) Root() string {
	if v.raw {
		return v.base
	}
	return v.in.Root()
}
func (v *vfs) Chroot(p string) (billy.Filesystem, error) {
	if v.raw {
		return &vfs{in: v.in, raw: true, base: v.nm(p)}, nil
	}
	sub, err := v.in.Chroot(v.nm(p))
	if err != nil {
		return nil, err
	}
	sf, ok := sub.(*simfs.FS)
	if !ok {
		return nil, fmt.Errorf("unexpected chroot type %T", sub)
	}
	if !inside(sf.Root()) && v.in.Root() != "/" {
		// the new base itself is lexically outside R: everything this view
		// does is an escape, whether or not the operation succeeds
		sf = sf.As("loader-escaped")
	}
	return &vfs{in: sf}, nil
}

func newView(d *simfs.Disk, view string) *vfs {
	switch view {
	case "rawjoin":
		return &vfs{in: d.FS("/", "loader"), raw: true, base: root}
	case "unbound":
		return &vfs{in: d.FS(root, "loader")}
	}
	f := d.FS(root, "loader")
	f.Bound = true
	return &vfs{in: f}
}

// ------------------------------------------------------- classification ----

type planted struct {
	kind string // gitfile | symlink
	rel  string // below R, clean, no leading slash
	cls  string // rel-inside | rel-outside | abs-inside | abs-outside | malformed / inside | outside
	dest string // lexical destination (absolute) or ""
}

func gitfileTarget(content string) (string, bool) {
	line := content
	if i := strings.IndexByte(line, '\n'); i >= 0 {
		line = line[:i]
	}
	const prefix = "gitdir: "
	if !strings.HasPrefix(line, prefix) {
		return "", false
	}
	return strings.TrimSpace(line[len(prefix):]), true
}

func classifyGitfile(rel, content string) (cls, dest string) {
	t, ok := gitfileTarget(content)
	if !ok || t == "" {
		return "malformed", ""
	}
	t = strings.ReplaceAll(t, "\\", "/")
	if strings.HasPrefix(t, "/") {
		dest = path.Clean(t)
		if inside(dest) {
			return "abs-inside", dest
		}
		return "abs-outside", dest
	}
	dest = path.Join(root, rel, t)
	if inside(dest) {
		return "rel-inside", dest
	}
	return "rel-outside", dest
}

func classifySymlink(rel, target string) (cls, dest string) {
	t := strings.ReplaceAll(target, "\\", "/")
	if strings.HasPrefix(t, "/") {
		dest = path.Clean(t)
	} else {
		dest = path.Join(path.Dir(root+"/"+rel), t)
	}
	if inside(dest) {
		return "inside", dest
	}
	return "outside", dest
}

var protectedDirs = []string{"a.git", "b", "sub/c.git"}

func plant(d *simfs.Disk, fx []Fixture) []planted {
	var out []planted
	for _, f := range fx {
		rel := strings.TrimPrefix(path.Clean("/"+strings.ReplaceAll(f.At, "\\", "/")), "/")
		if rel == "" {
			continue
		}
		skip := false
		for _, p := range protectedDirs {
			if rel == p || strings.HasPrefix(rel, p+"/") || strings.HasPrefix(p, rel+"/") {
				skip = true
			}
		}
		if skip {
			continue
		}
		switch f.Kind {
		case "symlink":
			if f.Content == "" {
				continue
			}
			if err := d.PlantSymlink(f.Content, root+"/"+rel); err != nil {
				continue
			}
			cls, dest := classifySymlink(rel, f.Content)
			out = append(out, planted{"symlink", rel, cls, dest})
		default:
			if d.Lookup(root+"/"+rel+"/.git") != "" {
				continue
			}
			if err := d.WriteFile(root+"/"+rel+"/.git", []byte(f.Content), 0o644); err != nil {
				continue
			}
			cls, dest := classifyGitfile(rel, f.Content)
			out = append(out, planted{"gitfile", rel, cls, dest})
		}
	}
	return out
}

// repoDirs maps a git directory to the repository id it holds.
func repoAt(dir string) string {
	for _, rs := range repoSpecs {
		if rs.dir == dir {
			return rs.id
		}
	}
	return ""
}

var canonBoth = map[string]string{"/a.git": "a", "a.git": "a", "/sub/c.git": "c", "sub/c.git": "c", "/b/.git": "b"}
var canonLoose = map[string]string{"/b": "b", "b": "b", "/a": "a", "/sub/c": "c"}

// expectLegit: which repository a canonical, legitimate request must serve
// ("" = no expectation).
func expectLegit(p string, strict bool, view string, fx []planted) string {
	if id, ok := canonBoth[p]; ok {
		return id
	}
	if strict {
		return ""
	}
	if id, ok := canonLoose[p]; ok {
		return id
	}
	for _, f := range fx {
		if f.kind != "gitfile" || (p != "/"+f.rel && p != f.rel) {
			continue
		}
		if f.cls == "rel-inside" || (f.cls == "abs-inside" && view != "rawjoin") {
			if id := repoAt(f.dest); id != "" && !strings.Contains(f.rel, ".git") {
				return id
			}
		}
	}
	return ""
}

func decodeAll(p string) (string, bool) {
	dec, enc := p, strings.Contains(p, "%")
	for i := 0; i < 3; i++ {
		u, err := url.PathUnescape(dec)
		if err != nil || u == dec {
			break
		}
		dec, enc = u, true
	}
	return dec, enc
}

// classify names the path class of a request (stable, bounded set).
func classify(p string, strict bool, view string, fx []planted) string {
	dec, enc := decodeAll(p)
	bs := strings.Contains(dec, "\\")
	dec = strings.ReplaceAll(dec, "\\", "/")
	pre := ""
	if enc {
		pre += "encoded-"
	}
	if bs {
		pre += "backslash-"
	}
	if strings.ContainsAny(dec, "\x00\r\n") {
		pre += "ctl-"
	}
	if pre == "" && expectLegit(p, strict, view, fx) != "" {
		return "legit"
	}
	st := func() string {
		if dec == "" {
			return "empty"
		}
		if strings.Contains(dec, "://") {
			return "scheme-url"
		}
		if i := strings.IndexByte(dec, ':'); i > 0 && !strings.Contains(dec[:i], "/") {
			return "scp-like"
		}
		dd := false
		for _, s := range strings.Split(dec, "/") {
			if s == ".." {
				dd = true
			}
		}
		host := ""
		if strings.HasPrefix(dec, "/") {
			c := path.Clean(dec)
			first := strings.SplitN(strings.TrimPrefix(path.Clean(strings.ReplaceAll(dec, "..", "_")), "/"), "/", 2)[0]
			if first == "srv" || first == "other" || first == "secret.git" {
				if inside(c) {
					host = "absolute-inside-root"
				} else {
					host = "absolute-outside"
				}
			}
		}
		switch {
		case dd && host != "":
			return "absolute-dotdot"
		case dd:
			return "dotdot"
		case host != "":
			return host
		}
		clean := path.Clean("/" + dec)
		if clean == "/" {
			return "root-or-dot"
		}
		rel := strings.TrimPrefix(clean, "/")
		for _, f := range fx {
			hit := rel == f.rel || strings.HasPrefix(rel, f.rel+"/")
			if f.kind == "symlink" && (f.rel == rel+"/.git" || f.rel == rel+".git") {
				hit = true
			}
			if hit {
				return f.kind + "-" + f.cls
			}
		}
		for _, m := range []map[string]string{canonBoth, canonLoose} {
			for k := range m {
				kk := path.Clean("/" + k)
				if clean == kk || clean == kk+".git" || clean+".git" == kk || strings.HasPrefix(clean, kk+"/") {
					return "legit-variant"
				}
			}
		}
		return "other"
	}()
	return pre + st
}

// ------------------------------------------------------------ entries ----

type result struct {
	served  bool   // a repository was loaded / a 200 came back
	status  string // short description
	payload string // text in which a unique hash identifies the repository
}

func shortErr(err error) string {
	if err == nil {
		return "ok"
	}
	s := err.Error()
	switch {
	case strings.Contains(s, "repository not found"):
		return "err:repository-not-found"
	case strings.Contains(s, "path escapes"):
		return "err:path-escapes"
	case strings.Contains(s, "not a directory"):
		return "err:not-a-directory"
	case strings.Contains(s, "no such file"):
		return "err:no-such-file"
	case strings.Contains(s, "prefix"):
		return "err:gitfile-malformed"
	}
	if len(s) > 48 {
		s = s[:48]
	}
	return "err:" + s
}

func closeStorer(st any) {
	if c, ok := st.(io.Closer); ok {
		_ = c.Close()
	}
}

func doLoad(l transport.Loader, p string) (res result) {
	st, err := l.Load(&url.URL{Path: p})
	if err != nil {
		return result{status: shortErr(err)}
	}
	defer closeStorer(st)
	res.served = true
	res.status = "loaded"
	if ref, err := st.Reference("refs/heads/main"); err == nil {
		res.payload = ref.Hash().String()
	} else {
		res.status = "loaded-no-main"
	}
	if fss, ok := st.(storer.FilesystemStorer); ok {
		if v, ok := fss.Filesystem().(*vfs); !ok {
			res.status = "loaded-foreign-filesystem"
			res.payload += " FOREIGN-FS"
		} else if !v.raw && !inside(v.Root()) {
			res.payload += " ROOT-OUTSIDE"
		}
	}
	return res
}

func newRequest(method, target string, body io.Reader) (req *http.Request) {
	defer func() {
		if recover() != nil {
			req = nil
		}
	}()
	return httptest.NewRequest(method, target, body)
}

func httpTarget(prefix, p, tail string) string {
	if !strings.HasPrefix(p, "/") {
		p = "/" + p
	}
	return prefix + p + tail
}

func serveHTTP(h http.Handler, req *http.Request) (res result) {
	if req == nil {
		return result{status: "rejected-by-http-parser"}
	}
	rec := httptest.NewRecorder()
	func() {
		defer func() {
			if r := recover(); r != nil {
				res.status = "handler-panic"
			}
		}()
		h.ServeHTTP(rec, req)
	}()
	if res.status == "handler-panic" {
		return res
	}
	res.status = fmt.Sprintf("http-%d", rec.Code)
	if rec.Code >= 200 && rec.Code < 300 {
		res.served = true
		b := rec.Body.Bytes()
		if len(b) > 1<<16 {
			b = b[:1<<16]
		}
		res.payload = string(b)
	}
	return res
}

var dumbFiles = []string{"/HEAD", "/info/refs", "/objects/info/packs"}

type nopWC struct{ io.Writer }

func (nopWC) Close() error { return nil }

func doDaemon(b *backend.Backend, p string) (res result) {
	// the way internal/server/git does it: request line -> GitProtoRequest -> RequestFromProto -> Serve
	var line bytes.Buffer
	in := packp.GitProtoRequest{RequestCommand: transport.UploadPackService, Pathname: p, Host: "sim"}
	if err := in.Encode(&line); err != nil {
		return result{status: "rejected-by-proto-encoder"}
	}
	var proto packp.GitProtoRequest
	if err := proto.Decode(bufio.NewReader(&line)); err != nil {
		return result{status: "rejected-by-proto-decoder"}
	}
	var outb bytes.Buffer
	var err error
	func() {
		defer func() {
			if r := recover(); r != nil {
				res.status = "handler-panic"
			}
		}()
		// the client sends a flush (wants nothing) after the advertisement
		err = b.Serve(context.Background(), io.NopCloser(strings.NewReader("0000")), nopWC{&outb}, backend.RequestFromProto(&proto))
	}()
	if res.status == "handler-panic" {
		return res
	}
	if outb.Len() == 0 {
		return result{status: shortErr(err)}
	}
	return result{served: true, status: "advertised", payload: outb.String()}
}

func doFile(l transport.Loader, p string, aux int) (res result) {
	u, err := transport.ParseURL("file://" + p)
	if err != nil || u == nil {
		return result{status: "rejected-by-url-parser"}
	}
	tr := file.NewTransport(file.Options{Loader: l})
	ver := []protocol.Version{protocol.V0, protocol.V1, protocol.V2}[mod(aux, 3)]
	ctx := context.Background()
	sess, err := tr.Handshake(ctx, &transport.Request{URL: u, Command: transport.UploadPackService, Protocol: ver})
	if err != nil {
		return result{status: shortErr(err)}
	}
	defer sess.Close()
	rr, err := sess.GetRemoteRefs(ctx, nil)
	if err != nil {
		return result{served: true, status: "handshake-ok-refs-" + shortErr(err)}
	}
	var sb strings.Builder
	for _, r := range rr.References {
		if r.Type() == plumbing.HashReference {
			fmt.Fprintf(&sb, "%s %s\n", r.Hash(), r.Name())
		}
	}
	return result{served: true, status: "refs", payload: sb.String()}
}

func mod(a, n int) int {
	a %= n
	if a < 0 {
		a += n
	}
	return a
}

func entryName(e string) string {
	switch e {
	case "http", "httpdumb", "httprpc", "daemon", "file":
		return e
	}
	return "load"
}

// ---------------------------------------------------------------- exec ----

func execPlan(t *testing.T, pa any) (out core.Outcome) {
	p := pa.(*Plan)
	hooks.Deterministic(true)
	im := getImage()
	if im.err != nil {
		out.Inconclusive = "setup-failed"
		out.Trace = []string{im.err.Error()}
		return out
	}
	view := p.View
	if view != "unbound" && view != "rawjoin" {
		view = "bound"
	}
	judged := view == "bound"
	d := im.disk.Clone()
	fx := plant(d, p.Fixtures)
	cfg := fmt.Sprintf("%s|strict=%v", view, p.Strict)

	var trace []string
	logf := func(f string, a ...any) {
		if len(trace) < 200 {
			trace = append(trace, fmt.Sprintf(f, a...))
		}
	}
	for _, f := range fx {
		logf("planted %s %s (%s -> %s)", f.kind, f.rel, f.cls, f.dest)
		out.Probe("planted:" + f.kind + "-" + f.cls)
		if strings.Contains(f.cls, "outside") {
			out.NonTrivial = true
		}
	}

	loader := transport.NewFilesystemLoader(newView(d, view), p.Strict)
	// In production the default loader is the host's root filesystem; here it
	// is the root of the same simulated disk, so code that falls back to it
	// instead of the configured loader is seen by the monitor.
	savedDefault := transport.DefaultLoader
	transport.DefaultLoader = transport.NewFilesystemLoader(&vfs{in: d.FS("/", "default-loader")}, false)
	defer func() { transport.DefaultLoader = savedDefault }()

	prefix := p.Prefix
	if prefix != "" && (!strings.HasPrefix(prefix, "/") || strings.ContainsAny(prefix, " ?#%\\")) {
		prefix = ""
	}
	be := backend.New(loader)
	be.Prefix = prefix

	d.Record = true
	reqs := p.Reqs
	if len(reqs) > 64 {
		reqs = reqs[:64]
	}
	for _, rq := range reqs {
		entry := entryName(rq.Entry)
		cls := classify(rq.Path, p.Strict, view, fx)
		want := expectLegit(rq.Path, p.Strict, view, fx)
		if cls != "legit" {
			out.NonTrivial = true
			want = ""
		}
		d.ResetCounters()
		var res result
		switch entry {
		case "load":
			res = doLoad(loader, rq.Path)
		case "http":
			svc := []string{transport.UploadPackService, transport.ReceivePackService}[mod(rq.Aux, 2)]
			req := newRequest(http.MethodGet, httpTarget(prefix, rq.Path, "/info/refs?service="+svc), nil)
			if req != nil && svc == transport.ReceivePackService {
				req.Header.Set("Authorization", "Basic c2ltOnNpbQ==")
			}
			res = serveHTTP(be, req)
		case "httpdumb":
			res = serveHTTP(be, newRequest(http.MethodGet, httpTarget(prefix, rq.Path, dumbFiles[mod(rq.Aux, len(dumbFiles))]), nil))
		case "httprpc":
			req := newRequest(http.MethodPost, httpTarget(prefix, rq.Path, "/git-upload-pack"), strings.NewReader("0000"))
			if req != nil {
				req.Header.Set("Content-Type", "application/x-git-upload-pack-request")
			}
			res = serveHTTP(be, req)
		case "daemon":
			res = doDaemon(be, rq.Path)
		case "file":
			res = doFile(loader, rq.Path, rq.Aux)
		}
		out.Steps++

		// ---- who was served ----
		servedID := ""
		if res.served {
			for _, h := range im.hashes {
				if strings.Contains(res.payload, h) {
					servedID = im.byHash[h]
					break
				}
			}
		}
		foreign := strings.Contains(res.payload, "FOREIGN-FS") || strings.Contains(res.payload, "ROOT-OUTSIDE")
		// ---- what was touched ----
		touched, nOutside := "", 0
		for i := range d.Log {
			op := &d.Log[i]
			// On the bound view an operation whose symlink resolution leaves
			// the base cannot succeed. simfs reports "path escapes" when the
			// outside node exists and ENOENT when its last component does not;
			// os.Root refuses at the escaping hop in both cases, before looking
			// at anything outside. Both are the bound root doing its job.
			refusedByBound := judged && op.Actor == "loader" && op.Err != ""
			for _, pp := range []string{op.Path, op.Path2} {
				if pp != "" && !inside(pp) {
					if refusedByBound {
						out.Probe("bound-root-refused-escape")
						continue
					}
					nOutside++
					if touched == "" {
						touched = fmt.Sprintf("%s %s by %s", op.Class, pp, op.Actor)
					}
				}
			}
		}
		outcome := "refused"
		switch {
		case res.served && servedID != "" && im.out[servedID]:
			outcome = "served-outside:" + servedID
		case res.served && servedID != "":
			outcome = "served-inside:" + servedID
		case res.served:
			outcome = "served-unidentified"
		}
		logf("%s %q [%s] -> %s (%s) outside-ops=%d %s", entry, rq.Path, cls, outcome, res.status, nOutside, touched)
		if res.status == "handler-panic" {
			out.Probe("handler-panic:" + entry)
		}

		servedOutside := res.served && ((servedID != "" && im.out[servedID]) || foreign)
		if servedOutside {
			if judged {
				out.Fail(fmt.Sprintf("C40|%s|served-outside-repo|%s|%s", entry, cls, cfg),
					"%s request %q (class %s, view %s, strict=%v) was answered from repository %q, which lies outside %s (status %s; first outside operation: %s)",
					entry, rq.Path, cls, view, p.Strict, servedID, root, res.status, touched)
			} else {
				out.Probe("escape-on-unbound-view")
				out.Probe(fmt.Sprintf("escape:%s|%s|served|%s", view, entry, cls))
			}
		}
		if touched != "" {
			if judged {
				out.Fail(fmt.Sprintf("C40|%s|touched-outside-root|%s|%s", entry, cls, cfg),
					"%s request %q (class %s, view %s, strict=%v) made go-git perform %d disk operation(s) outside %s, first: %s (outcome %s, %s)",
					entry, rq.Path, cls, view, p.Strict, nOutside, root, touched, outcome, res.status)
			} else if !servedOutside {
				out.Probe("escape-on-unbound-view")
				out.Probe(fmt.Sprintf("escape:%s|%s|touched|%s", view, entry, cls))
			}
		}
		switch {
		case want != "":
			if !res.served || (servedID != "" && servedID != want) {
				// vacuity guard, not part of the statement: a loader that refuses
				// everything would satisfy the property trivially
				out.Fail(fmt.Sprintf("C40|harness|legit-not-served|%s|%s", entry, cfg),
					"legitimate %s request %q should serve repository %q but the outcome was %s (%s)", entry, rq.Path, want, outcome, res.status)
			} else {
				out.Probe("served-legit")
				out.Probe("served-legit:" + entry)
			}
		case !res.served:
			out.Probe("refused:" + cls)
		case servedOutside:
		case servedID == "":
			out.Probe("served-unidentified:" + cls) // 200 without a ref in the body (dumb HEAD, RPC with no wants)
		default:
			out.Probe("served-inside:" + cls)
		}
	}
	out.Trace = trace
	out.LogHash = core.HashStrings(trace)
	return out
}

// ----------------------------------------------------------------- gen ----

func ups(n int) string { return strings.Repeat("../", n) }

func genGitfile(r *core.Rand, at string) string {
	depth := len(strings.Split(at, "/"))
	nl := r.Pick("\n", "\n", "", "\r\n")
	var t string
	switch r.Intn(16) {
	case 0, 1, 2:
		t = ups(depth) + r.Pick("a.git", "sub/c.git", "b/.git")
	case 3:
		t = root + r.Pick("/a.git", "/sub/c.git", "/a.git/")
	case 4, 5:
		t = r.Pick("/srv/secret.git", "/other/x.git", "/srv/repos-evil.git", "/srv/repos.git", "/secret.git", "//srv/secret.git", "/srv/secret.git/")
	case 6, 7:
		t = ups(depth+1) + r.Pick("secret.git", "repos-evil.git", "repos.git")
	case 8:
		t = ups(depth+2) + r.Pick("other/x.git", "secret.git", "srv/secret.git")
	case 9:
		t = ups(depth) + "a.git/../../" + r.Pick("secret.git", "repos-evil.git")
	case 10:
		t = "a.git/../../secret.git"
	case 11:
		t = root + "/../" + r.Pick("secret.git", "repos-evil.git") // absolute, starts with R, leaves it
	case 12:
		t = strings.ReplaceAll(ups(depth+1), "/", "\\") + "secret.git"
	case 13:
		t = ups(r.Range(3, 9)) + r.Pick("srv/secret.git", "other/x.git", "secret.git")
	case 14:
		t = "  " + r.Pick("/srv/secret.git", ups(depth+1)+"secret.git") + "  "
	default:
		return r.Pick("", "gitdir:/srv/secret.git\n", "garbage\n", "gitdir: \n", "gitdir: \n/srv/secret.git\n", "GITDIR: /srv/secret.git\n")
	}
	c := "gitdir: " + t + nl
	if r.Chance(1, 10) {
		c += "gitdir: /srv/secret.git\n"
	}
	return c
}

var linkTargets = []string{"/srv/secret.git", "../secret.git", "../repos-evil.git", "/other/x.git", "/srv", "..", "/", "a.git", "/srv/repos/a.git", "/srv/outside-gitfile", "../../other/x.git", "/srv/repos.git", "sub/c.git"}

func genFixtures(r *core.Rand) []Fixture {
	var fx []Fixture
	if r.Chance(4, 5) {
		fx = append(fx, Fixture{Kind: "gitfile", At: "g", Content: genGitfile(r, "g")})
	}
	n := r.Intn(4)
	for i := 0; i < n; i++ {
		if r.Bool() {
			at := r.Pick("wt", "sub/wt", "deep/er/wt", "w.git", "g2")
			fx = append(fx, Fixture{Kind: "gitfile", At: at, Content: genGitfile(r, at)})
		} else {
			at := r.Pick("link.git", "rel.git", "bl/.git", "esc", "up", "sub/out.git", "lg/.git", "in.git", "l")
			tg := r.Pick(linkTargets...)
			if strings.HasPrefix(at, "sub/") && strings.HasPrefix(tg, "../") && r.Bool() {
				tg = "../" + tg
			}
			fx = append(fx, Fixture{Kind: "symlink", At: at, Content: tg})
		}
	}
	return fx
}

var legitPaths = []string{"/a.git", "a.git", "/b", "/sub/c.git", "/g", "/b/.git", "/a", "/sub/c", "b", "sub/c.git"}
var outsideRel = []string{"secret.git", "repos-evil.git", "repos.git", "../other/x.git", "../secret.git", "secret", "repos-evil", "../other/x", "secret.git/", "notes.txt"}
var absOutside = []string{"/srv/secret.git", "//srv/secret.git", "/srv/secret", "/other/x.git", "/srv/repos-evil.git", "/srv/repos.git", "/secret.git", "/srv/./secret.git", "srv/secret.git",
	"/srv/repos/../secret.git", "/srv/repos/../repos-evil.git", "/srv/repos/a.git/../../secret.git", "/srv/repos/../../other/x.git", "/srv/repos/a.git", "/srv/repos", "/srv/repos/", "/srv/repos/../repos/a.git", "/srv/repos-evil.git/", "/srv/repos.git/."}
var specials = []string{"", ".", "/", "..", "/..", "/.git", ".git", "/./", "//", "/a.git/.git", "/g/.git", "/a.git/config", "/a.git/objects", "/a.git/refs/heads/main", "/b/README", "/nonexistent", "/sub", "/...", "/a.git.git", "/~", "/~root/secret.git"}
var schemes = []string{"file:///srv/secret.git", "file://../secret.git", "file:///../secret.git", "http://h/../secret.git", "ssh://h/srv/secret.git", "x:../secret.git", "git@h:/srv/secret.git", "h:a.git", "h:../../other/x.git", "file://a.git", "git://h/%2e%2e/secret.git"}

func traversal(r *core.Rand) string {
	tgt := r.Pick(outsideRel...)
	up := "../"
	switch r.Intn(14) {
	case 0:
		return "/" + up + tgt
	case 1:
		return up + tgt
	case 2:
		return "/a.git/../" + up + tgt
	case 3:
		return "/sub/../" + up + tgt
	case 4:
		return "/sub/c.git/../../" + up + tgt
	case 5:
		return "/b/.git/../../" + up + tgt
	case 6:
		return "/nonexistent/../" + up + tgt
	case 7:
		return "/./" + up + tgt
	case 8:
		return "//" + up + tgt
	case 9:
		return "/g/../" + up + tgt
	case 10:
		return "/" + ups(r.Range(2, 8)) + r.Pick("srv/secret.git", "other/x.git", "secret.git", "srv/repos-evil.git", "srv/repos/a.git")
	case 11:
		return "/a.git/" + ups(r.Range(2, 6)) + r.Pick("secret.git", "srv/secret.git", "other/x.git")
	case 12:
		return "/.../" + up + tgt
	default:
		return "/a.git/./../" + up + "./" + tgt
	}
}

func encode(r *core.Rand, p string) string {
	switch r.Intn(12) {
	case 0:
		return strings.ReplaceAll(p, "..", "%2e%2e")
	case 1:
		return strings.ReplaceAll(p, "..", "%2E%2E")
	case 2:
		return strings.ReplaceAll(p, "..", ".%2e")
	case 3:
		if len(p) > 1 {
			return p[:1] + strings.ReplaceAll(p[1:], "/", "%2f")
		}
		return p
	case 4:
		if len(p) > 1 {
			return p[:1] + strings.ReplaceAll(strings.ReplaceAll(p[1:], "/", "%2F"), "..", "%2e%2e")
		}
		return p
	case 5:
		return strings.ReplaceAll(p, "..", "%252e%252e")
	case 6:
		if len(p) > 1 {
			return p[:1] + strings.ReplaceAll(p[1:], "/", "\\")
		}
		return p
	case 7:
		if len(p) > 1 {
			return p[:1] + strings.ReplaceAll(p[1:], "/", "%5c")
		}
		return p
	case 8:
		return strings.ReplaceAll(p, "..", "%c0%ae%c0%ae")
	case 9:
		return strings.ReplaceAll(p, "..", "\uff0e\uff0e")
	case 10:
		return strings.Replace(p, "/..", "%00/..", 1)
	default:
		return strings.ReplaceAll(p, ".git", "%2egit")
	}
}

func variant(r *core.Rand, b string) string {
	switch r.Intn(10) {
	case 0:
		return b + "/"
	case 1:
		return "/" + b
	case 2:
		return "/./" + strings.TrimPrefix(b, "/")
	case 3:
		return b + "/."
	case 4:
		return "/sub/../" + strings.TrimPrefix(b, "/")
	case 5:
		return b + ".git"
	case 6:
		return strings.TrimSuffix(b, ".git")
	case 7:
		return "/x/../" + strings.TrimPrefix(b, "/")
	case 8:
		return b + "//"
	default:
		return strings.ToUpper(b)
	}
}

func fixturePath(r *core.Rand, fx []Fixture) string {
	if len(fx) == 0 {
		return "/g"
	}
	f := fx[r.Intn(len(fx))]
	at := "/" + f.At
	switch r.Intn(8) {
	case 0:
		return strings.TrimSuffix(at, "/.git")
	case 1:
		return strings.TrimSuffix(strings.TrimSuffix(at, "/.git"), ".git")
	case 2:
		return at + "/" + r.Pick("secret.git", "srv/secret.git", "repos-evil.git", "other/x.git", "a.git", "repos/a.git")
	case 3:
		return at + "/"
	case 4:
		return strings.TrimPrefix(at, "/")
	case 5:
		return at + "/../" + strings.TrimPrefix(at, "/")
	default:
		return strings.TrimSuffix(at, "/.git")
	}
}

func genPath(r *core.Rand, fx []Fixture) string {
	switch k := r.Intn(100); {
	case k < 18:
		return r.Pick(legitPaths...)
	case k < 26:
		return variant(r, r.Pick(legitPaths...))
	case k < 44:
		return traversal(r)
	case k < 56:
		return r.Pick(absOutside...)
	case k < 70:
		if r.Bool() {
			return encode(r, traversal(r))
		}
		return encode(r, r.Pick(absOutside...))
	case k < 86:
		return fixturePath(r, fx)
	case k < 93:
		return r.Pick(specials...)
	default:
		return r.Pick(schemes...)
	}
}

func genPlan(r *core.Rand, tier string) any {
	p := &Plan{Strict: r.Chance(1, 3), Prefix: r.Pick("", "", "/git", "/srv")}
	switch k := r.Intn(10); {
	case k < 6:
		p.View = "bound"
	case k < 8:
		p.View = "unbound"
	default:
		p.View = "rawjoin"
	}
	p.Fixtures = genFixtures(r)
	n := r.Range(6, 14)
	if tier == "thorough" {
		n = r.Range(6, 30)
	}
	for i := 0; i < n; i++ {
		e := "load"
		switch k := r.Intn(20); {
		case k < 6:
			e = "load"
		case k < 11:
			e = "http"
		case k < 13:
			e = "httpdumb"
		case k < 14:
			e = "httprpc"
		case k < 16:
			e = "daemon"
		default:
			e = "file"
		}
		p.Reqs = append(p.Reqs, Req{Entry: e, Path: genPath(r, p.Fixtures), Aux: r.Intn(6)})
	}
	return p
}

func sortedKeys(m map[string]string) []string {
	ks := make([]string, 0, len(m))
	for k := range m {
		ks = append(ks, k)
	}
	sort.Strings(ks)
	return ks
}

var _ = sortedKeys

func TestCheck(t *testing.T) {
	core.Main(t, core.Check{
		ID:    "C40",
		Level: "exploration",
		Rule: "plan = loader view (bound root / unbound chroot / naive join) x strict x HTTP prefix x planted fixtures (0-4 gitfile worktrees with relative/absolute gitdirs inside and outside R, with and without newline, malformed; 0-3 symlinks to inside/outside) " +
			"x 6-14 requests, each an entry point (FilesystemLoader.Load, HTTP smart info/refs for upload-pack and receive-pack, dumb HTTP files, HTTP RPC, git-daemon request line -> RequestFromProto -> Serve, file transport Handshake+GetRemoteRefs under protocol v0/v1/v2) " +
			"and a path from a grammar (canonical, variants, dot-dot, host-absolute, percent/double/overlong/backslash/NUL encodings before and after decoding, .git added/removed, fixtures, specials, scp and scheme forms); " +
			"non-trivial = some request was not a canonical legitimate path, or a fixture points outside R",
		Assumptions: []string{
			"'under a bound root' is read as: the billy filesystem handed to NewFilesystemLoader is a root-bound view of R (what osfs.New/osfs.BoundOS gives: lexical clamping of names at the base AND refusal of symlink resolution that leaves it). Violations are judged for that configuration only (view=bound)",
			"view=unbound (same clamping, symlinks followed freely) and view=rawjoin (no clamping at all, not an osfs behaviour) are explored and escapes on them are counted as probes 'escape-on-unbound-view' / 'escape:<view>|...', not raised: FilesystemLoader's documentation promises only to 'resolve URL paths against the given base filesystem', not containment of its own",
			"symlinks and gitfiles are planted by an administrator before the request; nothing changes the disk during a request",
			"an operation the bound view refuses with 'path escapes from parent' did not touch the outside (os.Root refuses before the access); any other operation whose resolved path is outside R counts, even one that fails with ENOENT",
			"transport.DefaultLoader is pointed at '/' of the same simulated disk (in production it is the host root), so a fallback to it is visible to the monitor",
			"legitimate canonical requests must be served from the right repository (vacuity guard, signature C40|harness|...; not part of the statement)",
			"objects/info/alternates and core.worktree/commondir indirections inside a served repository are not request- or gitfile-controlled and are not explored",
		},
		Real: []string{"transport.FilesystemLoader.Load/load/readGitfile", "backend.Backend.ServeHTTP (route regexps, repo/file split, transport.ParseURL)", "backend.Backend.Serve", "backend.RequestFromProto + packp.GitProtoRequest encode/decode",
			"transport.UploadPack/ReceivePack advertisement", "file.Transport Connect/Handshake + StreamSession.GetRemoteRefs", "storage/filesystem + dotgit reading refs", "net/http request parsing via httptest.NewRequest"},
		Stub: []string{"disk (simfs) with a thin name-normalising wrapper reproducing osfs.BoundOS toRelative/cleanUnderRoot", "HTTP connection (httptest.ResponseRecorder, no sockets)", "git-daemon socket (request line encoded and decoded in memory)", "backslash is a separator on the simulated disk"},
		Runs:    map[string]int{"quick": 120000, "thorough": 3000000},
		NewPlan: func() any { return &Plan{} },
		Gen:     genPlan,
		Exec:    execPlan,
		RequiredProbes: []string{"served-legit", "served-legit:load", "served-legit:http", "served-legit:httpdumb", "served-legit:daemon", "served-legit:file",
			"refused:dotdot", "refused:absolute-outside", "refused:absolute-dotdot", "refused:encoded-dotdot", "refused:gitfile-abs-outside", "refused:gitfile-rel-outside", "refused:symlink-outside",
			"bound-root-refused-escape", "escape-on-unbound-view", "planted:gitfile-abs-outside", "planted:gitfile-rel-outside", "planted:symlink-outside"},
	})
}
