//go:build verif

package c29

import (
	"encoding/json"
	"fmt"
	"os"
	"testing"

	"github.com/go-git/go-git/v6/verifsim/simfs"
)

// TestDebugReplay prints the local disk's operation log of the faulted (or,
// with C29_DEBUG_STEP, the named) step of a replay file. Debugging aid.
func TestDebugReplay(t *testing.T) {
	f := os.Getenv("C29_DEBUG_REPLAY")
	if f == "" {
		t.Skip("C29_DEBUG_REPLAY not set")
	}
	b, err := os.ReadFile(f)
	if err != nil {
		t.Fatal(err)
	}
	var rp struct {
		Plan json.RawMessage `json:"plan"`
	}
	p := &Plan{FaultStep: -1}
	if json.Unmarshal(b, &rp) != nil || json.Unmarshal(rp.Plan, p) != nil {
		t.Fatal("cannot decode")
	}
	step := p.FaultStep
	if v := os.Getenv("C29_DEBUG_STEP"); v != "" {
		fmt.Sscan(v, &step)
	}
	debugRecord = step
	defer func() { debugRecord = -1 }()
	o := run(t, p, func(i int, user bool, d *simfs.Disk, x *ext) {
		if i == step {
			for _, op := range d.Log {
				m := " "
				if op.Mutating {
					m = "M"
				}
				if op.Injected {
					m = "X"
				}
				fmt.Println(m, op.String())
			}
		}
	})
	fmt.Println("SIG", o.Signature, o.Message)
	for _, l := range o.Trace {
		fmt.Println("  ", l)
	}
}

// TestDebugTwice runs the plan given as JSON in C29_DEBUG_PLAN six times and
// prints log hash, signature and event log of each run. Debugging aid.
func TestDebugTwice(t *testing.T) {
	js := os.Getenv("C29_DEBUG_PLAN")
	if js == "" {
		t.Skip()
	}
	for i := 0; i < 6; i++ {
		p := &Plan{FaultStep: -1}
		if err := json.Unmarshal([]byte(js), p); err != nil {
			t.Fatal(err)
		}
		o := run(t, p, nil)
		fmt.Println(i, o.LogHash, o.Signature)
		for _, l := range o.Trace {
			fmt.Println("   ", l)
		}
	}
}
