//go:build verif

// C29 — a refused porcelain operation changes nothing.
//
// Histories of porcelain steps on a generated repository whose states are
// driven towards refusals (dirty worktree, existing/missing branches, invalid
// options, non-fast-forward merges), and single injected disk failures at
// enumerated ordinals. Whenever a go-git call returns an error, a snapshot of
// HEAD, every reference, the decoded on-disk index and the tracked worktree
// files taken immediately before the call must equal the one taken after it.
package c29

import (
	"fmt"
	"sort"
	"strings"
	"testing"
	"time"

	"github.com/go-git/go-git/v6/storage/filesystem"
	"github.com/go-git/go-git/v6/verifsim/core"
	"github.com/go-git/go-git/v6/verifsim/hooks"
	"github.com/go-git/go-git/v6/verifsim/porc"
	"github.com/go-git/go-git/v6/verifsim/simfs"
)

type Plan struct {
	RepoSeed  uint64       `json:"repo_seed"`
	Repack    bool         `json:"repack"`
	TickMs    int          `json:"tick_ms"`
	Steps     []porc.Step  `json:"steps"`
	FaultStep int          `json:"fault_step"` // index into Steps; -1 = fault-free
	Fault     *simfs.Fault `json:"fault,omitempty"`
}

var weights = map[string]int{"edit": 7, "rmfile": 1, "add": 4, "rm": 2, "mv": 2, "commit": 3, "reset": 6, "checkout": 8, "restore": 3, "merge": 3, "tick": 1, "clean": 1}

func genPlan(r *core.Rand, tier string) any {
	p := &Plan{RepoSeed: r.Uint64() % 48, Repack: r.Bool(), TickMs: []int{0, 1, 1000}[r.Intn(3)], FaultStep: -1}
	if tier == "thorough" {
		p.RepoSeed = r.Uint64() % 2048
	}
	p.Steps = porc.GenSteps(r, r.Range(2, 8), weights)
	return p
}

func variant(s porc.Step) string {
	switch s.Kind {
	case "checkout":
		form := []string{"branch", "hash", "create", "create-existing", "keep-or-branch"}[mod(s.A, 5)]
		if s.F {
			form += "+force"
		}
		return "checkout:" + form
	case "reset":
		return "reset:" + []string{"soft", "mixed", "hard", "merge", "keep"}[mod(s.A, 5)]
	case "restore":
		return "restore:" + []string{"staged", "worktree", "both", "nofiles"}[mod(s.B, 4)]
	case "commit":
		if s.F {
			return "commit:all"
		}
	}
	return s.Kind
}

func mod(a, n int) int {
	a %= n
	if a < 0 {
		a += n
	}
	return a
}

type stepOps struct {
	step   int
	counts map[simfs.OpClass]int
}

func expand(t *testing.T, pa any, tier string) []any {
	p := pa.(*Plan)
	out := []any{p}
	var per []stepOps
	q := *p
	q.FaultStep, q.Fault = -1, nil
	run(t, &q, func(i int, user bool, d *simfs.Disk) {
		if !user {
			per = append(per, stepOps{step: i, counts: d.ClassCounts()})
		}
	})
	r := core.NewRand(p.RepoSeed*131 + uint64(len(p.Steps)))
	type cand struct {
		step  int
		class simfs.OpClass
		nth   int
	}
	var cands []cand
	classes := []simfs.OpClass{simfs.OpWrite, simfs.OpCreate, simfs.OpOpen, simfs.OpRead, simfs.OpStat, simfs.OpRename, simfs.OpClose, simfs.OpRemove, simfs.OpReadDir, simfs.OpMkdir, simfs.OpChmod, simfs.OpSymlink}
	for _, so := range per {
		for _, c := range classes {
			for k := 1; k <= so.counts[c]; k++ {
				cands = append(cands, cand{so.step, c, k})
			}
		}
	}
	limit := 24
	if tier == "thorough" {
		limit = 400
	}
	if len(cands) > limit {
		for i := len(cands) - 1; i > 0; i-- {
			j := r.Intn(i + 1)
			cands[i], cands[j] = cands[j], cands[i]
		}
		cands = cands[:limit]
		sort.Slice(cands, func(i, j int) bool {
			if cands[i].step != cands[j].step {
				return cands[i].step < cands[j].step
			}
			if cands[i].class != cands[j].class {
				return cands[i].class < cands[j].class
			}
			return cands[i].nth < cands[j].nth
		})
	}
	for _, c := range cands {
		q := *p
		q.FaultStep = c.step
		errno := "EIO"
		switch c.class {
		case simfs.OpWrite:
			errno = []string{"ENOSPC", "SHORT", "EIO"}[r.Intn(3)]
		case simfs.OpCreate, simfs.OpOpen:
			errno = []string{"EACCES", "EMFILE"}[r.Intn(2)]
		}
		q.Fault = &simfs.Fault{Class: c.class, Nth: c.nth, Errno: errno, Short: r.Intn(64)}
		out = append(out, &q)
	}
	return out
}

func execPlan(t *testing.T, pa any) core.Outcome { return run(t, pa.(*Plan), nil) }

func pathClass(d *simfs.Disk) string {
	// where did the injected fault land?
	for _, op := range d.Log {
		if op.Injected {
			p := strings.TrimPrefix(op.Path, "/w/")
			switch {
			case !strings.HasPrefix(p, ".git"):
				return "worktree"
			case strings.HasPrefix(p, ".git/objects"):
				return "objects"
			case p == ".git/index":
				return "index"
			case p == ".git/HEAD", strings.HasPrefix(p, ".git/refs"), p == ".git/packed-refs":
				return "refs"
			case p == ".git/config":
				return "config"
			}
			return "gitdir"
		}
	}
	return "none"
}

// faultPhase tells whether the injected fault hit a read-side operation before
// the call had changed anything outside the object store ("pre": the call knew
// of the failure before its first mutation and still went on to mutate), or
// landed on or after a mutation ("mid": the known lack of failure atomicity).
func faultPhase(d *simfs.Disk) string {
	for _, op := range d.Log {
		if op.Injected {
			if op.Mutating {
				return "mid"
			}
			return "pre"
		}
		if op.Mutating && op.Err == "" && !strings.HasPrefix(op.Path, "/w/.git/objects") {
			return "mid"
		}
	}
	return "mid"
}

func run(t *testing.T, p *Plan, observe func(step int, user bool, d *simfs.Disk)) (out core.Outcome) {
	hooks.Deterministic(true)
	b := porc.GetBase(p.RepoSeed, p.Repack, false)
	if b.Err != nil {
		out.Inconclusive = "setup-failed"
		return out
	}
	w, err := porc.Open(b, filesystem.Options{})
	if err != nil {
		out.Inconclusive = "setup-open-failed"
		return out
	}
	d := w.Disk
	if p.TickMs > 0 {
		d.Tick = time.Duration(p.TickMs) * time.Millisecond
	}
	for i, s := range p.Steps {
		if i >= 12 {
			break
		}
		armed := p.Fault != nil && p.FaultStep == i
		before := porc.TakeSnapshot(d)
		d.ResetCounters()
		d.Record = armed
		if armed {
			d.SetFaults([]simfs.Fault{*p.Fault})
		}
		err, user := w.Do(s)
		fired := 0
		for _, v := range d.FaultsFired {
			fired += v
		}
		where := "none"
		if armed {
			d.SetFaults(nil)
			if fired > 0 {
				where = pathClass(d)
				out.Faults = map[string]int{string(p.Fault.Class) + ":" + p.Fault.Errno: 1}
			}
			d.Record = false
		}
		if observe != nil {
			observe(i, user, d)
		}
		if user {
			continue
		}
		if err == nil {
			continue
		}
		out.NonTrivial = true
		cause := "refused:" + porc.ErrKind(err)
		if fired > 0 {
			// one signature per (operation, changed components): WHERE the
			// fault landed is in the message and the probes, not the signature
			cause = "fault"
			if faultPhase(d) == "pre" {
				cause = "fault-before-first-mutation:" + string(p.Fault.Class) + "@" + where
			}
			out.Probe("op-failed-after-fault")
			out.Probe(fmt.Sprintf("fault-landed:%s@%s", p.Fault.Class, where))
		} else {
			out.Probe("refused:" + variant(s))
		}
		after := porc.TakeSnapshot(d)
		if diff := before.Diff(after); len(diff) > 0 {
			out.Fail(fmt.Sprintf("C29|%s|changed:%s|%s", variant(s), strings.Join(diff, ","), cause),
				"step %d (%s) returned an error (%v) but changed %s", i, variant(s), err, strings.Join(diff, ", "))
			break
		}
	}
	out.Trace = w.Trace
	out.LogHash = core.HashStrings(w.Trace)
	out.StateHash = d.Digest("/w", nil)
	out.Steps = len(p.Steps)
	_ = w.Env.Storage.Close()
	return out
}

func TestCheck(t *testing.T) {
	core.Main(t, core.Check{
		ID:    "C29",
		Level: "fault_enumeration",
		Rule: "plan = generated repository x history of 2-8 steps biased towards refusals (edits that dirty the worktree, checkout in 5 forms incl. create-existing/missing branch, reset in 5 modes, restore incl. no files, merge ff-only, commit, add/rm/mv of present and absent paths); " +
			"each plan runs fault-free and is expanded into single-fault variants at enumerated (step, operation class, ordinal) triples (all up to 400 in thorough, a sample of 24 in quick); " +
			"whenever a go-git call returns an error the snapshot (HEAD text, all refs loose+packed, decoded on-disk index, tracked worktree files) before must equal after; non-trivial = at least one call returned an error",
		Assumptions: []string{"snapshots are read straight from the simulated disk image, not through go-git", "new objects in the object store are allowed (the statement lists HEAD, branches, index, tracked files)",
			"untracked files are not part of the snapshot"},
		Real:    []string{"Worktree.Checkout/Reset/Restore/Add/Remove/Move/Commit/Clean", "Repository.Merge", "storage/filesystem"},
		Stub:    []string{"disk (simfs) with fault ordinals"},
		Runs:    map[string]int{"quick": 2400, "thorough": 30000},
		NewPlan: func() any { return &Plan{FaultStep: -1} },
		Gen:     genPlan,
		Expand:  expand,
		Exec:    execPlan,
	})
}
