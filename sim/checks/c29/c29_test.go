//go:build verif

// C29 — a refused porcelain operation changes nothing.
//
// Histories of porcelain steps on a generated repository whose states are
// driven towards refusals (dirty worktree, existing/missing branches, invalid
// options, non-fast-forward merges and pulls, missing objects), and single
// injected failures at enumerated points (one disk fault at a (step, operation
// class, ordinal) triple, or one cut of a pull's connection at a byte offset).
// Whenever a go-git call returns an error, a snapshot of HEAD, every
// reference, the decoded on-disk index and the tracked worktree files taken
// immediately before the call must equal the one taken after it.
//
// Real: Worktree.Checkout/Reset/Restore/Add/Remove/Move/Commit/Clean/Pull,
// Repository.Merge, storage/filesystem on both sides, and for a pull the whole
// client fetch path against the real transport.UploadPack. Stubbed: the disks
// (simfs; the local one with fault ordinals) and the network (simnet.Transport
// with Drv=nil: the server command runs in a goroutine of the same process on
// a SEPARATE disk, joined to the client by byte streams whose segmentation is
// a function of the writer's Write calls and the plan only). Global and system
// git configuration is an empty ConfigLoader plugin (nothing is read from the
// host).
//
// Plan space. Three families (field Steps is a history of at most 12 steps in
// all of them): (1) local histories of 2-8 steps over the step language of
// sim/porc plus the kinds of ext_test.go — mergex (merge of a branch, a
// missing ref, a ref to an absent object, an arbitrary commit; unsupported
// strategy), checkoutx / resetx / addx / commitx (invalid options, absent
// hashes, missing sparse directory, path outside the worktree, no author),
// corrupt (a loose commit/tree/blob of a known commit is deleted straight
// from the image and the repository reopened: the quantifier's "missing
// objects"), orphan (HEAD names an unborn branch); (2) pull histories: the
// repository has a remote `origin` (field Remote: master of the remote equal /
// ahead / behind / diverged / unrelated / absent relative to the local base,
// 1-3 new commits rewriting chosen paths, wildcard or single-branch refspec,
// packed server refs, with or without an existing remote-tracking ref, wire
// protocol v0/v1/v2); local
// steps (edits at the path the remote rewrites or elsewhere, add, commit,
// reset, checkout to a detached HEAD, orphan, corrupt) are followed by a pull
// by HEAD / branch name / other branch / missing ref / missing remote /
// missing repository, with Force, Depth 1-2, SingleBranch; (3) missing-object
// histories (corrupt, then checkout/reset/merge/pull towards the damaged
// commit). Every plan runs fault-free and is expanded into single-fault
// variants from a dry run: disk faults at (step, class, ordinal), for pull
// steps reads by (exact path, ordinal) because the pack writer's indexer
// goroutine reads the incoming pack concurrently (the only local operations
// not issued by the calling goroutine; they are never chosen as fault
// points), and cuts of the pull's connection at sampled byte offsets in
// either direction.
//
// Oracle. Snapshot before = snapshot after whenever the call returned a
// non-nil error; the snapshot is read straight from the disk image: HEAD's
// bytes, every reference loose or packed, the decoded index, every tracked
// worktree file (kind, exec bit, content). git.NoErrAlreadyUpToDate from Pull
// is an error value that means "nothing to do": it is compared like any other
// error but is not counted as a refusal and carries its own cause
// (`noop:already-up-to-date`).
//
// Scope of a pull's comparison: HEAD, refs/heads/* (loose and packed), the
// index and the tracked files. NOT judged, because the statement lists only
// HEAD, branches, index and tracked files and a failed or refused pull may
// well have completed its fetch half: refs/remotes/*, tags, FETCH_HEAD,
// ORIG_HEAD, new objects and packs, the shallow file, the configuration.
// For every operation: new objects in the store and untracked files are not
// part of the snapshot. A call that returned nil is never judged here.
//
// Determinism. A pull runs inside a synctest bubble; the server command works
// on its own disk, so the local disk is operated on by the calling goroutine
// and, for reads of the incoming pack only, by the pack writer's indexer.
// det_test.go repeats plans, their expansion and fault/cut variants and
// compares the full local operation sequence. What depends on the
// interleaving of client and server after a failure (how many bytes crossed
// the connection, which of write/read notices a cut first, the server's own
// error) stays out of the event log. The server of a pull has no tags and,
// under a wildcard refspec, a single branch, because go-git walks the fetched
// refs in Go map order. A client-side goroutine left blocked after a failed
// pull (DotGit.NewObjectPack does not close the PackWriter it created when
// cleanPackList reports an error) is counted (probe), not judged.
//
// Signatures: `C29|<op>:<form>|changed:<components>|<cause>` with cause
// `refused:<error kind>` (a logical refusal changed something: each such
// signature is a defect of its own), `fault` (an injected disk error on or
// after the call's first mutation: the known lack of failure atomicity, one
// known-finding pattern per operation family), `fault-before-first-mutation:
// <class>@<place>` (the failure was known before anything was changed, and
// still something changed; when the error returned is not the injected one
// and the fault-free twin of the run fails in exactly the same way, the fault
// was merely tolerated and the signature is the twin's `refused:` one),
// `netcut` (the connection broke), `noop:...`. A refusal for a missing object
// met after a corrupt step carries `@damaged-store`. For a pull the
// signature's operation is plain `pull`: which ref, Depth, Force and
// SingleBranch are in the event log. Minimised replays of the logical
// findings are kept in findings/, candidate patches in proposed-fixes/.
// `C29|harness|...` signatures report trouble of the simulation itself.
package c29

import (
	"fmt"
	"os"
	"sort"
	"strings"
	"testing"
	"time"

	"github.com/go-git/go-git/v6/storage/filesystem"
	"github.com/go-git/go-git/v6/verifsim/core"
	"github.com/go-git/go-git/v6/verifsim/hooks"
	"github.com/go-git/go-git/v6/verifsim/porc"
	"github.com/go-git/go-git/v6/verifsim/sched"
	"github.com/go-git/go-git/v6/verifsim/simfs"
	"github.com/go-git/go-git/v6/verifsim/simnet"
)

type Plan struct {
	RepoSeed  uint64       `json:"repo_seed"`
	Repack    bool         `json:"repack"`
	TickMs    int          `json:"tick_ms"`
	Steps     []porc.Step  `json:"steps"`
	FaultStep int          `json:"fault_step"` // index into Steps; -1 = fault-free
	Fault     *simfs.Fault `json:"fault,omitempty"`
	// Remote, when set, is the repository behind the remote `origin` (pull).
	Remote *Remote `json:"remote,omitempty"`
	// Net: segmentation of the k-th pull's connection (Net[k % len]); capacity
	// limits and cut offsets in it are ignored (see Cut).
	Net []simnet.ConnCfg `json:"net,omitempty"`
	// Cut, when set, breaks the connection of the pull at step Cut.Step.
	Cut *NetCut `json:"cut,omitempty"`
}

var weights = map[string]int{"edit": 7, "rmfile": 1, "add": 4, "rm": 2, "mv": 2, "commit": 3, "reset": 6, "checkout": 8, "restore": 3, "merge": 3, "tick": 1, "clean": 1,
	"mergex": 3, "checkoutx": 3, "resetx": 2, "addx": 1, "commitx": 1, "corrupt": 1, "orphan": 1}

// local steps in front of a pull
var prePullWeights = map[string]int{"edit": 8, "rmfile": 1, "add": 3, "commit": 4, "reset": 3, "checkout": 2, "tick": 1, "orphan": 1, "corrupt": 1, "merge": 1}

// steps after a loose object was removed
var damagedWeights = map[string]int{"checkout": 8, "reset": 8, "checkoutx": 1, "merge": 2, "mergex": 3, "commit": 1, "restore": 1, "edit": 2, "add": 1, "corrupt": 2}

func genNet(r *core.Rand) []simnet.ConnCfg {
	chunks := func() []int {
		switch r.Intn(4) {
		case 0:
			return []int{r.Pick2(1, 3, 17)}
		case 1:
			return []int{r.Pick2(5, 64, 1000), 0, r.Pick2(2, 300, 4096)}
		}
		return nil
	}
	return []simnet.ConnCfg{{C2S: simnet.Cfg{Chunks: chunks()}, S2C: simnet.Cfg{Chunks: chunks()}}}
}

func genPullStep(r *core.Rand) porc.Step {
	// forms: head head branch side old ref-missing remote-missing url-missing; options: - - - depth1 depth2 single
	return porc.Step{Kind: "pull", A: r.Pick2(0, 0, 1, 1, 2, 2, 3, 4, 5, 6, 7), B: r.Pick2(0, 1, 2, 0, 1, 2, 3, 4, 5), F: r.Chance(1, 4)}
}

func genPlan(r *core.Rand, tier string) any {
	p := &Plan{RepoSeed: r.Uint64() % 48, Repack: r.Bool(), TickMs: []int{0, 1, 1000}[r.Intn(3)], FaultStep: -1}
	if tier == "thorough" {
		p.RepoSeed = r.Uint64() % 2048
	}
	switch k := r.Intn(20); {
	case k < 12:
		p.Steps = porc.GenSteps(r, r.Range(2, 8), weights)
	case k < 17:
		// pull family
		rm := &Remote{Shape: r.Pick("equal", "ahead", "ahead", "ahead", "behind", "diverged", "diverged", "unrelated", "nobranch"),
			N: r.Pick2(1, 1, 1, 2, 3), Back: r.Range(1, 2), Wildcard: r.Bool(), PackRefs: r.Chance(1, 3), Tracking: r.Bool(), Proto: r.Pick2(0, 0, 1, 2, 3)}
		for i := 0; i < rm.N; i++ {
			rm.Touch = append(rm.Touch, r.Intn(8))
		}
		p.Remote = rm
		p.Net = genNet(r)
		pre := porc.GenSteps(r, r.Range(0, 3), prePullWeights)
		for i := range pre {
			if pre[i].Kind == "edit" && r.Bool() {
				pre[i].A = rm.Touch[0] // dirty exactly where the remote's commit writes
			}
		}
		p.Steps = append(pre, genPullStep(r))
		if r.Chance(1, 3) {
			p.Steps = append(p.Steps, porc.GenSteps(r, r.Range(0, 2), prePullWeights)...)
			p.Steps = append(p.Steps, genPullStep(r))
		}
	default:
		// missing objects
		p.Steps = append(porc.GenSteps(r, r.Range(0, 2), prePullWeights), porc.Step{Kind: "corrupt", A: r.Intn(40), B: r.Intn(40)})
		p.Steps = append(p.Steps, porc.GenSteps(r, r.Range(1, 4), damagedWeights)...)
		if r.Chance(1, 4) {
			p.Remote = &Remote{Shape: r.Pick("ahead", "diverged", "equal"), N: 1, Back: 1, Touch: []int{r.Intn(8)}, Wildcard: r.Bool()}
			p.Steps = append(p.Steps, genPullStep(r))
		}
	}
	return p
}

func variant(s porc.Step) string {
	switch s.Kind {
	case "checkout":
		form := []string{"branch", "hash", "create", "create-existing", "keep-or-branch"}[mod(s.A, 5)]
		if s.F {
			form += "+force"
		}
		return "checkout:" + form
	case "reset":
		return "reset:" + []string{"soft", "mixed", "hard", "merge", "keep"}[mod(s.A, 5)]
	case "restore":
		return "restore:" + []string{"staged", "worktree", "both", "nofiles"}[mod(s.B, 4)]
	case "commit":
		if s.F {
			return "commit:all"
		}
	case "pull":
		// which ref is pulled, Depth, Force and SingleBranch are in the event
		// log and the probes, not in the signature
		return "pull"
	case "mergex":
		return "merge:" + mergeForm(s)
	case "checkoutx":
		return "checkout:" + checkoutxForm(s)
	case "resetx":
		if mod(s.A, 3) == 2 {
			// a reset with an existing sparse directory is a reset
			return "reset:" + []string{"soft", "mixed", "hard", "merge", "keep"}[mod(s.B, 5)]
		}
		return "reset:" + resetxForm(s)
	case "addx":
		return "add:" + addxForm(s)
	case "commitx":
		return "commit:" + commitxForm(s)
	}
	return s.Kind
}

func mod(a, n int) int {
	if n <= 0 {
		return 0
	}
	a %= n
	if a < 0 {
		a += n
	}
	return a
}

func hasPull(p *Plan) bool {
	for i, s := range p.Steps {
		if i >= 12 {
			break
		}
		if s.Kind == "pull" {
			return true
		}
	}
	return false
}

// stepOps is what the dry run of one go-git step saw on the local disk.
type stepOps struct {
	step     int
	pull     bool
	counts   map[simfs.OpClass]int
	reads    []string // pull only: path of every read outside the incoming pack, in order
	s2c, c2s int64    // pull only: bytes that crossed the connection
}

type cand struct {
	step    int
	class   simfs.OpClass
	nth     int
	pathSub string
	cutDir  string
	cutAt   int64
}

var faultClasses = []simfs.OpClass{simfs.OpWrite, simfs.OpCreate, simfs.OpOpen, simfs.OpRead, simfs.OpStat, simfs.OpRename, simfs.OpClose, simfs.OpRemove, simfs.OpReadDir, simfs.OpMkdir, simfs.OpChmod, simfs.OpSymlink}

// dryRun executes the plan fault-free and reports the local disk's
// operations per go-git step.
func dryRun(t *testing.T, p *Plan) []stepOps {
	var per []stepOps
	q := *p
	q.FaultStep, q.Fault, q.Cut = -1, nil, nil
	run(t, &q, func(i int, user bool, d *simfs.Disk, x *ext) {
		if user {
			return
		}
		so := stepOps{step: i, counts: d.ClassCounts()}
		if i < len(q.Steps) && q.Steps[i].Kind == "pull" {
			so.pull = true
			so.s2c, so.c2s = x.s2c, x.c2s
			for _, op := range d.Log {
				if op.Class == simfs.OpRead && !strings.Contains(op.Path, "tmp_pack_") {
					so.reads = append(so.reads, op.Path)
				}
			}
		}
		per = append(per, so)
	})
	return per
}

func candidates(per []stepOps, r *core.Rand, tier string) (disk, cuts []cand) {
	for _, so := range per {
		for _, c := range faultClasses {
			if so.pull && c == simfs.OpRead {
				// The pack writer's indexer goroutine reads the incoming pack
				// (objects/pack/tmp_pack_*) while the caller is still writing
				// it: how many reads it needs depends on the interleaving, so
				// "the k-th read of the step" is not a function of the plan.
				// Reads are addressed by (exact path, ordinal on that path)
				// instead, and the incoming pack is never a fault point.
				seen := map[string]int{}
				for _, path := range so.reads {
					seen[path]++
					disk = append(disk, cand{step: so.step, class: c, nth: seen[path], pathSub: path})
				}
				continue
			}
			for k := 1; k <= so.counts[c]; k++ {
				disk = append(disk, cand{step: so.step, class: c, nth: k})
			}
		}
		if so.pull {
			n := 3
			if tier == "thorough" {
				n = 40
			}
			for k := 0; k < n && so.s2c > 0; k++ {
				cuts = append(cuts, cand{step: so.step, cutDir: "s2c", cutAt: 1 + int64(r.Intn(int(so.s2c)))})
			}
			for k := 0; k < (n+2)/3 && so.c2s > 0; k++ {
				cuts = append(cuts, cand{step: so.step, cutDir: "c2s", cutAt: 1 + int64(r.Intn(int(so.c2s)))})
			}
		}
	}
	return disk, cuts
}

func expand(t *testing.T, pa any, tier string) []any {
	p := pa.(*Plan)
	out := []any{p}
	per := dryRun(t, p)
	r := core.NewRand(p.RepoSeed*131 + uint64(len(p.Steps)))
	cands, cuts := candidates(per, r, tier)
	limit := 20
	if hasPull(p) {
		limit = 16 // plus the cuts; a pull run costs about twice a local one (the server encodes a pack)
	}
	if tier == "thorough" {
		limit = 400
	}
	if len(cands) > limit {
		for i := len(cands) - 1; i > 0; i-- {
			j := r.Intn(i + 1)
			cands[i], cands[j] = cands[j], cands[i]
		}
		cands = cands[:limit]
		sort.SliceStable(cands, func(i, j int) bool {
			if cands[i].step != cands[j].step {
				return cands[i].step < cands[j].step
			}
			if cands[i].class != cands[j].class {
				return cands[i].class < cands[j].class
			}
			if cands[i].pathSub != cands[j].pathSub {
				return cands[i].pathSub < cands[j].pathSub
			}
			return cands[i].nth < cands[j].nth
		})
	}
	for _, c := range cands {
		q := *p
		q.FaultStep = c.step
		errno := "EIO"
		switch c.class {
		case simfs.OpWrite:
			errno = []string{"ENOSPC", "SHORT", "EIO"}[r.Intn(3)]
		case simfs.OpCreate, simfs.OpOpen:
			errno = []string{"EACCES", "EMFILE"}[r.Intn(2)]
		}
		q.Fault = &simfs.Fault{Class: c.class, Nth: c.nth, PathSub: c.pathSub, Errno: errno, Short: r.Intn(64)}
		out = append(out, &q)
	}
	for _, c := range cuts {
		q := *p
		q.Cut = &NetCut{Step: c.step, Dir: c.cutDir, At: c.cutAt, Kind: r.Intn(2)}
		out = append(out, &q)
	}
	return out
}

func execPlan(t *testing.T, pa any) core.Outcome { return run(t, pa.(*Plan), nil) }

func pathClass(d *simfs.Disk) string {
	// where did the injected fault land?
	for _, op := range d.Log {
		if op.Injected {
			p := strings.TrimPrefix(op.Path, "/w/")
			switch {
			case !strings.HasPrefix(p, ".git"):
				return "worktree"
			case strings.HasPrefix(p, ".git/objects"):
				return "objects"
			case p == ".git/index":
				return "index"
			case p == ".git/HEAD", strings.HasPrefix(p, ".git/refs"), p == ".git/packed-refs":
				return "refs"
			case p == ".git/config":
				return "config"
			}
			return "gitdir"
		}
	}
	return "none"
}

// faultPhase tells whether the injected fault hit a read-side operation before
// the call had changed anything outside the object store ("pre": the call knew
// of the failure before its first mutation and still went on to mutate), or
// landed on or after a mutation ("mid": the known lack of failure atomicity).
func faultPhase(d *simfs.Disk) string {
	for _, op := range d.Log {
		if op.Injected {
			if op.Mutating {
				return "mid"
			}
			return "pre"
		}
		if op.Mutating && op.Err == "" && !strings.HasPrefix(op.Path, "/w/.git/objects") {
			return "mid"
		}
	}
	return "mid"
}

// debugRecord: step whose disk log dbg_test.go wants recorded (-1: none).
var debugRecord = -1

// recordAll: det_test.go wants the disk log of every step.
var recordAll bool

type observer func(step int, user bool, d *simfs.Disk, x *ext)

// run executes a plan. A plan with a pull runs inside a synctest bubble: the
// server command's goroutine, the pack indexer and whatever else the call
// starts must have ended when the run ends, or the bubble reports them.
func run(t *testing.T, p *Plan, observe observer) (out core.Outcome) {
	hooks.Deterministic(true)
	b := porc.GetBase(p.RepoSeed, p.Repack, false)
	if b.Err != nil {
		out.Inconclusive = "setup-failed"
		return out
	}
	var srv *simfs.Disk
	if p.Remote != nil {
		rb := getRemote(b, p.RepoSeed, p.Repack, p.Remote)
		if rb.err != nil {
			out.Inconclusive = "setup-remote-failed"
			return out
		}
		srv = rb.disk
	}
	if !hasPull(p) {
		runSteps(p, b, srv, false, observe, &out)
		return out
	}
	if panicked := sched.Bubble(t, func() { runSteps(p, b, srv, true, observe, &out) }); panicked != nil {
		msg := fmt.Sprint(panicked)
		if strings.Contains(msg, "main bubble goroutine has exited but blocked goroutines remain") {
			// runSteps returned (out is complete; every server command has
			// ended, see ext.pull), but a goroutine started by go-git on the
			// client side is still blocked: DotGit.NewObjectPack returns
			// cleanPackList's error (a failed close of a cached pack handle)
			// without closing the PackWriter it has just created, whose
			// indexer goroutine then waits for ever. A leak on an error path,
			// not something C29 speaks about: counted, not judged.
			out.Probe("client-goroutine-left-behind-after-failed-pull")
			return out
		}
		if len(msg) > 300 {
			msg = msg[:300]
		}
		out.Signature, out.Message = "", ""
		out.Fail("C29|harness|panic-in-run", "the run did not end cleanly: %s", msg)
	}
	return out
}

func runSteps(p *Plan, b *porc.Base, srv *simfs.Disk, inBubble bool, observe observer, out *core.Outcome) {
	w, err := porc.Open(b, filesystem.Options{})
	if err != nil {
		out.Inconclusive = "setup-open-failed"
		return
	}
	d := w.Disk
	x := &ext{p: p, inBubble: inBubble, out: out}
	if srv != nil {
		x.srv = srv.Clone()
		if err := x.setupRemote(w); err != nil {
			out.Inconclusive = "setup-remote-failed"
			_ = w.Env.Storage.Close()
			return
		}
		out.Probe("remote-shape:" + normShape(p.Remote.Shape))
	}
	if p.TickMs > 0 {
		d.Tick = time.Duration(p.TickMs) * time.Millisecond
	}
	for i, s := range p.Steps {
		if i >= 12 {
			break
		}
		isPull := s.Kind == "pull"
		armed := p.Fault != nil && p.FaultStep == i
		before := judged(porc.TakeSnapshot(d), s.Kind)
		d.ResetCounters()
		d.Record = armed || (isPull && observe != nil) || debugRecord == i || recordAll
		if armed {
			d.SetFaults([]simfs.Fault{*p.Fault})
		}
		err, user := x.do(w, i, s)
		fired := 0
		for _, v := range d.FaultsFired {
			fired += v
		}
		where := "none"
		if armed {
			d.SetFaults(nil)
			if fired > 0 {
				where = pathClass(d)
				out.Faults = map[string]int{string(p.Fault.Class) + ":" + p.Fault.Errno: 1}
			}
		}
		if observe != nil {
			observe(i, user, d, x)
		}
		d.Record = false
		if user {
			continue
		}
		if isPull {
			pullProbes(out, x, s, err)
			if x.cutFired {
				if out.Faults == nil {
					out.Faults = map[string]int{}
				}
				out.Faults["net-cut:"+cutDir(p)]++
			}
			if x.leftOpen {
				out.Fail("C29|harness|server-command-still-running-after-pull", "step %d (%s) returned (%v) and left the connection open: the server command was still running", i, variant(s), err)
				break
			}
		}
		if err == nil {
			continue
		}
		out.NonTrivial = true
		twinNeeded := false
		cause := refusedCause(x, isPull, err)
		switch {
		case fired > 0:
			// one signature per (operation, changed components): WHERE the
			// fault landed is in the message and the probes, not the signature
			cause = "fault"
			phase := faultPhase(d)
			if isPull {
				phase = pullFaultPhase(d)
			}
			if phase == "pre" {
				cause = "fault-before-first-mutation:" + string(p.Fault.Class) + "@" + where
				twinNeeded = !simfs.IsInjected(err)
			}
			out.Probe("op-failed-after-fault")
			out.Probe(fmt.Sprintf("fault-landed:%s@%s", p.Fault.Class, where))
			if isPull {
				out.Probe("pull-failed-after-fault:" + phase)
			}
		case isPull && x.cutFired:
			cause = "netcut"
			out.Probe("pull-failed-after-netcut:" + cutDir(p))
		case errKind(err) == "already-up-to-date":
			// cause is noop:already-up-to-date (refusedCause): not a refusal
			out.Probe("pull:already-up-to-date")
		default:
			out.Probe("refused:" + variant(s))
			out.Probe("refused:" + opOf(s.Kind) + ":" + refusalClass(err))
		}
		after := judged(porc.TakeSnapshot(d), s.Kind)
		if diff := before.Diff(after); len(diff) > 0 {
			if twinNeeded {
				// The fault came before the first mutation and the error
				// returned is not the injected one. Either go-git tolerated
				// the failed operation (a probe for an optional file, say) and
				// then refused for a logical reason exactly as it does without
				// the fault — then this is that refusal's signature — or the
				// fault made it go on where it should have stopped.
				refused := refusedCause(x, isPull, err)
				if twin(p, b, srv, inBubble, i) == fmt.Sprintf("C29|%s|changed:%s|%s", variant(s), strings.Join(diff, ","), refused) {
					cause = refused
					out.Probe("fault-tolerated-then-refused-like-the-fault-free-twin")
				}
			}
			out.Fail(fmt.Sprintf("C29|%s|changed:%s|%s", variant(s), strings.Join(diff, ","), cause),
				"step %d (%s) returned an error (%v) but changed %s", i, variant(s), err, strings.Join(diff, ", "))
			break
		}
	}
	out.Trace = w.Trace
	out.LogHash = core.HashStrings(w.Trace)
	out.StateHash = d.Digest("/w", nil)
	out.Steps = len(p.Steps)
	_ = w.Env.Storage.Close()
}

// twin runs the plan without its fault or cut up to and including step i and
// returns the signature of that run ("" when it held).
func twin(p *Plan, b *porc.Base, srv *simfs.Disk, inBubble bool, i int) string {
	q := *p
	q.FaultStep, q.Fault, q.Cut = -1, nil, nil
	if i+1 < len(q.Steps) {
		q.Steps = q.Steps[:i+1]
	}
	var o core.Outcome
	runSteps(&q, b, srv, inBubble, nil, &o)
	return o.Signature
}

// refusedCause is the cause component of the signature of a logical refusal.
// Once a loose object has been removed from the store (step kind corrupt) the
// cause says so: "the operation met a missing object half-way" is a
// mechanism of its own, not to be confused with the same error kind on an
// intact store.
func refusedCause(x *ext, isPull bool, err error) string {
	if errKind(err) == "already-up-to-date" {
		return "noop:already-up-to-date"
	}
	c := "refused:" + errKind(err)
	if isPull {
		c = "refused:" + pullErrKind(err)
	}
	if k := refusalClass(err); x.damaged && (k == "object-missing" || k == "file-missing") {
		c += "@damaged-store"
	}
	return c
}

func cutDir(p *Plan) string {
	if p.Cut != nil && p.Cut.Dir == "c2s" {
		return "c2s"
	}
	return "s2c"
}

func pullProbes(out *core.Outcome, x *ext, s porc.Step, err error) {
	out.Probe("pull:" + pullForm(s))
	if err == nil {
		out.Probe("pull-ok")
	}
	if x.gotPack {
		out.Probe("pull-received-pack")
	}
	if pullDepth(s) > 0 {
		out.Probe("pull:depth")
	}
	if s.F {
		out.Probe("pull:force")
	}
	if mod(s.B, 6) == 5 {
		out.Probe("pull:single-branch")
	}
	res := "ok"
	if err != nil {
		res = "error"
	}
	if x.dirtyTouch {
		out.Probe("pull:dirty-at-path-the-remote-rewrites:" + res)
	} else if x.dirtyOther {
		out.Probe("pull:dirty-elsewhere:" + res)
	}
}

func TestCheck(t *testing.T) {
	sched.DumpOnPanic = os.Getenv("C29_DUMP") != "" // debugging aid: stacks of what a bubble left behind
	core.Main(t, core.Check{
		ID:    "C29",
		Level: "fault_enumeration",
		Rule: "plan = generated repository x history of at most 12 steps biased towards refusals; three families: local histories (edits that dirty the worktree, checkout in 5 forms incl. create-existing/missing branch, reset in 5 modes, restore incl. no files, merge ff-only, commit, add/rm/mv of present and absent paths, plus merge of missing/absent/arbitrary targets and unsupported strategy, checkout/reset/add/commit with invalid options, absent hashes, missing sparse directory, paths outside the worktree, no author, deleted loose objects, unborn HEAD), " +
			"pull histories (remote `origin` on a separate disk served by the real upload-pack over simulated streams; remote master equal/ahead/behind/diverged/unrelated/absent; dirty worktree at or away from the path the remote rewrites; detached/unborn HEAD; pull by HEAD, branch, other branch, missing ref, missing remote, missing repository; Force, Depth, SingleBranch) and missing-object histories; " +
			"each plan runs fault-free and is expanded into single-fault variants: disk faults at enumerated (step, operation class, ordinal) triples (all up to 400 in thorough, a sample of 20 — 16 for plans with a pull — in quick; reads of a pull step by (path, ordinal)) and cuts of a pull's connection at sampled byte offsets in both directions; " +
			"whenever a go-git call returns an error the snapshot (HEAD text, all refs loose+packed — for a pull refs/heads/* only —, decoded on-disk index, tracked worktree files) before must equal after; non-trivial = at least one call returned an error",
		Assumptions: []string{"snapshots are read straight from the simulated disk image, not through go-git", "new objects in the object store are allowed (the statement lists HEAD, branches, index, tracked files)",
			"untracked files are not part of the snapshot", "a pull is judged on HEAD, refs/heads/*, index and tracked files only: refs/remotes/*, tags, FETCH_HEAD, ORIG_HEAD, the shallow file and the configuration belong to its fetch half",
			"the server of a pull has no tags and, under a wildcard refspec, one branch: go-git walks the fetched refs in Go map order, which would make the local disk's operation order differ between runs",
			"global/system git configuration is empty (ConfigLoader plugin), nothing is read from the host"},
		Real:    []string{"Worktree.Checkout/Reset/Restore/Add/Remove/Move/Commit/Clean/Pull", "Repository.Merge", "Remote.fetch, transport client session, packfile writer", "transport.UploadPack (server side)", "storage/filesystem (both sides)"},
		Stub:    []string{"disks (simfs; the local one with fault ordinals)", "network (simnet streams: deterministic segmentation, cut offsets)", "clock of pull runs (synctest bubble)"},
		Runs:    map[string]int{"quick": 1800, "thorough": 30000},
		NewPlan: func() any { return &Plan{FaultStep: -1} },
		Gen:     genPlan,
		Expand:  expand,
		Exec:    execPlan,
		RequiredProbes: []string{
			"refused:checkout:unstaged-changes", "refused:checkout:branch-exists", "refused:checkout:ref-missing", "refused:checkout:object-missing", "refused:checkout:invalid-options", "refused:checkout:sparse-dir-missing",
			"refused:reset:unstaged-changes", "refused:reset:object-missing", "refused:reset:sparse-dir-missing",
			"refused:restore:invalid-options", "refused:add:path-missing", "refused:add:path-outside", "refused:commit:empty-commit", "refused:commit:missing-author",
			"refused:merge:non-ff", "refused:merge:ref-missing", "refused:merge:object-missing", "refused:merge:unsupported-strategy",
			"refused:pull:non-ff", "refused:pull:unstaged-changes", "refused:pull:ref-missing", "refused:pull:remote-missing", "refused:pull:remote-ref-missing", "refused:pull:remote-repository-missing",
			"pull-ok", "pull-received-pack", "pull:depth", "pull:force", "pull:dirty-at-path-the-remote-rewrites:error", "pull:dirty-elsewhere:error",
			"pull-failed-after-fault:pre", "pull-failed-after-fault:mid", "pull-failed-after-netcut:s2c", "pull-failed-after-netcut:c2s",
			"corrupt:blob", "corrupt:tree", "corrupt:commit",
		},
	})
}
