//go:build verif

package c29

// Step kinds implemented inside this package (sim/porc is shared with other
// checks and is not edited): pull, mergex, checkoutx, resetx, addx, commitx
// (go-git calls) and corrupt, orphan (user/harness actions). Everything else
// is handed to porc.World.Do unchanged.

import (
	"crypto/sha1"
	"encoding/json"
	"errors"
	"fmt"
	"io"
	iofs "io/fs"
	"sort"
	"strings"
	"testing/synctest"

	git "github.com/go-git/go-git/v6"
	"github.com/go-git/go-git/v6/config"
	"github.com/go-git/go-git/v6/plumbing"
	"github.com/go-git/go-git/v6/plumbing/cache"
	"github.com/go-git/go-git/v6/plumbing/client"
	"github.com/go-git/go-git/v6/plumbing/format/index"
	"github.com/go-git/go-git/v6/plumbing/object"
	"github.com/go-git/go-git/v6/plumbing/protocol"
	"github.com/go-git/go-git/v6/plumbing/transport"
	"github.com/go-git/go-git/v6/storage"
	"github.com/go-git/go-git/v6/storage/filesystem"
	"github.com/go-git/go-git/v6/verifsim/core"
	"github.com/go-git/go-git/v6/verifsim/gen"
	"github.com/go-git/go-git/v6/verifsim/porc"
	"github.com/go-git/go-git/v6/verifsim/simfs"
	"github.com/go-git/go-git/v6/verifsim/simnet"
	"github.com/go-git/go-git/v6/x/plugin"
	xconfig "github.com/go-git/go-git/v6/x/plugin/config"
)

func init() {
	// Commit consults the global and system configuration (commit.gpgsign,
	// and user.name/user.email when no author is given) through the
	// ConfigLoader plugin, whose default reads the host's ~/.gitconfig. The
	// simulation must not depend on the machine it runs on.
	_ = plugin.Register(plugin.ConfigLoader(), func() plugin.ConfigSource { return xconfig.NewEmpty() })
}

// Remote describes the repository `origin` points to. It lives on its own
// disk; its history is the local base repository's plus a change to master.
type Remote struct {
	// Shape of the remote master relative to the local base master:
	// equal | ahead | behind | diverged | unrelated | nobranch
	Shape string `json:"shape"`
	N     int    `json:"n"`     // commits the remote adds (ahead, diverged): 1..3
	Back  int    `json:"back"`  // first-parent steps back from the base tip where the remote forks / stays (behind, diverged)
	Touch []int  `json:"touch"` // the i-th added commit rewrites porc.Paths[Touch[i]]
	// Wildcard: origin's fetch refspec is +refs/heads/*:refs/remotes/origin/*
	// and the server has ONLY master; otherwise the refspec names master only
	// and the server keeps the base's other branches (advertised, not fetched).
	Wildcard bool `json:"wildcard"`
	PackRefs bool `json:"pack_refs"` // the server's refs are packed
	Tracking bool `json:"tracking"`  // refs/remotes/origin/master exists locally at the base tip (as after a clone)
	Proto    int  `json:"proto"`     // wire protocol the client asks for: 0 go-git's default, 1 v0, 2 v1, 3 v2
}

// NetCut breaks one direction of the connection of the pull at step Step
// after At bytes.
type NetCut struct {
	Step int    `json:"step"`
	Dir  string `json:"dir"` // "s2c" (default) | "c2s"
	At   int64  `json:"at"`
	Kind int    `json:"kind"`
}

const (
	remoteURL  = "sim://server/w/.git"
	ghostHash  = "00000000000000000000000000000000000c0ffe"
	ghostHash2 = "deadbeefdeadbeefdeadbeefdeadbeefdeadbeef"
)

var shapes = []string{"equal", "ahead", "behind", "diverged", "unrelated", "nobranch"}

func normShape(s string) string {
	for _, k := range shapes {
		if k == s {
			return k
		}
	}
	return "equal"
}

type remoteBase struct {
	disk *simfs.Disk
	err  error
}

var remoteCache = map[string]*remoteBase{}

// mainline returns the first-parent chain of model commit indexes from the
// checked-out commit backwards.
func mainline(m *gen.Model) []int {
	var out []int
	seen := map[int]bool{}
	for i := m.HeadIdx; i >= 0 && i < len(m.Commits) && !seen[i]; {
		seen[i] = true
		out = append(out, i)
		if len(m.Commits[i].Parents) == 0 {
			break
		}
		i = m.Commits[i].Parents[0]
	}
	return out
}

// getRemote builds (or returns the cached) server image for a base and a
// Remote description. Fault-free set-up through go-git's own API on a clone
// of the base image.
func getRemote(b *porc.Base, seed uint64, repack bool, r *Remote) *remoteBase {
	js, _ := json.Marshal(r)
	key := fmt.Sprintf("%d/%v/%s", seed, repack, js)
	if rb, ok := remoteCache[key]; ok {
		return rb
	}
	if len(remoteCache) > 600 {
		remoteCache = map[string]*remoteBase{}
	}
	rb := &remoteBase{}
	remoteCache[key] = rb
	rb.disk, rb.err = buildRemote(b, r)
	return rb
}

func buildRemote(b *porc.Base, r *Remote) (*simfs.Disk, error) {
	d := b.Disk.Clone()
	env, err := gen.Open(d, "/w", "srv-setup", filesystem.Options{})
	if err != nil {
		return nil, err
	}
	defer env.Storage.Close()
	repo := env.Repo
	wt, err := repo.Worktree()
	if err != nil {
		return nil, err
	}
	m := b.Model
	chain := mainline(m)
	if len(chain) == 0 {
		return nil, errors.New("no mainline")
	}
	back := r.Back
	if back < 1 {
		back = 1
	}
	if back > len(chain)-1 {
		back = len(chain) - 1
	}
	n := r.N
	if n < 1 {
		n = 1
	}
	if n > 3 {
		n = 3
	}
	master := plumbing.ReferenceName("refs/heads/master")
	addCommits := func() error {
		for i := 0; i < n; i++ {
			path := "a.txt"
			if len(r.Touch) > 0 {
				path = porc.Paths[mod(r.Touch[i%len(r.Touch)], len(porc.Paths))]
			}
			abs := "/w/" + path
			switch d.Lookup(abs) {
			case "dir":
				path, abs = "a.txt", "/w/a.txt"
				if d.Lookup(abs) != "file" {
					d.RemoveAllDirect(abs)
				}
			case "link":
				d.RemoveAllDirect(abs)
			}
			mode := 0o644
			if path == "e.sh" {
				mode = 0o755
			}
			if err := d.WriteFile(abs, []byte(fmt.Sprintf("remote %d of %s (%s)\n", i, path, r.Shape)), iofs.FileMode(mode)); err != nil {
				return err
			}
			if _, err := wt.Add(path); err != nil {
				return err
			}
			if _, err := wt.Commit(fmt.Sprintf("remote commit %d", i), &git.CommitOptions{Author: gen.Sig(300 + i), Committer: gen.Sig(300 + i), AllowEmptyCommits: true}); err != nil {
				return err
			}
		}
		return nil
	}
	switch normShape(r.Shape) {
	case "ahead":
		if err := addCommits(); err != nil {
			return nil, err
		}
	case "behind":
		if back >= 1 && back < len(chain) {
			if err := repo.Storer.SetReference(plumbing.NewHashReference(master, m.Commits[chain[back]].Hash)); err != nil {
				return nil, err
			}
		}
	case "diverged":
		if back >= 1 && back < len(chain) {
			if err := wt.Reset(&git.ResetOptions{Mode: git.HardReset, Commit: m.Commits[chain[back]].Hash}); err != nil {
				return nil, err
			}
		}
		if err := addCommits(); err != nil {
			return nil, err
		}
	case "unrelated":
		tip, err := repo.CommitObject(m.Commits[chain[0]].Hash)
		if err != nil {
			return nil, err
		}
		c := &object.Commit{Author: *gen.Sig(400), Committer: *gen.Sig(400), Message: "unrelated root\n", TreeHash: tip.TreeHash}
		o := repo.Storer.NewEncodedObject()
		if err := c.Encode(o); err != nil {
			return nil, err
		}
		h, err := repo.Storer.SetEncodedObject(o)
		if err != nil {
			return nil, err
		}
		if err := repo.Storer.SetReference(plumbing.NewHashReference(master, h)); err != nil {
			return nil, err
		}
	case "nobranch":
		if err := repo.Storer.RemoveReference(master); err != nil {
			return nil, err
		}
	}
	// no tags on the server, ever; and with a wildcard refspec no second
	// branch: go-git's fetch walks its ref maps in Go map order (getWants,
	// updateLocalReferenceStorage, buildFetchedTags), which would make the
	// order of the client's disk operations differ from run to run.
	names := make([]string, 0, len(m.Refs))
	for k := range m.Refs {
		names = append(names, k)
	}
	sort.Strings(names)
	for _, k := range names {
		if k == string(master) {
			continue
		}
		if strings.HasPrefix(k, "refs/tags/") || r.Wildcard {
			if err := repo.Storer.RemoveReference(plumbing.ReferenceName(k)); err != nil {
				return nil, err
			}
		}
	}
	if r.PackRefs {
		if err := env.Storage.PackRefs(); err != nil {
			return nil, err
		}
	}
	return d, nil
}

// srvStore lets the harness see when a server command has ended (simnet
// closes the storer it was given when the command returns).
type srvStore struct {
	*filesystem.Storage
	closed *int
}

func (s srvStore) Close() error {
	*s.closed++
	return s.Storage.Close()
}

// ext is the per-run state of the steps implemented here.
type ext struct {
	p        *Plan
	srv      *simfs.Disk // nil: no remote repository
	inBubble bool
	out      *core.Outcome
	nPull    int
	// of the last pull step
	s2c, c2s   int64
	cutFired   bool
	srvErr     string
	leftOpen   bool
	dirtyTouch bool
	dirtyOther bool
	gotPack    bool
	damaged    bool // a corrupt step has removed a loose object
}

func countPacks(d *simfs.Disk) int {
	n := 0
	for _, e := range d.List("/w/.git/objects/pack") {
		if strings.HasSuffix(e.Path, ".pack") && !strings.Contains(e.Path, "tmp_pack_") {
			n++
		}
	}
	return n
}

func trace(w *porc.World, format string, args ...any) {
	if len(w.Trace) < 600 {
		w.Trace = append(w.Trace, fmt.Sprintf(format, args...))
	}
}

// setupRemote gives the local repository its `origin`.
func (x *ext) setupRemote(w *porc.World) error {
	r := x.p.Remote
	spec := config.RefSpec("+refs/heads/master:refs/remotes/origin/master")
	if r.Wildcard {
		spec = "+refs/heads/*:refs/remotes/origin/*"
	}
	if _, err := w.Env.Repo.CreateRemote(&config.RemoteConfig{Name: "origin", URLs: []string{remoteURL}, Fetch: []config.RefSpec{spec}}); err != nil {
		return err
	}
	if k := mod(r.Proto, 4); k > 0 {
		cfg, err := w.Env.Repo.Config()
		if err != nil {
			return err
		}
		cfg.Protocol.Version = []protocol.Version{protocol.V0, protocol.V1, protocol.V2}[k-1]
		if err := w.Env.Repo.SetConfig(cfg); err != nil {
			return err
		}
	}
	if r.Tracking {
		tip := w.Model.Commits[w.Model.HeadIdx].Hash
		if err := w.Disk.WriteFile("/w/.git/refs/remotes/origin/master", []byte(tip.String()+"\n"), 0o644); err != nil {
			return err
		}
	}
	return nil
}

func pullForm(s porc.Step) string {
	return []string{"head", "head", "branch", "side", "old", "ref-missing", "remote-missing", "url-missing"}[mod(s.A, 8)]
}

func pullDepth(s porc.Step) int {
	switch mod(s.B, 6) {
	case 3:
		return 1
	case 4:
		return 2
	}
	return 0
}

// dirtyPaths lists tracked regular files whose worktree content differs from
// the index entry (or that are gone), reading the image directly.
func dirtyPaths(d *simfs.Disk) []string {
	idx, ok := porc.DecodeIndexOnDisk(d)
	if !ok || idx == nil {
		return nil
	}
	var out []string
	for _, e := range idx.Entries {
		b, exists := d.ReadFile("/w/" + e.Name)
		if d.Lookup("/w/"+e.Name) == "link" {
			continue
		}
		if !exists {
			out = append(out, e.Name)
			continue
		}
		h := sha1.New()
		fmt.Fprintf(h, "blob %d\x00", len(b))
		h.Write(b)
		if fmt.Sprintf("%x", h.Sum(nil)) != e.Hash.String() {
			out = append(out, e.Name)
		}
	}
	return out
}

func (x *ext) pull(w *porc.World, i int, s porc.Step) error {
	wt, err := w.Env.Repo.Worktree()
	if err != nil {
		return err
	}
	x.s2c, x.c2s, x.cutFired, x.srvErr, x.leftOpen, x.dirtyTouch, x.dirtyOther = 0, 0, false, "", false, false, false
	if r := x.p.Remote; r != nil {
		touched := map[string]bool{}
		for _, t := range r.Touch {
			touched[porc.Paths[mod(t, len(porc.Paths))]] = true
		}
		for _, p := range dirtyPaths(w.Disk) {
			if touched[p] {
				x.dirtyTouch = true
			} else {
				x.dirtyOther = true
			}
		}
	}
	cc := simnet.ConnCfg{}
	if len(x.p.Net) > 0 {
		cc = x.p.Net[x.nPull%len(x.p.Net)]
	}
	x.nPull++
	// capacity limits are not explored here (a bounded stream can make both
	// ends wait on each other; C36 explores that): only segmentation and cuts
	cc.C2S.Cap, cc.S2C.Cap = 0, 0
	cc.C2S.CutAt, cc.S2C.CutAt = 0, 0
	if c := x.p.Cut; c != nil && c.Step == i && c.At > 0 {
		if c.Dir == "c2s" {
			cc.C2S.CutAt, cc.C2S.CutKind = c.At, c.Kind
		} else {
			cc.S2C.CutAt, cc.S2C.CutKind = c.At, c.Kind
		}
	}
	opened, closed := 0, 0
	srv := x.srv
	packsBefore := countPacks(w.Disk)
	tr := &simnet.Transport{Conns: []simnet.ConnCfg{cc}, Open: func(path string) (storage.Storer, error) {
		if srv == nil || srv.Lookup(path+"/HEAD") != "file" {
			return nil, transport.ErrRepositoryNotFound
		}
		opened++
		return srvStore{filesystem.NewStorage(srv.FS(path, "server"), cache.NewObjectLRUDefault()), &closed}, nil
	}}
	o := &git.PullOptions{ClientOptions: []client.Option{client.WithTransport("sim", tr)}, Force: s.F, Depth: pullDepth(s), SingleBranch: mod(s.B, 6) == 5}
	switch pullForm(s) {
	case "branch":
		o.ReferenceName = "refs/heads/master"
	case "side":
		o.ReferenceName = "refs/heads/side"
	case "old":
		o.ReferenceName = "refs/heads/old"
	case "ref-missing":
		o.ReferenceName = "refs/heads/gone"
	case "remote-missing":
		o.RemoteName = "nope"
	case "url-missing":
		o.RemoteURL = "sim://server/nowhere.git"
	}
	err = wt.Pull(o)
	// The server command runs in a goroutine on the other disk. go-git closes
	// the session on every path out of fetch, which ends both streams and
	// lets the command return; make sure of it, and end it if not.
	if x.inBubble {
		synctest.Wait()
	}
	if !x.inBubble || opened != closed {
		x.leftOpen = x.inBubble && opened != closed
		for _, st := range tr.Streams {
			st.CloseWrite(io.ErrClosedPipe)
			st.CloseRead()
		}
	}
	tr.Wait()
	for k, st := range tr.Streams {
		if k%2 == 0 {
			x.c2s += st.St.Bytes
		} else {
			x.s2c += st.St.Bytes
		}
		if st.St.Cut {
			x.cutFired = true
		}
	}
	for _, e := range tr.ServerErrors() {
		if e != nil {
			x.srvErr = errKind(e)
		}
	}
	x.gotPack = countPacks(w.Disk) > packsBefore
	// How far the two ends got before a failing client hung up depends on how
	// the goroutines were interleaved (the server goes on writing until its
	// stream is closed): byte counts and the server's error belong in the
	// event log only when the call succeeded or was refused after the
	// exchange had ended. On failures they are not logged at all.
	if err == nil {
		trace(w, "pull %s depth=%d force=%v single=%v: ok (c2s=%d s2c=%d pack=%v)", pullForm(s), o.Depth, o.Force, o.SingleBranch, x.c2s, x.s2c, x.gotPack)
	} else {
		kind := pullErrKind(err)
		if x.cutFired {
			// A cut that falls on the last byte of a message leaves the
			// server failed and the client served: whether the client's next
			// write already finds the connection closed or its next read
			// does is decided by the interleaving; only THAT it fails is not.
			kind = "failed-after-cut"
		}
		trace(w, "pull %s depth=%d force=%v single=%v: %s (cut=%v pack=%v)", pullForm(s), o.Depth, o.Force, o.SingleBranch, kind, x.cutFired, x.gotPack)
	}
	return err
}

func mergeForm(s porc.Step) string {
	f := []string{"branch", "missing", "ghost", "commit", "commit"}[mod(s.A, 5)]
	if mod(s.B, 4) == 3 {
		f += "+badstrategy"
	}
	return f
}

func checkoutxForm(s porc.Step) string {
	return []string{"branch+hash", "create-nobranch", "hash-missing", "create-hash-missing", "sparse-missing", "create-badname"}[mod(s.A, 6)]
}

func resetxForm(s porc.Step) string {
	return []string{"soft", "mixed", "hard", "merge", "keep"}[mod(s.B, 5)] + "+" + []string{"commit-missing", "sparse-missing", "sparse"}[mod(s.A, 3)]
}

func addxForm(s porc.Step) string {
	return []string{"outside", "absolute", "path+glob", "glob-nomatch"}[mod(s.A, 4)]
}

func commitxForm(s porc.Step) string {
	return []string{"noauthor", "all+amend", "amend+parents", "amend"}[mod(s.A, 4)]
}

// do performs one step: the kinds of this package here, the rest in porc.
func (x *ext) do(w *porc.World, i int, s porc.Step) (err error, user bool) {
	repo := w.Env.Repo
	commitAt := func(k int) plumbing.Hash {
		if len(w.Commits) == 0 {
			return plumbing.ZeroHash
		}
		return w.Commits[mod(k, len(w.Commits))].Hash
	}
	switch s.Kind {
	case "pull":
		return x.pull(w, i, s), false
	case "mergex":
		strategy := git.FastForwardMerge
		if mod(s.B, 4) == 3 {
			strategy = git.MergeStrategy(7)
		}
		var ref *plumbing.Reference
		switch mod(s.A, 5) {
		case 0:
			ref, err = repo.Reference(plumbing.ReferenceName(porc.Branches[mod(s.B/4, 3)]), true)
		case 1:
			ref, err = repo.Reference("refs/heads/missing", true)
		case 2:
			ref = plumbing.NewHashReference("refs/heads/ghost", plumbing.NewHash(ghostHash))
		default:
			ref = plumbing.NewHashReference("refs/heads/picked", commitAt(s.B/4))
		}
		if err == nil {
			err = repo.Merge(*ref, git.MergeOptions{Strategy: strategy})
		}
		trace(w, "mergex %s a=%d b=%d: %s", mergeForm(s), s.A, s.B, errKind(err))
		return err, false
	case "checkoutx":
		wt, werr := repo.Worktree()
		if werr != nil {
			return werr, false
		}
		o := &git.CheckoutOptions{Force: s.F}
		switch mod(s.A, 6) {
		case 0:
			o.Branch, o.Hash = plumbing.ReferenceName(porc.Branches[mod(s.B, 3)]), commitAt(s.B)
		case 1:
			o.Create, o.Hash = true, commitAt(s.B)
		case 2:
			o.Hash = plumbing.NewHash(ghostHash)
		case 3:
			o.Create, o.Branch, o.Hash = true, plumbing.ReferenceName(porc.Branches[3+mod(s.B, 2)]), plumbing.NewHash(ghostHash2)
		case 4:
			o.Branch, o.SparseCheckoutDirectories = plumbing.ReferenceName(porc.Branches[mod(s.B, 3)]), []string{"no/such/dir"}
		case 5:
			o.Create, o.Branch, o.Hash = true, "refs/heads/bad..name", commitAt(s.B)
		}
		err = wt.Checkout(o)
		trace(w, "checkoutx %s b=%d: %s", checkoutxForm(s), s.B, errKind(err))
		return err, false
	case "resetx":
		wt, werr := repo.Worktree()
		if werr != nil {
			return werr, false
		}
		o := &git.ResetOptions{Mode: []git.ResetMode{git.SoftReset, git.MixedReset, git.HardReset, git.MergeReset, git.KeepReset}[mod(s.B, 5)], Commit: commitAt(s.B / 5)}
		switch mod(s.A, 3) {
		case 0:
			o.Commit = plumbing.NewHash(ghostHash)
		case 1:
			o.SparseDirs = []string{"no/such/dir"}
		case 2:
			o.SparseDirs = []string{"dir"}
		}
		err = wt.Reset(o)
		trace(w, "resetx %s b=%d: %s", resetxForm(s), s.B, errKind(err))
		return err, false
	case "addx":
		wt, werr := repo.Worktree()
		if werr != nil {
			return werr, false
		}
		switch mod(s.A, 4) {
		case 0:
			_, err = wt.Add("../outside.txt")
		case 1:
			_, err = wt.Add("/elsewhere/abs.txt")
		case 2:
			err = wt.AddWithOptions(&git.AddOptions{Path: porc.Paths[mod(s.B, len(porc.Paths))], Glob: "*.txt"})
		case 3:
			err = wt.AddWithOptions(&git.AddOptions{Glob: "nomatch-*.zzz"})
		}
		trace(w, "addx %s: %s", addxForm(s), errKind(err))
		return err, false
	case "commitx":
		wt, werr := repo.Worktree()
		if werr != nil {
			return werr, false
		}
		w.NCommit++
		sig := gen.Sig(200 + w.NCommit)
		o := &git.CommitOptions{Author: sig, Committer: sig}
		switch mod(s.A, 4) {
		case 0:
			o.Author, o.Committer = nil, nil
		case 1:
			o.All, o.Amend = true, true
		case 2:
			o.Amend, o.Parents = true, []plumbing.Hash{commitAt(s.B)}
		case 3:
			o.Amend = true
		}
		var h plumbing.Hash
		h, err = wt.Commit(fmt.Sprintf("history commit %d", w.NCommit), o)
		if err == nil {
			w.Commits = append(w.Commits, gen.Commit{Hash: h})
		}
		trace(w, "commitx %s: %s", commitxForm(s), errKind(err))
		return err, false
	case "orphan":
		// `git checkout --orphan` / `git symbolic-ref HEAD`: HEAD names a branch that does not exist yet
		_ = w.Disk.WriteFile("/w/.git/HEAD", []byte("ref: refs/heads/unborn\n"), 0o644)
		trace(w, "orphan")
		x.reopen(w)
		return nil, true
	case "corrupt":
		x.corrupt(w, s)
		return nil, true
	}
	return w.Do(s)
}

// reopen replaces the repository handle by a fresh one on the same disk (a
// new process): nothing cached by the old Storage survives.
func (x *ext) reopen(w *porc.World) {
	_ = w.Env.Storage.Close()
	env, err := gen.Open(w.Disk, "/w", "op", filesystem.Options{})
	if err != nil {
		trace(w, "reopen failed: %s", errKind(err))
		return
	}
	w.Env = env
}

// corrupt removes one loose object (the commit, its root tree, or a blob of
// its tree) of a known commit straight from the disk image and reopens the
// repository: the "missing objects" states of the quantifier.
func (x *ext) corrupt(w *porc.World, s porc.Step) {
	if len(w.Commits) == 0 {
		return
	}
	kind := []string{"blob", "tree", "commit", "blob"}[mod(s.A, 4)]
	ch := w.Commits[mod(s.B, len(w.Commits))].Hash
	target := ch
	if kind != "commit" {
		c, err := w.Env.Repo.CommitObject(ch)
		if err != nil {
			trace(w, "corrupt %s: commit unreadable", kind)
			return
		}
		target = c.TreeHash
		if kind == "blob" {
			t, err := c.Tree()
			if err != nil {
				trace(w, "corrupt blob: tree unreadable")
				return
			}
			var blobs []plumbing.Hash
			_ = t.Files().ForEach(func(f *object.File) error {
				blobs = append(blobs, f.Hash)
				return nil
			})
			if len(blobs) == 0 {
				trace(w, "corrupt blob: empty tree")
				return
			}
			target = blobs[mod(s.A/4, len(blobs))]
		}
	}
	hs := target.String()
	p := "/w/.git/objects/" + hs[:2] + "/" + hs[2:]
	if w.Disk.Lookup(p) != "file" {
		trace(w, "corrupt %s of commit #%d: not loose, skipped", kind, mod(s.B, len(w.Commits)))
		x.out.Probe("corrupt-skipped-packed")
		return
	}
	w.Disk.RemoveAllDirect(p)
	trace(w, "corrupt %s of commit #%d: loose object removed", kind, mod(s.B, len(w.Commits)))
	x.out.Probe("corrupt:" + kind)
	x.damaged = true
	x.reopen(w)
}

// errKind names an error for event logs and signatures. Errors the steps of
// sim/porc can produce keep porc's names (signatures recorded so far do not
// change); the sentinels only the kinds of this package reach get names of
// their own instead of porc's 40-character prefix of the message.
func errKind(err error) string {
	switch {
	case err == nil:
		return "ok"
	case simfs.IsInjected(err):
		return "injected"
	case errors.Is(err, git.NoErrAlreadyUpToDate):
		return "already-up-to-date"
	case errors.Is(err, git.ErrRemoteRefNotFound):
		return "remote-ref-not-found"
	case errors.Is(err, git.ErrRemoteNotFound):
		return "remote-not-found"
	case errors.Is(err, git.ErrForceNeeded):
		return "force-needed"
	case errors.Is(err, git.ErrUnsupportedMergeStrategy):
		return "unsupported-merge-strategy"
	case errors.Is(err, git.ErrSparseResetDirectoryNotFound):
		return "sparse-dir-not-found"
	case errors.Is(err, git.ErrMissingAuthor):
		return "missing-author"
	case errors.Is(err, git.ErrBranchHashExclusive), errors.Is(err, git.ErrCreateRequiresBranch):
		return "invalid-options"
	case errors.Is(err, transport.ErrRepositoryNotFound):
		return "repository-not-found"
	case errors.Is(err, transport.ErrEmptyRemoteRepository):
		return "remote-empty"
	}
	return porc.ErrKind(err)
}

// pullErrKind is errKind for the error of a pull (which alone can fail on the
// network).
func pullErrKind(err error) string {
	if err != nil && !simfs.IsInjected(err) && simnet.IsNetFault(err) {
		return "net"
	}
	return errKind(err)
}

// refusalClass is the cause of a logical refusal as the property's
// quantifier names them (probe names `refused:<op>:<class>`).
func refusalClass(err error) string {
	s := err.Error()
	switch {
	case errors.Is(err, git.ErrUnstagedChanges):
		return "unstaged-changes"
	case errors.Is(err, git.ErrLocalChanges):
		return "local-changes"
	case errors.Is(err, git.ErrNonFastForwardUpdate), errors.Is(err, git.ErrFastForwardMergeNotPossible):
		return "non-ff"
	case errors.Is(err, git.ErrRemoteRefNotFound):
		return "remote-ref-missing"
	case errors.Is(err, git.ErrRemoteNotFound):
		return "remote-missing"
	case errors.Is(err, transport.ErrRepositoryNotFound):
		return "remote-repository-missing"
	case errors.Is(err, transport.ErrEmptyRemoteRepository):
		return "remote-empty"
	case errors.Is(err, git.ErrForceNeeded):
		return "force-needed"
	case errors.Is(err, git.ErrUnsupportedMergeStrategy):
		return "unsupported-strategy"
	case errors.Is(err, git.ErrSparseResetDirectoryNotFound):
		return "sparse-dir-missing"
	case errors.Is(err, git.ErrMissingAuthor):
		return "missing-author"
	case errors.Is(err, git.ErrEmptyCommit):
		return "empty-commit"
	case errors.Is(err, git.ErrBranchHashExclusive), errors.Is(err, git.ErrCreateRequiresBranch), errors.Is(err, git.ErrNoRestorePaths),
		errors.Is(err, git.ErrRestoreWorktreeOnlyNotSupported), strings.Contains(s, "mutual exclusive"), strings.Contains(s, "cannot be used"):
		return "invalid-options"
	case errors.Is(err, git.ErrGlobNoMatches):
		return "glob-no-match"
	case errors.Is(err, index.ErrEntryNotFound):
		return "path-missing"
	case errors.Is(err, git.ErrDestinationExists):
		return "destination-exists"
	case errors.Is(err, plumbing.ErrReferenceNotFound):
		return "ref-missing"
	case errors.Is(err, plumbing.ErrObjectNotFound):
		return "object-missing"
	case strings.Contains(s, "already exists"):
		return "branch-exists"
	case strings.Contains(s, "is outside the worktree"), strings.Contains(s, "invalid path"):
		return "path-outside"
	case strings.Contains(s, "invalid reference name"), strings.Contains(s, "invalid"):
		return "invalid-options"
	case errors.Is(err, iofs.ErrNotExist), strings.Contains(s, "file not found"), strings.Contains(s, "no such file"):
		return "file-missing"
	}
	return "other:" + errKind(err)
}

// opOf is the porcelain operation a step kind belongs to.
func opOf(kind string) string {
	switch kind {
	case "mergex":
		return "merge"
	case "checkoutx":
		return "checkout"
	case "resetx":
		return "reset"
	case "addx", "addall":
		return "add"
	case "commitx":
		return "commit"
	}
	return kind
}

// judgedPath: does a mutation of this path touch what the statement lists
// (HEAD, branches, index, worktree files)?
func judgedPath(p string) bool {
	rel := strings.TrimPrefix(p, "/w/")
	switch {
	case !strings.HasPrefix(rel, ".git/") && rel != ".git":
		return true
	case rel == ".git/HEAD", rel == ".git/index", rel == ".git/packed-refs", strings.HasPrefix(rel, ".git/refs/heads/"):
		return true
	}
	return false
}

// pullFaultPhase is faultPhase for a pull: "pre" when the injected fault came
// before the call's first mutation of judged state (the whole fetch phase —
// pack, remote-tracking refs, FETCH_HEAD, shallow — mutates only what the
// statement does not list), "mid" when it landed on or after one.
func pullFaultPhase(d *simfs.Disk) string {
	for _, op := range d.Log {
		if op.Injected {
			if op.Mutating && (judgedPath(op.Path) || (op.Path2 != "" && judgedPath(op.Path2))) {
				return "mid"
			}
			return "pre"
		}
		if op.Mutating && op.Err == "" && (judgedPath(op.Path) || (op.Path2 != "" && judgedPath(op.Path2))) {
			return "mid"
		}
	}
	return "mid"
}

// judged restricts a snapshot to what a pull is judged on: refs/heads/* only
// (remote-tracking refs and fetched tags are the fetch half's business).
func judged(s porc.Snapshot, kind string) porc.Snapshot {
	if kind != "pull" {
		return s
	}
	refs := map[string]string{}
	for k, v := range s.Refs {
		if strings.HasPrefix(k, "refs/heads/") {
			refs[k] = v
		}
	}
	s.Refs = refs
	return s
}
