//go:build verif

package c29

import (
	"encoding/json"
	"fmt"
	"os"
	"strconv"
	"strings"
	"testing"

	"github.com/go-git/go-git/v6/verifsim/core"
	"github.com/go-git/go-git/v6/verifsim/simfs"
)

// localOps runs a plan and returns, step by step, every operation the LOCAL
// disk saw, leaving out the reads and seeks of the incoming pack (the pack
// writer's indexer goroutine; never a fault point, see candidates).
func localOps(t *testing.T, p *Plan) (ops []string, o core.Outcome) {
	recordAll = true
	defer func() { recordAll = false }()
	o = run(t, p, func(i int, user bool, d *simfs.Disk, x *ext) {
		if user {
			return
		}
		for _, op := range d.Log {
			if (op.Class == simfs.OpRead || op.Class == simfs.OpSeek) && strings.Contains(op.Path, "tmp_pack_") {
				continue
			}
			m := "-"
			if op.Mutating {
				m = "M"
			}
			if op.Injected {
				m = "X"
			}
			ops = append(ops, fmt.Sprintf("%d %s %s %s %s [%s] %s", i, m, op.Class, op.Path, op.Path2, op.Detail, op.Err))
		}
		ops = append(ops, fmt.Sprintf("%d net cut=%v pack=%v", i, x.cutFired, x.gotPack))
	})
	return ops, o
}

// TestOpDeterminism: the local disk's operation sequence of every step —
// not only the mutations: fault ordinals count opens, stats and reads too —
// must be a pure function of the plan although a pull runs the server command
// in a goroutine (on another disk) and the pack writer indexes the incoming
// pack in a third. Plans with a pull are run C29_DET_REPS times fault-free,
// their expansion is computed twice, and one disk-fault variant from the
// fetch phase, one from the checkout phase and one cut of the connection are
// repeated as well (the server is then still sending when the client gives
// up).
func TestOpDeterminism(t *testing.T) {
	reps, plans := 4, 40
	if v, err := strconv.Atoi(os.Getenv("C29_DET_REPS")); err == nil && v > 0 {
		reps = v
	}
	if v, err := strconv.Atoi(os.Getenv("C29_DET_PLANS")); err == nil && v > 0 {
		plans = v
	}
	bad, done, variants, packs := 0, 0, 0, 0
	for s := uint64(0); done < plans && s < 100000; s++ {
		p := genPlan(core.NewRand(core.Mix(4242, s)), "quick").(*Plan)
		if !hasPull(p) {
			continue
		}
		done++
		runs := []*Plan{p}
		e1, e2 := expand(t, p, "quick"), expand(t, p, "quick")
		j1, _ := json.Marshal(e1)
		j2, _ := json.Marshal(e2)
		if string(j1) != string(j2) {
			bad++
			fmt.Println("EXPANSION DIFFERS for plan", s)
		}
		// first and last disk fault of the last pull step, and the first cut
		var first, last, cut *Plan
		for _, e := range e1[1:] {
			q := e.(*Plan)
			if q.Cut != nil && cut == nil {
				cut = q
			}
			if q.Fault != nil && q.FaultStep < len(q.Steps) && q.Steps[q.FaultStep].Kind == "pull" {
				if first == nil {
					first = q
				}
				last = q
			}
		}
		for _, q := range []*Plan{first, last, cut} {
			if q != nil {
				runs = append(runs, q)
				variants++
			}
		}
		for _, q := range runs {
			var ref []string
			var refO core.Outcome
			for i := 0; i < reps; i++ {
				c := *q
				ops, o := localOps(t, &c)
				if i == 0 {
					ref, refO = ops, o
					if q == p && o.Probes["pull-received-pack"] > 0 {
						packs++
					}
					continue
				}
				same := len(ops) == len(ref) && o.LogHash == refO.LogHash && o.StateHash == refO.StateHash && o.Signature == refO.Signature
				for k := 0; same && k < len(ops); k++ {
					same = ops[k] == ref[k]
				}
				if !same {
					bad++
					js, _ := json.Marshal(q)
					fmt.Println("DIFF plan", s, string(js), "\n A:", refO.LogHash, refO.StateHash, refO.Signature, len(ref), "\n B:", o.LogHash, o.StateHash, o.Signature, len(ops))
					for k := 0; k < len(ops) && k < len(ref); k++ {
						if ops[k] != ref[k] {
							fmt.Println("  first difference at", k, "\n   A:", ref[k], "\n   B:", ops[k])
							break
						}
					}
					break
				}
			}
		}
	}
	fmt.Printf("op determinism: %d pull plans (+%d fault/cut variants) x %d repetitions, %d received a pack, divergent: %d\n", done, variants, reps, packs, bad)
	if bad > 0 {
		t.Fatalf("%d plans whose local operation sequence is not a function of the plan", bad)
	}
}
