//go:build verif

// C22 — garbage collection never deletes reachable or staged objects.
//
// A generated repository is driven through a short porcelain history that
// creates staged-only content (add without commit, soft/mixed resets that
// leave committed blobs referenced only by the index, detached HEAD, branch
// deletion), optionally repacked in between so that such objects live in
// packs, with the simulated clock advancing so that loose objects and packs
// have different ages. Then Prune (with/without age limit) or RepackObjects
// (ofs/ref deltas, with/without OnlyDeletePacksOlderThan) runs. The protected
// set — closure of every reference and HEAD, plus every blob the index
// names — is computed before the GC and must be readable, byte for byte,
// afterwards, both through the same Storage and through a fresh one.
package c22

import (
	"bytes"
	"fmt"
	"io"
	"sort"
	"strings"
	"testing"
	"time"

	git "github.com/go-git/go-git/v6"
	"github.com/go-git/go-git/v6/plumbing"
	"github.com/go-git/go-git/v6/plumbing/object"
	"github.com/go-git/go-git/v6/plumbing/storer"
	"github.com/go-git/go-git/v6/storage"
	"github.com/go-git/go-git/v6/storage/filesystem"
	"github.com/go-git/go-git/v6/verifsim/core"
	"github.com/go-git/go-git/v6/verifsim/gen"
	"github.com/go-git/go-git/v6/verifsim/hooks"
	"github.com/go-git/go-git/v6/verifsim/porc"
	"github.com/go-git/go-git/v6/verifsim/simfs"
)

type GC struct {
	Kind     string `json:"kind"` // prune | repack
	RefDelta bool   `json:"ref_delta"`
	AgeSec   int    `json:"age_sec"` // 0 = no age limit; otherwise limit = now - AgeSec
}

type Plan struct {
	RepoSeed uint64      `json:"repo_seed"`
	Repack   bool        `json:"repack"`
	Steps    []porc.Step `json:"steps"`
	GCs      []GC        `json:"gcs"`
	// Promisor marks every pack present before the GC as a promisor pack (the
	// repository then counts as a partial clone and the walk tolerates absent blobs).
	Promisor bool `json:"promisor"`
	// Fault, when set, is one transient I/O error during the first GC. The GC
	// may then fail; it still must not delete anything protected.
	Fault *simfs.Fault `json:"fault,omitempty"`
}

var weights = map[string]int{"edit": 6, "add": 7, "commit": 3, "reset": 5, "checkout": 3, "tick": 3, "rm": 1, "gcrepack": 2, "delbranch": 2, "restore": 1}

func genPlan(r *core.Rand, tier string) any {
	p := &Plan{RepoSeed: r.Uint64() % 48, Repack: r.Bool()}
	if tier == "thorough" {
		p.RepoSeed = r.Uint64() % 2048
	}
	p.Steps = porc.GenSteps(r, r.Range(2, 9), weights)
	// make staged-only content likely: an add usually names the path that was
	// edited last, and histories often end with edit+add (nothing committed)
	lastEdit := -1
	for i := range p.Steps {
		switch p.Steps[i].Kind {
		case "edit":
			lastEdit = p.Steps[i].A
		case "add":
			if lastEdit >= 0 && r.Chance(2, 3) {
				p.Steps[i].A = lastEdit
			}
		}
	}
	if r.Chance(1, 2) {
		a := r.Intn(40)
		p.Steps = append(p.Steps, porc.Step{Kind: "edit", A: a, B: r.Intn(40)}, porc.Step{Kind: "add", A: a})
		if r.Chance(1, 3) {
			p.Steps = append(p.Steps, porc.Step{Kind: "gcrepack"}, porc.Step{Kind: "reset", A: 0, B: r.Intn(40)})
		}
	}
	n := r.Range(1, 2)
	for i := 0; i < n; i++ {
		g := GC{Kind: r.Pick("prune", "repack"), RefDelta: r.Bool()}
		if r.Chance(1, 3) {
			g.AgeSec = r.Pick2(1, 30, 3600)
		}
		p.GCs = append(p.GCs, g)
	}
	p.Promisor = r.Chance(1, 4)
	if r.Chance(1, 4) {
		cls := []simfs.OpClass{simfs.OpOpen, simfs.OpOpen, simfs.OpRead, simfs.OpRead, simfs.OpStat, simfs.OpReadDir, simfs.OpCreate, simfs.OpWrite, simfs.OpRename, simfs.OpRemove, simfs.OpClose}
		p.Fault = &simfs.Fault{Class: cls[r.Intn(len(cls))], Nth: r.Range(1, 40), PathSub: "objects", Errno: r.Pick("EIO", "EMFILE", "EACCES", "ENOSPC")}
	}
	return p
}

type protected struct {
	typ  plumbing.ObjectType
	data []byte
	why  string // ref | head | index
}

// protectedSet computes the closure of refs and HEAD plus index blobs, reading
// through st. Objects that are already missing before the GC are skipped
// (they are not this property's concern).
func protectedSet(st storage.Storer) (map[plumbing.Hash]*protected, error) {
	out := map[plumbing.Hash]*protected{}
	var walk func(h plumbing.Hash, why string) error
	walk = func(h plumbing.Hash, why string) error {
		if _, ok := out[h]; ok {
			return nil
		}
		eo, err := st.EncodedObject(plumbing.AnyObject, h)
		if err != nil {
			return nil // not present before: nothing to protect
		}
		rd, err := eo.Reader()
		if err != nil {
			return err
		}
		b, err := io.ReadAll(rd)
		rd.Close()
		if err != nil {
			return err
		}
		out[h] = &protected{typ: eo.Type(), data: b, why: why}
		switch eo.Type() {
		case plumbing.CommitObject:
			c, err := object.DecodeCommit(st, eo)
			if err != nil {
				return err
			}
			if err := walk(c.TreeHash, why); err != nil {
				return err
			}
			for _, ph := range c.ParentHashes {
				if err := walk(ph, why); err != nil {
					return err
				}
			}
		case plumbing.TreeObject:
			t, err := object.DecodeTree(st, eo)
			if err != nil {
				return err
			}
			for _, e := range t.Entries {
				if e.Mode.String() == "0160000" {
					continue
				}
				if err := walk(e.Hash, why); err != nil {
					return err
				}
			}
		case plumbing.TagObject:
			tg, err := object.DecodeTag(st, eo)
			if err != nil {
				return err
			}
			return walk(tg.Target, why)
		}
		return nil
	}
	it, err := st.IterReferences()
	if err != nil {
		return nil, err
	}
	var refs []*plumbing.Reference
	if err := it.ForEach(func(r *plumbing.Reference) error { refs = append(refs, r); return nil }); err != nil {
		return nil, err
	}
	sort.Slice(refs, func(i, j int) bool { return refs[i].Name() < refs[j].Name() })
	for _, r := range refs {
		if r.Type() != plumbing.HashReference {
			continue
		}
		why := "ref"
		if r.Name() == plumbing.HEAD {
			why = "head"
		}
		if err := walk(r.Hash(), why); err != nil {
			return nil, err
		}
	}
	idx, err := st.Index()
	if err != nil {
		return nil, err
	}
	for _, e := range idx.Entries {
		if err := walk(e.Hash, "index"); err != nil {
			return nil, err
		}
	}
	return out, nil
}

func isLoose(w *porc.World, h plumbing.Hash) bool {
	s := h.String()
	return w.Disk.Lookup("/w/.git/objects/"+s[:2]+"/"+s[2:]) == "file"
}

func execPlan(t *testing.T, pa any) (out core.Outcome) {
	p := pa.(*Plan)
	hooks.Deterministic(true)
	b := porc.GetBase(p.RepoSeed, p.Repack, false)
	if b.Err != nil {
		out.Inconclusive = "setup-failed"
		return out
	}
	w, err := porc.Open(b, filesystem.Options{})
	if err != nil {
		out.Inconclusive = "setup-open-failed"
		return out
	}
	d := w.Disk
	d.Tick = time.Second
	var trace []string
	for i, s := range p.Steps {
		if i >= 12 {
			break
		}
		switch s.Kind {
		case "gcrepack":
			// a repack in the middle of the history, so that later resets can leave
			// index-only blobs inside packs (not judged here: judged GCs come last)
			err := w.Env.Repo.RepackObjects(&git.RepackConfig{})
			trace = append(trace, "mid-history repack: "+porc.ErrKind(err))
		case "delbranch":
			name := plumbing.ReferenceName(porc.Branches[1+s.A%2])
			err := w.Env.Repo.Storer.RemoveReference(name)
			trace = append(trace, fmt.Sprintf("delete %s: %s", name, porc.ErrKind(err)))
		case "tick":
			d.Advance(time.Duration(1+s.A%4) * 20 * time.Second)
			trace = append(trace, "tick")
		default:
			w.Do(s)
		}
	}
	for gi, g := range p.GCs {
		if gi >= 3 {
			break
		}
		prot, err := protectedSet(w.Env.Repo.Storer)
		if err != nil {
			out.Inconclusive = "pre-gc-walk-failed"
			out.Message = err.Error()
			break
		}
		keys := make([]plumbing.Hash, 0, len(prot))
		for h := range prot {
			keys = append(keys, h)
		}
		sort.Slice(keys, func(i, j int) bool { return keys[i].String() < keys[j].String() })
		wasLoose := map[plumbing.Hash]bool{}
		nIndexOnly := 0
		for _, h := range keys {
			wasLoose[h] = isLoose(w, h)
			if prot[h].why == "index" {
				nIndexOnly++
				if wasLoose[h] {
					out.Probe("index-only-object-loose")
				} else {
					out.Probe("index-only-object-packed")
				}
			}
		}
		if nIndexOnly > 0 {
			out.NonTrivial = true
		}
		now := d.Now()
		var gerr error
		kind := g.Kind
		if p.Promisor && gi == 0 {
			for _, e := range d.List("/w/.git/objects/pack") {
				if e.Kind == "file" && strings.HasSuffix(e.Path, ".pack") {
					d.WriteFile(strings.TrimSuffix(e.Path, ".pack")+".promisor", nil, 0o644)
					out.Probe("promisor-pack")
				}
			}
		}
		if p.Fault != nil && gi == 0 {
			d.ResetCounters()
			d.SetFaults([]simfs.Fault{*p.Fault})
		}
		switch g.Kind {
		case "repack":
			cfg := &git.RepackConfig{UseRefDeltas: g.RefDelta}
			if g.AgeSec > 0 {
				cfg.OnlyDeletePacksOlderThan = now.Add(-time.Duration(g.AgeSec) * time.Second)
				kind = "repack-aged"
			}
			gerr = w.Env.Repo.RepackObjects(cfg)
		default:
			kind = "prune"
			o := git.PruneOptions{Handler: w.Env.Repo.DeleteObject}
			if g.AgeSec > 0 {
				o.OnlyObjectsOlderThan = now.Add(-time.Duration(g.AgeSec) * time.Second)
				kind = "prune-aged"
			}
			gerr = w.Env.Repo.Prune(o)
		}
		faulted := ""
		if p.Fault != nil && gi == 0 {
			d.SetFaults(nil)
			for k, v := range d.FaultsFired {
				if v > 0 {
					faulted = "|fault:" + string(p.Fault.Class)
					if out.Faults == nil {
						out.Faults = map[string]int{}
					}
					out.Faults[k] += v
				}
			}
			if faulted != "" {
				out.NonTrivial = true
				kind += faulted
			}
		}
		trace = append(trace, fmt.Sprintf("gc %s: %s (protected %d, index-only %d)", kind, porc.ErrKind(gerr), len(prot), nIndexOnly))
		if gerr != nil {
			out.Probe("gc-error:" + porc.ErrKind(gerr))
		} else {
			out.Probe("gc-ok:" + kind)
		}
		// verify through the same storage and through a fresh one
		fresh, ferr := gen.Open(d.Clone(), "/w", "verify", filesystem.Options{})
		if ferr != nil {
			out.Fail("C22|"+kind+"|reopen-failed", "repository does not open after %s: %v", kind, ferr)
			break
		}
		for _, view := range []struct {
			name string
			st   storer.EncodedObjectStorer
		}{{"same-storage", w.Env.Repo.Storer}, {"fresh-storage", fresh.Repo.Storer}} {
			for _, h := range keys {
				pr := prot[h]
				loc := "packed"
				if wasLoose[h] {
					loc = "loose"
				}
				eo, err := view.st.EncodedObject(plumbing.AnyObject, h)
				if err != nil {
					out.Fail(fmt.Sprintf("C22|%s|lost:%s-%s|%s", kind, pr.why, pr.typ, loc), "after %s (returned %s) the %s %s protected by %s (was %s) is gone (%s: %v)", kind, porc.ErrKind(gerr), pr.typ, h, pr.why, loc, view.name, err)
					break
				}
				rd, err := eo.Reader()
				var got []byte
				if err == nil {
					got, err = io.ReadAll(rd)
					rd.Close()
				}
				if err != nil || !bytes.Equal(got, pr.data) || eo.Type() != pr.typ {
					out.Fail(fmt.Sprintf("C22|%s|content-changed:%s-%s|%s", kind, pr.why, pr.typ, loc), "after %s object %s reads back differently (%s, err %v)", kind, h, view.name, err)
					break
				}
			}
			if out.Signature != "" {
				break
			}
		}
		_ = fresh.Storage.Close()
		if out.Signature != "" {
			break
		}
		d.Advance(45 * time.Second)
	}
	out.Trace = append(w.Trace, trace...)
	out.LogHash = core.HashStrings(out.Trace)
	out.StateHash = d.Digest("/w/.git", nil)
	out.Steps = len(p.Steps)
	_ = w.Env.Storage.Close()
	return out
}

func TestCheck(t *testing.T) {
	core.Main(t, core.Check{
		ID:    "C22",
		Level: "exploration",
		Rule: "plan = generated repository (some objects packed, some loose) x history of 2-9 steps (edit, add, commit, reset in 5 modes, checkout incl. detached HEAD, rm, restore, branch deletion, mid-history repack, clock ticks of 20-80 s) x promisor marking x optional single I/O fault (open/read/stat/readdir/create/write/rename/remove/close under objects/, EIO/EMFILE/EACCES/ENOSPC) x 1-2 GC operations (Prune / RepackObjects with ofs or ref deltas, with or without an age limit of 1 s / 30 s / 1 h relative to the simulated clock); " +
			"non-trivial = at GC time at least one object is protected only by the index; distinct = distinct plan JSON",
		Assumptions: []string{"the protected set is computed with go-git's own readers on the pre-GC state (objects already missing then are not this property's concern)",
			"shallow roots are not generated; in a quarter of the plans every pack is marked as a promisor pack (nothing is actually withheld)", "a quarter of the plans inject one transient I/O error into the first GC: the GC may then fail, the protected set must still be readable afterwards (with the fault gone)", "histories containing symlinks make Prune/RepackObjects fail with 'unknown object' (object walker has no blob case for non-regular entries); such GCs delete nothing and are counted as gc-error"},
		Real:           []string{"Repository.Prune", "Repository.RepackObjects", "objectWalker", "dotgit.DeleteOldObjectPackAndIndex", "ObjectStorage.DeleteLooseObject"},
		Stub:           []string{"disk (simfs)", "clock (simfs manual clock; loose-object and pack mtimes)"},
		Runs:           map[string]int{"quick": 12000, "thorough": 400000},
		NewPlan:        func() any { return &Plan{} },
		Gen:            genPlan,
		Exec:           execPlan,
		RequiredProbes: []string{"promisor-pack", "index-only-object-loose", "index-only-object-packed", "gc-ok:prune", "gc-ok:repack", "gc-ok:prune-aged", "gc-ok:repack-aged"},
	})
}
