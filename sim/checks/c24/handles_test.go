//go:build verif

package c24

// Second configuration of C24 (Plan.Handles): the workload is made of
// packhandle.PackHandle values over fake pack/idx/rev files that serve REAL
// bytes (see fixture_test.go), all on one fdpool.Pool.
//
// What a "pack triple" is here. A PackHandle owns ONE pooled SharedFile (the
// .pack). Its Index() builds an idxfile.LazyIndex whose idx/rev SharedFiles are
// NOT registered with the pool (packhandle/index.go calls NewLazyIndex, not
// NewLazyIndexWithPool): they live on the 1 s grace timer whatever the pool is.
// The storage layer does not use PackHandle.Index(); it builds the LazyIndex of
// a pack itself with NewLazyIndexWithPool on the storage-wide pool
// (storage/filesystem/object.go loadLazyIndex). Both wirings are driven:
// Plan.StorageIdx=false -> lookups go through PackHandle.Index();
// Plan.StorageIdx=true  -> lookups go through a LazyIndex built next to the
// handle on the same pool, so that pack, idx and rev of ONE pack compete for
// pool slots (the all-pinned fallback inside one triple).

import (
	"bytes"
	"errors"
	"fmt"
	"io"
	"io/fs"
	"runtime"
	"strconv"
	"strings"
	"sync"
	"testing"
	"time"
	"unsafe"

	"github.com/go-git/go-git/v6/internal/packhandle"
	"github.com/go-git/go-git/v6/internal/sharedfile"
	"github.com/go-git/go-git/v6/internal/simhook"
	"github.com/go-git/go-git/v6/plumbing"
	"github.com/go-git/go-git/v6/plumbing/format/idxfile"
	"github.com/go-git/go-git/v6/verifsim/core"
	"github.com/go-git/go-git/v6/verifsim/hooks"
	"github.com/go-git/go-git/v6/verifsim/sched"
	"github.com/go-git/go-git/v6/verifsim/simfs"
	"github.com/go-git/go-git/v6/x/fdpool"
)

const (
	kPack = 0
	kIdx  = 1
	kRev  = 2
)

var kindName = [...]string{"pack", "idx", "rev"}

var errTransient = errors.New("transient open failure")

// hOwner is whatever Close-able thing owns SharedFiles: a PackHandle (its
// pack file and the idx/rev of the LazyIndex it caches) or a storage-style
// LazyIndex.
type hOwner struct {
	label         string
	trip          *triple
	closeInvoked  bool // Close was invoked (not necessarily returned)
	closeReturned bool
}

// hMember is one opener = one SharedFile value as far as the pool is
// concerned (the handle-internal idx/rev openers can be behind several
// SharedFile values over time, after a failed index load; those are never
// pooled).
type hMember struct {
	owner     *hOwner
	kind      int
	label     string
	content   []byte
	pooled    bool
	pins      int // API-level brackets in progress: the call that acquires was invoked, the call that releases has not returned
	holds     int // cursors / iterators between their open's return and their Close's invocation
	heldSince int // w.seq when holds went 0 -> 1
	last      *hFile
	opens     int
	lastCause string
}

type hFile struct {
	id      int
	m       *hMember
	open    bool
	closes  int
	readers int // ReadAt calls parked on it
	holders int // cursors / iterators known to hold exactly this descriptor
}

type triple struct {
	pos    *hPos
	gen    int
	label  string
	fx     *fixture
	h      *packhandle.PackHandle
	hOwner *hOwner
	pack   *hMember
	idx    *hMember // behind PackHandle.Index()
	rev    *hMember

	// storage-style index (Plan.StorageIdx)
	ext        *idxfile.LazyIndex
	extOwner   *hOwner
	extIdx     *hMember
	extRev     *hMember
	extLoading bool
	extTries   int

	kept         map[string]idxfile.Index // per task: what its last successful PackHandle.Index() returned (lookups only, never iterated)
	closeInvoked bool
	indexLoaded  bool
	idxEvictSeq  int // w.seq of the last pool eviction that closed an idx descriptor of this triple
}

type hPos struct {
	i   int
	cur *triple
	gen int
}

type hworld struct {
	drv       *sched.Driver
	out       *core.Outcome
	p         *Plan
	pool      *fdpool.Pool
	cap       int
	fxs       []*fixture
	pos       []*hPos
	trips     []*triple
	members   []*hMember
	files     []*hFile
	seq       int
	openCalls int
	openFail  map[int]bool

	openPooled   int
	pinnedPooled int
	endMu        sync.Mutex
	ended        bool // the driver has finished: what follows is unscheduled

	// learned from the hooked locks
	byAddr      map[uintptr]*hMember // &SharedFile.mu (== the SharedFile) -> member
	lastAcquire uintptr              // SharedFile whose Acquire lock was granted last (read by the opener that follows without a park)
	cur         int                  // index of the task that is running (-1: a timer callback)
	acquiring   map[int]uintptr      // task -> SharedFile it is acquiring (the Touch that follows belongs to it)
	touchStart  map[int]int          // task -> w.seq when its current Pool.Touch asked for p.mu
	evicting    map[int]uintptr      // task -> victim it unlinked from the LRU and whose ReleaseNow has not returned
}

var theH *hworld

// park is drv.ParkUntil for harness code that runs on a task's goroutine. Only
// one goroutine runs between two grants, so "who am I" is carried in w.cur:
// saved before parking, restored after the grant (cheaper than parsing
// runtime.Stack for a goroutine id at every lock).
func (w *hworld) park(class simfs.OpClass, detail string, enabled func() bool) {
	me := w.cur
	w.drv.ParkUntil("", class, detail, enabled)
	w.cur = me
}

func (w *hworld) tick() int { w.seq++; return w.seq }

func (w *hworld) fail(sig, format string, args ...any) { w.out.Fail(sig, format, args...) }

func (w *hworld) pin(ms ...*hMember) {
	for _, m := range ms {
		if m == nil {
			continue
		}
		m.pins++
		if m.pins == 1 && m.pooled {
			w.pinnedPooled++
		}
	}
}

func (w *hworld) unpin(ms ...*hMember) {
	for _, m := range ms {
		if m == nil {
			continue
		}
		m.pins--
		if m.pins == 0 && m.pooled {
			w.pinnedPooled--
		}
	}
}

func (w *hworld) hold(m *hMember) *hFile {
	if m == nil {
		return nil
	}
	m.holds++
	if m.holds == 1 {
		m.heldSince = w.tick()
	}
	f := m.last
	if f != nil {
		f.holders++
	}
	return f
}

func (w *hworld) unhold(m *hMember, f *hFile) {
	if m == nil {
		return
	}
	m.holds--
	if f != nil {
		f.holders--
	}
}

// ---- fake descriptors serving real bytes ----

func (f *hFile) ReadAt(p []byte, off int64) (int, error) {
	w := theH
	f.readers++
	w.park("file-readat", "f"+strconv.Itoa(f.id)+" "+f.m.label, nil)
	f.readers--
	if !f.open {
		return 0, fs.ErrClosed
	}
	if f.m.kind == kRev && off >= 12 {
		w.out.Probe("rev-file-used")
	}
	c := f.m.content
	if off < 0 {
		return 0, errors.New("fake file: negative offset")
	}
	if off >= int64(len(c)) {
		return 0, io.EOF
	}
	n := copy(p, c[off:])
	if n < len(p) {
		return n, io.EOF
	}
	return n, nil
}

func (f *hFile) Read(p []byte) (int, error) { return 0, io.EOF }

// Close is not a scheduling point: it runs inside the lock region of whoever
// closes (as close(2) does).
func (f *hFile) Close() error {
	w := theH
	// After the driver has finished, grace timers of several SharedFiles fire
	// unscheduled and may run in parallel: bookkeeping under a mutex, and
	// nothing order-dependent (event log) from then on.
	w.endMu.Lock()
	defer w.endMu.Unlock()
	f.closes++
	cause := closeCause()
	if f.closes > 1 {
		w.fail("C24|double-close", "descriptor f%d (%s) closed %d times", f.id, f.m.label, f.closes)
	}
	if (f.holders > 0 || f.readers > 0) && !f.m.owner.closeInvoked {
		w.fail("C24|closed-under-reader", "descriptor f%d (%s) closed (%s) while %d cursor(s)/iterator(s) hold it and %d read(s) are in progress on it; Close of its owner %s was not invoked",
			f.id, f.m.label, cause, f.holders, f.readers, f.m.owner.label)
	}
	if f.open {
		f.open = false
		if f.m.pooled {
			w.openPooled--
		}
	}
	f.m.lastCause = cause
	if cause == "evict" && f.m.kind == kIdx {
		f.m.owner.trip.idxEvictSeq = w.tick()
	}
	w.out.Probe("descriptor-closed-by-" + cause)
	if !w.ended {
		w.drv.Logf("close f%d %s (%s)", f.id, f.m.label, cause)
	}
	return nil
}

var (
	causeMu    sync.Mutex
	causeCache = map[[20]uintptr]string{}
)

// closeCause classifies who is closing a descriptor from the call stack:
// evict (Pool.Touch -> ReleaseNow), idle (ReleaseNow from anywhere else),
// grace (timer callback), latch (the Release that drops the last reference
// after a ReleaseNow found readers), close (SharedFile.Close).
func closeCause() string {
	var pcs [20]uintptr
	n := runtime.Callers(2, pcs[:])
	causeMu.Lock()
	c, ok := causeCache[pcs]
	causeMu.Unlock()
	if ok {
		return c
	}
	c = "other"
	frames := runtime.CallersFrames(pcs[:n])
	first := ""
	touch := false
	for {
		fr, more := frames.Next()
		fn := fr.Function
		if first == "" && strings.Contains(fn, "sharedfile.(*SharedFile).") {
			first = fn[strings.Index(fn, "sharedfile.(*SharedFile).")+len("sharedfile.(*SharedFile)."):]
		}
		if strings.HasSuffix(fn, "fdpool.(*Pool).Touch") {
			touch = true
		}
		if !more {
			break
		}
	}
	switch {
	case first == "ReleaseNow" && touch:
		c = "evict"
	case first == "ReleaseNow":
		c = "idle"
	case strings.HasPrefix(first, "Release.func"):
		c = "grace"
	case first == "Release":
		c = "latch"
	case first == "Close":
		c = "close"
	}
	causeMu.Lock()
	causeCache[pcs] = c
	causeMu.Unlock()
	return c
}

func (w *hworld) opener(m *hMember) func() (sharedfile.ReadAtCloser, error) {
	return func() (sharedfile.ReadAtCloser, error) {
		sf := w.lastAcquire
		w.park("file-open", m.label, nil)
		w.openCalls++
		if w.openFail[w.openCalls] {
			w.out.Probe("open-failed-transiently")
			if w.out.Faults == nil {
				w.out.Faults = map[string]int{}
			}
			w.out.Faults["open:transient"]++
			w.drv.Logf("open %s: transient failure", m.label)
			return nil, errTransient
		}
		f := &hFile{id: len(w.files), m: m, open: true}
		if m.owner.closeReturned {
			w.fail("C24|open-after-close", "descriptor opened for %s after Close of its owner %s returned", m.label, m.owner.label)
		}
		w.files = append(w.files, f)
		if m.pooled {
			w.openPooled++
		}
		if sf != 0 {
			w.byAddr[sf] = m
		}
		if m.lastCause != "" {
			w.out.Probe("reopen-after-" + m.lastCause)
			if m.lastCause == "grace" {
				w.out.Probe("grace-close-of-handle-file-then-reopen")
			}
		}
		if m.pooled && m.owner.trip.gen > 0 {
			w.out.Probe("re-registration-after-close")
		}
		m.last = f
		m.opens++
		w.drv.Logf("open %s -> f%d", m.label, f.id)
		return f, nil
	}
}

func (w *hworld) newMember(o *hOwner, kind int, content []byte, pooled bool) *hMember {
	m := &hMember{owner: o, kind: kind, label: o.label + "." + kindName[kind], content: content, pooled: pooled}
	w.members = append(w.members, m)
	return m
}

func (w *hworld) newTriple(pos *hPos) *triple {
	fx := w.fxs[pos.i%len(w.fxs)]
	t := &triple{pos: pos, gen: pos.gen, fx: fx, label: fmt.Sprintf("h%dg%d", pos.i, pos.gen)}
	pos.gen++
	o := &hOwner{label: t.label, trip: t}
	t.hOwner = o
	evicting := w.pool != nil && w.cap > 0
	t.pack = w.newMember(o, kPack, fx.pack, evicting)
	t.idx = w.newMember(o, kIdx, fx.idx, false)
	t.rev = w.newMember(o, kRev, fx.rev, false)
	size := int64(len(fx.pack))
	src := packhandle.Sources{
		Pack: packhandle.Source{Open: w.opener(t.pack), Size: func() (int64, error) {
			w.park("file-stat", t.pack.label, nil)
			w.out.Probe("pack-size-stat")
			return size, nil
		}},
		Idx: packhandle.Source{Open: w.opener(t.idx), Size: func() (int64, error) { return int64(len(fx.idx)), nil }},
		Rev: packhandle.Source{Open: w.opener(t.rev), Size: func() (int64, error) { return int64(len(fx.rev)), nil }},
	}
	h, err := packhandle.NewWithPool(src, fx.hash, w.pool)
	if err != nil {
		panic(err)
	}
	t.h = h
	w.trips = append(w.trips, t)
	pos.cur = t
	return t
}

// ---- hooks: a copy of hooks.Install that also watches which lock is asked for by whom ----

type lockWhere struct{ fn, parent, site string }

var (
	siteMu    sync.Mutex
	siteCache = map[[6]uintptr]lockWhere{}
)

// lockSite returns the function that called simhook.BeforeLock, that
// function's caller, and "dir/file.go:line" of the call.
func lockSite() lockWhere {
	var pcs [6]uintptr
	n := runtime.Callers(3, pcs[:]) // 0 Callers, 1 lockSite, 2 the handler, 3.. BeforeLock and up
	siteMu.Lock()
	lw, ok := siteCache[pcs]
	siteMu.Unlock()
	if ok {
		return lw
	}
	frames := runtime.CallersFrames(pcs[:n])
	seen := false
	for {
		fr, more := frames.Next()
		switch {
		case !seen:
			if strings.HasSuffix(fr.Function, "simhook.BeforeLock") {
				seen = true
			}
		case lw.fn == "":
			lw.fn = fr.Function
			file := fr.File
			k := 0
			for i := len(file) - 1; i >= 0; i-- {
				if file[i] == '/' {
					k++
					if k == 2 {
						file = file[i+1:]
						break
					}
				}
			}
			lw.site = file + ":" + strconv.Itoa(fr.Line)
		case lw.parent == "":
			lw.parent = fr.Function
		}
		if !more {
			break
		}
	}
	if lw.site == "" {
		lw.site = "?"
	}
	siteMu.Lock()
	siteCache[pcs] = lw
	siteMu.Unlock()
	return lw
}

// installLockHooks is hooks.Install with two additions: the detail of a lock
// request carries a label of the mutex when label() knows it (two grace-timer
// callbacks pending at the same source line are then distinct requests in
// canonical order instead of symmetric ones ordered by arrival, which differed
// between GOMAXPROCS values), and observe() sees every request before it parks
// and may return a function to run right after the grant.
func installLockHooks(drv *sched.Driver, label func(addr uintptr) string, observe func(lw lockWhere, addr uintptr) func(), onceDetail func(key any) string, onceWaited func()) {
	simhook.LockHandler = func(mu sync.Locker) {
		lw := lockSite()
		var addr uintptr
		var try func() bool
		switch m := mu.(type) {
		case *sync.Mutex:
			addr = uintptr(unsafe.Pointer(m))
			try = func() bool {
				if m.TryLock() {
					m.Unlock()
					return true
				}
				return false
			}
		case *sync.RWMutex:
			addr = uintptr(unsafe.Pointer(m))
			try = func() bool {
				if m.TryLock() {
					m.Unlock()
					return true
				}
				return false
			}
		}
		detail := lw.site
		if l := label(addr); l != "" {
			detail += " " + l
		}
		var after func()
		if observe != nil {
			after = observe(lw, addr)
		}
		drv.ParkUntil("", "lock", detail, try)
		if after != nil {
			after()
		}
	}
	simhook.RLockHandler = func(m *sync.RWMutex) {
		drv.ParkUntil("", "rlock", "?", func() bool {
			if m.TryRLock() {
				m.RUnlock()
				return true
			}
			return false
		})
	}
	simhook.YieldHandler = func(s string) {
		var after func()
		if observe != nil {
			after = observe(lockWhere{fn: "yield"}, 0)
		}
		drv.ParkUntil("", "yield", s, nil)
		if after != nil {
			after()
		}
	}
	// A sync.Once whose function does I/O: a second caller would block on the
	// Once's internal mutex, which the bubble does not see as durably blocked.
	// It is parked here until nobody is inside.
	var onceMu sync.Mutex
	inside := map[any]int{}
	simhook.OnceHandler = func(key any, enter bool) {
		if !enter {
			onceMu.Lock()
			inside[key]--
			if inside[key] <= 0 {
				delete(inside, key)
			}
			onceMu.Unlock()
			return
		}
		detail := "once"
		if onceDetail != nil {
			detail = onceDetail(key)
		}
		onceMu.Lock()
		waits := inside[key] > 0
		onceMu.Unlock()
		if waits && onceWaited != nil {
			onceWaited()
		}
		var after func()
		if observe != nil {
			after = observe(lockWhere{fn: "once"}, 0)
		}
		drv.ParkUntil("", "once", detail, func() bool {
			onceMu.Lock()
			defer onceMu.Unlock()
			return inside[key] == 0
		})
		if after != nil {
			after()
		}
		onceMu.Lock()
		inside[key]++
		onceMu.Unlock()
	}
}

func (w *hworld) installHooks() {
	label := func(addr uintptr) string {
		if mem := w.byAddr[addr]; mem != nil {
			return mem.label
		}
		return ""
	}
	observe := func(lw lockWhere, addr uintptr) func() {
		kind := ""
		switch {
		case strings.HasSuffix(lw.fn, "sharedfile.(*SharedFile).Acquire"):
			kind = "acquire"
		case strings.HasSuffix(lw.fn, "sharedfile.(*SharedFile).ReleaseNow") && strings.HasSuffix(lw.parent, "fdpool.(*Pool).Touch"):
			kind = "evict"
		case strings.HasSuffix(lw.fn, "fdpool.(*Pool).Touch"):
			kind = "touch"
		}
		me := w.cur
		if strings.Contains(lw.fn, "sharedfile.(*SharedFile).Release.func") {
			me = -1 // grace-timer callback: its own goroutine, started by the clock
		}
		_, wasEvicting := w.evicting[me]
		if wasEvicting && kind != "evict" {
			// the next lock this task asks for after the victim's ReleaseNow
			// lock is Touch's re-lock: ReleaseNow has returned
			delete(w.evicting, me)
		}
		switch kind {
		case "touch":
			if !wasEvicting {
				w.touchStart[me] = w.tick()
			}
		case "evict":
			w.evicting[me] = addr
			w.noteEviction(me, w.byAddr[addr])
		}
		return func() {
			w.cur = me
			if kind == "acquire" {
				w.lastAcquire = addr
				w.acquiring[me] = addr
			}
		}
	}
	onceDetail := func(key any) string {
		detail := "packhandle.Close"
		if h, ok := key.(*packhandle.PackHandle); ok {
			for _, t := range w.trips {
				if t.h == h {
					detail += " " + t.label
				}
			}
		}
		return detail
	}
	installLockHooks(w.drv, label, observe, onceDetail, func() { w.out.Probe("second-close-waited-for-first") })
}

// noteEviction: Pool.Touch (run by goroutine gid) is about to call ReleaseNow
// on victim; the victim is already unlinked from the LRU.
func (w *hworld) noteEviction(gid int, victim *hMember) {
	w.out.Probe("pool-eviction-observed")
	if victim == nil {
		return
	}
	toucher := w.byAddr[w.acquiring[gid]]
	// A victim that a cursor or iterator has held since before this Touch asked
	// for the pool lock answered Pinned()==true during the walk: the pool chose
	// it although pinned, i.e. every other member was pinned too.
	if victim.holds > 0 && victim.heldSince < w.touchStart[gid] && !victim.owner.closeInvoked {
		w.out.Probe("all-pinned-fallback")
		if toucher != nil && toucher != victim && toucher.owner.trip == victim.owner.trip {
			w.out.Probe("all-pinned-fallback-within-one-handle")
		}
	}
}

// ---- judging errors ----

func isClosedErr(err error) bool {
	return errors.Is(err, fs.ErrClosed) || strings.Contains(err.Error(), "closed")
}

// judge decides about an error returned to a reader by a read / lookup made
// between an acquisition and its release. excused=true: allowed by the statement.
func (w *hworld) judge(task, what string, o *hOwner, err error) {
	switch {
	case errors.Is(err, errTransient):
		w.out.Probe(what + "-failed-on-transient-open")
	case o.closeInvoked:
		w.out.Probe(what + "-failed-after-owner-close")
	case isClosedErr(err):
		w.fail("C24|read-on-closed-descriptor|"+what, "%s: %s on %s failed with %q while Close of %s was never invoked", task, what, o.trip.label, err, o.label)
	default:
		w.fail("C24|handle|unexpected-error|"+what, "%s: %s on %s failed with %q (no fault injected into it, owner %s not closed)", task, what, o.trip.label, err, o.label)
	}
	w.drv.Logf("%s %s %s: %v", task, what, o.trip.label, err)
}

// ---- operations ----

func (w *hworld) opCursor(task string, t *triple, op Op, random bool) {
	drv := w.drv
	m := t.pack
	fx := t.fx
	w.pin(m)
	var cl io.Closer
	var ra io.ReaderAt
	var rs io.ReadSeeker
	var err error
	if random {
		var r packhandle.RandomReader
		r, err = t.h.OpenRandomReader()
		if err == nil {
			cl, ra = r, r
		}
	} else {
		var r packhandle.PackReader
		r, err = t.h.OpenPackReader()
		if err == nil {
			cl, rs = r, r
			ra, _ = r.(io.ReaderAt)
		}
	}
	if err != nil {
		w.unpin(m)
		drv.Logf("%s open cursor %s: %v", task, t.label, err)
		switch {
		case errors.Is(err, errTransient):
			w.out.Probe("cursor-open-failed-on-transient-open")
		case t.hOwner.closeInvoked:
			w.out.Probe("cursor-open-after-handle-close")
		default:
			// not an acquired descriptor: outside the statement; counted
			w.out.Probe("cursor-open-unexpected-error")
		}
		return
	}
	f := w.hold(m)
	openSeq := w.tick()
	fid := -1
	if f != nil {
		fid = f.id
	}
	drv.Logf("%s cursor %s -> f%d", task, t.label, fid)
	w.out.Probe("cursor-opened")
	size := int64(len(fx.pack))
	var off int64 // model of the cursor's offset
	reads := op.Reads
	if reads > 6 {
		reads = 6
	}
	if reads < 0 {
		reads = 0
	}
	arg := op.Arg
	if arg < 0 {
		arg = -arg
	}
	goodRead := func() {
		w.out.Probe("cursor-read-ok")
		if t.idxEvictSeq > openSeq {
			w.out.Probe("handle-cursor-read-after-idx-evicted")
		}
		if m.last != f {
			w.out.Probe("cursor-read-on-descriptor-older-than-current")
		}
	}
loop:
	for i := 0; i < reads; i++ {
		v := int(core.Mix(uint64(arg), uint64(i)) >> 20) // everything about read i is a function of (Arg, i)
		mode := []int{0, 0, 1, 1, 1, 2, 4}[v%7]
		v /= 7
		if rs == nil && (mode == 1 || mode == 2) {
			mode = 0
		}
		switch mode {
		case 0:
			if ra == nil {
				continue
			}
			o := int64(v % (int(size) + 8))
			ln := 1 + (v/7)%40
			buf := make([]byte, ln)
			n, err := ra.ReadAt(buf, o)
			if err != nil && err != io.EOF {
				if t.hOwner.closeInvoked {
					w.out.Probe("handle-closed-while-cursor-held")
				}
				w.judge(task, "cursor-readat", t.hOwner, err)
				break loop
			}
			wantN := 0
			if o < size {
				wantN = int(min(int64(ln), size-o))
			}
			if n != wantN || (n > 0 && !bytes.Equal(buf[:n], fx.pack[o:o+int64(n)])) || (err == io.EOF) != (wantN < ln) {
				w.fail("C24|handle|wrong-bytes|cursor-readat", "%s: ReadAt(len %d, off %d) through a held cursor on %s returned n=%d err=%v, want n=%d and the pack's bytes", task, ln, o, t.label, n, err, wantN)
				break loop
			}
			goodRead()
		case 1:
			ln := 1 + (v/3)%48
			if v%3 == 0 {
				ln = 1 + (v/3)%(int(size)+32) // often up to or across the end of the pack
			}
			buf := make([]byte, ln)
			n, err := rs.Read(buf)
			if err != nil && err != io.EOF {
				if t.hOwner.closeInvoked {
					w.out.Probe("handle-closed-while-cursor-held")
				}
				w.judge(task, "cursor-read", t.hOwner, err)
				break loop
			}
			wantN := 0
			if off < size {
				wantN = int(min(int64(ln), size-off))
			}
			okBytes := n == wantN && (n == 0 || bytes.Equal(buf[:n], fx.pack[off:off+int64(n)]))
			if !okBytes || (err == io.EOF) != (off >= size) {
				w.fail("C24|handle|wrong-bytes|cursor-read", "%s: sequential Read(len %d) at offset %d through a held cursor on %s returned n=%d err=%v, want n=%d and the pack's bytes at that offset", task, ln, off, t.label, n, err, wantN)
				break loop
			}
			off += int64(n)
			goodRead()
		case 2:
			whence := v % 3
			delta := int64((v/3)%(int(size)+16)) - 8
			if whence == io.SeekEnd {
				delta = -int64((v / 3) % (int(size) + 8))
			}
			got, err := rs.Seek(delta, whence)
			var want int64
			switch whence {
			case io.SeekStart:
				want = delta
			case io.SeekCurrent:
				want = off + delta
			default:
				want = size + delta
			}
			if err != nil {
				if want < 0 && errors.Is(err, packhandle.ErrNegativeSeekPosition) {
					continue
				}
				if t.hOwner.closeInvoked {
					w.out.Probe("handle-closed-while-cursor-held")
				}
				w.judge(task, "cursor-seek", t.hOwner, err)
				break loop
			}
			if want < 0 || got != want {
				w.fail("C24|handle|wrong-bytes|cursor-seek", "%s: Seek(%d, %d) at offset %d of %s (size %d) returned %d, want %d", task, delta, whence, off, t.label, size, got, want)
				break loop
			}
			off = want
		case 4:
			// Index()/Meta() stay usable while a cursor holds the handle
			if v%4 == 0 {
				if w.opMeta(task, t) {
					w.out.Probe("meta-usable-while-cursor-held")
				}
			} else if w.opLookup(task, t, v/4) {
				w.out.Probe("index-usable-while-cursor-held")
			}
		}
	}
	w.unhold(m, f)
	_ = cl.Close()
	if arg%4 == 1 {
		_ = cl.Close() // idempotent by contract
		w.out.Probe("cursor-closed-twice")
	}
	w.unpin(m)
	drv.Logf("%s cursor %s closed", task, t.label)
}

// index returns the Index of t through the configured wiring, together with
// the owner and members behind it. ok=false: no index (reason already judged).
func (w *hworld) index(task string, t *triple, cached bool) (idx idxfile.Index, o *hOwner, mi, mr *hMember, ok bool) {
	drv := w.drv
	if !w.p.StorageIdx {
		if kept := t.kept[task]; cached && kept != nil {
			// a caller that kept the value an earlier Index() returned to it
			w.out.Probe("lookup-through-kept-index-value")
			return kept, t.hOwner, t.idx, t.rev, true
		}
		w.pin(t.idx, t.rev)
		ix, err := t.h.Index()
		w.unpin(t.idx, t.rev)
		if err != nil {
			drv.Logf("%s Index %s: %v", task, t.label, err)
			switch {
			case errors.Is(err, errTransient):
				w.out.Probe("index-load-failed-on-transient-open")
			case t.hOwner.closeInvoked:
				w.out.Probe("index-after-handle-close")
			case isClosedErr(err):
				w.fail("C24|read-on-closed-descriptor|index-load", "%s: Index() of %s failed with %q while the handle was never closed", task, t.label, err)
			default:
				w.fail("C24|handle|unexpected-error|index-load", "%s: Index() of %s failed with %q (idx/rev bytes are valid, nothing injected)", task, t.label, err)
			}
			return nil, nil, nil, nil, false
		}
		if !t.indexLoaded {
			t.indexLoaded = true
			if t.idx.opens > 0 && t.rev.opens > 0 {
				w.out.Probe("index-loaded-through-fake-file")
			}
		}
		if t.kept == nil {
			t.kept = map[string]idxfile.Index{}
		}
		t.kept[task] = ix
		return ix, t.hOwner, t.idx, t.rev, true
	}
	for t.extLoading {
		w.park("wait", "index-load "+t.label, func() bool { return !t.extLoading })
	}
	if t.closeInvoked {
		w.out.Probe("index-after-handle-close")
		return nil, nil, nil, nil, false
	}
	if t.ext == nil {
		t.extLoading = true
		t.extTries++
		o := &hOwner{label: fmt.Sprintf("%sx%d", t.label, t.extTries), trip: t}
		evicting := w.pool != nil && w.cap > 0
		mi := w.newMember(o, kIdx, t.fx.idx, evicting)
		mr := w.newMember(o, kRev, t.fx.rev, evicting)
		w.pin(mi, mr)
		lz, err := idxfile.NewLazyIndexWithPool(w.opener(mi), w.opener(mr), t.fx.hash, w.pool)
		w.unpin(mi, mr)
		t.extLoading = false
		if err != nil {
			drv.Logf("%s NewLazyIndexWithPool %s: %v", task, t.label, err)
			if errors.Is(err, errTransient) {
				w.out.Probe("index-load-failed-on-transient-open")
			} else if isClosedErr(err) {
				w.fail("C24|read-on-closed-descriptor|index-load", "%s: loading the pooled LazyIndex of %s failed with %q; nothing was closed", task, t.label, err)
			} else {
				w.fail("C24|handle|unexpected-error|index-load", "%s: loading the pooled LazyIndex of %s failed with %q (idx/rev bytes are valid, nothing injected)", task, t.label, err)
			}
			return nil, nil, nil, nil, false
		}
		t.ext, t.extOwner, t.extIdx, t.extRev = lz, o, mi, mr
		w.out.Probe("index-loaded-through-fake-file")
	}
	return t.ext, t.extOwner, t.extIdx, t.extRev, true
}

func (w *hworld) opLookup(task string, t *triple, arg int) bool {
	if arg < 0 {
		arg = -arg
	}
	idx, o, mi, mr, ok := w.index(task, t, arg%2 == 1)
	if !ok {
		return false
	}
	arg /= 2
	fx := t.fx
	sel := arg % 8
	k := arg / 8
	evBefore := t.idxEvictSeq
	wasOpen := mi.last != nil && mi.last.open
	good := func(what string) bool {
		w.out.Probe("lookup-ok")
		if mi.lastCause == "evict" && !wasOpen {
			w.out.Probe("lookup-reopened-idx-after-eviction")
		}
		_ = evBefore
		w.drv.Logf("%s %s %s ok", task, what, t.label)
		return true
	}
	switch sel {
	case 0, 1, 2:
		e := fx.entries[k%len(fx.entries)]
		w.pin(mi)
		off, err := idx.FindOffset(e.h)
		w.unpin(mi)
		if err != nil {
			w.judge(task, "lookup", o, err)
			return false
		}
		if off != e.off {
			w.fail("C24|handle|wrong-answer|find-offset", "%s: FindOffset(%v) on %s = %d, want %d", task, e.h, t.label, off, e.off)
			return false
		}
		return good("FindOffset")
	case 3:
		h := fx.absent[k%len(fx.absent)]
		w.pin(mi)
		_, err := idx.FindOffset(h)
		w.unpin(mi)
		if err == nil {
			w.fail("C24|handle|wrong-answer|find-offset", "%s: FindOffset(absent %v) on %s succeeded", task, h, t.label)
			return false
		}
		if !errors.Is(err, plumbing.ErrObjectNotFound) {
			w.judge(task, "lookup", o, err)
			return false
		}
		return good("FindOffset-absent")
	case 4:
		e := fx.entries[k%len(fx.entries)]
		w.pin(mi)
		has, err := idx.Contains(e.h)
		var crc uint32
		if err == nil {
			crc, err = idx.FindCRC32(e.h)
		}
		w.unpin(mi)
		if err != nil {
			w.judge(task, "lookup", o, err)
			return false
		}
		if !has || crc != e.crc {
			w.fail("C24|handle|wrong-answer|contains-crc", "%s: Contains/FindCRC32(%v) on %s = %v/%08x, want true/%08x", task, e.h, t.label, has, crc, e.crc)
			return false
		}
		return good("Contains+CRC")
	case 5, 6:
		e := fx.byOffset[k%len(fx.byOffset)]
		w.pin(mi, mr)
		h, err := idx.FindHash(e.off)
		w.unpin(mi, mr)
		if err != nil {
			w.judge(task, "lookup", o, err)
			return false
		}
		if h != e.h {
			w.fail("C24|handle|wrong-answer|find-hash", "%s: FindHash(%d) on %s = %v, want %v", task, e.off, t.label, h, e.h)
			return false
		}
		return good("FindHash")
	default:
		e := fx.entries[k%len(fx.entries)]
		cnt, _ := idx.Count()
		if !idx.MayContain(e.h) || idx.MayContain(fx.absent[0]) || cnt != int64(len(fx.entries)) {
			w.fail("C24|handle|wrong-answer|may-contain", "%s: MayContain/Count on %s wrong (count %d)", task, t.label, cnt)
			return false
		}
		return good("MayContain")
	}
}

func (w *hworld) opIter(task string, t *triple, op Op) {
	arg := op.Arg
	if arg < 0 {
		arg = -arg
	}
	idx, o, mi, mr, ok := w.index(task, t, arg%2 == 1)
	if !ok {
		return
	}
	arg /= 2
	fx := t.fx
	byOff := arg%3 != 0
	var it idxfile.EntryIter
	var err error
	want := fx.entries
	if byOff {
		want = fx.byOffset
		w.pin(mi, mr)
		it, err = idx.EntriesByOffset()
	} else {
		mr = nil
		w.pin(mi)
		it, err = idx.Entries()
	}
	if err != nil {
		w.unpin(mi, mr)
		w.judge(task, "iter-open", o, err)
		return
	}
	fi := w.hold(mi)
	fr := w.hold(mr)
	w.out.Probe("iterator-opened")
	w.drv.Logf("%s iterator %s byOffset=%v", task, o.label, byOff)
	n := op.Reads + 1
	if n > 6 {
		n = 6
	}
	for i := 0; i < n; i++ {
		e, err := it.Next()
		if i >= len(want) {
			if err != io.EOF {
				w.fail("C24|handle|wrong-answer|iter", "%s: iterator over %s returned (%v, %v) after its last entry", task, t.label, e, err)
			}
			break
		}
		if err != nil {
			w.judge(task, "iter-next", o, err)
			break
		}
		if e.Hash != want[i].h || int64(e.Offset) != want[i].off || e.CRC32 != want[i].crc {
			w.fail("C24|handle|wrong-answer|iter", "%s: entry %d of iterator (byOffset=%v) over %s = %v@%d, want %v@%d", task, i, byOff, t.label, e.Hash, e.Offset, want[i].h, want[i].off)
			break
		}
		w.out.Probe("iterator-next-ok")
	}
	w.unhold(mi, fi)
	w.unhold(mr, fr)
	_ = it.Close()
	w.unpin(mi, mr)
	w.drv.Logf("%s iterator %s closed", task, o.label)
}

func (w *hworld) opMeta(task string, t *triple) bool {
	w.pin(t.pack)
	meta, err := t.h.Meta()
	w.unpin(t.pack)
	if err != nil {
		w.judge(task, "meta", t.hOwner, err)
		return false
	}
	if meta.Version != 2 || int(meta.Count) != len(t.fx.entries) || meta.ID != t.fx.hash {
		w.fail("C24|handle|wrong-answer|meta", "%s: Meta() of %s = %+v, want version 2, %d objects, id %v", task, t.label, meta, len(t.fx.entries), t.fx.hash)
		return false
	}
	w.out.Probe("meta-ok")
	w.drv.Logf("%s Meta %s ok", task, t.label)
	return true
}

func (w *hworld) opIdle(task string, t *triple) {
	err := t.h.CloseIdleDescriptors()
	w.drv.Logf("%s CloseIdleDescriptors %s: %v", task, t.label, err)
	if ext := t.ext; ext != nil && !t.extOwner.closeInvoked {
		err := ext.CloseIdleDescriptors()
		w.drv.Logf("%s CloseIdleDescriptors %s: %v", task, t.extOwner.label, err)
	}
	w.out.Probe("close-idle")
}

func (w *hworld) closeTriple(t *triple) {
	t.closeInvoked = true
	t.hOwner.closeInvoked = true
	_ = t.h.Close()
	t.hOwner.closeReturned = true
	if t.ext != nil {
		t.extOwner.closeInvoked = true
		_ = t.ext.Close()
		t.extOwner.closeReturned = true
	}
}

func (w *hworld) opClose(task string, pos *hPos, t *triple) {
	for t.extLoading {
		w.park("wait", "index-load "+t.label, func() bool { return !t.extLoading })
	}
	w.closeTriple(t)
	w.drv.Logf("%s Close %s", task, t.label)
	w.out.Probe("close")
	if pos.cur == t {
		w.newTriple(pos) // re-registration of the position with a fresh PackHandle
	}
}

func execHandles(t *testing.T, p *Plan) (out core.Outcome) {
	fxs, err := fixtures()
	if err != nil {
		out.Inconclusive = "fixture: " + err.Error()
		return out
	}
	if p.Files < 1 {
		p.Files = 1
	}
	if p.Files > 3 {
		p.Files = 3
	}
	var drv *sched.Driver
	var w *hworld
	panicked := sched.Bubble(t, func() {
		drv = sched.New(p.Sched)
		drv.MaxSteps = 8000
		w = &hworld{drv: drv, out: &out, p: p, cap: p.PoolCap, fxs: fxs, openFail: map[int]bool{}, byAddr: map[uintptr]*hMember{},
			acquiring: map[int]uintptr{}, touchStart: map[int]int{}, evicting: map[int]uintptr{}}
		theH = w
		for _, n := range p.OpenFail {
			w.openFail[n] = true
		}
		if p.PoolCap >= 0 {
			w.pool = fdpool.New(p.PoolCap)
		}
		for i := 0; i < p.Files; i++ {
			pos := &hPos{i: i}
			w.pos = append(w.pos, pos)
			w.newTriple(pos)
		}
		w.installHooks()
		defer hooks.Uninstall()
		// I2 at every quiescent step
		drv.OnStep = func(step int) {
			if w.cap <= 0 {
				return
			}
			inflight := len(w.evicting)
			if w.openPooled > w.cap+w.pinnedPooled+inflight {
				w.fail("C24|over-capacity", "step %d: %d pooled descriptors open > capacity %d + %d pinned + %d eviction(s) in flight", step, w.openPooled, w.cap, w.pinnedPooled, inflight)
			}
			if w.openPooled > w.cap+w.pinnedPooled {
				out.Probe("open-above-capacity-plus-pinned-during-eviction")
			}
			if w.openPooled > w.cap {
				out.Probe("open-above-capacity-while-pinned")
			}
		}
		var tasks []sched.Task
		for i, tp := range p.Tasks {
			if i >= 6 {
				break
			}
			i, tp := i, tp
			name := fmt.Sprintf("t%d", i)
			tasks = append(tasks, sched.Task{Name: name, Fn: func() {
				w.cur = i
				for k, op := range tp.Ops {
					if k >= 6 {
						break
					}
					pos := w.pos[mod(op.File, len(w.pos))]
					tr := pos.cur
					switch op.Kind {
					case "close":
						w.opClose(name, pos, tr)
					case "idle", "evict":
						w.opIdle(name, tr)
					case "meta":
						w.opMeta(name, tr)
					case "lookup":
						w.opLookup(name, tr, op.Arg)
					case "iter":
						w.opIter(name, tr, op)
					case "random":
						w.opCursor(name, tr, op, true)
					default:
						w.opCursor(name, tr, op, false)
					}
				}
			}})
		}
		drv.Run(tasks)
		w.endMu.Lock()
		w.ended = true
		w.endMu.Unlock()
		hooks.Uninstall()
		if drv.Aborted != "" {
			return
		}
		// bounded liveness once everything stopped: descriptors that no evicting
		// pool governs are closed within the grace period
		time.Sleep(grace + time.Millisecond)
		for _, f := range w.files {
			if f.open && !f.m.pooled {
				kind := "nil-pool"
				switch {
				case p.PoolCap == 0:
					kind = "noop-pool"
				case p.PoolCap > 0:
					kind = "handle-index-unpooled"
				}
				w.fail("C24|idle-not-closed|"+kind, "descriptor f%d (%s) still open %v after its last release; no evicting pool governs it", f.id, f.m.label, grace+time.Millisecond)
				break
			}
		}
		if w.cap > 0 && w.openPooled > w.cap {
			w.fail("C24|over-capacity-at-rest", "%d pooled descriptors open at rest > capacity %d", w.openPooled, w.cap)
		}
		for _, tr := range w.trips {
			w.closeTriple(tr)
		}
		for _, f := range w.files {
			if f.open {
				w.fail("C24|leak-after-close", "descriptor f%d (%s) still open after every PackHandle and LazyIndex was closed", f.id, f.m.label)
				break
			}
		}
		if w.pool != nil {
			st := w.pool.Stats()
			if st.Active != 0 {
				out.Probe("stale-closed-member-left-in-pool")
			}
			out.ProbeN("evictions", int(st.Evictions))
			out.ProbeN("pinned-skips", int(st.PinnedSkips))
		}
	})
	out.Steps = drv.Steps
	out.SimNS = int64(drv.Now())
	out.LogHash = drv.LogHash()
	out.SchedHash = drv.SchedHash()
	out.Trace = drv.Trace
	out.NonTrivial = drv.Switches > len(p.Tasks)
	out.ProbeN("context-switches", drv.Switches)
	out.Probe("handle-config-runs")
	if panicked != nil {
		out.Signature, out.Message = "", ""
		out.Inconclusive = "bubble-panic"
		out.Trace = append(out.Trace, fmt.Sprint(panicked))
		return out
	}
	if drv.Aborted != "" {
		if drv.Aborted == "deadlock" {
			out.Fail("C24|deadlock", "no task can make progress (all blocked) after %d steps", drv.Steps)
		} else {
			out.Signature, out.Message = "", ""
			out.Inconclusive = drv.Aborted
		}
		return out
	}
	for name, pv := range drv.TaskPanic {
		out.Fail("C24|panic", "task %s panicked: %v", name, pv)
	}
	return out
}

func genHandlePlan(r *core.Rand, tier string) *Plan {
	p := &Plan{Handles: true, PoolCap: []int{-1, 0, 1, 1, 1, 2, 2, 3, 4}[r.Intn(9)], Files: r.Range(1, 3), StorageIdx: r.Chance(3, 5)}
	nt := r.Range(2, 4)
	total := 0
	kinds := []string{"cursor", "cursor", "cursor", "random", "random", "random", "lookup", "lookup", "lookup", "lookup", "iter", "iter", "iter", "meta", "idle", "idle", "close"}
	for i := 0; i < nt; i++ {
		var tp TaskPlan
		n := r.Range(1, 4)
		for j := 0; j < n; j++ {
			tp.Ops = append(tp.Ops, Op{Kind: kinds[r.Intn(len(kinds))], File: r.Intn(p.Files), Reads: r.Range(0, 5), Arg: r.Intn(1 << 16)})
			total++
		}
		p.Tasks = append(p.Tasks, tp)
	}
	if r.Chance(1, 5) {
		for i := r.Range(1, 2); i > 0; i-- {
			p.OpenFail = append(p.OpenFail, r.Range(1, 10))
		}
	}
	est := 30 * total
	if r.Chance(1, 3) {
		n := r.Range(10, est)
		for i := 0; i < n; i++ {
			p.Sched.Uniform = append(p.Sched.Uniform, r.Intn(8))
		}
	} else {
		np := r.Range(0, 10)
		for i := 0; i < np; i++ {
			p.Sched.Preempts = append(p.Sched.Preempts, sched.Preempt{At: r.Intn(est), Pick: r.Intn(8)})
		}
	}
	for i := 0; i < 8; i++ {
		p.Sched.Fallback = append(p.Sched.Fallback, r.Intn(8))
	}
	if r.Bool() {
		at := 0
		for i := r.Range(1, 3); i > 0; i-- {
			at += r.Intn(est/2 + 1)
			p.Sched.TimeSteps = append(p.Sched.TimeSteps, sched.TimeStep{At: at, Ms: r.Pick2(1, 500, 999, 1000, 1001, 2500)})
		}
	}
	return p
}
