//go:build verif

package c24

import (
	"bytes"
	"crypto"
	"fmt"
	"path"
	"sort"
	"strings"
	"sync"

	"github.com/go-git/go-git/v6/plumbing"
	"github.com/go-git/go-git/v6/plumbing/cache"
	"github.com/go-git/go-git/v6/plumbing/format/idxfile"
	"github.com/go-git/go-git/v6/plumbing/format/packfile"
	githash "github.com/go-git/go-git/v6/plumbing/hash"
	"github.com/go-git/go-git/v6/storage/filesystem"
	"github.com/go-git/go-git/v6/storage/memory"
	"github.com/go-git/go-git/v6/verifsim/simfs"
)

// fixture is one real pack triple (bytes produced by go-git's own pack
// encoder, idx writer and rev encoder through filesystem.PackfileWriter on a
// simulated disk, once per process) plus the model the lookups are compared
// with: the entries of the idx decoded with the in-memory decoder.
type fixture struct {
	name     string
	hash     plumbing.Hash
	pack     []byte
	idx      []byte
	rev      []byte
	entries  []fxEntry // hash order (as in the idx)
	byOffset []fxEntry // pack-offset order (as the rev file lists them)
	absent   []plumbing.Hash
}

type fxEntry struct {
	h   plumbing.Hash
	off int64
	crc uint32
}

var (
	fxOnce sync.Once
	fxAll  []*fixture
	fxErr  error
)

func fixtures() ([]*fixture, error) {
	fxOnce.Do(func() {
		for i, n := range []int{5, 9} {
			f, err := buildFixture(fmt.Sprintf("fx%d", i), n, i)
			if err != nil {
				fxErr = err
				return
			}
			fxAll = append(fxAll, f)
		}
	})
	return fxAll, fxErr
}

func buildFixture(name string, nobj, salt int) (*fixture, error) {
	ms := memory.NewStorage()
	var hs []plumbing.Hash
	for i := 0; i < nobj; i++ {
		eo := ms.NewEncodedObject()
		eo.SetType(plumbing.BlobObject)
		data := []byte(strings.Repeat(fmt.Sprintf("pack %d object %d\n", salt, i), 1+(i*7+salt)%5))
		eo.SetSize(int64(len(data)))
		w, err := eo.Writer()
		if err != nil {
			return nil, err
		}
		if _, err := w.Write(data); err != nil {
			return nil, err
		}
		if err := w.Close(); err != nil {
			return nil, err
		}
		h, err := ms.SetEncodedObject(eo)
		if err != nil {
			return nil, err
		}
		hs = append(hs, h)
	}
	var buf bytes.Buffer
	if _, err := packfile.NewEncoder(&buf, ms, false).Encode(hs, 10); err != nil {
		return nil, err
	}
	d := simfs.NewDisk()
	st := filesystem.NewStorageWithOptions(d.FS("/fx.git", "setup"), cache.NewObjectLRUDefault(), filesystem.Options{})
	pw, err := st.PackfileWriter()
	if err != nil {
		return nil, err
	}
	if _, err := pw.Write(buf.Bytes()); err != nil {
		pw.Close()
		return nil, err
	}
	if err := pw.Close(); err != nil {
		return nil, err
	}
	_ = st.Close()
	fx := &fixture{name: name}
	idxPath := ""
	for _, e := range d.List("/fx.git/objects/pack") {
		if e.Kind != "file" {
			continue
		}
		b := append([]byte(nil), e.Data...)
		base := path.Base(e.Path)
		switch {
		case strings.HasSuffix(base, ".pack"):
			fx.pack = b
			fx.hash = plumbing.NewHash(strings.TrimSuffix(strings.TrimPrefix(base, "pack-"), ".pack"))
		case strings.HasSuffix(base, ".idx"):
			fx.idx = b
			idxPath = e.Path
		case strings.HasSuffix(base, ".rev"):
			fx.rev = b
		}
	}
	if len(fx.pack) == 0 || len(fx.idx) == 0 || len(fx.rev) == 0 || fx.hash.IsZero() {
		return nil, fmt.Errorf("fixture %s: pack %d idx %d rev %d bytes, hash %v", name, len(fx.pack), len(fx.idx), len(fx.rev), fx.hash)
	}
	mi := idxfile.NewMemoryIndex(fx.hash.Size())
	idxF, err := d.FS("/", "setup").Open(idxPath)
	if err != nil {
		return nil, err
	}
	err = idxfile.NewDecoder(idxF, githash.New(crypto.SHA1)).Decode(mi)
	_ = idxF.Close()
	if err != nil {
		return nil, fmt.Errorf("fixture %s: decoding the idx: %w", name, err)
	}
	it, err := mi.Entries()
	if err != nil {
		return nil, err
	}
	for {
		e, err := it.Next()
		if err != nil {
			break
		}
		fx.entries = append(fx.entries, fxEntry{h: e.Hash, off: int64(e.Offset), crc: e.CRC32})
	}
	_ = it.Close()
	if len(fx.entries) != nobj {
		return nil, fmt.Errorf("fixture %s: %d entries decoded, want %d", name, len(fx.entries), nobj)
	}
	fx.byOffset = append([]fxEntry(nil), fx.entries...)
	sort.Slice(fx.byOffset, func(i, j int) bool { return fx.byOffset[i].off < fx.byOffset[j].off })
	// absent hashes: one in an empty fanout bucket (answered without I/O), one
	// in an occupied bucket (needs the names table), one below and one above
	// every name of its bucket
	present := map[string]bool{}
	bucket := map[byte]bool{}
	for _, e := range fx.entries {
		present[e.h.String()] = true
		bucket[e.h.Bytes()[0]] = true
	}
	for b := 0; b < 256; b++ {
		if !bucket[byte(b)] {
			raw := bytes.Repeat([]byte{byte(b)}, fx.hash.Size())
			var h plumbing.Hash
			h.ResetBySize(fx.hash.Size())
			_, _ = h.Write(raw)
			fx.absent = append(fx.absent, h)
			break
		}
	}
	for _, tail := range []byte{0x00, 0xff} {
		raw := append([]byte{fx.entries[len(fx.entries)/2].h.Bytes()[0]}, bytes.Repeat([]byte{tail}, fx.hash.Size()-1)...)
		var h plumbing.Hash
		h.ResetBySize(fx.hash.Size())
		_, _ = h.Write(raw)
		if !present[h.String()] {
			fx.absent = append(fx.absent, h)
		}
	}
	return fx, nil
}
