//go:build verif

// C24 — an acquired pack descriptor is never closed under its reader.
//
// Two configurations, chosen per plan (Plan.Handles).
//
// (1) SharedFile level (this file). Real code: internal/sharedfile, x/fdpool.
// Stub: the files (fake descriptors that know whether they are open and who
// holds them). Reader tasks acquire/read/release, an evictor calls ReleaseNow,
// a closer closes and re-creates shared files, the clock crosses the grace
// period. Every hooked lock and every fake open/read is a scheduling point
// chosen by the seeded driver.
//
// (2) PackHandle level (handles_test.go, fixture_test.go). Real code:
// internal/packhandle (PackHandle, cursorReader, Meta, Index, Close through its
// sync.Once, CloseIdleDescriptors, size cache), idxfile.LazyIndex (init, lookups,
// iterators, CloseIdleDescriptors, Close), internal/sharedfile, x/fdpool - 1-3
// PackHandles on ONE pool (nil, fdpool.New(0), capacity 1-4). Stub: the files,
// which serve REAL bytes: two pack triples built once per process by go-git's
// own pack encoder + PackfileWriter (idx writer, rev encoder) on a simulated
// disk; the LazyIndex parses the idx/rev it reads through the fakes. Index
// wiring is a plan field: PackHandle.Index() (idx/rev NOT pooled: packhandle
// calls NewLazyIndex) or the storage layer's wiring (a LazyIndex built with
// NewLazyIndexWithPool on the same pool, so pack, idx and rev of one pack compete
// for slots). Tasks: streaming cursors (Read/Seek/ReadAt, several reads while
// held, lookups and Meta while held, Close twice), random cursors, index lookups
// (FindOffset present/absent, Contains, FindCRC32, FindHash = rev file,
// MayContain/Count; through a fresh Index() or a value kept from an earlier call),
// iterators held over several Next (Entries, EntriesByOffset = idx+rev pinned),
// Meta, CloseIdleDescriptors, Close + re-creation of the handle at its position,
// transient open failures, clock steps around the 1 s grace period.
// Scheduling points: simhook.BeforeLock sites of sharedfile/fdpool/packhandle
// (SharedFile.mu, Pool.mu, metaMu, indexMu), the OnceEnter bracket of
// PackHandle.Close, every fake open/stat/read. The lock hook is a copy of
// hooks.Install that also observes WHICH lock is requested from where: this
// identifies SharedFile values (address of SharedFile.mu seen just before the
// opener runs), evictions in flight (Pool.Touch -> ReleaseNow lock requested,
// Touch's re-lock not yet) and the all-pinned fallback.
//
// Oracle (both): (I1) a read through an acquired descriptor / cursor / lookup /
// iterator never fails unless Close of the owning SharedFile / PackHandle /
// LazyIndex was invoked earlier in the event order (or the plan injected an open
// failure into that call), a descriptor is never closed while a holder is known
// or a read is in progress on it, and - handles - every byte, count, offset and
// lookup answer equals the real content; (I2) at every quiescent step: open
// pooled descriptors <= capacity + members pinned (a call that acquires has been
// invoked and the call that releases has not returned) + evictions in flight;
// (I3) once everything stopped, descriptors no evicting pool governs are closed
// within grace+1ms, pooled ones are <= capacity; (I4) after every owner is
// closed: nothing open, nothing closed twice, nothing opened after its owner's
// Close returned.
//
// Deliberately not judged: errors of OpenPackReader/OpenRandomReader themselves
// (no descriptor was handed out; counted), the pool's LRU bookkeeping
// (stale-closed-member-left-in-pool is a probe), how often Source.Size is
// called. packhandle itself never reads .rev: only LazyIndex does (header at
// init, FindHash, EntriesByOffset).
//
// Signatures: C24|closed-under-reader, C24|read-on-closed-descriptor[|cursor-read
// |cursor-readat|cursor-seek|lookup|iter-open|iter-next|meta|index-load],
// C24|double-close, C24|open-after-close, C24|over-capacity,
// C24|over-capacity-at-rest, C24|idle-not-closed|<nil-pool|noop-pool|handle-index-unpooled>,
// C24|leak-after-close, C24|handle|wrong-bytes|<cursor-read|cursor-readat|cursor-seek>,
// C24|handle|wrong-answer|<find-offset|contains-crc|find-hash|may-contain|iter|meta>,
// C24|handle|unexpected-error|<what>, C24|deadlock, C24|panic.
package c24

import (
	"errors"
	"fmt"
	"io"
	"io/fs"
	"strconv"
	"testing"
	"time"
	"unsafe"

	"github.com/go-git/go-git/v6/internal/sharedfile"
	"github.com/go-git/go-git/v6/verifsim/core"
	"github.com/go-git/go-git/v6/verifsim/hooks"
	"github.com/go-git/go-git/v6/verifsim/sched"
	"github.com/go-git/go-git/v6/x/fdpool"
)

type Op struct {
	Kind  string `json:"kind"` // use | evict | close; with Plan.Handles: cursor | random | lookup | iter | meta | idle | close
	File  int    `json:"file"`
	Reads int    `json:"reads"`
	Arg   int    `json:"arg,omitempty"` // Plan.Handles only: selects read modes, offsets, lengths, hashes
}

type TaskPlan struct {
	Ops []Op `json:"ops"`
}

type Plan struct {
	PoolCap  int            `json:"pool_cap"` // -1 nil pool, 0 fdpool.New(0), >0 capacity
	Files    int            `json:"files"`
	Tasks    []TaskPlan     `json:"tasks"`
	OpenFail []int          `json:"open_fail"` // ordinals (1-based) of open() calls that fail transiently
	Sched    sched.Schedule `json:"sched"`
	// Handles selects the second configuration (handles_test.go): Files is the
	// number of PackHandle positions (1-3) and the ops are handle operations.
	Handles bool `json:"handles,omitempty"`
	// StorageIdx (Handles only): index lookups go through a LazyIndex built with
	// NewLazyIndexWithPool on the same pool (the storage layer's wiring) instead
	// of PackHandle.Index() (whose idx/rev files are not pooled).
	StorageIdx bool `json:"storage_idx,omitempty"`
}

const grace = time.Second

// share of the generated plans that use the PackHandle configuration
const handleShareNum, handleShareDen = 1, 3

func genPlan(r *core.Rand, tier string) any {
	if r.Chance(handleShareNum, handleShareDen) {
		return genHandlePlan(r, tier)
	}
	p := &Plan{PoolCap: []int{-1, 0, 1, 1, 2, 2, 3}[r.Intn(7)], Files: r.Range(2, 5)}
	nt := r.Range(2, 5)
	total := 0
	for i := 0; i < nt; i++ {
		var tp TaskPlan
		n := r.Range(1, 4)
		for j := 0; j < n; j++ {
			op := Op{Kind: "use", File: r.Intn(p.Files), Reads: r.Range(0, 3)}
			switch k := r.Intn(12); {
			case k == 0:
				op.Kind = "evict"
			case k == 1:
				op.Kind = "close"
			}
			tp.Ops = append(tp.Ops, op)
			total++
		}
		p.Tasks = append(p.Tasks, tp)
	}
	if r.Chance(1, 5) {
		p.OpenFail = append(p.OpenFail, r.Range(1, 6))
	}
	est := 14 * total
	if r.Chance(1, 3) {
		n := r.Range(10, est)
		for i := 0; i < n; i++ {
			p.Sched.Uniform = append(p.Sched.Uniform, r.Intn(8))
		}
	} else {
		np := r.Range(0, 8)
		for i := 0; i < np; i++ {
			p.Sched.Preempts = append(p.Sched.Preempts, sched.Preempt{At: r.Intn(est), Pick: r.Intn(8)})
		}
	}
	for i := 0; i < 8; i++ {
		p.Sched.Fallback = append(p.Sched.Fallback, r.Intn(8))
	}
	if r.Bool() {
		at := 0
		for i := r.Range(1, 3); i > 0; i-- {
			at += r.Intn(est/2 + 1)
			p.Sched.TimeSteps = append(p.Sched.TimeSteps, sched.TimeStep{At: at, Ms: r.Pick2(1, 500, 999, 1000, 1001, 2500)})
		}
	}
	return p
}

// slot is one shared file position; the closer replaces sf.
type slot struct {
	sf          *sharedfile.SharedFile
	closeCalled bool // Close of the current sf was invoked (not necessarily returned)
	gen         int
}

type fakeFile struct {
	id          int
	slot        *slot
	slotGen     int
	open        bool
	closes      int
	openedAfter bool // opened after the owner's Close returned
}

type world struct {
	drv       *sched.Driver
	out       *core.Outcome
	slots     []*slot
	files     []*fakeFile
	holders   map[*fakeFile]int              // tasks between Acquire return and Release call
	acquiring map[*sharedfile.SharedFile]int // tasks between Acquire invocation and Release return, per SharedFile VALUE (two closers racing on one position can leave two live SharedFiles behind it)
	openCalls int
	openFail  map[int]bool
	closedSF  map[*sharedfile.SharedFile]bool // Close returned
	pool      *fdpool.Pool
	cap       int
	all       []*sharedfile.SharedFile
	inAcquire int // tasks currently inside an Acquire call
	sfLabel   map[uintptr]string
}

func (w *world) fail(sig, format string, args ...any) {
	w.out.Fail(sig, format, args...)
}

func (f *fakeFile) ReadAt(p []byte, off int64) (int, error) {
	w := theWorld
	w.drv.ParkUntil("", "file-readat", fmt.Sprintf("f%d", f.id), nil)
	if !f.open {
		return 0, fs.ErrClosed
	}
	return len(p), nil
}

func (f *fakeFile) Read(p []byte) (int, error) { return 0, io.EOF }

func (f *fakeFile) Close() error {
	w := theWorld
	f.closes++
	if f.closes > 1 {
		w.fail("C24|double-close", "descriptor f%d of slot %d closed %d times", f.id, slotIndex(w, f.slot), f.closes)
	}
	if w.holders[f] > 0 && !(f.slot.gen == f.slotGen && f.slot.closeCalled) && !w.slotClosedGen(f) {
		w.fail("C24|closed-under-reader", "descriptor f%d closed while %d reader(s) hold it and its owner was not closed", f.id, w.holders[f])
	}
	f.open = false
	return nil
}

// slotClosedGen: the SharedFile that opened f has had Close invoked.
func (w *world) slotClosedGen(f *fakeFile) bool { return f.slot.gen > f.slotGen }

func slotIndex(w *world, s *slot) int {
	for i, x := range w.slots {
		if x == s {
			return i
		}
	}
	return -1
}

var theWorld *world

func (w *world) newSF(s *slot) {
	gen := s.gen
	var sf *sharedfile.SharedFile
	open := func() (sharedfile.ReadAtCloser, error) {
		w.drv.ParkUntil("", "file-open", fmt.Sprintf("slot%d", slotIndex(w, s)), nil)
		w.openCalls++
		if w.openFail[w.openCalls] {
			w.out.Probe("open-failed-transiently")
			return nil, errors.New("transient open failure")
		}
		f := &fakeFile{id: len(w.files), slot: s, slotGen: gen, open: true}
		if w.closedSF[sf] {
			f.openedAfter = true
			w.fail("C24|open-after-close", "descriptor opened for slot %d after its SharedFile.Close returned", slotIndex(w, s))
		}
		w.files = append(w.files, f)
		return f, nil
	}
	sf = sharedfile.NewWithPool(open, grace, w.pool)
	// the SharedFile's mutex is its first field: its address is the SharedFile's
	// (only used to label lock requests; a wrong guess costs a label, nothing else)
	w.sfLabel[uintptr(unsafe.Pointer(sf))] = "sf" + strconv.Itoa(len(w.all))
	w.all = append(w.all, sf)
	s.sf = sf
	s.closeCalled = false
}

func (w *world) openCount() (open, pinned int) {
	for _, f := range w.files {
		if f.open {
			open++
		}
	}
	for _, sf := range w.all {
		if w.acquiring[sf] > 0 {
			pinned++
		}
	}
	return
}

func execPlan(t *testing.T, pa any) (out core.Outcome) {
	p := pa.(*Plan)
	if p.Handles {
		return execHandles(t, p)
	}
	if p.Files < 1 {
		p.Files = 1
	}
	if p.Files > 6 {
		p.Files = 6
	}
	var drv *sched.Driver
	var w *world
	panicked := sched.Bubble(t, func() {
		drv = sched.New(p.Sched)
		drv.MaxSteps = 4000
		w = &world{drv: drv, out: &out, holders: map[*fakeFile]int{}, acquiring: map[*sharedfile.SharedFile]int{}, openFail: map[int]bool{},
			closedSF: map[*sharedfile.SharedFile]bool{}, cap: p.PoolCap, sfLabel: map[uintptr]string{}}
		theWorld = w
		for _, n := range p.OpenFail {
			w.openFail[n] = true
		}
		switch {
		case p.PoolCap < 0:
			w.pool = nil
		default:
			w.pool = fdpool.New(p.PoolCap)
		}
		for i := 0; i < p.Files; i++ {
			s := &slot{}
			w.slots = append(w.slots, s)
			w.newSF(s)
		}
		// hooks.Install plus a label of the SharedFile in every lock request
		// (see installLockHooks)
		installLockHooks(drv, func(addr uintptr) string { return w.sfLabel[addr] }, nil, nil, nil)
		defer hooks.Uninstall()
		// I2 at every quiescent step
		drv.OnStep = func(step int) {
			if w.cap <= 0 {
				return
			}
			open, pinned := w.openCount()
			// An eviction in flight (victim unlinked from the LRU, its
			// ReleaseNow not yet executed) is charged to the task that is
			// inside Acquire and performing it.
			if open > w.cap+pinned+w.inAcquire {
				w.fail("C24|over-capacity", "step %d: %d descriptors open > capacity %d + %d pinned + %d acquire(s) with an eviction possibly in flight", step, open, w.cap, pinned, w.inAcquire)
			}
			if open > w.cap+pinned {
				out.Probe("open-above-capacity-plus-pinned-during-eviction")
			}
			if open > w.cap {
				out.Probe("open-above-capacity-while-pinned")
			}
		}
		var tasks []sched.Task
		for i, tp := range p.Tasks {
			if i >= 6 {
				break
			}
			i, tp := i, tp
			name := fmt.Sprintf("t%d", i)
			tasks = append(tasks, sched.Task{Name: name, Fn: func() {
				for k, op := range tp.Ops {
					if k >= 6 {
						break
					}
					s := w.slots[mod(op.File, len(w.slots))]
					switch op.Kind {
					case "evict":
						sf := s.sf
						err := sf.ReleaseNow()
						drv.Logf("%s ReleaseNow slot%d: %v", name, slotIndex(w, s), err)
						out.Probe("release-now")
					case "close":
						sf := s.sf
						s.closeCalled = true
						s.gen++
						err := sf.Close()
						w.closedSF[sf] = true
						drv.Logf("%s Close slot%d: %v", name, slotIndex(w, s), err)
						out.Probe("close")
						if s.sf == sf {
							w.newSF(s) // re-registration of the position with a fresh SharedFile
						}
					default:
						sf := s.sf
						w.acquiring[sf]++
						w.inAcquire++
						f, err := sf.Acquire()
						w.inAcquire--
						if err != nil {
							w.acquiring[sf]--
							drv.Logf("%s Acquire slot%d: %v", name, slotIndex(w, s), err)
							if errors.Is(err, sharedfile.ErrClosed) {
								out.Probe("acquire-after-close")
							}
							continue
						}
						ff := f.(*fakeFile)
						w.holders[ff]++
						drv.Logf("%s Acquire slot%d -> f%d", name, slotIndex(w, s), ff.id)
						reads := op.Reads
						if reads > 4 {
							reads = 4
						}
						for rI := 0; rI < reads; rI++ {
							buf := make([]byte, 4)
							_, err := f.ReadAt(buf, 0)
							if err != nil {
								ownerClosed := ff.slot.gen > ff.slotGen
								if !ownerClosed {
									w.fail("C24|read-on-closed-descriptor", "%s: ReadAt on f%d (slot %d) failed with %v while holding it; owner not closed", name, ff.id, slotIndex(w, s), err)
								} else {
									out.Probe("read-failed-after-owner-close")
								}
							}
						}
						w.holders[ff]--
						sf.Release()
						w.acquiring[sf]--
						drv.Logf("%s Release slot%d", name, slotIndex(w, s))
					}
				}
			}})
		}
		drv.Run(tasks)
		hooks.Uninstall()
		if drv.Aborted != "" {
			return
		}
		// bounded liveness once everything stopped: without an evicting pool,
		// idle descriptors are closed within the grace period
		time.Sleep(grace + time.Millisecond)
		if p.PoolCap <= 0 {
			for _, f := range w.files {
				if f.open {
					kind := "nil-pool"
					if p.PoolCap == 0 {
						kind = "noop-pool"
					}
					w.fail("C24|idle-not-closed|"+kind, "descriptor f%d (slot %d) still open %v after its last Release with no evicting pool", f.id, slotIndex(w, f.slot), grace+time.Millisecond)
					break
				}
			}
		} else {
			open, _ := w.openCount()
			if open > w.cap {
				w.fail("C24|over-capacity-at-rest", "%d descriptors open at rest > capacity %d", open, w.cap)
			}
		}
		// close everything: nothing may stay open, pool must be empty
		for _, sf := range w.all {
			_ = sf.Close()
			w.closedSF[sf] = true
		}
		for _, f := range w.files {
			if f.open {
				w.fail("C24|leak-after-close", "descriptor f%d (slot %d) still open after every SharedFile was closed", f.id, slotIndex(w, f.slot))
				break
			}
		}
		if w.pool != nil {
			if st := w.pool.Stats(); st.Active != 0 {
				// not part of the property as stated (no descriptor is open):
				// an Acquire racing Close registers the already-closed
				// SharedFile in the LRU after Close's Forget. Counted, not judged.
				out.Probe("stale-closed-member-left-in-pool")
			}
			st := w.pool.Stats()
			out.ProbeN("evictions", int(st.Evictions))
			out.ProbeN("pinned-skips", int(st.PinnedSkips))
		}
	})
	out.Steps = drv.Steps
	out.SimNS = int64(drv.Now())
	out.LogHash = drv.LogHash()
	out.SchedHash = drv.SchedHash()
	out.Trace = drv.Trace
	out.NonTrivial = drv.Switches > len(p.Tasks)
	out.ProbeN("context-switches", drv.Switches)
	if panicked != nil {
		out.Signature, out.Message = "", ""
		out.Inconclusive = "bubble-panic"
		out.Trace = append(out.Trace, fmt.Sprint(panicked))
		return out
	}
	if drv.Aborted != "" {
		if drv.Aborted == "deadlock" {
			out.Fail("C24|deadlock", "no task can make progress (all blocked) after %d steps", drv.Steps)
		} else {
			out.Signature, out.Message = "", ""
			out.Inconclusive = drv.Aborted
		}
		return out
	}
	for name, pv := range drv.TaskPanic {
		out.Fail("C24|panic", "task %s panicked: %v", name, pv)
	}
	return out
}

func mod(a, n int) int {
	a %= n
	if a < 0 {
		a += n
	}
	return a
}

func TestCheck(t *testing.T) {
	core.Main(t, core.Check{
		ID:    "C24",
		Level: "exploration",
		Rule: "two configurations, 2/3 and 1/3 of the plans. SharedFile level: pool kind (nil, no-op, capacity 1-3) x 2-5 shared files x 2-5 tasks of use(acquire, k reads, release)/ReleaseNow/Close+recreate ops x transient open failures x seeded schedule with clock steps around the 1s grace period. " +
			"PackHandle level (plan.handles): pool kind (nil, no-op, capacity 1-4) x 1-3 PackHandles over real pack/idx/rev bytes x index wiring (PackHandle.Index() | pooled LazyIndex as the storage layer builds it) x 2-4 tasks of 1-4 ops (streaming cursor, random cursor, index lookup, iterator, Meta, CloseIdleDescriptors, Close+re-create; 0-5 reads per cursor/iterator with offsets, lengths, seeks, hashes drawn from the plan) x transient open failures x the same schedule and clock steps; " +
			"non-trivial = more context switches than tasks; distinct = distinct plan JSON",
		Assumptions: []string{"files are fakes that record open/closed state and holders (PackHandle level: and serve the real bytes of two pack triples produced by go-git's encoder and pack writer); 'pinned by readers' counts, per SharedFile value, tasks between the invocation of the call that acquires (Acquire, OpenPackReader, Meta, a lookup, an iterator constructor) and the return of the call that releases",
			"a victim whose eviction is in flight is allowed on top of capacity + pinned: SharedFile level, one per task inside Acquire; PackHandle level, exactly the tasks between Pool.Touch's request for the victim's ReleaseNow lock and Touch's re-lock (observed through the lock hook)",
			"'idle handles are eventually closed' is checked for SharedFiles without an evicting pool (nil pool, fdpool.New(0), and the idx/rev files behind PackHandle.Index(), which packhandle never registers with the pool) as closed within grace+1ms once all activity stopped; with an evicting pool, as open <= capacity at rest",
			"a failing OpenPackReader/OpenRandomReader hands out no descriptor and is therefore not judged (counted)"},
		Real: []string{"internal/sharedfile.SharedFile", "x/fdpool.Pool", "internal/packhandle.PackHandle + cursorReader (OpenPackReader, OpenRandomReader, Meta, Index, CloseIdleDescriptors, Close)", "plumbing/format/idxfile.LazyIndex (init, lookups, iterators, CloseIdleDescriptors, Close) over real idx/rev bytes",
			"setup only: packfile.Encoder, filesystem PackfileWriter (idx writer, revfile encoder), idxfile.Decoder for the lookup model"},
		Stub:    []string{"file descriptors (fakes; PackHandle level: fakes serving real pack/idx/rev bytes)", "clock (synctest)", "scheduler (seeded driver via simhook.BeforeLock / OnceEnter and every fake open, stat, read)"},
		Runs:    map[string]int{"quick": 225000, "thorough": 4500000},
		NewPlan: func() any { return &Plan{} },
		Gen:     genPlan,
		Exec:    execPlan,
		RequiredProbes: []string{"evictions", "pinned-skips", "release-now", "close", "acquire-after-close", "open-above-capacity-while-pinned",
			"handle-config-runs", "pool-eviction-observed", "handle-cursor-read-after-idx-evicted", "all-pinned-fallback-within-one-handle", "handle-closed-while-cursor-held",
			"index-loaded-through-fake-file", "rev-file-used", "re-registration-after-close", "grace-close-of-handle-file-then-reopen",
			"lookup-reopened-idx-after-eviction", "index-usable-while-cursor-held", "lookup-through-kept-index-value", "close-idle"},
	})
}
