//go:build verif

package c27

// Reference model of `git status --porcelain=v1 --untracked-files=all
// --ignored=no` (renames off) as a function of CONTENT: the HEAD tree, the
// index entries (path, mode, blob id, intent-to-add flag), the worktree image
// (bytes, exec bits, link targets, directories), the ignore files and
// core.fileMode / core.autocrlf. It never decides from timestamps or sizes:
// git is always right in the end because it re-hashes whatever its stat data
// cannot vouch for, so content truth is what git reports (the one place where
// git lets a recorded size overrule the content is left unjudged, see
// gitStatusModel). The model knows nothing of
// go-git; blob ids are sha1 over git's object framing. The worktree/ignore
// part is copied from checks/c28 (validated against git 2.39 there) and the
// whole model is validated against real git on exported snapshots
// (gitoracle_test.go).

import (
	"crypto/sha1"
	"encoding/hex"
	"fmt"
	"path"
	"sort"
	"strings"
	"time"
)

// node is one worktree entry: 'f' regular file, 'l' symlink, 'd' directory.
type node struct {
	kind byte
	exec bool
	data string // content or link target
}

// wtree is a worktree image: path -> node, directories included, ".git" and
// the root excluded.
type wtree map[string]node

// hent is one entry of the HEAD tree.
type hent struct {
	mode uint32
	id   string
}

// xent is one stage-0 index entry; mtime and size are the recorded stat data
// (used for classification and probes only, never by the model).
type xent struct {
	mode  uint32
	id    string
	ita   bool
	mtime time.Time
	size  uint32
}

func sortedKeys[V any](m map[string]V) []string {
	keys := make([]string, 0, len(m))
	for k := range m {
		keys = append(keys, k)
	}
	sort.Strings(keys)
	return keys
}

func blobID(data string) string {
	h := sha1.New()
	fmt.Fprintf(h, "blob %d\x00%s", len(data), data)
	return hex.EncodeToString(h.Sum(nil))
}

var emptyBlob = blobID("")

// ---- ignore rules (from checks/c28, plus info/exclude) ----------------------

type ipat struct {
	base     string // directory of the .gitignore ("" = root)
	neg      bool
	dirOnly  bool
	anchored bool
	segs     []string
}

type ignorer struct{ pats []ipat }

func parseIgnore(ig *ignorer, base, text string) {
	for _, line := range strings.Split(text, "\n") {
		line = strings.TrimRight(line, " \r")
		if line == "" || strings.HasPrefix(line, "#") {
			continue
		}
		p := ipat{base: base}
		if strings.HasPrefix(line, "!") {
			p.neg = true
			line = line[1:]
		}
		if strings.HasSuffix(line, "/") {
			p.dirOnly = true
			line = strings.TrimRight(line, "/")
		}
		if strings.HasPrefix(line, "/") {
			p.anchored = true
			line = strings.TrimLeft(line, "/")
		}
		if strings.Contains(line, "/") {
			p.anchored = true
		}
		if line == "" {
			continue
		}
		p.segs = strings.Split(line, "/")
		ig.pats = append(ig.pats, p)
	}
}

// newIgnorer: $GIT_DIR/info/exclude first (lowest precedence), then every
// regular .gitignore of the image, root first, deeper files later.
func newIgnorer(w wtree, exclude string) *ignorer {
	var files []string
	for p, n := range w {
		if n.kind == 'f' && isIgnoreFile(p) {
			files = append(files, p)
		}
	}
	sort.Slice(files, func(i, j int) bool {
		di, dj := strings.Count(files[i], "/"), strings.Count(files[j], "/")
		if di != dj {
			return di < dj
		}
		return files[i] < files[j]
	})
	ig := &ignorer{}
	parseIgnore(ig, "", exclude)
	for _, f := range files {
		base := path.Dir(f)
		if base == "." {
			base = ""
		}
		parseIgnore(ig, base, w[f].data)
	}
	return ig
}

func isIgnoreFile(p string) bool { return p == ".gitignore" || strings.HasSuffix(p, "/.gitignore") }

// starMatch: '*' matches any run of characters (the subject never contains
// '/'), everything else is literal.
func starMatch(pat, s string) bool {
	for len(pat) > 0 {
		if pat[0] == '*' {
			for len(pat) > 0 && pat[0] == '*' {
				pat = pat[1:]
			}
			if pat == "" {
				return true
			}
			for i := 0; i <= len(s); i++ {
				if starMatch(pat, s[i:]) {
					return true
				}
			}
			return false
		}
		if s == "" || pat[0] != s[0] {
			return false
		}
		pat, s = pat[1:], s[1:]
	}
	return s == ""
}

// verdict for one path level: 0 no pattern matched, 1 excluded, -1 re-included.
func (ig *ignorer) level(p string, isDir bool) int {
	v := 0
	for _, pt := range ig.pats {
		rel := p
		if pt.base != "" {
			if !strings.HasPrefix(p, pt.base+"/") {
				continue
			}
			rel = p[len(pt.base)+1:]
		}
		if pt.dirOnly && !isDir {
			continue
		}
		ok := false
		if !pt.anchored {
			ok = starMatch(pt.segs[0], path.Base(rel))
		} else {
			comps := strings.Split(rel, "/")
			if len(comps) == len(pt.segs) {
				ok = true
				for i := range comps {
					if !starMatch(pt.segs[i], comps[i]) {
						ok = false
						break
					}
				}
			}
		}
		if ok {
			if pt.neg {
				v = -1
			} else {
				v = 1
			}
		}
	}
	return v
}

// ignored: git's rule — the last matching pattern decides, and a path below
// an excluded directory cannot be re-included.
func (ig *ignorer) ignored(p string, isDir bool) bool {
	comps := strings.Split(p, "/")
	for i := 1; i <= len(comps); i++ {
		sub := strings.Join(comps[:i], "/")
		dir := i < len(comps) || isDir
		if ig.level(sub, dir) == 1 {
			return true
		}
	}
	return false
}

// ---- worktree helpers -----------------------------------------------------------

func parent(p string) string {
	d := path.Dir(p)
	if d == "." {
		return ""
	}
	return d
}

func (w wtree) hasChildren(dir string) bool {
	for p := range w {
		if strings.HasPrefix(p, dir+"/") {
			return true
		}
	}
	return false
}

// blockedParent: a proper ancestor of p exists and is not a directory (a
// file or a symlink stands where the path needs a directory).
func (w wtree) blockedParent(p string) bool {
	for a := parent(p); a != ""; a = parent(a) {
		if n, ok := w[a]; ok && n.kind != 'd' {
			return true
		}
	}
	return false
}

func hasUnder[V any](x map[string]V, dir string) bool {
	for p := range x {
		if strings.HasPrefix(p, dir+"/") {
			return true
		}
	}
	return false
}

// ---- line-ending conversion (core.autocrlf=input, no attributes) ----------------

// simpleText: printable ASCII, tabs, LF and CRLF only. On such content git's
// and any reasonable text/binary heuristic agree ("text"); anything else that
// contains a CR is left unjudged by the model.
func simpleText(s string) bool {
	for i := 0; i < len(s); i++ {
		c := s[i]
		switch {
		case c == '\n' || c == '\t' || (c >= 0x20 && c <= 0x7e):
		case c == '\r' && i+1 < len(s) && s[i+1] == '\n':
		default:
			return false
		}
	}
	return true
}

// cleanID is the blob id git would compute for a worktree file ("clean"
// conversion). ok=false: the model does not claim to know.
//
// git 2.39 (convert.c, crlf_to_git): with core.autocrlf=input and no
// attributes CRLF becomes LF when the content is text, unless the blob the
// index holds for the path already contains CRLF (has_crlf_in_index).
func cleanID(data string, crlf bool, idxBlob string, idxKnown, inIndex bool) (string, bool) {
	if !crlf || !strings.Contains(data, "\r") {
		return blobID(data), true
	}
	if !simpleText(data) {
		return "", false
	}
	if inIndex {
		if !idxKnown {
			return "", false
		}
		if strings.Contains(idxBlob, "\r") {
			if !simpleText(idxBlob) {
				return "", false
			}
			return blobID(data), true // index has CRLF: no conversion
		}
	}
	return blobID(strings.ReplaceAll(data, "\r\n", "\n")), true
}

// ---- the status model ------------------------------------------------------------

type cfgT struct {
	fileMode bool
	crlf     bool
}

// pstat is what git reports for one path: X (HEAD vs index), Y (index vs
// worktree) and whether a separate "??" line is printed for it.
type pstat struct {
	x, y      byte
	untracked bool
}

func typeOf(mode uint32) uint32 { return mode & 0o170000 }

// gitStatusModel computes git's report. unmodelled lists paths the model does
// not judge (line-ending conversion of content it does not classify).
func gitStatusModel(H map[string]hent, X map[string]xent, W wtree, ig *ignorer, cfg cfgT, blobs map[string]string) (st map[string]pstat, unmodelled map[string]bool) {
	st = map[string]pstat{}
	unmodelled = map[string]bool{}
	get := func(p string) pstat {
		if s, ok := st[p]; ok {
			return s
		}
		return pstat{x: ' ', y: ' '}
	}
	// X column: HEAD tree against the index; intent-to-add entries are
	// invisible on this side (git 2.39: `git add -N f` shows " A f").
	names := map[string]bool{}
	for p := range H {
		names[p] = true
	}
	for p := range X {
		names[p] = true
	}
	for _, p := range sortedKeys(names) {
		h, inH := H[p]
		e, inX := X[p]
		if inX && e.ita {
			inX = false
		}
		s := get(p)
		switch {
		case inH && !inX:
			s.x = 'D'
		case !inH && inX:
			s.x = 'A'
		case inH && inX && typeOf(h.mode) != typeOf(e.mode):
			s.x = 'T'
		case inH && inX && (h.mode != e.mode || h.id != e.id):
			s.x = 'M'
		}
		if s.x != ' ' {
			st[p] = s
		}
	}
	// Y column: index against the worktree.
	for _, p := range sortedKeys(X) {
		e := X[p]
		n, present := W[p]
		s := get(p)
		switch {
		case !present || n.kind == 'd' || W.blockedParent(p):
			// git 2.39 (check_removed): missing, a directory where a blob is
			// tracked, or beyond a symlink / below a file = deleted
			s.y = 'D'
		case e.ita:
			s.y = 'A'
		default:
			wmode := uint32(0o100644)
			if n.kind == 'l' {
				wmode = 0o120000
			} else if n.exec {
				wmode = 0o100755
			}
			if typeOf(wmode) != typeOf(e.mode) {
				s.y = 'T'
				break
			}
			if typeOf(e.mode) == 0o160000 {
				break // gitlinks are not generated
			}
			id := blobID(n.data)
			if n.kind == 'f' {
				ib, known := blobs[e.id]
				var ok bool
				id, ok = cleanID(n.data, cfg.crlf, ib, known, true)
				if !ok {
					unmodelled[p] = true
					break
				}
				if !cfg.fileMode {
					wmode = e.mode // core.fileMode=false: the exec bit of the file is not looked at
				}
			}
			if id != e.id || wmode != e.mode {
				s.y = 'M'
			} else if e.size != 0 && int(e.size) != len(n.data) {
				// git 2.39 (ie_modified): a recorded non-zero size that differs
				// from the file's is taken as proof of a modification without
				// looking at the content. With line-ending conversion the
				// recorded size (of the file as it was) and the blob can belong
				// to content the file has again in another form, and git lists
				// it as modified until the index is refreshed. That is git's
				// stat heuristic speaking, not the content: not judged.
				unmodelled[p] = true
			}
		}
		if s.x != ' ' || s.y != ' ' {
			st[p] = s
		}
	}
	// untracked files (-uall): every non-directory that has no index entry and
	// is not ignored; directories are never listed, empty or not.
	for _, p := range sortedKeys(W) {
		n := W[p]
		if n.kind == 'd' {
			continue
		}
		if _, tracked := X[p]; tracked {
			continue
		}
		if ig.ignored(p, false) {
			continue
		}
		s := get(p)
		s.untracked = true
		st[p] = s
	}
	return st, unmodelled
}

// gitLines renders the model's report the way `git status --porcelain=v1`
// prints it (one "XY path" line per path, plus "?? path" lines).
func gitLines(st map[string]pstat) []string {
	var out []string
	for _, p := range sortedKeys(st) {
		s := st[p]
		if s.x != ' ' || s.y != ' ' {
			out = append(out, fmt.Sprintf("%c%c %s", s.x, s.y, p))
		}
		if s.untracked {
			out = append(out, "?? "+p)
		}
	}
	sort.Strings(out)
	return out
}

// expectedPairs maps git's report onto go-git's Status type: one
// (Staging, Worktree) pair per path.
//
//   - untracked is ('?','?') (go-git's representation of "??");
//   - git's 'T' (type changed) has no StatusCode in go-git and is expected as
//     'M' (counted by a probe, not judged);
//   - a path that git lists twice ("D  p" and "?? p": removed from the index
//     while the file is still there) is expected as ('D','?'), the pair that
//     carries both facts.
func expectedPairs(st map[string]pstat) map[string]string {
	out := map[string]string{}
	norm := func(c byte) byte {
		if c == 'T' {
			return 'M'
		}
		return c
	}
	for p, s := range st {
		x, y := norm(s.x), norm(s.y)
		if s.untracked {
			y = '?'
			if x == ' ' {
				x = '?'
			}
		}
		if x == ' ' && y == ' ' {
			continue
		}
		out[p] = string([]byte{x, y})
	}
	return out
}
