//go:build verif

package c27

// Real git (2.39) as a second oracle FOR THE MODEL: a state of the simulated
// disk is exported to a scratch directory under /var/tmp (file mtimes
// preserved) and `git status --porcelain=v1 -z --untracked-files=all
// --ignored=no` is run there with a pinned environment. git sees real stat
// data (ctime, inode, uid differ from what the index records), so it
// re-hashes every tracked file: what it prints is content truth. It is never
// a party inside a run and it never judges go-git; a difference between its
// output and the model's is an oracle disagreement.

import (
	"bytes"
	"fmt"
	"os"
	"os/exec"
	"path/filepath"
	"sort"
	"strings"

	"github.com/go-git/go-git/v6/verifsim/simfs"
)

var gitPath, gitLooked = "", false

// gitSession is one run's scratch directory. The object store only grows
// during a run, so objects are exported once; everything else is rewritten
// for every state.
type gitSession struct {
	top, dir, home string
	objects        map[string]bool
}

func (g *gitSession) close() {
	if g != nil && g.top != "" {
		_ = os.RemoveAll(g.top)
	}
}

func newGitSession() *gitSession {
	if !gitLooked {
		gitLooked = true
		if p, err := exec.LookPath("git"); err == nil {
			gitPath = p
		}
	}
	if gitPath == "" {
		return nil
	}
	top, err := os.MkdirTemp("/var/tmp", "c27-git-")
	if err != nil {
		return nil
	}
	g := &gitSession{top: top, dir: filepath.Join(top, "r"), home: filepath.Join(top, "h"), objects: map[string]bool{}}
	if os.MkdirAll(g.dir, 0o755) != nil || os.MkdirAll(g.home, 0o755) != nil {
		g.close()
		return nil
	}
	return g
}

// export mirrors the image of /w into the scratch repository, file mtimes
// preserved.
func (g *gitSession) export(d *simfs.Disk) error {
	clear := func(dir, keep string) error {
		ents, err := os.ReadDir(dir)
		if err != nil {
			if os.IsNotExist(err) {
				return nil
			}
			return err
		}
		for _, e := range ents {
			if e.Name() == keep {
				continue
			}
			if err := os.RemoveAll(filepath.Join(dir, e.Name())); err != nil {
				return err
			}
		}
		return nil
	}
	if err := clear(g.dir, ".git"); err != nil {
		return err
	}
	if err := clear(filepath.Join(g.dir, ".git"), "objects"); err != nil {
		return err
	}
	for _, e := range d.List("/w") {
		rel := strings.TrimPrefix(e.Path, "/w/")
		isObj := strings.HasPrefix(rel, ".git/objects/")
		if isObj && g.objects[rel] {
			continue
		}
		dst := filepath.Join(g.dir, filepath.FromSlash(rel))
		switch e.Kind {
		case "dir":
			if err := os.MkdirAll(dst, 0o755); err != nil {
				return err
			}
		case "link":
			if err := os.MkdirAll(filepath.Dir(dst), 0o755); err != nil {
				return err
			}
			if err := os.Symlink(e.Target, dst); err != nil {
				return err
			}
		default:
			if err := os.MkdirAll(filepath.Dir(dst), 0o755); err != nil {
				return err
			}
			m := e.Mode
			if m == 0 {
				m = 0o644
			}
			if err := os.WriteFile(dst, e.Data, m|0o600); err != nil {
				return err
			}
			if err := os.Chmod(dst, m|0o600); err != nil {
				return err
			}
			_ = os.Chtimes(dst, e.MTime, e.MTime)
		}
		if isObj && e.Kind != "dir" {
			g.objects[rel] = true
		}
	}
	return nil
}

// gitOracle returns "" when git prints exactly the model's lines (paths in
// skip excepted), "unavailable" when git cannot be run, or a description of
// the first difference.
func gitOracle(g *gitSession, d *simfs.Disk, model []string, skip map[string]bool) string {
	if g == nil {
		return "unavailable"
	}
	if err := g.export(d); err != nil {
		return "unavailable"
	}
	top, dir, home := g.top, g.dir, g.home
	cmd := exec.Command(gitPath, "-c", "status.renames=false", "-c", "diff.renames=false", "-c", "core.symlinks=true", "-c", "core.ignoreCase=false", "-c", "core.untrackedCache=false", "-c", "core.fsmonitor=false",
		"status", "--porcelain=v1", "-z", "--untracked-files=all", "--ignored=no")
	cmd.Dir = dir
	cmd.Env = []string{"PATH=" + os.Getenv("PATH"), "HOME=" + home, "GIT_CONFIG_NOSYSTEM=1", "GIT_CONFIG_GLOBAL=/dev/null", "LC_ALL=C", "TZ=UTC", "GIT_OPTIONAL_LOCKS=0", "GIT_TERMINAL_PROMPT=0",
		"GIT_AUTHOR_NAME=Sim", "GIT_AUTHOR_EMAIL=sim@example.com", "GIT_COMMITTER_NAME=Sim", "GIT_COMMITTER_EMAIL=sim@example.com", "GIT_AUTHOR_DATE=1600000000 +0000", "GIT_COMMITTER_DATE=1600000000 +0000"}
	var stdout, stderr bytes.Buffer
	cmd.Stdout, cmd.Stderr = &stdout, &stderr
	if err := cmd.Run(); err != nil {
		line := strings.SplitN(strings.TrimSpace(stderr.String()), "\n", 2)[0]
		return fmt.Sprintf("git status failed: %v: %s", err, strings.ReplaceAll(line, top, "<tmp>"))
	}
	var got []string
	for _, rec := range strings.Split(stdout.String(), "\x00") {
		if len(rec) < 4 {
			continue
		}
		got = append(got, rec)
	}
	sort.Strings(got)
	keep := func(lines []string) []string {
		var out []string
		for _, l := range lines {
			if len(l) >= 4 && skip[l[3:]] {
				continue
			}
			out = append(out, l)
		}
		return out
	}
	a, b := keep(model), keep(got)
	inA := map[string]bool{}
	for _, l := range a {
		inA[l] = true
	}
	inB := map[string]bool{}
	for _, l := range b {
		inB[l] = true
	}
	var diff []string
	for _, l := range a {
		if !inB[l] {
			diff = append(diff, "model only: "+fmt.Sprintf("%q", l))
		}
	}
	for _, l := range b {
		if !inA[l] {
			diff = append(diff, "git only: "+fmt.Sprintf("%q", l))
		}
	}
	if len(diff) == 0 {
		return ""
	}
	if len(diff) > 6 {
		diff = diff[:6]
	}
	return strings.Join(diff, "; ")
}
