//go:build verif

// C27 — Status agrees with git status (the clock/history slice).
//
// Real: go-git's Worktree.Status / StatusWithOptions{Empty, Preload}
// (worktree_status.go, status.go), the merkletrie filesystem noder with its
// metadata shortcut and racy-git rule (utils/merkletrie/filesystem/node.go),
// the index noder, the gitignore scope walk, the index encoder/decoder, the
// filesystem storage with its stat-keyed index cache, and every porcelain call
// that writes the index (Add, AddWithOptions{All}, Remove, Move, Commit,
// Reset soft/mixed/hard, Checkout, Restore).
//
// Stubbed: the disk (simfs) and its clock. Files get their mtime from a manual
// clock truncated to a per-run tick (1 ns, 1 ms, 1 s, 2 s); between any two
// steps the clock advances by a drawn amount that may be zero or less than a
// tick, and never goes backwards. A second writer of the index ("git") is the
// harness: it encodes an index with chosen stat data straight into the image
// (touch, refresh, all-zero stat data as after read-tree, read-tree HEAD, add
// of one path, rm --cached, add -N, second-precision mtimes, mtimes with
// foreign nanoseconds) and, like git, smudges (size 0) every entry it leaves
// stat-identical to a file with other content.
//
// Plan space: generated repository (porc.GetBase) x tick x core.fileMode x
// core.autocrlf (unset/input) x info/exclude x a history of 3-12 steps:
// user edits made on the image (write with same or other length, same-length
// byte flip, revert to the staged content, touch, chmod, delete, symlink
// create / retarget incl. same-length targets, mkdir, file<->dir<->symlink
// replacements, .gitignore at three levels with 11 pattern sets), go-git
// calls through one long-lived Repository, and external index rewrites.
//
// Oracle: after most steps the state on the disk (HEAD tree, decoded on-disk
// index, worktree bytes/modes/targets, ignore files, config) is fed to a small
// model of `git status --porcelain=v1 --untracked-files=all --ignored=no`
// (model_test.go) that decides from CONTENT only; then Status is called through
// the long-lived repository (warm index cache), through a freshly opened one,
// and with the Preload strategy, and every path's (Staging, Worktree) pair
// must equal the model's; extra and missing paths are divergences. In a light
// separate configuration one transient read/open/stat/readdir/readlink fault
// is injected into one Status call: it may fail, but a nil-error result must be
// exactly right and so must the following fault-free calls. The model itself is
// compared with real git 2.39 on exported snapshots (a few plans in the quick
// tier, 1/200 in thorough); a disagreement there is counted as an oracle
// disagreement, never as a violation.
//
// Not judged, on purpose: ignore-rule semantics beyond the fixed pattern sets
// (C49); what Add/Reset/Checkout put into the index (C28/C25 — the model reads
// the resulting state, whatever it is), and a state whose index holds a path
// both as a file and as a directory (go-git's Add can produce it, git never
// does: the run ends inconclusive there); git's 'T' (type change) code, which
// go-git's StatusCode cannot express, is expected as 'M'; content with CR that
// is not plain text under core.autocrlf=input; a path whose converted content
// equals the staged blob while the recorded non-zero size differs from the
// file's (git lists it as modified on the strength of the size alone — its
// stat heuristic, not content); an external rewrite that leaves the index
// file's size and mtime tick unchanged (the stat-keyed cache cannot see it:
// C20's stated scope) is moved to the next tick.
//
// Signatures: C27|<path-kind>|<expected XY>-><reported XY>|<clock-class>|
// <same-size|size-changed|mode|type|n/a>|<index-writer: gogit|external>|
// <cache: warm|fresh|warm+preload|...-after-fault>[|fault:<class>] with ' '
// written as '.'; path-kind is one of file, crlf, exec, exec/filemode-off,
// symlink, typechange, dir, ignored, ignored/info-exclude, ita; clock-class is
// same-tick-as-index (file mtime = index file mtime), same-tick-as-add (the
// file was last written in the tick in which the entry's stat data was
// recorded), mtime-equal-recorded-later, later-tick or none. Clock and size
// class are written "-" where they cannot matter (fault-triggered divergences,
// the x bit under core.fileMode=false, intent-to-add entries). A Status error
// without an injected fault is C27|status-error|<writer>|<cache>.
//
// Findings on the pinned tree (known_findings.d/C27.json, one proposed fix each
// under proposed-fixes/): racily-clean entries are never smudged when go-git
// rewrites the index; core.fileMode=false still compares the worktree x bit;
// $GIT_DIR/info/exclude is never read; a staged deletion is lost when the file
// is still there; intent-to-add entries are reported as staged additions;
// errors reading a worktree file or an ignore file inside Status are swallowed.
package c27

import (
	"bytes"
	"compress/zlib"
	"crypto/sha1"
	"fmt"
	iofs "io/fs"
	"sort"
	"strings"
	"testing"
	"time"

	git "github.com/go-git/go-git/v6"
	"github.com/go-git/go-git/v6/plumbing"
	"github.com/go-git/go-git/v6/plumbing/filemode"
	"github.com/go-git/go-git/v6/plumbing/format/index"
	"github.com/go-git/go-git/v6/plumbing/object"
	"github.com/go-git/go-git/v6/storage/filesystem"
	"github.com/go-git/go-git/v6/verifsim/core"
	"github.com/go-git/go-git/v6/verifsim/gen"
	"github.com/go-git/go-git/v6/verifsim/hooks"
	"github.com/go-git/go-git/v6/verifsim/porc"
	"github.com/go-git/go-git/v6/verifsim/simfs"
)

type Step struct {
	Kind  string `json:"kind"`
	A     int    `json:"a"`
	B     int    `json:"b"`
	F     bool   `json:"f"`
	Gap   int    `json:"gap"`   // clock advance before the step: 0 none, 1 less than a tick, 2 one tick, 3 more than a tick
	Check bool   `json:"check"` // Status is called and judged after the step
}

type Plan struct {
	RepoSeed   uint64       `json:"repo_seed"`
	Repack     bool         `json:"repack"`
	Tick       int          `json:"tick"`         // 0: 1 ns, 1: 1 ms, 2: 1 s, 3: 2 s
	NoFileMode bool         `json:"no_file_mode"` // core.fileMode=false
	CRLF       bool         `json:"crlf"`         // core.autocrlf=input
	Exclude    int          `json:"exclude"`      // 0 = no info/exclude, else pattern set k-1
	Gap0       int          `json:"gap0"`         // clock advance between the generated repository and the first step
	Steps      []Step       `json:"steps"`
	Fault      *simfs.Fault `json:"fault,omitempty"` // light configuration: one transient fault inside one Status call
	FaultStep  int          `json:"fault_step"`
	FaultFresh bool         `json:"fault_fresh"` // the faulted call is made through a freshly opened repository
	Git        bool         `json:"git"`         // every judged state is exported and shown to real git (model validation)
	GitStrict  bool         `json:"git_strict"`  // development: a model/git disagreement fails the run
	ModelOnly  bool         `json:"model_only"`  // development: go-git's Status is not judged (its calls only build states for model against git)
}

var ticks = []time.Duration{time.Nanosecond, time.Millisecond, time.Second, 2 * time.Second}

// path universe (from checks/c28): the first seven are what the generator tracks
var filePaths = []string{
	"a.txt", "b.txt", "dir/c.txt", "dir/sub/d.txt", "e.sh", "z/y/x.txt", "dir/e.txt",
	"new1.txt", "dir/new2.txt", "un/tracked.txt", "un/deep/er.txt",
	"x.log", "dir/y.log", "keep.log", "ign/f.txt", "dir/ign/g.txt", "dir/sub/t.tmp",
	"a.txt/inner.txt", "z", "dir/sub", "newdir/n.txt",
	".gitignore", "dir/.gitignore", "un/.gitignore",
	"dir.txt", "z-old", "dir/sub.txt",
}

var dirPaths = []string{".", "dir", "dir/sub", "z", "z/y", "un", "un/deep", "ign", "dir/ign", "empty", "dir/empty2", "newdir", "a.txt"}

var allPaths = append(append([]string{}, filePaths...), dirPaths...)

var ignoreSets = []string{
	"*.log\n",
	"*.log\n!keep.log\n",
	"ign/\n",
	"/new1.txt\n*.tmp\n",
	"un\n",
	"*.log\nign/\n*.tmp\n",
	"sub/\n",
	"/dir/*.txt\n",
	"# nothing\n",
	"*.txt\n!c.txt\n",
	"deep/\n*.log\n",
}

// link targets come in same-length groups (3, 5, 9 bytes) so that a retarget
// can keep the size of the link
var linkTargets = []string{"a.txt", "dir", "../b.txt", "nowhere", "dir/c.txt", "z/y", "b.txt", "dir/e.txt", "e.shx"}

var mvTargets = append(append([]string{}, filePaths[:21]...), "dir", "newdir/moved.txt", "z/y/moved.txt", "moved.txt", "dir.txt", "z-old", "dir/sub.txt")

var branches = []string{"refs/heads/master", "refs/heads/old", "refs/heads/side"}

var userKinds = map[string]bool{"write": true, "samelen": true, "revert": true, "touch": true, "chmod": true, "delete": true, "symlink": true, "relink": true, "mkdir": true, "exclude": true}

var gitKinds = map[string]bool{"add": true, "addall": true, "rm": true, "mv": true, "commit": true, "reset": true, "checkout": true, "restore": true}

var weights = map[string]int{"write": 9, "samelen": 7, "revert": 3, "touch": 2, "chmod": 3, "delete": 3, "symlink": 3, "relink": 2, "mkdir": 2, "exclude": 1,
	"add": 9, "addall": 2, "rm": 2, "mv": 2, "commit": 3, "reset": 3, "checkout": 2, "restore": 2, "extindex": 5}

func mod(a, n int) int {
	if n <= 0 {
		return 0
	}
	a %= n
	if a < 0 {
		a += n
	}
	return a
}

func drawGap(r *core.Rand) int {
	switch k := r.Intn(20); {
	case k < 8:
		return 0
	case k < 11:
		return 1
	case k < 15:
		return 2
	}
	return 3
}

func genPlan(r *core.Rand, tier string) any {
	p := &Plan{RepoSeed: r.Uint64() % 48, Repack: r.Bool(), Tick: r.Intn(4), NoFileMode: r.Chance(1, 4), CRLF: r.Chance(1, 6), Gap0: r.Intn(4), FaultStep: -1}
	if r.Chance(1, 5) {
		p.Exclude = 1 + r.Intn(len(ignoreSets))
	}
	switch tier {
	case "thorough":
		p.RepoSeed = r.Uint64() % 2048
		p.Git = r.Chance(1, 200)
	case "gitall": // development: every plan is shown to git, disagreements fail
		p.RepoSeed = r.Uint64() % 2048
		p.Git, p.GitStrict, p.ModelOnly = true, true, true
	default:
		p.Git = r.Chance(1, 1200)
	}
	var bag []string
	for _, k := range sortedKeys(weights) {
		for i := 0; i < weights[k]; i++ {
			bag = append(bag, k)
		}
	}
	n := r.Range(3, 12)
	pickPath := func() int {
		if r.Chance(3, 5) {
			return r.Intn(10) // mostly the tracked paths and their neighbours
		}
		return r.Intn(96)
	}
	if r.Chance(1, 3) {
		// ignore rules plus files they may cover, early in the history
		p.Steps = append(p.Steps, Step{Kind: "write", A: 21 + r.Intn(3), B: r.Intn(96), Gap: drawGap(r)})
		for k := r.Range(1, 2); k > 0; k-- {
			p.Steps = append(p.Steps, Step{Kind: "write", A: r.Pick2(9, 10, 11, 12, 13, 14, 15, 16, 7, 8, 24, 26), B: r.Intn(96), Gap: drawGap(r), Check: r.Bool()})
		}
	}
	for len(p.Steps) < n {
		s := Step{Kind: bag[r.Intn(len(bag))], A: pickPath(), B: r.Intn(96), F: r.Bool(), Gap: drawGap(r), Check: r.Chance(3, 4)}
		if s.Kind == "extindex" {
			s.A = r.Intn(96)
		}
		p.Steps = append(p.Steps, s)
		a := mod(s.A, len(filePaths))
		switch {
		case (s.Kind == "write" || s.Kind == "symlink" || s.Kind == "touch") && len(p.Steps) < n && r.Chance(2, 3):
			// stage it, often within the same tick, then often edit it again
			// without changing its size, again within the same tick
			if s.Kind == "symlink" {
				a = mod(s.A, len(allPaths))
			}
			p.Steps = append(p.Steps, Step{Kind: "add", A: a, B: r.Intn(96), Gap: r.Pick2(0, 0, 1, 2, 3), Check: r.Bool()})
			if len(p.Steps) < n && r.Chance(2, 3) {
				k := "samelen"
				if s.Kind == "symlink" {
					k = "relink"
				}
				p.Steps = append(p.Steps, Step{Kind: k, A: a, B: r.Intn(96), Gap: r.Pick2(0, 0, 0, 1, 2, 3), Check: r.Chance(3, 4)})
				if len(p.Steps) < n && r.Chance(1, 2) {
					// something else rewrites the index later
					o := Step{Kind: r.Pick("add", "add", "rm", "reset", "extindex", "commit", "restore"), A: pickPath(), B: r.Intn(96), F: r.Bool(), Gap: r.Pick2(0, 1, 2, 3, 3, 3), Check: true}
					if o.Kind == "add" {
						p.Steps = append(p.Steps, Step{Kind: "write", A: o.A, B: r.Intn(96), Gap: drawGap(r)})
					}
					p.Steps = append(p.Steps, o)
				}
			}
		case s.Kind == "samelen" && len(p.Steps) < n && r.Chance(1, 3):
			p.Steps = append(p.Steps, Step{Kind: "revert", A: a, B: r.Intn(96), Gap: drawGap(r), Check: true})
		}
	}
	if len(p.Steps) > 0 {
		p.Steps[len(p.Steps)-1].Check = true
	}
	if tier != "gitall" && r.Chance(1, 6) {
		// the light fault configuration
		class := []simfs.OpClass{simfs.OpRead, simfs.OpOpen, simfs.OpStat, simfs.OpReadDir, simfs.OpReadlink}[r.Intn(5)]
		errno := "EIO"
		if class == simfs.OpOpen {
			errno = r.Pick("EACCES", "EMFILE", "EIO")
		}
		p.Fault = &simfs.Fault{Class: class, Nth: 1 + r.Intn(40), Errno: errno}
		p.FaultStep = r.Intn(len(p.Steps))
		p.Steps[p.FaultStep].Check = true
		p.FaultFresh = r.Chance(1, 3)
	}
	return p
}

// ---- the world --------------------------------------------------------------------

type world struct {
	p       *Plan
	d       *simfs.Disk
	warm    *gen.Env // the long-lived repository every go-git call goes through
	orc     *gen.Env // a separate repository object the harness reads HEAD trees with
	out     *core.Outcome
	cfg     cfgT
	trace   []string
	detail  []string
	blobs   map[string]string // blob id -> content, for everything the harness has seen
	commits []plumbing.Hash
	heads   map[plumbing.Hash]map[string]hent
	writer  string // who wrote the index file that is on the disk: gogit | external
	ncommit int
	// the index file changed on the disk (external writer) since the warm
	// repository last looked at it
	extPending bool
	// stat and content of the index file as go-git last had the chance to read it (after a go-git call or a Status)
	seenT    time.Time
	seenSize int
	seenHash string
	seenSet  bool
	judged     int
	gs         *gitSession
	// recorded: per index entry, the stat data last seen and the tick in which
	// that stat data got into the index (carried along by a rename)
	recorded map[string]recRec
}

type recRec struct {
	e  xent
	at time.Time
}

func sameStat(a, b xent) bool {
	return a.id == b.id && a.mode == b.mode && a.size == b.size && a.mtime.Equal(b.mtime) && a.ita == b.ita
}

// trackIndex notes, after every step, when each entry's stat data was
// recorded: an entry that is new or whose id/stat data changed was recorded
// now, unless an entry with exactly that data disappeared in the same step
// (Move carries entries over unchanged).
func (w *world) trackIndex() {
	X, prob := diskIndex(w.d)
	if prob != "" {
		return
	}
	now := w.d.Now()
	next := map[string]recRec{}
	var gone []recRec
	for p, r := range w.recorded {
		if _, ok := X[p]; !ok {
			gone = append(gone, r)
		}
	}
	sort.Slice(gone, func(i, j int) bool { return gone[i].at.Before(gone[j].at) })
	for _, p := range sortedKeys(X) {
		e := X[p]
		if r, ok := w.recorded[p]; ok && sameStat(r.e, e) {
			next[p] = r
			continue
		}
		rec := recRec{e: e, at: now}
		for _, g := range gone {
			if sameStat(g.e, e) {
				rec.at = g.at
				break
			}
		}
		next[p] = rec
	}
	w.recorded = next
}

func (w *world) logf(format string, args ...any) {
	if len(w.trace) < 600 {
		w.trace = append(w.trace, fmt.Sprintf(format, args...))
	}
}

func gapDur(tick time.Duration, g int) time.Duration {
	switch mod(g, 4) {
	case 1:
		return tick / 2
	case 2:
		return tick
	case 3:
		return 2*tick + tick/2
	}
	return 0
}

var gapNames = []string{"+0", "+<tick", "+tick", "+>tick"}

// listWT reads the worktree (outside .git) straight from the image.
func listWT(d *simfs.Disk) (wtree, map[string]time.Time) {
	w := wtree{}
	mt := map[string]time.Time{}
	for _, e := range d.List("/w") {
		rel := strings.TrimPrefix(e.Path, "/w/")
		if rel == ".git" || strings.HasPrefix(rel, ".git/") {
			continue
		}
		switch e.Kind {
		case "dir":
			w[rel] = node{kind: 'd'}
		case "link":
			w[rel] = node{kind: 'l', data: e.Target}
		default:
			w[rel] = node{kind: 'f', exec: e.Mode&0o100 != 0, data: string(e.Data)}
		}
		mt[rel] = e.MTime
	}
	return w, mt
}

// diskIndex decodes the on-disk index into the model's form.
func diskIndex(d *simfs.Disk) (x map[string]xent, problem string) {
	idx, ok := porc.DecodeIndexOnDisk(d)
	if !ok {
		return nil, "undecodable"
	}
	x = map[string]xent{}
	if idx == nil {
		return x, ""
	}
	for _, e := range idx.Entries {
		if e.Stage != 0 {
			return nil, "unmerged-entry"
		}
		if e.SkipWorktree {
			return nil, "skip-worktree-entry"
		}
		if _, dup := x[e.Name]; dup {
			return nil, "duplicate-entry"
		}
		x[e.Name] = xent{mode: uint32(e.Mode), id: e.Hash.String(), ita: e.IntentToAdd, mtime: e.ModifiedAt, size: e.Size}
	}
	return x, ""
}

func indexStat(d *simfs.Disk) (time.Time, int, string) {
	for _, e := range d.List("/w/.git/index") {
		return e.MTime, len(e.Data), core.HashStrings([]string{string(e.Data)})
	}
	return time.Time{}, -1, ""
}

// headTree reads the tree HEAD resolves to (flattened), through the harness's
// own repository object; go-git's object decoding is not what is judged here.
func (w *world) headTree() (map[string]hent, bool) {
	ref, err := w.orc.Repo.Head()
	if err != nil {
		if err == plumbing.ErrReferenceNotFound {
			return map[string]hent{}, true
		}
		return nil, false
	}
	if h, ok := w.heads[ref.Hash()]; ok {
		return h, true
	}
	c, err := w.orc.Repo.CommitObject(ref.Hash())
	if err != nil {
		return nil, false
	}
	t, err := c.Tree()
	if err != nil {
		return nil, false
	}
	out := map[string]hent{}
	tw := object.NewTreeWalker(t, true, nil)
	defer tw.Close()
	for {
		name, e, err := tw.Next()
		if err != nil {
			break
		}
		if e.Mode == filemode.Dir {
			continue
		}
		out[name] = hent{mode: uint32(e.Mode), id: e.Hash.String()}
	}
	w.heads[ref.Hash()] = out
	return out, true
}

func (w *world) learn(W wtree) {
	for _, n := range W {
		if n.kind == 'd' {
			continue
		}
		w.blobs[blobID(n.data)] = n.data
		if w.cfg.crlf && n.kind == 'f' && strings.Contains(n.data, "\r\n") {
			c := strings.ReplaceAll(n.data, "\r\n", "\n")
			w.blobs[blobID(c)] = c
		}
	}
}

func (w *world) writeLooseBlob(data string) {
	id := blobID(data)
	abs := "/w/.git/objects/" + id[:2] + "/" + id[2:]
	if w.d.Lookup(abs) != "" {
		return
	}
	var buf bytes.Buffer
	zw := zlib.NewWriter(&buf)
	fmt.Fprintf(zw, "blob %d\x00", len(data))
	zw.Write([]byte(data))
	zw.Close()
	_ = w.d.WriteFile(abs, buf.Bytes(), 0o444)
}

// ---- user edits ---------------------------------------------------------------------

func content(p string, b int, crlf bool) string {
	if isIgnoreFile(p) {
		return ignoreSets[mod(b, len(ignoreSets))]
	}
	eol := "\n"
	if crlf && mod(b, 4) == 1 {
		eol = "\r\n"
	}
	s := fmt.Sprintf("%s r%02d%s", p, mod(b, 40), eol)
	if mod(b, 6) == 5 {
		s += strings.Repeat("x", 1+mod(b, 3)) + eol
	}
	return s
}

func kindName(n node, exists bool) string {
	if !exists {
		return "absent"
	}
	switch n.kind {
	case 'd':
		return "dir"
	case 'l':
		return "symlink"
	}
	if n.exec {
		return "exec-file"
	}
	return "file"
}

func (w *world) clearParents(W wtree, p string) {
	var anc []string
	for a := parent(p); a != ""; a = parent(a) {
		anc = append(anc, a)
	}
	for i := len(anc) - 1; i >= 0; i-- {
		if n, ok := W[anc[i]]; ok && n.kind != 'd' {
			w.d.RemoveAllDirect("/w/" + anc[i])
			return
		}
	}
}

func (w *world) putFile(W wtree, p, data string, exec bool) {
	w.clearParents(W, p)
	if n, ok := W[p]; ok && n.kind != 'f' {
		w.d.RemoveAllDirect("/w/" + p)
	}
	mode := iofs.FileMode(0o644)
	if exec {
		mode = 0o755
	}
	_ = w.d.WriteFile("/w/"+p, []byte(data), mode)
}

func (w *world) putLink(W wtree, p, target string) {
	w.clearParents(W, p)
	if _, ok := W[p]; ok {
		w.d.RemoveAllDirect("/w/" + p)
	}
	_ = w.d.PlantSymlink(target, "/w/"+p)
}

func (w *world) userStep(s Step, W wtree, X map[string]xent) string {
	d := w.d
	switch s.Kind {
	case "write":
		p := filePaths[mod(s.A, len(filePaths))]
		n, exists := W[p]
		if exists && n.kind == 'd' && !s.F {
			return "write " + p + ": is a directory, skipped"
		}
		data := content(p, s.B, w.cfg.crlf)
		exec := mod(s.B, 4) == 0
		if p == "e.sh" {
			exec = mod(s.B, 4) != 1
		}
		w.putFile(W, p, data, exec)
		return fmt.Sprintf("write %s (exec=%v, %d bytes, was %s)", p, exec, len(data), kindName(n, exists))
	case "samelen":
		p := filePaths[mod(s.A, len(filePaths))]
		n, exists := W[p]
		if !exists || n.kind != 'f' || len(n.data) == 0 || isIgnoreFile(p) {
			return "samelen " + p + ": not a non-empty regular file"
		}
		b := []byte(n.data)
		at := -1
		for k := 0; k < len(b); k++ {
			i := mod(s.B+k, len(b))
			if b[i] != '\r' && b[i] != '\n' {
				at = i
				break
			}
		}
		if at < 0 {
			return "samelen " + p + ": nothing to flip"
		}
		if b[at] == 'x' {
			b[at] = 'y'
		} else {
			b[at] = 'x'
		}
		w.putFile(W, p, string(b), n.exec)
		w.out.Probe("edit:same-length")
		return fmt.Sprintf("samelen %s (byte %d flipped, %d bytes)", p, at, len(b))
	case "revert":
		p := filePaths[mod(s.A, len(filePaths))]
		e, tracked := X[p]
		data, known := w.blobs[e.id]
		n, exists := W[p]
		if !tracked || !known || e.ita || (exists && n.kind == 'd' && !s.F) || typeOf(e.mode) == 0o160000 {
			return "revert " + p + ": nothing to revert to"
		}
		if typeOf(e.mode) == 0o120000 {
			if data == "" || strings.ContainsAny(data, "\x00\n") {
				return "revert " + p + ": odd link target"
			}
			w.putLink(W, p, data)
		} else {
			w.putFile(W, p, data, e.mode == 0o100755)
		}
		return fmt.Sprintf("revert %s to the staged content (was %s)", p, kindName(n, exists))
	case "touch":
		p := filePaths[mod(s.A, len(filePaths))]
		n, exists := W[p]
		if !exists || n.kind == 'd' {
			return "touch " + p + ": no file"
		}
		if n.kind == 'l' {
			w.putLink(W, p, n.data)
		} else {
			w.putFile(W, p, n.data, n.exec)
		}
		return "touch " + p
	case "chmod":
		p := filePaths[mod(s.A, len(filePaths))]
		n, exists := W[p]
		if !exists || n.kind != 'f' || W.blockedParent(p) {
			return "chmod " + p + ": not a regular file"
		}
		mode := iofs.FileMode(0o755)
		if n.exec {
			mode = 0o644
		}
		_ = d.FS("/w", "user").Chmod(p, mode)
		return fmt.Sprintf("chmod %s exec=%v", p, !n.exec)
	case "delete":
		p := allPaths[mod(s.A, len(allPaths))]
		n, exists := W[p]
		if p == "." || !exists || (n.kind == 'd' && !s.F) {
			return "delete " + p + ": nothing done"
		}
		d.RemoveAllDirect("/w/" + p)
		return fmt.Sprintf("delete %s (was %s)", p, kindName(n, exists))
	case "symlink":
		p := allPaths[mod(s.A, len(allPaths))]
		n, exists := W[p]
		if p == "." || isIgnoreFile(p) || (exists && n.kind == 'd' && !s.F) {
			return "symlink " + p + ": skipped"
		}
		t := linkTargets[mod(s.B, len(linkTargets))]
		w.putLink(W, p, t)
		return fmt.Sprintf("symlink %s -> %s (was %s)", p, t, kindName(n, exists))
	case "relink":
		p := allPaths[mod(s.A, len(allPaths))]
		n, exists := W[p]
		if !exists || n.kind != 'l' {
			return "relink " + p + ": not a symlink"
		}
		var same []string
		for _, t := range linkTargets {
			if len(t) == len(n.data) && t != n.data {
				same = append(same, t)
			}
		}
		if len(same) == 0 {
			return "relink " + p + ": no target of the same length"
		}
		t := same[mod(s.B, len(same))]
		w.putLink(W, p, t)
		w.out.Probe("edit:relink-same-length")
		return fmt.Sprintf("relink %s -> %s (was -> %s)", p, t, n.data)
	case "mkdir":
		p := dirPaths[mod(s.A, len(dirPaths))]
		n, exists := W[p]
		if p == "." || (exists && n.kind != 'd' && !s.F) {
			return "mkdir " + p + ": skipped"
		}
		w.clearParents(W, p)
		if exists && n.kind != 'd' {
			d.RemoveAllDirect("/w/" + p)
		}
		_ = d.FS("/w", "user").MkdirAll(p, 0o755)
		return fmt.Sprintf("mkdir %s (was %s)", p, kindName(n, exists))
	case "exclude":
		if s.F {
			d.RemoveAllDirect("/w/.git/info/exclude")
			return "info/exclude removed"
		}
		k := mod(s.B, len(ignoreSets))
		_ = d.WriteFile("/w/.git/info/exclude", []byte(ignoreSets[k]), 0o644)
		return fmt.Sprintf("info/exclude = set %d", k)
	}
	return "unknown user step " + s.Kind
}

// ---- go-git calls -----------------------------------------------------------------------

func (w *world) gitStep(s Step, W wtree) (string, error) {
	wt, err := w.warm.Repo.Worktree()
	if err != nil {
		return "worktree", err
	}
	switch s.Kind {
	case "add":
		p := allPaths[mod(s.A, len(allPaths))]
		_, err = wt.Add(p)
		return fmt.Sprintf("Add(%q)", p), err
	case "addall":
		return "AddWithOptions{All}", wt.AddWithOptions(&git.AddOptions{All: true})
	case "rm":
		p := allPaths[mod(s.A, len(allPaths))]
		if p == "." {
			p = "dir"
		}
		_, err = wt.Remove(p)
		return fmt.Sprintf("Remove(%q)", p), err
	case "mv":
		from := filePaths[mod(s.A, len(filePaths))]
		to := mvTargets[mod(s.B, len(mvTargets))]
		_, err = wt.Move(from, to)
		return fmt.Sprintf("Move(%q, %q)", from, to), err
	case "commit":
		w.ncommit++
		h, err := wt.Commit(fmt.Sprintf("history commit %d", w.ncommit), &git.CommitOptions{Author: gen.Sig(400 + w.ncommit), Committer: gen.Sig(400 + w.ncommit), All: s.F})
		if err == nil {
			w.commits = append(w.commits, h)
		}
		return fmt.Sprintf("Commit{All:%v}", s.F), err
	case "reset":
		mode := []git.ResetMode{git.SoftReset, git.MixedReset, git.HardReset}[mod(s.A, 3)]
		k := mod(s.B, len(w.commits))
		return fmt.Sprintf("Reset{mode %d, commit #%d}", mode, k), wt.Reset(&git.ResetOptions{Mode: mode, Commit: w.commits[k]})
	case "checkout":
		o := &git.CheckoutOptions{Force: mod(s.A, 5) != 0}
		desc := ""
		if mod(s.A, 2) == 0 {
			o.Branch = plumbing.ReferenceName(branches[mod(s.B, len(branches))])
			desc = string(o.Branch)
		} else {
			k := mod(s.B, len(w.commits))
			o.Hash = w.commits[k]
			desc = fmt.Sprintf("commit #%d", k)
		}
		return fmt.Sprintf("Checkout{%s, force=%v}", desc, o.Force), wt.Checkout(o)
	case "restore":
		p := filePaths[mod(s.A, len(filePaths))]
		return fmt.Sprintf("Restore{%q, staged, worktree=%v}", p, s.F), wt.Restore(&git.RestoreOptions{Staged: true, Worktree: s.F, Files: []string{p}})
	}
	return "unknown go-git step " + s.Kind, nil
}

// ---- the external index writer ("git") -----------------------------------------------------

var extNames = []string{"touch", "refresh", "zero-stat", "read-tree-HEAD", "add", "rm-cached", "add-N", "refresh-whole-seconds", "refresh-foreign-nsec"}

// wtEntry is what `git add p` would record for the file at p now.
func (w *world) wtEntry(W wtree, mt map[string]time.Time, p string, X map[string]xent) (xent, bool) {
	n, ok := W[p]
	if !ok || n.kind == 'd' || W.blockedParent(p) {
		return xent{}, false
	}
	if n.kind == 'l' {
		return xent{mode: 0o120000, id: blobID(n.data), mtime: mt[p], size: uint32(len(n.data))}, true
	}
	old, inX := X[p]
	ib, known := w.blobs[old.id]
	id, ok := cleanID(n.data, w.cfg.crlf, ib, known, inX)
	if !ok {
		return xent{}, false
	}
	mode := uint32(0o100644)
	if n.exec {
		mode = 0o100755
	}
	if !w.cfg.fileMode {
		// core.fileMode=false: git keeps the mode the index has, 644 for a new path
		mode = 0o100644
		if inX && typeOf(old.mode) == 0o100000 {
			mode = old.mode
		}
	}
	return xent{mode: mode, id: id, mtime: mt[p], size: uint32(len(n.data))}, true
}

func (w *world) extIndex(s Step, W wtree, mt map[string]time.Time) string {
	d := w.d
	X, prob := diskIndex(d)
	if prob != "" {
		return "extindex: on-disk index unusable (" + prob + ")"
	}
	variant := mod(s.A, len(extNames))
	name := extNames[variant]
	nx := map[string]xent{}
	for k, v := range X {
		nx[k] = v
	}
	// the path an add / rm --cached / add -N is about: drawn from the paths
	// the command could apply to
	var cands []string
	switch name {
	case "add":
		for _, q := range sortedKeys(W) {
			if W[q].kind != 'd' && !W.blockedParent(q) {
				cands = append(cands, q)
			}
		}
	case "rm-cached":
		cands = sortedKeys(X)
	case "add-N":
		for _, q := range sortedKeys(W) {
			if _, tracked := X[q]; !tracked && W[q].kind != 'd' && !W.blockedParent(q) && !hasUnder(X, q) {
				cands = append(cands, q)
			}
		}
	}
	p := filePaths[mod(s.B, len(filePaths))]
	if len(cands) > 0 {
		p = cands[mod(s.B, len(cands))]
	}
	// matches: the file at q is exactly what the entry records
	matches := func(q string, e xent) bool {
		c, ok := w.wtEntry(W, mt, q, X)
		return ok && !e.ita && c.id == e.id && c.mode == e.mode
	}
	switch name {
	case "touch":
	case "refresh", "refresh-whole-seconds", "refresh-foreign-nsec":
		for q, e := range nx {
			if !matches(q, e) {
				continue
			}
			c, _ := w.wtEntry(W, mt, q, X)
			e.mtime, e.size = c.mtime, c.size
			switch name {
			case "refresh-whole-seconds":
				e.mtime = e.mtime.Truncate(time.Second)
			case "refresh-foreign-nsec":
				e.mtime = e.mtime.Truncate(time.Second).Add(123456789)
			}
			nx[q] = e
		}
	case "zero-stat":
		for q, e := range nx {
			e.mtime, e.size = time.Time{}, 0
			nx[q] = e
		}
	case "read-tree-HEAD":
		H, ok := w.headTree()
		if !ok {
			return "extindex read-tree: HEAD unreadable"
		}
		nx = map[string]xent{}
		for q, h := range H {
			nx[q] = xent{mode: h.mode, id: h.id}
		}
	case "add":
		c, ok := w.wtEntry(W, mt, p, X)
		if !ok {
			return "extindex add " + p + ": nothing to add"
		}
		for q := range nx {
			if strings.HasPrefix(q, p+"/") || strings.HasPrefix(p, q+"/") {
				delete(nx, q)
			}
		}
		nx[p] = c
		n := W[p]
		data := n.data
		if n.kind == 'f' && w.cfg.crlf && blobID(data) != c.id {
			data = strings.ReplaceAll(data, "\r\n", "\n")
		}
		w.writeLooseBlob(data)
		name += " " + p
	case "rm-cached":
		if _, ok := nx[p]; !ok {
			return "extindex rm --cached " + p + ": not tracked"
		}
		delete(nx, p)
		name += " " + p
	case "add-N":
		c, ok := w.wtEntry(W, mt, p, X)
		if _, tracked := nx[p]; tracked || !ok || hasUnder(nx, p) {
			return "extindex add -N " + p + ": not an untracked file"
		}
		for q := range nx {
			if strings.HasPrefix(p, q+"/") {
				delete(nx, q)
			}
		}
		c.id, c.ita = emptyBlob, true
		if s.F {
			c.mtime, c.size = time.Time{}, 0
		}
		nx[p] = c
		w.writeLooseBlob("")
		name += " " + p
	}
	// like git, never leave an entry stat-identical to a file it does not
	// describe: such an entry is smudged (size 0) when the index is written
	smudged := 0
	for q, e := range nx {
		n, ok := W[q]
		if !ok || n.kind == 'd' || e.ita || matches(q, e) {
			continue
		}
		if e.mtime.Equal(mt[q]) && int(e.size) == len(n.data) && e.size != 0 {
			e.size = 0
			nx[q] = e
			smudged++
		}
	}
	idx := &index.Index{Version: 2}
	for _, q := range sortedKeys(nx) {
		e := nx[q]
		if e.ita {
			idx.Version = 3
		}
		idx.Entries = append(idx.Entries, &index.Entry{Name: q, Hash: plumbing.NewHash(e.id), Mode: filemode.FileMode(e.mode), Size: e.size, ModifiedAt: e.mtime, CreatedAt: e.mtime, IntentToAdd: e.ita})
	}
	var buf bytes.Buffer
	if err := index.NewEncoder(&buf, sha1.New()).Encode(idx); err != nil {
		return "extindex: encode failed: " + err.Error()
	}
	oldT, oldSize, oldHash := indexStat(d)
	if w.seenSet {
		// What matters is the file as go-git last saw it, not as the previous external rewrite left it: two
		// rewrites within one tick that bring the size back (rm --cached p; add -N p) are just as invisible to a
		// stat-keyed cache as a single one (thorough tier, seed 11).
		oldT, oldSize, oldHash = w.seenT, w.seenSize, w.seenHash
	}
	forced := ""
	if core.HashStrings([]string{buf.String()}) != oldHash && buf.Len() == oldSize && d.Now().Equal(oldT) {
		// a rewrite that changes neither the size nor the mtime tick of the
		// index file is invisible to any stat-keyed cache (C20's scope)
		d.Advance(d.Tick)
		forced = ", moved to the next tick"
		w.out.Probe("ext-rewrite-forced-tick")
	}
	_ = d.WriteFile("/w/.git/index", buf.Bytes(), 0o644)
	w.writer = "external"
	w.extPending = true
	w.out.Probe("ext:" + extNames[variant])
	if smudged > 0 {
		w.out.Probe("ext-smudged-racy-entry")
	}
	return fmt.Sprintf("extindex %s (%d entries, %d smudged%s)", name, len(idx.Entries), smudged, forced)
}

// ---- judging ------------------------------------------------------------------------------------

func showXY(s string) string { return strings.ReplaceAll(s, " ", ".") }

type classInfo struct {
	kind, clock, size string
}

// classify names the state class of a diverging path for the signature.
func classify(p string, X map[string]xent, W wtree, mt map[string]time.Time, idxT time.Time, recordedAt time.Time, ig, igNoExclude *ignorer, cfg cfgT, blobs map[string]string) classInfo {
	e, inX := X[p]
	n, inW := W[p]
	c := classInfo{kind: "file", clock: "none", size: "n/a"}
	typeChange := false
	if inX && inW {
		wt := uint32(0o100000)
		if n.kind == 'l' {
			wt = 0o120000
		}
		if n.kind == 'd' || wt != typeOf(e.mode) {
			typeChange = true
		}
	}
	if inW && n.kind != 'd' && hasUnder(X, p) {
		typeChange = true
	}
	for a := parent(p); a != ""; a = parent(a) {
		if _, ok := X[a]; ok {
			typeChange = true
		}
		if an, ok := W[a]; ok && an.kind != 'd' && inX {
			typeChange = true
		}
	}
	modeOnly := false
	if inX && inW && n.kind == 'f' && typeOf(e.mode) == 0o100000 {
		ib, known := blobs[e.id]
		id, ok := cleanID(n.data, cfg.crlf, ib, known, true)
		modeOnly = ok && id == e.id && n.exec != (e.mode == 0o100755)
	}
	switch {
	case inX && e.ita:
		c.kind = "ita"
	case !inX && inW && ig.ignored(p, n.kind == 'd') && !igNoExclude.ignored(p, n.kind == 'd'):
		c.kind = "ignored/info-exclude" // only $GIT_DIR/info/exclude covers it
	case !inX && inW && ig.ignored(p, n.kind == 'd'):
		c.kind = "ignored"
	case typeChange:
		c.kind = "typechange"
	case (inW && n.kind == 'l') || (inX && typeOf(e.mode) == 0o120000):
		c.kind = "symlink"
	case inW && n.kind == 'd':
		c.kind = "dir"
	case !cfg.fileMode && inX && inW && n.kind == 'f' && n.exec && typeOf(e.mode) == 0o100000:
		c.kind = "exec/filemode-off" // core.fileMode=false and the file has its x bit set
	case modeOnly:
		c.kind = "exec"
	case cfg.crlf && inW && strings.Contains(n.data, "\r"):
		c.kind = "crlf"
	}
	if inX && inW && n.kind != 'd' {
		switch {
		case mt[p].Equal(idxT):
			c.clock = "same-tick-as-index"
		case mt[p].Equal(e.mtime) && recordedAt.Equal(e.mtime):
			// the file was last written in the very tick in which the entry's
			// stat data was recorded
			c.clock = "same-tick-as-add"
		case mt[p].Equal(e.mtime):
			// the recorded mtime equals the file's although the stat data was
			// recorded in a later tick than the file was written
			c.clock = "mtime-equal-recorded-later"
		default:
			c.clock = "later-tick"
		}
		switch {
		case typeChange:
			c.size = "type"
		case modeOnly:
			c.size = "mode"
		case int(e.size) == len(n.data):
			c.size = "same-size"
		default:
			c.size = "size-changed"
		}
	}
	return c
}

// stateProbes counts the rare states the property cares about.
func (w *world) stateProbes(H map[string]hent, X map[string]xent, W wtree, mt map[string]time.Time, idxT time.Time, ig *ignorer, st map[string]pstat) {
	out := w.out
	set := map[string]bool{}
	for p, e := range X {
		n, ok := W[p]
		if e.ita {
			set["ita-entry"] = true
		}
		if !ok {
			continue
		}
		if n.kind == 'd' {
			set["typechange:file->dir"] = true
			continue
		}
		isLink := n.kind == 'l'
		if isLink != (typeOf(e.mode) == 0o120000) {
			set["typechange:file<->symlink"] = true
			continue
		}
		if e.ita {
			continue
		}
		ib, known := w.blobs[e.id]
		id := blobID(n.data)
		if !isLink {
			var ok bool
			if id, ok = cleanID(n.data, w.cfg.crlf, ib, known, true); !ok {
				continue
			}
		}
		same := id == e.id
		statSame := mt[p].Equal(e.mtime) && int(e.size) == len(n.data)
		if !isLink && n.exec != (e.mode == 0o100755) {
			if !w.cfg.fileMode {
				set["chmod-with-filemode-false"] = true
			} else {
				set["exec-bit-differs"] = true
			}
		}
		if e.mtime.IsZero() && w.writer == "external" {
			set["external-index-zero-stat"] = true
		}
		if e.size == 0 && !e.mtime.IsZero() && len(n.data) > 0 {
			set["smudged-entry"] = true
		}
		if !e.mtime.IsZero() && (e.mtime.Nanosecond() != 0) != (mt[p].Nanosecond() != 0) {
			set["nsec-mismatch-index-vs-disk"] = true
		}
		switch {
		case !same && statSame && mt[p].Equal(idxT):
			set["racy:same-size-edit-in-tick-of-index-write"] = true
		case !same && statSame:
			set["racy:same-size-edit-in-tick-of-add,index-written-later"] = true
		case !same && int(e.size) == len(n.data) && !mt[p].Equal(e.mtime):
			set["same-size-edit-in-later-tick"] = true
		case same && !statSame && !e.mtime.IsZero() && e.size != 0:
			set["reverted-or-touched:same-content-newer-mtime"] = true
		case same && statSame && mt[p].Before(idxT):
			set["shortcut-applies:clean-by-metadata"] = true
		case same && statSame:
			set["racily-clean:same-tick-as-index"] = true
		}
		if !same && isLink && len(ib) == len(n.data) && known {
			set["symlink-retarget-same-length"] = true
		}
		if same && w.cfg.crlf && strings.Contains(n.data, "\r\n") {
			set["crlf-file-clean-after-conversion"] = true
		}
	}
	for p, n := range W {
		_, tracked := X[p]
		switch {
		case n.kind == 'd':
			if !W.hasChildren(p) {
				set["empty-dir-present"] = true
			}
		case !tracked && ig.ignored(p, false):
			set["ignored-untracked-suppressed"] = true
		case !tracked && hasUnder(X, p):
			set["typechange:dir->file"] = true
		}
		if tracked && n.kind != 'd' && ig.ignored(p, false) {
			set["tracked-but-ignored"] = true
		}
	}
	for _, s := range st {
		if s.x == 'T' || s.y == 'T' {
			set["git-T-expected-as-M"] = true
		}
		if s.x == 'D' && s.untracked {
			set["removed-from-index-file-still-there"] = true
		}
	}
	for _, k := range sortedKeys(set) {
		out.Probe(k)
	}
}

func pairsOf(s git.Status) map[string]string {
	out := map[string]string{}
	for p, fs := range s {
		if fs == nil {
			continue
		}
		xy := string([]byte{byte(fs.Staging), byte(fs.Worktree)})
		if xy == "  " {
			continue
		}
		out[p] = xy
	}
	return out
}

// firstDivergence returns the first path (in sorted order) whose pair differs.
func firstDivergence(exp, got map[string]string, unmodelled map[string]bool) (string, string, string, bool) {
	names := map[string]bool{}
	for p := range exp {
		names[p] = true
	}
	for p := range got {
		names[p] = true
	}
	for _, p := range sortedKeys(names) {
		if unmodelled[p] {
			continue
		}
		e, g := exp[p], got[p]
		if e == "" {
			e = "  "
		}
		if g == "" {
			g = "  "
		}
		if e != g {
			return p, e, g, true
		}
	}
	return "", "", "", false
}

func (w *world) status(env *gen.Env, strat git.StatusStrategy) (git.Status, error) {
	wt, err := env.Repo.Worktree()
	if err != nil {
		return nil, err
	}
	return wt.StatusWithOptions(git.StatusOptions{Strategy: strat})
}

func (w *world) freshStatus(strat git.StatusStrategy) (git.Status, error) {
	env, err := gen.Open(w.d, "/w", "fresh", filesystem.Options{})
	if err != nil {
		return nil, err
	}
	defer func() { _ = env.Storage.Close() }()
	return w.status(env, strat)
}

// checkpoint judges Status against the model in the current state. It
// returns false when the run must stop.
func (w *world) checkpoint(i int) bool {
	d, out := w.d, w.out
	W, mt := listWT(d)
	w.learn(W)
	X, prob := diskIndex(d)
	if prob != "" {
		out.Inconclusive = "index-" + prob
		return false
	}
	for p := range X {
		for a := parent(p); a != ""; a = parent(a) {
			if _, ok := X[a]; ok {
				// an index git never writes (C28 judges what Add puts into the
				// index); git's own behaviour on it is not modelled
				out.Inconclusive = "index-file-directory-conflict"
				return false
			}
		}
	}
	H, ok := w.headTree()
	if !ok {
		out.Inconclusive = "head-unreadable"
		return false
	}
	excl := ""
	if b, ok := d.ReadFile("/w/.git/info/exclude"); ok {
		excl = string(b)
	}
	ig := newIgnorer(W, excl)
	st, unm := gitStatusModel(H, X, W, ig, w.cfg, w.blobs)
	exp := expectedPairs(st)
	idxT, _, _ := indexStat(d)
	w.stateProbes(H, X, W, mt, idxT, ig, st)
	for range unm {
		out.Probe("path-not-judged:line-endings-or-size-heuristic")
	}
	lines := gitLines(st)
	w.logf("   state %d: index by %s, %d entries; git would print %d lines [%s]", i, w.writer, len(X), len(lines), core.HashStrings(lines))

	if w.p.Git {
		if w.gs == nil {
			w.gs = newGitSession()
		}
		switch msg := gitOracle(w.gs, d, lines, unm); {
		case msg == "unavailable":
			out.Probe("git-unavailable")
		case msg != "":
			out.Probe("oracle-disagreement:model-vs-git")
			w.logf("   the model disagrees with git 2.39: %s", msg)
			if w.p.GitStrict {
				out.Fail("C27|harness|model-vs-git", "state %d: the model disagrees with git 2.39: %s", i, msg)
				return false
			}
			out.Inconclusive = "model-vs-git-disagreement"
			return false
		default:
			out.Probe("git-confirmed-model")
		}
	}

	if w.p.ModelOnly {
		w.judged++
		out.NonTrivial = true
		return true
	}

	judge := func(cache string, s git.Status, err error, fault string) bool {
		if err != nil {
			w.detail = append(w.detail, fmt.Sprintf("state %d (%s): %v", i, cache, err))
			if fault != "" {
				out.Probe("status-failed-after-fault")
				w.logf("   Status (%s): error after the injected fault", cache)
				return true
			}
			out.Fail(fmt.Sprintf("C27|status-error|%s|%s", w.writer, cache), "state %d: Status (%s) returned an error without any injected fault: %v", i, cache, err)
			return false
		}
		got := pairsOf(s)
		sep := ""
		if fault != "" {
			sep = ", "
		}
		p, e, g, div := firstDivergence(exp, got, unm)
		if !div {
			w.logf("   Status (%s%s): agrees", cache, sep+fault)
			out.Probe("status-judged:" + cache)
			if fault != "" {
				out.Probe("fault-swallowed-status-still-right")
			}
			return true
		}
		c := classify(p, X, W, mt, idxT, w.recorded[p].at, ig, newIgnorer(W, ""), w.cfg, w.blobs)
		if fault != "" || c.kind == "exec/filemode-off" || c.kind == "ita" {
			// where the trigger is an injected fault, the x bit under
			// core.fileMode=false or the intent-to-add flag, the clock and size
			// classes say nothing about the mechanism
			c.clock, c.size = "-", "-"
		}
		sig := fmt.Sprintf("C27|%s|%s->%s|%s|%s|%s|%s", c.kind, showXY(e), showXY(g), c.clock, c.size, w.writer, cache)
		if fault != "" {
			sig += "|" + fault
		}
		w.logf("   Status (%s%s): %q reported as %q, git: %q", cache, sep+fault, p, showXY(g), showXY(e))
		en, inX := X[p]
		out.Fail(sig, "state %d: Status (%s) reports %q for %q where git status reports %q [entry: present=%v mode=%o size=%d mtime=%s ita=%v; file: %s size=%d mtime=%s; index file mtime=%s written by %s; tick=%s]",
			i, cache, g, p, e, inX, en.mode, en.size, fmtT(en.mtime), en.ita, kindName(W[p], hasKey(W, p)), len(W[p].data), fmtT(mt[p]), fmtT(idxT), w.writer, d.Tick)
		return false
	}

	// through the long-lived repository (warm index cache), default strategy
	if w.extPending {
		out.Probe("warm-cache-status-after-external-rewrite")
		w.extPending = false
	}
	w.seenT, w.seenSize, w.seenHash = indexStat(d)
	w.seenSet = true
	d.ResetCounters()
	s, err := w.status(w.warm, git.Empty)
	warmCounts := d.ClassCounts()
	if !judge("warm", s, err, "") {
		return false
	}
	// through a freshly opened repository
	d.ResetCounters()
	s, err = w.freshStatus(git.Empty)
	freshCounts := d.ClassCounts()
	if !judge("fresh", s, err, "") {
		return false
	}
	// the Preload strategy
	s, err = w.status(w.warm, git.Preload)
	if !judge("warm+preload", s, err, "") {
		return false
	}
	w.judged++
	if len(exp) > 0 {
		out.NonTrivial = true
	}

	if w.p.Fault != nil && w.p.FaultStep == i {
		f := *w.p.Fault
		counts := warmCounts
		if w.p.FaultFresh {
			counts = freshCounts
		} else {
			// the second warm call is the reference: the first may have had to
			// re-read the index
			d.ResetCounters()
			if _, err := w.status(w.warm, git.Empty); err == nil {
				counts = d.ClassCounts()
			}
		}
		n := counts[f.Class]
		if n == 0 {
			out.Probe("fault-class-not-used-by-status")
			return true
		}
		f.Nth = 1 + mod(f.Nth-1, n)
		tag := "fault:" + string(f.Class)
		d.ResetCounters()
		d.SetFaults([]simfs.Fault{f})
		cache := "warm"
		if w.p.FaultFresh {
			cache = "fresh"
			s, err = w.freshStatus(git.Empty)
		} else {
			s, err = w.status(w.warm, git.Empty)
		}
		d.SetFaults(nil)
		fired := 0
		for _, v := range d.FaultsFired {
			fired += v
		}
		if fired == 0 {
			out.Probe("fault-did-not-fire")
			tag = ""
		} else {
			if out.Faults == nil {
				out.Faults = map[string]int{}
			}
			out.Faults[string(f.Class)+":"+f.Errno]++
		}
		w.logf("   fault %s #%d armed (fired=%v)", f.Class, f.Nth, fired > 0)
		if !judge(cache, s, err, tag) {
			return false
		}
		// nothing may be poisoned: the next calls must be right again
		s, err = w.status(w.warm, git.Empty)
		if !judge("warm-after-fault", s, err, "") {
			return false
		}
		s, err = w.status(w.warm, git.Preload)
		if !judge("warm+preload-after-fault", s, err, "") {
			return false
		}
	}
	return true
}

func hasKey(w wtree, p string) bool { _, ok := w[p]; return ok }

func fmtT(t time.Time) string {
	if t.IsZero() {
		return "0"
	}
	return fmt.Sprintf("%d.%09d", t.Unix()-1_700_000_000, t.Nanosecond())
}

// ---- execution ---------------------------------------------------------------------------------

func execPlan(t *testing.T, pa any) (out core.Outcome) {
	p := pa.(*Plan)
	hooks.Deterministic(true)
	b := porc.GetBase(p.RepoSeed%2048, p.Repack, false)
	if b.Err != nil {
		out.Inconclusive = "setup-failed"
		return out
	}
	d := b.Disk.Clone()
	d.Tick = ticks[mod(p.Tick, len(ticks))]
	w := &world{p: p, d: d, out: &out, cfg: cfgT{fileMode: !p.NoFileMode, crlf: p.CRLF}, blobs: map[string]string{}, heads: map[plumbing.Hash]map[string]hent{}, writer: "gogit"}
	conf := "[core]\n\tbare = false\n"
	if p.NoFileMode {
		conf += "\tfilemode = false\n"
	}
	if p.CRLF {
		conf += "\tautocrlf = input\n"
	}
	_ = d.WriteFile("/w/.git/config", []byte(conf), 0o644)
	if p.Exclude > 0 {
		_ = d.WriteFile("/w/.git/info/exclude", []byte(ignoreSets[mod(p.Exclude-1, len(ignoreSets))]), 0o644)
	}
	for _, c := range b.Model.Commits {
		w.commits = append(w.commits, c.Hash)
		for _, f := range c.Tree {
			w.blobs[blobID(f.Data)] = f.Data
		}
	}
	w.blobs[emptyBlob] = ""
	d.Advance(gapDur(d.Tick, p.Gap0))
	var err error
	if w.warm, err = gen.Open(d, "/w", "warm", filesystem.Options{}); err != nil {
		out.Inconclusive = "setup-open-failed"
		return out
	}
	defer func() { _ = w.warm.Storage.Close() }()
	if w.orc, err = gen.Open(d, "/w", "oracle", filesystem.Options{}); err != nil {
		out.Inconclusive = "setup-open-failed"
		return out
	}
	defer func() { _ = w.orc.Storage.Close() }()
	finish := func() core.Outcome {
		w.gs.close()
		out.LogHash = core.HashStrings(w.trace)
		out.Trace = w.trace
		if len(w.detail) > 0 {
			out.Trace = append(append([]string{}, w.trace...), "errors returned by go-git (not part of the hashed log):")
			out.Trace = append(out.Trace, w.detail...)
		}
		out.StateHash = d.Digest("/w", func(p string) bool { return strings.HasPrefix(p, "/w/.git/objects/") })
		out.Steps = len(p.Steps)
		return out
	}
	w.logf("tick=%s fileMode=%v autocrlf=%v exclude=%d start=+%s", d.Tick, w.cfg.fileMode, w.cfg.crlf, p.Exclude, gapDur(d.Tick, p.Gap0))
	// everything in the generated repository was written and staged in its
	// first tick
	if X, prob := diskIndex(d); prob == "" {
		w.recorded = map[string]recRec{}
		for q, e := range X {
			w.recorded[q] = recRec{e: e, at: e.mtime}
		}
	}

	for i, s := range p.Steps {
		if i >= 14 || out.Signature != "" || out.Inconclusive != "" {
			break
		}
		d.Advance(gapDur(d.Tick, s.Gap))
		W, mt := listWT(d)
		w.learn(W)
		switch {
		case userKinds[s.Kind]:
			X, _ := diskIndex(d)
			w.logf("step %d %s: user: %s", i, gapNames[mod(s.Gap, 4)], w.userStep(s, W, X))
		case s.Kind == "extindex":
			w.logf("step %d %s: git: %s", i, gapNames[mod(s.Gap, 4)], w.extIndex(s, W, mt))
		case gitKinds[s.Kind]:
			_, _, before := indexStat(d)
			desc, err := w.gitStep(s, W)
			res := "ok"
			if err != nil {
				res = "error"
				w.detail = append(w.detail, fmt.Sprintf("step %d: %v", i, err))
				out.Probe("op-refused:" + s.Kind)
			} else {
				out.Probe("op-ok:" + s.Kind)
			}
			if _, _, after := indexStat(d); after != before {
				w.writer = "gogit"
				w.extPending = false
			}
			w.seenT, w.seenSize, w.seenHash = indexStat(d)
			w.seenSet = true
			w.logf("step %d %s: go-git: %s: %s", i, gapNames[mod(s.Gap, 4)], desc, res)
		default:
			w.logf("step %d: unknown kind %q skipped", i, s.Kind)
			continue
		}
		W2, _ := listWT(d)
		w.learn(W2)
		w.trackIndex()
		if s.Check {
			if !w.checkpoint(i) {
				break
			}
		}
	}
	return finish()
}

func TestCheck(t *testing.T) {
	core.Main(t, core.Check{
		ID:    "C27",
		Level: "exploration",
		Rule: "plan = generated repository (3-7 commits, some with symlinks, optionally repacked) x mtime tick (1ns/1ms/1s/2s) x core.fileMode (true/false) x core.autocrlf (unset/input) x info/exclude (none or one of 11 pattern sets) x history of 3-12 steps, each preceded by a drawn clock advance (none / less than a tick / one tick / more than a tick; the clock never goes back): " +
			"user edits on the simulated disk (write with equal or other length, same-length byte flip, revert to the staged content, touch, chmod, delete, symlink create/retarget incl. same-length targets, mkdir, file<->directory<->symlink replacements, .gitignore at three levels), go-git calls through one long-lived Repository (Add file/dir, AddWithOptions{All}, Remove, Move, Commit{All}, Reset soft/mixed/hard, Checkout branch/hash, Restore), " +
			"and index rewrites by a harness-encoded external writer with chosen stat data (touch, refresh, zero stat data, read-tree HEAD, add, rm --cached, add -N, whole-second mtimes, foreign nanoseconds; smudging like git); edits are often followed by Add and by a same-length edit within the same tick and then by another index write; " +
			"after about 3/4 of the steps Status is called through the long-lived repository (warm stat-keyed index cache), through a freshly opened one and with the Preload strategy and compared path by path with a content-truth model of git status computed from the on-disk state; 1/6 of the plans inject one transient read/open/stat/readdir/readlink fault into one extra Status call; " +
			"1/1200 of the plans (1/200 in thorough) also export every judged state and compare the model with git 2.39; non-trivial = at least one judged state with a non-empty expected status; distinct = distinct plan JSON",
		Assumptions: []string{
			"truth is content truth: git status re-hashes whatever its stat data cannot vouch for, so on every generated state (monotone clock, external writer that smudges like git) git reports what the HEAD tree, the index ids/modes and the worktree bytes/modes/targets imply; timestamps and sizes never enter the model",
			"git's 'T' (type changed) is expected as 'M' because go-git has no such StatusCode; a path git lists twice (\"D  p\" and \"?? p\") is expected as Staging=D, Worktree=?; untracked is ('?','?')",
			"an external index rewrite that would change neither the size nor the mtime tick of the index file is moved to the next tick (a stat-keyed cache cannot see it; C20 states the same scope)",
			"under core.autocrlf=input only printable-ASCII content with LF/CRLF line ends is judged when it contains CR (git's has_crlf_in_index rule is modelled); other content with CR is not judged for that path",
			"the ignore matcher covers the generated pattern forms only (*, leading /, trailing /, !negation, nested .gitignore, info/exclude); .gitignore is always a regular file; no global or system excludes file",
			"no submodules, no unmerged or skip-worktree entries, no renames (git runs with status.renames=false), POSIX names only",
			"go-git calls that return an error are not judged as such; the state they leave is judged like any other",
			"a state whose index holds a path both as a file and as a directory (an index git never writes) ends the run as inconclusive",
			"a path whose converted content equals the staged blob while the recorded non-zero size differs from the file's size is not judged (git reports it as modified from the size alone)",
		},
		Real: []string{"Worktree.Status / StatusWithOptions (Empty, Preload)", "merkletrie filesystem noder (metadataMatches, racy-git rule) and index noder", "gitignore Scope walk", "index encoder/decoder", "storage/filesystem IndexStorage + statIndexCache",
			"Worktree.Add/AddWithOptions/Remove/Move/Commit/Reset/Checkout/Restore as writers of the index and the worktree"},
		Stub:    []string{"disk (simfs) with fault ordinals", "clock (manual, truncated to the run's tick, monotone)", "external index writer (harness-encoded index files)", "git 2.39 on exported snapshots as a second oracle for the model only"},
		Runs:    map[string]int{"quick": 12000, "thorough": 200000},
		NewPlan: func() any { return &Plan{FaultStep: -1} },
		Gen:     genPlan,
		Exec:    execPlan,
		RequiredProbes: []string{
			"racy:same-size-edit-in-tick-of-index-write", "racy:same-size-edit-in-tick-of-add,index-written-later", "same-size-edit-in-later-tick",
			"reverted-or-touched:same-content-newer-mtime", "shortcut-applies:clean-by-metadata", "racily-clean:same-tick-as-index",
			"external-index-zero-stat", "smudged-entry", "ext-smudged-racy-entry", "nsec-mismatch-index-vs-disk", "chmod-with-filemode-false", "exec-bit-differs",
			"symlink-retarget-same-length", "warm-cache-status-after-external-rewrite", "ignored-untracked-suppressed", "tracked-but-ignored", "empty-dir-present",
			"typechange:file->dir", "typechange:dir->file", "typechange:file<->symlink", "ita-entry", "crlf-file-clean-after-conversion",
			"status-judged:warm", "status-judged:fresh", "status-judged:warm+preload", "status-failed-after-fault", "fault-swallowed-status-still-right", "git-confirmed-model",
		},
	})
}
