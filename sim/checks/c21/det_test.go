//go:build verif

package c21

import (
	"fmt"
	"os"
	"sort"
	"strconv"
	"testing"

	"github.com/go-git/go-git/v6/verifsim/core"
)

// detPlans returns, per operation kind, a spread of plans (fixed seeds).
func detPlans(perKind int) map[string][]*Plan {
	out := map[string][]*Plan{}
	for _, op := range opKinds {
		for s := uint64(0); s < uint64(perKind); s++ {
			p := &Plan{RepoSeed: s, Repack: s%2 == 0, PackRefs: s%3 == 0, Op: op, OpSeed: s}
			if isNetKind(op) {
				p.RepoSeed, p.Repack, p.PackRefs = 0, false, false
				p.Net = genNet(core.NewRand(1000+s*77), op, "quick")
			}
			out[op] = append(out[op], p)
		}
	}
	return out
}

// TestOpDeterminism: the sequence of mutating disk operations of every planned
// call must be a pure function of the plan (no Go map iteration order, no
// goroutine interleaving leaking into I/O order on the crashing disk),
// otherwise "crash at the k-th mutation" does not replay. N repetitions of the
// dry run of every plan must give the identical mutation sequence; for the
// network kinds a crashing run in the middle is repeated as well (the peer
// goroutine is still running when the crash hits).
func TestOpDeterminism(t *testing.T) {
	reps, perKind := 6, 12
	if v, err := strconv.Atoi(os.Getenv("C21_DET_REPS")); err == nil && v > 0 {
		reps = v
	}
	if v, err := strconv.Atoi(os.Getenv("C21_DET_PLANS")); err == nil && v > 0 {
		perKind = v
	}
	bad := map[string]int{}
	muts := map[string][]int{}
	plans := detPlans(perKind)
	for _, op := range opKinds {
		for _, p0 := range plans[op] {
			variants := []*Plan{p0}
			if ms, err := dryRun(t, p0); err == nil {
				muts[op] = append(muts[op], len(ms))
				if isNetKind(op) && len(ms) > 2 {
					c := *p0
					c.CrashAt, c.Torn = len(ms)/2, 1
					c2 := *p0
					c2.CrashAt, c2.Torn = len(ms)-1, 3
					variants = append(variants, &c, &c2)
				}
			} else {
				fmt.Println("DRY RUN FAILED", op, err)
				bad[op]++
			}
			for _, p := range variants {
				var ref, refState string
				var refTrace []string
				for i := 0; i < reps; i++ {
					c := *p
					o := execPlan(t, &c)
					h := o.LogHash + "|" + o.Signature + "|" + o.Inconclusive
					if i == 0 {
						ref, refState, refTrace = h, o.StateHash, o.Trace
						continue
					}
					if h != ref || o.StateHash != refState {
						bad[op]++
						if bad[op] == 1 {
							fmt.Println("DIFF", op, "crash_at", p.CrashAt, "\n A:", ref, refState, "\n B:", h, o.StateHash)
							for j := range refTrace {
								if j >= len(o.Trace) || refTrace[j] != o.Trace[j] {
									fmt.Println(" at", j, "\n A:", refTrace[j])
									if j < len(o.Trace) {
										fmt.Println(" B:", o.Trace[j])
									}
									break
								}
							}
						}
						break
					}
				}
			}
		}
	}
	kinds := append([]string{}, opKinds...)
	sort.Strings(kinds)
	for _, k := range kinds {
		ms := append([]int{}, muts[k]...)
		sort.Ints(ms)
		if len(ms) > 0 {
			sum := 0
			for _, v := range ms {
				sum += v
			}
			fmt.Printf("mutations %-22s min %3d  median %3d  max %3d  mean %5.1f  (%d plans)\n", k, ms[0], ms[len(ms)/2], ms[len(ms)-1], float64(sum)/float64(len(ms)), len(ms))
		}
	}
	fmt.Println("nondeterministic ops:", bad)
	if len(bad) > 0 {
		t.Fail()
	}
}
