//go:build verif

package c21

import (
	"fmt"
	"testing"

	"github.com/go-git/go-git/v6/verifsim/core"
)

// TestOpDeterminism: the sequence of disk operations of every planned call
// must be a pure function of the plan (no Go map iteration order leaking into
// I/O order), otherwise "crash at the k-th mutation" does not replay.
func TestOpDeterminism(t *testing.T) {
	bad := map[string]int{}
	for _, op := range opKinds {
		for s := uint64(0); s < 12; s++ {
			p := &Plan{RepoSeed: s, Repack: s%2 == 0, PackRefs: s%3 == 0, Op: op, OpSeed: s}
			var ref string
			var refTrace []string
			for i := 0; i < 6; i++ {
				o := execPlan(t, p)
				h := core.HashStrings(o.Trace)
				if i == 0 {
					ref = h
					refTrace = o.Trace
				} else if h != ref {
					bad[op]++
					if bad[op] == 1 {
						for j := range refTrace {
							if j >= len(o.Trace) || refTrace[j] != o.Trace[j] {
								fmt.Println("DIFF", op, s, "at", j, "\n A:", refTrace[j])
								if j < len(o.Trace) {
									fmt.Println(" B:", o.Trace[j])
								}
								break
							}
						}
					}
					break
				}
			}
		}
	}
	fmt.Println("nondeterministic ops:", bad)
	if len(bad) > 0 {
		t.Fail()
	}
}
