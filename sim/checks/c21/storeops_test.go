//go:build verif

package c21

// Storage-level mutating entry points the porcelain kinds do not reach (or do
// not reach in this state): reference removal / update / check-and-set on a
// name that lives in packed-refs, a reference whose packed value is stale,
// Storage.SetIndex, PackfileWriter used directly followed by a reference to
// the new objects, DeleteLooseObject, DeleteOldObjectPackAndIndex,
// AddAlternate, AppendReflog (go-git's porcelain never writes reflogs; the
// storage entry point is public) and the linked-worktree manager
// x/plumbing/worktree (Add, Remove).
//
// Each kind has an optional preparation step that runs on the copy of the
// generated repository BEFORE the counters are reset: it is set-up, not part of
// the measured call, and is never crashed.

import (
	"bytes"
	"fmt"
	"time"

	"github.com/go-git/go-git/v6/plumbing"
	"github.com/go-git/go-git/v6/plumbing/cache"
	"github.com/go-git/go-git/v6/plumbing/filemode"
	"github.com/go-git/go-git/v6/plumbing/format/index"
	"github.com/go-git/go-git/v6/plumbing/format/packfile"
	"github.com/go-git/go-git/v6/plumbing/format/reflog"
	"github.com/go-git/go-git/v6/plumbing/object"
	"github.com/go-git/go-git/v6/storage/filesystem"
	"github.com/go-git/go-git/v6/storage/memory"
	"github.com/go-git/go-git/v6/verifsim/core"
	"github.com/go-git/go-git/v6/verifsim/gen"
	xworktree "github.com/go-git/go-git/v6/x/plumbing/worktree"

	git "github.com/go-git/go-git/v6"
)

var storeKinds = []string{"remove-packed-ref", "set-packed-ref", "cas-ref", "remove-stale-packed", "setindex", "packwriter",
	"delete-loose-object", "delete-old-pack", "add-alternate", "reflog-append", "worktree-add", "worktree-remove"}

// opCtx carries what the preparation step hands to the measured call.
type opCtx struct {
	hash     plumbing.Hash // object / pack / commit the call is about
	pack     []byte        // encoded pack (packwriter)
	deleted  map[string]bool
	preExtra map[string]plumbing.Hash // references the preparation added (they exist before the measured call)
}

const (
	staleRef = "refs/heads/tmpx"
	packRef  = "refs/heads/viapack"
	lwName   = "lw1"
	lwRoot   = "/lw"
	altGit   = "/alt/repo.git"
)

func newCommitOn(parent plumbing.Hash, tag string) (*memory.Storage, []plumbing.Hash, error) {
	ms := memory.NewStorage()
	put := func(o interface {
		Encode(plumbing.EncodedObject) error
	}) (plumbing.Hash, error) {
		eo := ms.NewEncodedObject()
		if err := o.Encode(eo); err != nil {
			return plumbing.ZeroHash, err
		}
		return ms.SetEncodedObject(eo)
	}
	eo := ms.NewEncodedObject()
	eo.SetType(plumbing.BlobObject)
	data := []byte("content made for " + tag + "\n")
	eo.SetSize(int64(len(data)))
	w, _ := eo.Writer()
	_, _ = w.Write(data)
	_ = w.Close()
	bh, err := ms.SetEncodedObject(eo)
	if err != nil {
		return nil, nil, err
	}
	th, err := put(&object.Tree{Entries: []object.TreeEntry{{Name: "only.txt", Mode: filemode.Regular, Hash: bh}}})
	if err != nil {
		return nil, nil, err
	}
	c := &object.Commit{Author: *gen.Sig(70), Committer: *gen.Sig(70), Message: tag + "\n", TreeHash: th}
	if !parent.IsZero() {
		c.ParentHashes = []plumbing.Hash{parent}
	}
	ch, err := put(c)
	if err != nil {
		return nil, nil, err
	}
	return ms, []plumbing.Hash{ch, th, bh}, nil
}

// prepOp runs the preparation step of p.Op (nothing for most kinds).
func prepOp(p *Plan, env *gen.Env, m *gen.Model) (*opCtx, error) {
	ctx := &opCtx{deleted: map[string]bool{}, preExtra: map[string]plumbing.Hash{}}
	st := env.Storage
	tip := m.Commits[m.HeadIdx].Hash
	switch p.Op {
	case "tag-delete":
		ctx.deleted["refs/tags/light"] = true
	case "branch-delete":
		ctx.deleted["refs/heads/old"] = true
	case "remove-packed-ref":
		ctx.deleted["refs/heads/old"] = true
		return ctx, st.PackRefs()
	case "set-packed-ref":
		return ctx, st.PackRefs()
	case "remove-stale-packed":
		// refs/heads/tmpx is packed with a value whose object has since been
		// pruned, and shadowed by a loose file holding the current value.
		ms, hs, err := newCommitOn(tip, "stale")
		if err != nil {
			return ctx, err
		}
		for _, h := range hs {
			eo, _ := ms.EncodedObject(plumbing.AnyObject, h)
			if _, err := st.SetEncodedObject(eo); err != nil {
				return ctx, err
			}
		}
		if err := st.SetReference(plumbing.NewHashReference(staleRef, hs[0])); err != nil {
			return ctx, err
		}
		if err := st.PackRefs(); err != nil {
			return ctx, err
		}
		if err := st.SetReference(plumbing.NewHashReference(staleRef, tip)); err != nil {
			return ctx, err
		}
		for _, h := range hs {
			if err := st.DeleteLooseObject(h); err != nil {
				return ctx, err
			}
		}
		ctx.preExtra[staleRef] = tip
		ctx.deleted[staleRef] = true
	case "packwriter":
		ms, hs, err := newCommitOn(tip, fmt.Sprintf("packwriter %d", p.OpSeed))
		if err != nil {
			return ctx, err
		}
		var buf bytes.Buffer
		if _, err := packfile.NewEncoder(&buf, ms, false).Encode(hs, 0); err != nil {
			return ctx, err
		}
		ctx.hash, ctx.pack = hs[0], buf.Bytes()
	case "delete-loose-object":
		eo := st.NewEncodedObject()
		eo.SetType(plumbing.BlobObject)
		data := []byte(fmt.Sprintf("dangling %d\n", p.OpSeed))
		eo.SetSize(int64(len(data)))
		w, _ := eo.Writer()
		_, _ = w.Write(data)
		_ = w.Close()
		h, err := st.SetEncodedObject(eo)
		ctx.hash = h
		return ctx, err
	case "delete-old-pack":
		// a redundant pack: the objects of the first commit, which stay
		// available loose or in the repository's other pack
		before, err := st.ObjectPacks()
		if err != nil {
			return ctx, err
		}
		c, err := env.Repo.CommitObject(m.Commits[0].Hash)
		if err != nil {
			return ctx, err
		}
		hs := []plumbing.Hash{c.Hash, c.TreeHash}
		var buf bytes.Buffer
		if _, err := packfile.NewEncoder(&buf, st, false).Encode(hs, 0); err != nil {
			return ctx, err
		}
		w, err := st.PackfileWriter()
		if err != nil {
			return ctx, err
		}
		if _, err := w.Write(buf.Bytes()); err != nil {
			return ctx, err
		}
		if err := w.Close(); err != nil {
			return ctx, err
		}
		after, err := st.ObjectPacks()
		if err != nil {
			return ctx, err
		}
		seen := map[plumbing.Hash]bool{}
		for _, h := range before {
			seen[h] = true
		}
		for _, h := range after {
			if !seen[h] {
				ctx.hash = h
			}
		}
		if ctx.hash.IsZero() {
			return ctx, fmt.Errorf("no new pack appeared")
		}
	case "add-alternate":
		ast := filesystem.NewStorage(env.Disk.FS(altGit, "setup"), cache.NewObjectLRUDefault())
		_, err := git.Init(ast)
		_ = ast.Close()
		return ctx, err
	case "worktree-remove":
		wm, err := xworktree.New(st)
		if err != nil {
			return ctx, err
		}
		if err := wm.Add(env.Disk.FS(lwRoot, "setup"), lwName, xworktree.WithCommit(tip)); err != nil {
			return ctx, err
		}
		ctx.preExtra["refs/heads/"+lwName] = tip
	}
	return ctx, nil
}

// runStoreOp performs the measured call of a storage-level kind.
func runStoreOp(p *Plan, env *gen.Env, m *gen.Model, ctx *opCtx) error {
	r := core.NewRand(p.OpSeed + 17)
	st := env.Storage
	pick := func() plumbing.Hash { return m.Commits[r.Intn(len(m.Commits))].Hash }
	switch p.Op {
	case "remove-packed-ref":
		return st.RemoveReference("refs/heads/old")
	case "set-packed-ref":
		return st.SetReference(plumbing.NewHashReference("refs/heads/old", pick()))
	case "cas-ref":
		// loose when the generated repository keeps loose refs, packed otherwise
		return st.CheckAndSetReference(plumbing.NewHashReference("refs/heads/old", pick()), plumbing.NewHashReference("refs/heads/old", m.Refs["refs/heads/old"]))
	case "remove-stale-packed":
		return st.RemoveReference(staleRef)
	case "setindex":
		idx, err := st.Index()
		if err != nil {
			return err
		}
		if len(idx.Entries) == 0 {
			return fmt.Errorf("empty index")
		}
		if len(idx.Entries) > 1 && p.OpSeed%2 == 0 {
			idx.Entries = idx.Entries[:len(idx.Entries)-1]
		} else {
			// stage an existing blob under a new name (an index entry is a root for git fsck)
			blob := idx.Entries[0].Hash
			idx.Entries = append(idx.Entries, &index.Entry{Name: "zz/direct.txt", Hash: blob, Mode: filemode.Regular,
				CreatedAt: time.Unix(1_600_000_500, 0).UTC(), ModifiedAt: time.Unix(1_600_000_500, 0).UTC()})
		}
		return st.SetIndex(idx)
	case "packwriter":
		w, err := st.PackfileWriter()
		if err != nil {
			return err
		}
		chunk := 64 + int(p.OpSeed%200)
		for off := 0; off < len(ctx.pack); off += chunk {
			end := off + chunk
			if end > len(ctx.pack) {
				end = len(ctx.pack)
			}
			if _, err := w.Write(ctx.pack[off:end]); err != nil {
				_ = w.Close()
				return err
			}
		}
		if err := w.Close(); err != nil {
			return err
		}
		// objects first, then the reference that needs them
		return st.SetReference(plumbing.NewHashReference(packRef, ctx.hash))
	case "delete-loose-object":
		return st.DeleteLooseObject(ctx.hash)
	case "delete-old-pack":
		return st.DeleteOldObjectPackAndIndex(ctx.hash, time.Time{})
	case "add-alternate":
		return st.AddAlternate(altGit)
	case "reflog-append":
		name := plumbing.ReferenceName("refs/heads/master")
		for i := 0; i < 2; i++ {
			e := &reflog.Entry{OldHash: m.Commits[0].Hash, NewHash: pick(), Committer: reflog.Signature{Name: "Sim", Email: "sim@example.com", When: time.Unix(1_600_000_900+int64(i), 0).UTC()}, Message: fmt.Sprintf("crash test %d", i)}
			if err := st.AppendReflog(name, e); err != nil {
				return err
			}
		}
		return nil
	case "worktree-add":
		wm, err := xworktree.New(st)
		if err != nil {
			return err
		}
		opts := []xworktree.Option{xworktree.WithCommit(pick())}
		if p.OpSeed%3 == 0 {
			opts = append(opts, xworktree.WithDetachedHead())
		}
		return wm.Add(env.Disk.FS(lwRoot, "op"), lwName, opts...)
	case "worktree-remove":
		wm, err := xworktree.New(st)
		if err != nil {
			return err
		}
		return wm.Remove(lwName)
	}
	return nil
}

func isStoreKind(op string) bool {
	for _, k := range storeKinds {
		if k == op {
			return true
		}
	}
	return false
}
