//go:build verif

package c21

// Network-driven mutations: fetch, clone, push (client disk) and receive-pack
// (server disk). Two go-git repositories on two separate simulated disks are
// joined by sim/simnet (Transport with Drv=nil: the real transport.UploadPack /
// ReceivePack runs on the server storage in a goroutine, joined to the client
// by byte streams whose segmentation is a function of the writer's own Write
// calls only). Exactly one of the two disks is the crashing, recorded and
// judged one; it is mutated by one side only (the client's calling goroutine
// for fetch/clone/push, the server command's goroutine for receive-pack; the
// pack writer's indexer goroutine only reads), so the sequence of its mutating
// operations is a function of the plan and crash points can be addressed by
// ordinal exactly like for the local kinds.
//
// The judged repository always lives at /w (git directory /w/.git) on its
// disk, so that the oracle, the path categories and therefore the signatures
// are shared with the local kinds.
//
// Order of disk mutations decided by Go map iteration inside go-git, and how
// the workloads stay clear of it (nothing in /repo is edited):
//   - storage/memory/storage.go:459 (ReferenceStorage.IterReferences ranges
//     over the map), reached from remote.go:1177 (doCalculateRefs, wildcard
//     refspec): the order of the remote-tracking ref updates of a wildcard
//     fetch. Wildcard fetches/clones here face a server with ONE branch;
//     several refs per fetch are covered with explicit refspecs, whose order
//     is the order of the slice.
//   - remote.go:1458 (buildFetchedTags ranges over a memory.ReferenceStorage):
//     the order of tag updates. At most one tag exists on the sending side.
//   - remote.go:831 (deleteReferences iterates the remote's advertised refs,
//     again memory.ReferenceStorage): order of delete commands of a wildcard or
//     pruning push. Pushes here use one explicit refspec per update.
//   - remote.go:1215/1228 (getWants) and 1109 (getHaves): order of want/have
//     lines on the wire. With explicit refspecs for several branches there are
//     several wants; det_test.go and bin/selftest-determinism (30 processes)
//     show that this does not reach the client's disk: the pack the server
//     builds, and with it every client write, is the same for every order.

import (
	"encoding/json"
	"errors"
	"fmt"
	"sort"
	"strings"
	"testing"

	git "github.com/go-git/go-git/v6"
	"github.com/go-git/go-git/v6/config"
	"github.com/go-git/go-git/v6/plumbing"
	"github.com/go-git/go-git/v6/plumbing/cache"
	"github.com/go-git/go-git/v6/plumbing/client"
	"github.com/go-git/go-git/v6/plumbing/protocol"
	"github.com/go-git/go-git/v6/storage"
	"github.com/go-git/go-git/v6/storage/filesystem"
	"github.com/go-git/go-git/v6/verifsim/core"
	"github.com/go-git/go-git/v6/verifsim/gen"
	"github.com/go-git/go-git/v6/verifsim/sched"
	"github.com/go-git/go-git/v6/verifsim/simfs"
	"github.com/go-git/go-git/v6/verifsim/simnet"
)

// NetPlan describes the two repositories and the request of a network kind.
type NetPlan struct {
	Seed      uint64 `json:"seed"`
	Commits   int    `json:"commits"`    // length of the history on the sending side
	Branches  int    `json:"branches"`   // fetch/clone: server branches (forced to 1 for wildcard refspecs)
	MergeRate int    `json:"merge_rate"` // percent of commits with a second parent
	Tag       bool   `json:"tag"`        // one tag on the sending side (never more: remote.go:1458)
	Prior     string `json:"prior"`      // fetch: empty | prefix | stale | foreign | shallow
	PrefixLen int    `json:"prefix_len"` // commits the receiving side already has
	Packed    bool   `json:"packed"`     // references of the crashing repository are packed before the operation
	Wildcard  bool   `json:"wildcard"`   // fetch: +refs/heads/*:refs/remotes/origin/* (one server branch) instead of explicit refspecs
	TagMode   int    `json:"tag_mode"`   // 0 following, 1 all, 2 none
	Depth     int    `json:"depth"`
	Prune     bool   `json:"prune"`
	Proto     int    `json:"proto"`  // 0 v0, 1 v1, 2 v2 (fetch; clone runs with go-git's default)
	Single    bool   `json:"single"` // clone: single branch
	Push      []int  `json:"push"`   // push / receive-pack: update kinds, in request order
}

// push update kinds
const (
	puMain   = 0 // refs/heads/main:refs/heads/main            fast-forward update
	puNew    = 1 // refs/heads/topic:refs/heads/new           create
	puDelOld = 2 // :refs/heads/old                           delete
	puTag    = 3 // refs/tags/vt:refs/tags/vt                 create (annotated tag object)
	puForce  = 4 // +refs/heads/main:refs/heads/rel           forced, rel holds an unrelated history
	puDelDev = 5 // :refs/heads/dev                           delete
)

var netKinds = []string{"fetch", "clone", "receive-pack", "push"}

func isNetKind(op string) bool {
	for _, k := range netKinds {
		if k == op {
			return true
		}
	}
	return false
}

func genNet(r *core.Rand, op string, tier string) *NetPlan {
	n := &NetPlan{Seed: r.Uint64() % 5000, Commits: r.Range(2, 6), Branches: r.Range(1, 3), MergeRate: r.Pick2(0, 30), Tag: r.Chance(1, 2), Packed: r.Bool(),
		TagMode: r.Intn(3), Proto: r.Pick2(0, 2, 2, 1), Prune: r.Chance(1, 3)}
	if tier == "thorough" {
		n.Seed = r.Uint64() % 100000
		n.Commits = r.Range(2, 10)
	}
	n.PrefixLen = r.Range(1, n.Commits)
	switch op {
	case "fetch":
		n.Prior = r.Pick("empty", "prefix", "prefix", "stale", "foreign", "shallow", "shallow")
		n.Wildcard = r.Bool()
		if n.Prior == "stale" {
			n.Wildcard, n.Prune = true, true
		}
		if r.Chance(1, 4) || n.Prior == "shallow" {
			n.Depth = r.Range(1, 3)
		}
		if n.Prior == "shallow" {
			n.Depth = r.Range(2, 4)
			n.Commits = r.Range(4, 7)
		}
	case "clone":
		n.Single = r.Chance(1, 3)
		if r.Chance(1, 3) {
			n.Depth = r.Range(1, 3)
		}
	default: // receive-pack, push
		k := r.Range(1, 4)
		for i := 0; i < k; i++ {
			n.Push = append(n.Push, r.Intn(6))
		}
	}
	return n
}

func (n *NetPlan) clamp(op string) {
	if n.Commits < 2 {
		n.Commits = 2
	}
	if n.Commits > 24 {
		n.Commits = 24
	}
	if n.PrefixLen < 1 {
		n.PrefixLen = 1
	}
	if n.PrefixLen > n.Commits {
		n.PrefixLen = n.Commits
	}
	if n.Branches < 1 {
		n.Branches = 1
	}
	if n.Branches > 3 {
		n.Branches = 3
	}
	if n.Depth < 0 {
		n.Depth = 0
	}
	if n.Depth > 30 {
		n.Depth = 30
	}
	if n.MergeRate < 0 || n.MergeRate > 100 {
		n.MergeRate = 0
	}
	switch n.Prior {
	case "empty", "prefix", "stale", "foreign", "shallow":
	default:
		n.Prior = "empty"
	}
	if (op == "fetch" && n.Wildcard) || (op == "clone" && !n.Single) {
		n.Branches = 1
	}
	if op == "receive-pack" || op == "push" {
		n.Branches = 1
		if len(n.Push) == 0 {
			n.Push = []int{puMain}
		}
		if len(n.Push) > 6 {
			n.Push = n.Push[:6]
		}
	}
}

func mod(a, n int) int {
	if n <= 0 {
		return 0
	}
	a %= n
	if a < 0 {
		a += n
	}
	return a
}

const (
	judgedRoot = "/w"
	judgedGit  = "/w/.git"
	otherGit   = "/peer/repo.git"
)

// netBase is the pair of disk images before the measured call.
type netBase struct {
	judged, peer *simfs.Disk
	pre          *preState
	specs        []config.RefSpec // request of the measured call (fetch / push)
	deleted      map[string]bool  // references the request legitimately deletes on the judged side
	err          error
}

var netCache = map[string]*netBase{}

func netKey(p *Plan) string {
	js, _ := json.Marshal(p.Net)
	return p.Op + "|" + string(js)
}

func dagCfg(n *NetPlan, commits int, push bool) gen.DAGCfg {
	c := gen.DAGCfg{Commits: commits, Branches: n.Branches, MergeRate: n.MergeRate, ChainBias: 70, SharedBlob: true}
	if n.Tag {
		c.Tags = 1
	}
	if push {
		// first parents form a chain, so main is always a fast-forward of its prefix
		c.ChainBias, c.Tags, c.Branches = 100, 0, 1
	}
	return c
}

// openJudged opens a fresh Storage on the judged repository.
func openStorage(d *simfs.Disk, gitDir, actor string) *filesystem.Storage {
	return filesystem.NewStorage(d.FS(gitDir, actor), cache.NewObjectLRUDefault())
}

func newTransport(srv *simfs.Disk) *simnet.Transport {
	return &simnet.Transport{Open: func(path string) (storage.Storer, error) {
		return filesystem.NewStorage(srv.FS(path, "server"), cache.NewObjectLRUDefault()), nil
	}}
}

func protoOf(n *NetPlan) protocol.Version {
	return []protocol.Version{protocol.V0, protocol.V1, protocol.V2}[mod(n.Proto, 3)]
}

func tagModeOf(n *NetPlan) plumbing.TagMode {
	return []plumbing.TagMode{plumbing.TagFollowing, plumbing.AllTags, plumbing.NoTags}[mod(n.TagMode, 3)]
}

func sortedNames(m map[string]plumbing.Hash) []string {
	out := make([]string, 0, len(m))
	for k := range m {
		out = append(out, k)
	}
	sort.Strings(out)
	return out
}

// getNetBase builds (once per distinct plan content) the two images. It runs
// go-git and, for a shallow prior state, a real set-up fetch, so it must be
// called from inside a bubble.
func getNetBase(p *Plan) *netBase {
	key := netKey(p)
	if b, ok := netCache[key]; ok {
		return b
	}
	if len(netCache) > 200 {
		netCache = map[string]*netBase{}
	}
	b := buildNetBase(p)
	netCache[key] = b
	return b
}

func buildNetBase(p *Plan) *netBase {
	n := p.Net
	b := &netBase{judged: simfs.NewDisk(), peer: simfs.NewDisk(), deleted: map[string]bool{}}
	fail := func(what string, err error) *netBase {
		b.err = fmt.Errorf("%s: %v", what, err)
		return b
	}
	initJudged := func() (*filesystem.Storage, *git.Repository, error) {
		wt := b.judged.FS(judgedRoot, "setup")
		dot, _ := wt.Chroot(".git")
		st := filesystem.NewStorage(dot, cache.NewObjectLRUDefault())
		repo, err := git.Init(st, git.WithWorkTree(wt))
		return st, repo, err
	}
	switch p.Op {
	case "fetch", "clone":
		// ---- server (peer) ----
		srvSt := openStorage(b.peer, otherGit, "srv-setup")
		if _, err := git.Init(srvSt); err != nil {
			return fail("server init", err)
		}
		dag, err := gen.BuildDAG(n.Seed, dagCfg(n, n.Commits, false), srvSt)
		if err != nil {
			return fail("server dag", err)
		}
		if err := dag.WriteRefs(srvSt); err != nil {
			return fail("server refs", err)
		}
		_ = srvSt.Close()
		if p.Op == "clone" {
			break
		}
		// ---- client (judged) ----
		cliSt, repo, err := initJudged()
		if err != nil {
			return fail("client init", err)
		}
		url := "sim://server" + otherGit
		var specs []config.RefSpec
		if n.Wildcard {
			specs = []config.RefSpec{"+refs/heads/*:refs/remotes/origin/*"}
		} else {
			for _, name := range sortedNames(dag.Refs) {
				if strings.HasPrefix(name, "refs/heads/") {
					specs = append(specs, config.RefSpec("+"+name+":refs/remotes/origin/"+strings.TrimPrefix(name, "refs/heads/")))
				}
			}
			if n.Tag && tagModeOf(n) != plumbing.NoTags {
				for _, name := range sortedNames(dag.Refs) {
					if strings.HasPrefix(name, "refs/tags/") {
						specs = append(specs, config.RefSpec("+"+name+":"+name))
					}
				}
			}
		}
		b.specs = specs
		cfg, _ := repo.Config()
		cfg.Protocol.Version = protoOf(n)
		cfg.Remotes["origin"] = &config.RemoteConfig{Name: "origin", URLs: []string{url}, Fetch: []config.RefSpec{"+refs/heads/*:refs/remotes/origin/*"}}
		if err := repo.SetConfig(cfg); err != nil {
			return fail("client config", err)
		}
		switch n.Prior {
		case "prefix", "stale", "foreign":
			pre, err := gen.BuildDAG(n.Seed, dagCfg(n, n.PrefixLen, false), cliSt)
			if err != nil {
				return fail("client dag", err)
			}
			tip := pre.Commits[len(pre.Commits)-1].Hash
			track := tip
			if n.Prior == "foreign" {
				f, err := gen.BuildDAG(n.Seed+7777, gen.DAGCfg{Commits: 2, ChainBias: 100}, cliSt)
				if err != nil {
					return fail("client foreign dag", err)
				}
				track = f.Commits[1].Hash
			}
			_ = cliSt.SetReference(plumbing.NewHashReference("refs/heads/main", tip))
			_ = cliSt.SetReference(plumbing.NewSymbolicReference(plumbing.HEAD, "refs/heads/main"))
			_ = cliSt.SetReference(plumbing.NewHashReference("refs/remotes/origin/main", track))
			if n.Prior == "stale" {
				_ = cliSt.SetReference(plumbing.NewHashReference("refs/remotes/origin/gone", tip))
				b.deleted["refs/remotes/origin/gone"] = n.Prune
			}
		case "shallow":
			tr := newTransport(b.peer)
			err := repo.Fetch(&git.FetchOptions{RemoteName: "origin", RefSpecs: specs, Depth: 1, Tags: plumbing.NoTags, ClientOptions: []client.Option{client.WithTransport("sim", tr)}})
			tr.Wait()
			if err != nil {
				return fail("client set-up shallow fetch", err)
			}
		}
		if n.Packed {
			if err := cliSt.PackRefs(); err != nil {
				return fail("client pack-refs", err)
			}
		}
		_ = cliSt.Close()
	case "receive-pack", "push":
		// one history: the client has all of it, the server a prefix (plus an
		// unrelated two-commit history under refs/heads/rel)
		srvDisk, cliDisk := b.judged, b.peer
		srvGit, cliGit := judgedGit, otherGit
		if p.Op == "push" {
			srvDisk, cliDisk = b.peer, b.judged
			srvGit, cliGit = otherGit, judgedGit
		}
		mk := func(d *simfs.Disk, gitDir string) (*filesystem.Storage, *git.Repository, error) {
			if gitDir == judgedGit {
				return initJudged()
			}
			st := openStorage(d, gitDir, "setup")
			repo, err := git.Init(st)
			return st, repo, err
		}
		srvSt, _, err := mk(srvDisk, srvGit)
		if err != nil {
			return fail("server init", err)
		}
		sd, err := gen.BuildDAG(n.Seed, dagCfg(n, n.PrefixLen, true), srvSt)
		if err != nil {
			return fail("server dag", err)
		}
		foreign, err := gen.BuildDAG(n.Seed+7777, gen.DAGCfg{Commits: 2, ChainBias: 100}, srvSt)
		if err != nil {
			return fail("server foreign dag", err)
		}
		srvRefs := map[string]plumbing.Hash{
			"refs/heads/main": sd.Commits[n.PrefixLen-1].Hash,
			"refs/heads/dev":  sd.Commits[mod(int(n.Seed), n.PrefixLen)].Hash,
			"refs/heads/old":  sd.Commits[0].Hash,
			"refs/heads/rel":  foreign.Commits[1].Hash,
		}
		for _, name := range sortedNames(srvRefs) {
			_ = srvSt.SetReference(plumbing.NewHashReference(plumbing.ReferenceName(name), srvRefs[name]))
		}
		_ = srvSt.SetReference(plumbing.NewSymbolicReference(plumbing.HEAD, "refs/heads/main"))
		if n.Packed && p.Op == "receive-pack" {
			if err := srvSt.PackRefs(); err != nil {
				return fail("server pack-refs", err)
			}
		}
		_ = srvSt.Close()
		cliSt, repo, err := mk(cliDisk, cliGit)
		if err != nil {
			return fail("client init", err)
		}
		cd, err := gen.BuildDAG(n.Seed, dagCfg(n, n.Commits, true), cliSt)
		if err != nil {
			return fail("client dag", err)
		}
		tip := cd.Commits[n.Commits-1].Hash
		_ = cliSt.SetReference(plumbing.NewHashReference("refs/heads/main", tip))
		_ = cliSt.SetReference(plumbing.NewHashReference("refs/heads/topic", cd.Commits[mod(int(n.Seed/3), n.Commits)].Hash))
		_ = cliSt.SetReference(plumbing.NewSymbolicReference(plumbing.HEAD, "refs/heads/main"))
		for _, name := range sortedNames(srvRefs) {
			if name == "refs/heads/rel" {
				continue // the client has never seen the unrelated history
			}
			_ = cliSt.SetReference(plumbing.NewHashReference(plumbing.ReferenceName("refs/remotes/origin/"+strings.TrimPrefix(name, "refs/heads/")), srvRefs[name]))
		}
		if _, err := repo.CreateTag("vt", tip, &git.CreateTagOptions{Tagger: gen.Sig(7), Message: "t"}); err != nil {
			return fail("client tag", err)
		}
		cfg, _ := repo.Config()
		cfg.Remotes["origin"] = &config.RemoteConfig{Name: "origin", URLs: []string{"sim://server" + srvGit}, Fetch: []config.RefSpec{"+refs/heads/*:refs/remotes/origin/*"}}
		if err := repo.SetConfig(cfg); err != nil {
			return fail("client config", err)
		}
		if n.Packed && p.Op == "push" {
			if err := cliSt.PackRefs(); err != nil {
				return fail("client pack-refs", err)
			}
		}
		_ = cliSt.Close()
		seenDst := map[string]bool{}
		for _, k := range n.Push {
			var spec, dst string
			del := false
			switch mod(k, 6) {
			case puMain:
				if n.PrefixLen == n.Commits {
					continue // nothing to update
				}
				spec, dst = "refs/heads/main:refs/heads/main", "refs/heads/main"
			case puNew:
				spec, dst = "refs/heads/topic:refs/heads/new", "refs/heads/new"
			case puDelOld:
				spec, dst, del = ":refs/heads/old", "refs/heads/old", true
			case puTag:
				spec, dst = "refs/tags/vt:refs/tags/vt", "refs/tags/vt"
			case puForce:
				spec, dst = "+refs/heads/main:refs/heads/rel", "refs/heads/rel"
			case puDelDev:
				spec, dst, del = ":refs/heads/dev", "refs/heads/dev", true
			}
			if seenDst[dst] {
				continue
			}
			seenDst[dst] = true
			b.specs = append(b.specs, config.RefSpec(spec))
			if del {
				if p.Op == "receive-pack" {
					b.deleted[dst] = true
				} else {
					b.deleted["refs/remotes/origin/"+strings.TrimPrefix(dst, "refs/heads/")] = true
				}
			}
		}
		if len(b.specs) == 0 {
			b.specs = []config.RefSpec{"refs/heads/topic:refs/heads/new"}
		}
	}
	pre, err := readPreState(b.judged, p.Op == "clone")
	if err != nil {
		return fail("pre-state", err)
	}
	b.pre = pre
	return b
}

// readPreState lists the references of the judged repository before the
// measured call (with a fresh Storage on a copy of the image).
func readPreState(d *simfs.Disk, absent bool) (*preState, error) {
	pre := &preState{refs: map[string]plumbing.Hash{}}
	if absent {
		return pre, nil
	}
	st := openStorage(d.Clone(), judgedGit, "pre")
	defer st.Close()
	it, err := st.IterReferences()
	if err != nil {
		return nil, err
	}
	err = it.ForEach(func(r *plumbing.Reference) error {
		switch r.Type() {
		case plumbing.HashReference:
			if r.Name() != plumbing.HEAD {
				pre.refs[r.Name().String()] = r.Hash()
			}
			pre.roots = append(pre.roots, r.Hash())
		case plumbing.SymbolicReference:
			if r.Name() == plumbing.HEAD {
				if _, err := st.Reference(r.Target()); errors.Is(err, plumbing.ErrReferenceNotFound) {
					pre.unborn = r.Target().String()
				}
			}
		}
		return nil
	})
	sort.Slice(pre.roots, func(i, j int) bool { return pre.roots[i].String() < pre.roots[j].String() })
	return pre, err
}

// netRun is what one execution of a network kind leaves behind.
type netRun struct {
	disk     *simfs.Disk
	base     *netBase
	opErr    error
	srvErr   error
	inconc   string
	panicked any
}

// runNet executes the measured call of a network kind inside a bubble: every
// goroutine the call starts (server command, pack indexer, negotiation
// helpers) must have ended when the bubble ends, otherwise synctest reports
// the blocked goroutines and the run is flagged, so nothing survives into the
// next run. After a crash the dying side's errors close its streams
// (Session.Close / the transport's deferred closes), which unblocks the peer;
// the peer works on the other disk and can never touch the frozen one.
func runNet(t *testing.T, p *Plan) *netRun {
	res := &netRun{}
	res.panicked = sched.Bubble(t, func() {
		b := getNetBase(p)
		res.base = b
		if b.err != nil {
			res.inconc = "setup-failed"
			res.opErr = b.err
			return
		}
		n := p.Net
		d, peer := b.judged.Clone(), b.peer.Clone()
		res.disk = d
		arm := func() {
			d.ResetCounters()
			d.Record = true
			if p.CrashAt > 0 {
				d.SetCrash(simfs.Crash{AtMut: p.CrashAt, Torn: p.Torn})
			}
		}
		switch p.Op {
		case "fetch":
			tr := newTransport(peer)
			env, err := gen.Open(d, judgedRoot, "op", filesystem.Options{})
			if err != nil {
				res.inconc = "setup-open-failed"
				return
			}
			arm()
			res.opErr = env.Repo.Fetch(&git.FetchOptions{RemoteName: "origin", RefSpecs: append([]config.RefSpec{}, b.specs...), Depth: n.Depth, Tags: tagModeOf(n), Prune: n.Prune,
				ClientOptions: []client.Option{client.WithTransport("sim", tr)}})
			tr.Wait()
			res.srvErr = firstErr(tr.SrvErrs)
		case "clone":
			tr := newTransport(peer)
			wt := d.FS(judgedRoot, "op")
			dot, _ := wt.Chroot(".git")
			st := filesystem.NewStorage(dot, cache.NewObjectLRUDefault())
			o := &git.CloneOptions{URL: "sim://server" + otherGit, ClientOptions: []client.Option{client.WithTransport("sim", tr)}, Depth: n.Depth, Tags: tagModeOf(n), SingleBranch: n.Single}
			if n.Single {
				o.ReferenceName = "refs/heads/main"
			}
			arm()
			_, res.opErr = git.Clone(st, wt, o)
			tr.Wait()
			res.srvErr = firstErr(tr.SrvErrs)
		case "receive-pack":
			// the server disk is the judged one; the client pushes from the peer disk
			tr := newTransport(d)
			cliSt := openStorage(peer, otherGit, "client")
			repo, err := git.Open(cliSt, nil)
			if err != nil {
				res.inconc = "setup-open-failed"
				return
			}
			arm()
			res.opErr = repo.Push(&git.PushOptions{RemoteName: "origin", RefSpecs: append([]config.RefSpec{}, b.specs...), ClientOptions: []client.Option{client.WithTransport("sim", tr)}})
			tr.Wait()
			res.srvErr = firstErr(tr.SrvErrs)
			_ = cliSt.Close()
		case "push":
			tr := newTransport(peer)
			env, err := gen.Open(d, judgedRoot, "op", filesystem.Options{})
			if err != nil {
				res.inconc = "setup-open-failed"
				return
			}
			arm()
			res.opErr = env.Repo.Push(&git.PushOptions{RemoteName: "origin", RefSpecs: append([]config.RefSpec{}, b.specs...), ClientOptions: []client.Option{client.WithTransport("sim", tr)}})
			tr.Wait()
			res.srvErr = firstErr(tr.SrvErrs)
		}
	})
	return res
}

func firstErr(errs []error) error {
	for _, e := range errs {
		if e != nil {
			return e
		}
	}
	return nil
}
