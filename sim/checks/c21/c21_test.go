//go:build verif

// C21 — a crash at any point leaves a readable, connected repository.
//
// A generated repository on the simulated disk, one mutating go-git
// operation, and the process stopped at every mutating disk operation of that
// call in turn (fully applied, or torn for writes and mkdir). The frozen image
// is reopened with brand-new Storage/Repository values and checked: opens,
// config parses, every reference resolves, every object reachable from the
// references before or after the operation is present and decodable, and the
// index decodes.
package c21

import (
	"errors"
	"fmt"
	"io"
	"os"
	"os/exec"
	"sort"
	"strings"
	"testing"

	"github.com/go-git/go-billy/v6/util"
	git "github.com/go-git/go-git/v6"
	"github.com/go-git/go-git/v6/config"
	"github.com/go-git/go-git/v6/plumbing"
	"github.com/go-git/go-git/v6/plumbing/object"
	"github.com/go-git/go-git/v6/plumbing/storer"
	"github.com/go-git/go-git/v6/storage/filesystem"
	"github.com/go-git/go-git/v6/verifsim/core"
	"github.com/go-git/go-git/v6/verifsim/gen"
	"github.com/go-git/go-git/v6/verifsim/hooks"
	"github.com/go-git/go-git/v6/verifsim/simfs"
)

type Plan struct {
	RepoSeed uint64 `json:"repo_seed"`
	Repack   bool   `json:"repack"`
	PackRefs bool   `json:"pack_refs"`
	Op       string `json:"op"`
	OpSeed   uint64 `json:"op_seed"`
	CrashAt  int    `json:"crash_at"` // 0 = no crash (dry run)
	Torn     int    `json:"torn"`
	Git      bool   `json:"git"` // also ask git fsck on the exported image
}

var opKinds = []string{"commit", "add", "checkout-branch", "checkout-new", "reset-hard", "reset-mixed", "repack", "repack-refdelta",
	"prune", "packrefs", "setconfig", "tag", "tag-delete", "branch-delete", "detach-head", "setshallow", "commit-amend-branch"}

func genPlan(r *core.Rand, tier string) any {
	p := &Plan{RepoSeed: r.Uint64() % 64, Repack: r.Bool(), PackRefs: r.Bool(), Op: opKinds[r.Intn(len(opKinds))], OpSeed: r.Uint64() % 1000}
	if tier == "thorough" {
		p.RepoSeed = r.Uint64() % 4096
		p.Git = r.Chance(1, 4)
	}
	return p
}

type base struct {
	disk  *simfs.Disk
	model *gen.Model
	roots []plumbing.Hash
	err   error
}

var baseCache = map[string]*base{}

func getBase(p *Plan) *base {
	key := fmt.Sprintf("%d/%v/%v", p.RepoSeed, p.Repack, p.PackRefs)
	if b, ok := baseCache[key]; ok {
		return b
	}
	if len(baseCache) > 300 {
		baseCache = map[string]*base{}
	}
	d := simfs.NewDisk()
	env, err := gen.Build(core.NewRand(p.RepoSeed*7919+1), d, "/w", gen.Cfg{MinCommits: 3, MaxCommits: 7, Repack: p.Repack, PackRefs: p.PackRefs, Tags: true, Side: true, Symlinks: p.RepoSeed%4 == 0})
	b := &base{disk: d, err: err}
	if err == nil {
		b.model = env.Model
		for _, h := range env.Model.Refs {
			b.roots = append(b.roots, h)
		}
		sort.Slice(b.roots, func(i, j int) bool { return b.roots[i].String() < b.roots[j].String() })
	}
	baseCache[key] = b
	return b
}

// runOp performs the mutating operation. Errors are returned, not judged.
func runOp(p *Plan, env *gen.Env, m *gen.Model) error {
	r := core.NewRand(p.OpSeed + 17)
	repo := env.Repo
	w, err := repo.Worktree()
	if err != nil {
		return err
	}
	pick := func() gen.Commit { return m.Commits[r.Intn(len(m.Commits))] }
	switch p.Op {
	case "commit", "commit-amend-branch":
		if err := util.WriteFile(env.WT, "a.txt", []byte(fmt.Sprintf("crash-test %d\n", p.OpSeed)), 0o644); err != nil {
			return err
		}
		if err := util.WriteFile(env.WT, "new/file.txt", []byte("new\n"), 0o644); err != nil {
			return err
		}
		// explicit adds in a fixed order: AddOptions{All} walks a Go map, so the
		// order of its disk operations would not be a function of the plan
		for _, f := range []string{"a.txt", "new/file.txt"} {
			if _, err := w.Add(f); err != nil {
				return err
			}
		}
		_, err := w.Commit("crash commit", &git.CommitOptions{Author: gen.Sig(50), Committer: gen.Sig(50), Amend: p.Op == "commit-amend-branch"})
		return err
	case "add":
		if err := util.WriteFile(env.WT, "dir/added.txt", []byte(fmt.Sprintf("added %d\n", p.OpSeed)), 0o644); err != nil {
			return err
		}
		_, err := w.Add("dir/added.txt")
		return err
	case "checkout-branch":
		return w.Checkout(&git.CheckoutOptions{Branch: "refs/heads/old", Force: true})
	case "checkout-new":
		return w.Checkout(&git.CheckoutOptions{Branch: "refs/heads/fresh", Create: true, Hash: pick().Hash, Force: true})
	case "reset-hard":
		return w.Reset(&git.ResetOptions{Mode: git.HardReset, Commit: pick().Hash})
	case "reset-mixed":
		return w.Reset(&git.ResetOptions{Mode: git.MixedReset, Commit: pick().Hash})
	case "repack":
		return repo.RepackObjects(&git.RepackConfig{})
	case "repack-refdelta":
		return repo.RepackObjects(&git.RepackConfig{UseRefDeltas: true})
	case "prune":
		return repo.Prune(git.PruneOptions{Handler: repo.DeleteObject})
	case "packrefs":
		return env.Storage.PackRefs()
	case "setconfig":
		cfg, err := repo.Config()
		if err != nil {
			return err
		}
		cfg.Remotes["origin"] = &config.RemoteConfig{Name: "origin", URLs: []string{"https://example.com/" + fmt.Sprint(p.OpSeed)}}
		cfg.User.Name = "Crash Tester"
		return repo.SetConfig(cfg)
	case "tag":
		_, err := repo.CreateTag("v2", pick().Hash, &git.CreateTagOptions{Tagger: gen.Sig(60), Message: "second"})
		return err
	case "tag-delete":
		return repo.DeleteTag("light")
	case "branch-delete":
		return repo.Storer.RemoveReference("refs/heads/old")
	case "detach-head":
		return repo.Storer.SetReference(plumbing.NewHashReference(plumbing.HEAD, pick().Hash))
	case "setshallow":
		return repo.Storer.SetShallow([]plumbing.Hash{m.Commits[len(m.Commits)-1].Hash})
	}
	return nil
}

func pathCat(p string) string {
	p = strings.TrimPrefix(p, "/w/")
	switch {
	case !strings.HasPrefix(p, ".git"):
		return "worktree"
	}
	p = strings.TrimPrefix(p, ".git/")
	switch {
	case p == "HEAD":
		return "HEAD"
	case p == "ORIG_HEAD":
		return "ORIG_HEAD"
	case p == "packed-refs":
		return "packed-refs"
	case p == "index":
		return "index"
	case p == "config":
		return "config"
	case p == "shallow":
		return "shallow"
	case strings.HasPrefix(p, "refs/"):
		return "loose-ref"
	case strings.HasPrefix(p, "logs/"):
		return "reflog"
	case strings.HasPrefix(p, ".tmp/"):
		return "tmp"
	case strings.HasPrefix(p, "objects/pack/tmp_"), strings.HasPrefix(p, "objects/pack/.tmp"):
		return "tmp-obj"
	case strings.HasSuffix(p, ".pack"):
		return "pack"
	case strings.HasSuffix(p, ".idx"):
		return "idx"
	case strings.HasSuffix(p, ".rev"):
		return "rev"
	case strings.HasPrefix(p, "objects/"):
		return "loose-object"
	}
	return "other"
}

type mutInfo struct {
	class simfs.OpClass
	cat   string
}

// dryRun returns the mutating operations the planned call performs.
func dryRun(p *Plan) ([]mutInfo, error) {
	hooks.Deterministic(true)
	b := getBase(p)
	if b.err != nil {
		return nil, b.err
	}
	d := b.disk.Clone()
	env, err := gen.Open(d, "/w", "op", filesystem.Options{})
	if err != nil {
		return nil, err
	}
	d.ResetCounters()
	d.Record = true
	_ = runOp(p, env, b.model)
	var out []mutInfo
	for _, op := range d.Log {
		if op.MutN > 0 {
			out = append(out, mutInfo{op.Class, pathCat(op.Path)})
		}
	}
	return out, nil
}

func expand(t *testing.T, pa any, tier string) []any {
	p := pa.(*Plan)
	muts, err := dryRun(p)
	if err != nil {
		return []any{p}
	}
	var out []any
	ks := make([]int, 0, len(muts))
	for k := 1; k <= len(muts); k++ {
		ks = append(ks, k)
	}
	if tier != "thorough" && len(ks) > 160 {
		r := core.NewRand(p.OpSeed)
		keep := append(append([]int{}, ks[:50]...), ks[len(ks)-60:]...)
		for i := 0; i < 50; i++ {
			keep = append(keep, ks[50+r.Intn(len(ks)-110)])
		}
		ks = keep
	}
	for _, k := range ks {
		mi := muts[k-1]
		if mi.cat == "worktree" && k < len(muts) {
			// a crash between two worktree-file mutations is covered by the
			// next .git mutation's "not applied" case only if nothing in
			// between matters; keep one variant anyway (cheap).
		}
		c := *p
		c.CrashAt, c.Torn = k, 1
		out = append(out, &c)
		switch mi.class {
		case simfs.OpWrite:
			for _, torn := range []int{3, 2 + 17} {
				c2 := *p
				c2.CrashAt, c2.Torn = k, torn
				out = append(out, &c2)
			}
		case simfs.OpMkdir:
			c2 := *p
			c2.CrashAt, c2.Torn = k, 3
			out = append(out, &c2)
		}
	}
	if len(out) == 0 {
		out = append(out, p)
	}
	return out
}

func execPlan(t *testing.T, pa any) (out core.Outcome) {
	hooks.Deterministic(true)
	p := pa.(*Plan)
	known := false
	for _, k := range opKinds {
		if k == p.Op {
			known = true
		}
	}
	if !known {
		p.Op = "commit"
	}
	b := getBase(p)
	if b.err != nil {
		out.Inconclusive = "setup-failed"
		out.Message = b.err.Error()
		return out
	}
	d := b.disk.Clone()
	env, err := gen.Open(d, "/w", "op", filesystem.Options{})
	if err != nil {
		out.Inconclusive = "setup-open-failed"
		return out
	}
	d.ResetCounters()
	d.Record = true
	if p.CrashAt > 0 {
		d.SetCrash(simfs.Crash{AtMut: p.CrashAt, Torn: p.Torn})
	}
	opErr := runOp(p, env, b.model)
	out.Steps = d.OpCount()
	crashOp := "none"
	var trace []string
	for _, op := range d.Log {
		// only mutating operations enter the event log: reads of go-git's
		// pack-indexer goroutine interleave with the writer's writes outside
		// any seam and do not change the image
		if op.MutN > 0 {
			if len(trace) < 600 {
				trace = append(trace, fmt.Sprintf("m%d %s %s %s %s %s", op.MutN, op.Class, op.Path, op.Path2, op.Detail, op.Err))
			}
		}
		if strings.Contains(op.Detail, "CRASH") {
			crashOp = fmt.Sprintf("%s:%s", op.Class, pathCat(op.Path))
			if op.Class == simfs.OpWrite && p.Torn >= 2 {
				crashOp += ":torn"
			}
			if op.Class == simfs.OpCreate && strings.Contains(op.Detail, "TRUNC") {
				crashOp = "create-trunc:" + pathCat(op.Path)
			}
		}
	}
	out.Trace = trace
	out.LogHash = core.HashStrings(trace) + "/" + fmt.Sprint(d.MutCount())
	if !d.Crashed() {
		if p.CrashAt > 0 {
			out.Inconclusive = "crash-point-beyond-end"
		}
		if opErr != nil {
			out.Probe("op-error-without-crash:" + p.Op)
		}
		// no crash: still check the end state (a completed operation must
		// leave a good repository too)
	} else {
		out.NonTrivial = true
		out.Faults = map[string]int{"crash@" + crashOp: 1}
		if opErr == nil {
			out.Probe("op-returned-nil-after-crash")
		}
	}
	post := d.Clone()
	out.StateHash = post.Digest("/w/.git", nil)
	sym, msg := oracle(post, b, p)
	if sym != "" {
		out.Fail(fmt.Sprintf("C21|%s|%s|%s", p.Op, sym, crashOp), "%s (crash at mutation %d torn=%d: %s)", msg, p.CrashAt, p.Torn, crashOp)
		return out
	}
	if p.Git && d.Crashed() {
		if sym, msg := gitOracle(post); sym != "" {
			out.Fail(fmt.Sprintf("C21|%s|%s|%s", p.Op, sym, crashOp), "%s (crash at mutation %d torn=%d: %s)", msg, p.CrashAt, p.Torn, crashOp)
		}
		out.Probe("git-fsck-run")
	}
	return out
}

// oracle reopens the image with fresh values and checks the property.
func oracle(post *simfs.Disk, b *base, p *Plan) (symptom, msg string) {
	env, err := gen.Open(post, "/w", "verify", filesystem.Options{})
	if err != nil {
		return "open-failed", fmt.Sprintf("git.Open after crash: %v", err)
	}
	defer env.Storage.Close()
	repo := env.Repo
	if _, err := repo.Config(); err != nil {
		return "config-unreadable", fmt.Sprintf("Config(): %v", err)
	}
	roots := append([]plumbing.Hash{}, b.roots...)
	iter, err := repo.Storer.IterReferences()
	if err != nil {
		return "refs-unlistable", fmt.Sprintf("IterReferences: %v", err)
	}
	var refs []*plumbing.Reference
	err = iter.ForEach(func(r *plumbing.Reference) error { refs = append(refs, r); return nil })
	if err != nil {
		return "refs-unlistable", fmt.Sprintf("IterReferences.ForEach: %v", err)
	}
	sawHead := false
	for _, ref := range refs {
		if ref.Name() == plumbing.HEAD {
			sawHead = true
		}
		switch ref.Type() {
		case plumbing.HashReference:
			if ref.Hash().IsZero() {
				return "ref-zero:" + refCat(ref.Name()), fmt.Sprintf("reference %s has the zero hash", ref.Name())
			}
			roots = append(roots, ref.Hash())
		case plumbing.SymbolicReference:
			res, err := repo.Reference(ref.Name(), true)
			if err != nil {
				return "symref-unresolvable:" + refCat(ref.Name()), fmt.Sprintf("symbolic reference %s -> %s does not resolve: %v", ref.Name(), ref.Target(), err)
			}
			roots = append(roots, res.Hash())
		default:
			return "ref-invalid:" + refCat(ref.Name()), fmt.Sprintf("reference %s has invalid type", ref.Name())
		}
	}
	if !sawHead {
		if _, err := repo.Reference(plumbing.HEAD, false); err != nil {
			return "head-unreadable", fmt.Sprintf("HEAD: %v", err)
		}
	}
	// every reference that existed before and that this operation does not
	// remove must still be readable (a crash may not make refs vanish)
	for name := range b.model.Refs {
		if (p.Op == "tag-delete" && name == "refs/tags/light") || (p.Op == "branch-delete" && name == "refs/heads/old") {
			continue
		}
		if _, err := repo.Storer.Reference(plumbing.ReferenceName(name)); err != nil {
			return "ref-lost:" + refCat(plumbing.ReferenceName(name)), fmt.Sprintf("reference %s existed before the operation and is unreadable after the crash: %v", name, err)
		}
	}
	shallow, _ := repo.Storer.Shallow()
	isShallow := map[plumbing.Hash]bool{}
	for _, h := range shallow {
		isShallow[h] = true
	}
	seen := map[plumbing.Hash]bool{}
	var walk func(h plumbing.Hash, want plumbing.ObjectType) (string, string)
	walk = func(h plumbing.Hash, want plumbing.ObjectType) (string, string) {
		if seen[h] {
			return "", ""
		}
		seen[h] = true
		eo, err := repo.Storer.EncodedObject(plumbing.AnyObject, h)
		if err != nil {
			return "object-missing:" + want.String(), fmt.Sprintf("object %s (%s) reachable from a reference is not readable: %v", h, want, err)
		}
		rd, err := eo.Reader()
		if err != nil {
			return "object-unreadable:" + eo.Type().String(), fmt.Sprintf("object %s: %v", h, err)
		}
		_, err = io.Copy(io.Discard, rd)
		rd.Close()
		if err != nil {
			return "object-unreadable:" + eo.Type().String(), fmt.Sprintf("object %s: %v", h, err)
		}
		switch eo.Type() {
		case plumbing.CommitObject:
			c, err := object.DecodeCommit(repo.Storer, eo)
			if err != nil {
				return "object-undecodable:commit", fmt.Sprintf("commit %s: %v", h, err)
			}
			if s, m := walk(c.TreeHash, plumbing.TreeObject); s != "" {
				return s, m
			}
			if !isShallow[h] {
				for _, ph := range c.ParentHashes {
					if s, m := walk(ph, plumbing.CommitObject); s != "" {
						return s, m
					}
				}
			}
		case plumbing.TreeObject:
			tr, err := object.DecodeTree(repo.Storer, eo)
			if err != nil {
				return "object-undecodable:tree", fmt.Sprintf("tree %s: %v", h, err)
			}
			for _, e := range tr.Entries {
				want := plumbing.BlobObject
				if e.Mode.IsFile() == false && e.Mode.String() == "0040000" {
					want = plumbing.TreeObject
				}
				if e.Mode.String() == "0160000" {
					continue
				}
				if s, m := walk(e.Hash, want); s != "" {
					return s, m
				}
			}
		case plumbing.TagObject:
			tg, err := object.DecodeTag(repo.Storer, eo)
			if err != nil {
				return "object-undecodable:tag", fmt.Sprintf("tag %s: %v", h, err)
			}
			if s, m := walk(tg.Target, tg.TargetType); s != "" {
				return s, m
			}
		}
		return "", ""
	}
	for _, h := range roots {
		if s, m := walk(h, plumbing.AnyObject); s != "" {
			return s, m
		}
	}
	if _, err := repo.Storer.(storer.IndexStorer).Index(); err != nil {
		return "index-unreadable", fmt.Sprintf("Index(): %v", err)
	}
	return "", ""
}

func refCat(n plumbing.ReferenceName) string {
	switch {
	case n == plumbing.HEAD:
		return "HEAD"
	case n.IsBranch():
		return "branch"
	case n.IsTag():
		return "tag"
	}
	return "other"
}

var errGit = errors.New("git")

// gitOracle exports the image and asks git.
func gitOracle(post *simfs.Disk) (string, string) {
	dir, err := os.MkdirTemp("/var/tmp", "verif-c21-git-")
	if err != nil {
		return "", ""
	}
	defer os.RemoveAll(dir)
	if err := post.Export("/w", dir); err != nil {
		return "", ""
	}
	run := func(args ...string) (string, error) {
		cmd := exec.Command("git", append([]string{"-C", dir}, args...)...)
		cmd.Env = []string{"GIT_CONFIG_NOSYSTEM=1", "HOME=" + dir, "LC_ALL=C", "TZ=UTC", "PATH=" + os.Getenv("PATH"), "GIT_CONFIG_GLOBAL=/dev/null"}
		o, err := cmd.CombinedOutput()
		return string(o), err
	}
	if o, err := run("fsck", "--connectivity-only", "--no-dangling"); err != nil || strings.Contains(o, "error:") || strings.Contains(o, "fatal:") || strings.Contains(o, "missing ") || strings.Contains(o, "broken link") {
		line := strings.SplitN(strings.TrimSpace(o), "\n", 2)[0]
		return "git-fsck:" + gitClass(o), fmt.Sprintf("git fsck --connectivity-only: %v: %s", err, line)
	}
	if o, err := run("for-each-ref"); err != nil {
		return "git-for-each-ref", fmt.Sprintf("git for-each-ref: %v: %s", err, strings.SplitN(o, "\n", 2)[0])
	}
	return "", ""
}

func gitClass(o string) string {
	switch {
	case strings.Contains(o, "bad index file"), strings.Contains(o, "index file"):
		return "index"
	case strings.Contains(o, "invalid sha1 pointer"), strings.Contains(o, "not a valid"), strings.Contains(o, "bad ref"), strings.Contains(o, "badRefContent"), strings.Contains(o, "invalid HEAD"):
		return "ref"
	case strings.Contains(o, "missing "), strings.Contains(o, "broken link"):
		return "missing-object"
	case strings.Contains(o, "config"):
		return "config"
	case strings.Contains(o, "packfile"), strings.Contains(o, ".pack"), strings.Contains(o, ".idx"):
		return "pack"
	}
	return "other"
}

func TestCheck(t *testing.T) {
	core.Main(t, core.Check{
		ID:    "C21",
		Level: "fault_enumeration",
		Rule: "plan = generated repository (3-7 commits, side branch + merge, tags, optionally repacked / packed refs) x one mutating operation with generated arguments; " +
			"each plan is expanded into one run per mutating disk operation k of that call (crash after k applied; for writes also two torn prefixes, for mkdir a partial path); " +
			"non-trivial = the crash point was reached; distinct = distinct (plan, k, torn)",
		Assumptions: []string{"crash = process stop: completed disk operations persist, the crashing write may be torn, nothing later happens (no power-loss/page-cache model: go-git never syncs)",
			"the verifier is go-git's own read path on brand-new Storage values over a copy of the frozen image; thorough tier adds git fsck --connectivity-only on an exported copy"},
		Real:    []string{"Worktree.Commit/Add/Checkout/Reset", "Repository.RepackObjects/Prune/SetConfig/CreateTag/DeleteTag", "Storage.PackRefs/RemoveReference/SetReference/SetShallow", "dotgit writers"},
		Stub:    []string{"disk (simfs) with CrashAt/torn writes"},
		Runs:    map[string]int{"quick": 320, "thorough": 8000},
		NewPlan: func() any { return &Plan{} },
		Gen:     genPlan,
		Expand:  expand,
		Exec:    execPlan,
	})
}
