//go:build verif

// C21 — a crash at any point leaves a readable, connected repository.
//
// A generated repository on the simulated disk, one mutating go-git
// operation, and the process stopped at every mutating disk operation of that
// call in turn (fully applied, or torn for writes and mkdir). The frozen image
// is reopened with brand-new Storage/Repository values and checked: opens,
// config parses, every reference resolves, every object reachable from the
// references before or after the operation is present and decodable, and the
// index decodes.
//
// Real: the whole mutating path of go-git for every kind — porcelain
// (Worktree.Commit/Add/Checkout/Reset, Repository.RepackObjects/Prune/
// SetConfig/CreateTag/DeleteTag), storage entry points (PackRefs, Set/Remove/
// CheckAndSetReference on loose, packed and stale-packed names, SetShallow,
// SetIndex, PackfileWriter, DeleteLooseObject, DeleteOldObjectPackAndIndex,
// AddAlternate, AppendReflog; storeops_test.go), the linked-worktree manager
// x/plumbing/worktree (Add/Remove), and the network kinds (net_test.go):
// Remote.Fetch (v0/v1/v2, tags, depth/deepening of a shallow client, prune,
// forced updates, loose or packed client refs), git.Clone with checkout,
// Remote.Push (client side: remote-tracking refs) and transport.ReceivePack
// (server side: pack ingestion, creates, updates, forced updates, deletes,
// several commands per push, loose or packed server refs), client and server
// both go-git, on two separate disks, joined by sim/simnet.
// Stubbed: the disks (simfs, with crash point and torn final operation), the
// network (simnet byte streams), the clock (synctest bubble for network kinds).
//
// Plan space: (generated repository or pair of repositories) x one operation
// with generated arguments; Expand turns a plan into one run per mutating disk
// operation k of the measured call on the disk that crashes (dry run counts
// them), with torn variants. The quick tier samples long runs of identical
// bulk writes (see sampleQuick), the thorough tier enumerates every k.
// Determinism: crash points are ordinals, so the mutation sequence of the
// measured call must be a function of the plan. det_test.go repeats every
// kind's dry run and crashing runs and compares sequences and end states;
// net_test.go lists the map-iteration sites in go-git that the workloads avoid.
//
// Oracle (same for every kind, on a copy of the frozen image, fresh values):
// git.Open succeeds; Config parses; IterReferences works and every reference
// is a non-zero hash or a symbolic reference that resolves (HEAD may name an
// unborn branch only if it named the same unborn branch before, or, during a
// clone, if it is the refs/heads/.invalid marker go-git and git write while a
// clone is in progress); no reference that existed before is unreadable unless
// the operation deletes it; every object reachable from the references before
// the operation and from the references in the crash image is present and
// decodes (parents of commits listed in the shallow file are not followed); the
// index decodes. A clone that has not yet created HEAD has not made a repository
// yet: "does not exist" is accepted only while .git/HEAD, .git/packed-refs and
// every file under .git/refs are absent. Thorough tier: git fsck
// --connectivity-only and for-each-ref on an exported copy (skipped while HEAD
// is the clone-in-progress marker, which git itself reports as invalid; asked
// for every eighth of the bulk idx/rev/pack-stream write points only).
//
// Not judged, deliberately: leftover temporary files, orphan .idx/.rev files
// and unreferenced packs; the content of reflogs; the linked worktree's own
// metadata under .git/worktrees/<name> (the statement is about the repository;
// it is written and removed file by file by go-git as by git) — for the
// worktree kinds the MAIN repository is judged; whether a reference holds the
// old or the new value; the peer repository of a network kind; a power-loss
// model (go-git never syncs; see DESIGN 3.3).
//
// Signatures: C21|<kind>|<symptom>[:<ref or object class>]|<crashing operation
// class>:<path category>[:torn].
package c21

import (
	"errors"
	"fmt"
	"io"
	"os"
	"os/exec"
	"sort"
	"strings"
	"testing"

	"github.com/go-git/go-billy/v6/util"
	git "github.com/go-git/go-git/v6"
	"github.com/go-git/go-git/v6/config"
	"github.com/go-git/go-git/v6/plumbing"
	"github.com/go-git/go-git/v6/plumbing/object"
	"github.com/go-git/go-git/v6/plumbing/storer"
	"github.com/go-git/go-git/v6/storage/filesystem"
	"github.com/go-git/go-git/v6/verifsim/core"
	"github.com/go-git/go-git/v6/verifsim/gen"
	"github.com/go-git/go-git/v6/verifsim/hooks"
	"github.com/go-git/go-git/v6/verifsim/simfs"
)

type Plan struct {
	RepoSeed uint64 `json:"repo_seed"`
	Repack   bool   `json:"repack"`
	PackRefs bool   `json:"pack_refs"`
	Op       string `json:"op"`
	OpSeed   uint64 `json:"op_seed"`
	CrashAt  int    `json:"crash_at"` // 0 = no crash (dry run)
	Torn     int    `json:"torn"`
	Git      bool   `json:"git"` // also ask git fsck on the exported image
	// Muts is informational: the number of mutating disk operations the dry
	// run of this plan counted (set by Expand).
	Muts int `json:"muts,omitempty"`
	// Net describes the two repositories and the request of the network kinds
	// (fetch, clone, receive-pack, push); nil for every other kind.
	Net *NetPlan `json:"net,omitempty"`
}

// localKinds are the porcelain / storage calls of the first version of this
// check; storeKinds (storeops_test.go) and netKinds (net_test.go) were added later.
var localKinds = []string{"commit", "add", "checkout-branch", "checkout-new", "reset-hard", "reset-mixed", "repack", "repack-refdelta",
	"prune", "packrefs", "setconfig", "tag", "tag-delete", "branch-delete", "detach-head", "setshallow", "commit-amend-branch"}

var opKinds = append(append(append([]string{}, localKinds...), storeKinds...), netKinds...)

func genPlan(r *core.Rand, tier string) any {
	// a third of the plans are network kinds (fetch twice as often as the others), a
	// quarter storage-level kinds, the rest the porcelain kinds
	var op string
	switch k := r.Intn(12); {
	case k < 4:
		op = r.Pick("fetch", "fetch", "clone", "receive-pack", "receive-pack", "push")
	case k < 7:
		op = storeKinds[r.Intn(len(storeKinds))]
	default:
		op = localKinds[r.Intn(len(localKinds))]
	}
	p := &Plan{RepoSeed: r.Uint64() % 64, Repack: r.Bool(), PackRefs: r.Bool(), Op: op, OpSeed: r.Uint64() % 1000}
	if tier == "thorough" {
		p.RepoSeed = r.Uint64() % 4096
		p.Git = r.Chance(1, 4)
	}
	if isNetKind(op) {
		p.RepoSeed, p.Repack, p.PackRefs = 0, false, false
		p.Net = genNet(r, op, tier)
	}
	return p
}

// preState is what the oracle knows about the judged repository before the
// measured call.
type preState struct {
	refs   map[string]plumbing.Hash // references that existed (HEAD excluded)
	roots  []plumbing.Hash          // their values, sorted
	unborn string                   // target of HEAD when HEAD named an unborn branch, else ""
}

type base struct {
	disk  *simfs.Disk
	model *gen.Model
	roots []plumbing.Hash
	err   error
}

var baseCache = map[string]*base{}

func getBase(p *Plan) *base {
	key := fmt.Sprintf("%d/%v/%v", p.RepoSeed, p.Repack, p.PackRefs)
	if b, ok := baseCache[key]; ok {
		return b
	}
	if len(baseCache) > 300 {
		baseCache = map[string]*base{}
	}
	d := simfs.NewDisk()
	env, err := gen.Build(core.NewRand(p.RepoSeed*7919+1), d, "/w", gen.Cfg{MinCommits: 3, MaxCommits: 7, Repack: p.Repack, PackRefs: p.PackRefs, Tags: true, Side: true, Symlinks: p.RepoSeed%4 == 0})
	b := &base{disk: d, err: err}
	if err == nil {
		b.model = env.Model
		for _, h := range env.Model.Refs {
			b.roots = append(b.roots, h)
		}
		sort.Slice(b.roots, func(i, j int) bool { return b.roots[i].String() < b.roots[j].String() })
	}
	baseCache[key] = b
	return b
}

// runOp performs the mutating operation. Errors are returned, not judged.
func runOp(p *Plan, env *gen.Env, m *gen.Model, ctx *opCtx) error {
	if isStoreKind(p.Op) {
		return runStoreOp(p, env, m, ctx)
	}
	r := core.NewRand(p.OpSeed + 17)
	repo := env.Repo
	w, err := repo.Worktree()
	if err != nil {
		return err
	}
	pick := func() gen.Commit { return m.Commits[r.Intn(len(m.Commits))] }
	switch p.Op {
	case "commit", "commit-amend-branch":
		if err := util.WriteFile(env.WT, "a.txt", []byte(fmt.Sprintf("crash-test %d\n", p.OpSeed)), 0o644); err != nil {
			return err
		}
		if err := util.WriteFile(env.WT, "new/file.txt", []byte("new\n"), 0o644); err != nil {
			return err
		}
		// explicit adds in a fixed order: AddOptions{All} walks a Go map, so the
		// order of its disk operations would not be a function of the plan
		for _, f := range []string{"a.txt", "new/file.txt"} {
			if _, err := w.Add(f); err != nil {
				return err
			}
		}
		_, err := w.Commit("crash commit", &git.CommitOptions{Author: gen.Sig(50), Committer: gen.Sig(50), Amend: p.Op == "commit-amend-branch"})
		return err
	case "add":
		if err := util.WriteFile(env.WT, "dir/added.txt", []byte(fmt.Sprintf("added %d\n", p.OpSeed)), 0o644); err != nil {
			return err
		}
		_, err := w.Add("dir/added.txt")
		return err
	case "checkout-branch":
		return w.Checkout(&git.CheckoutOptions{Branch: "refs/heads/old", Force: true})
	case "checkout-new":
		return w.Checkout(&git.CheckoutOptions{Branch: "refs/heads/fresh", Create: true, Hash: pick().Hash, Force: true})
	case "reset-hard":
		return w.Reset(&git.ResetOptions{Mode: git.HardReset, Commit: pick().Hash})
	case "reset-mixed":
		return w.Reset(&git.ResetOptions{Mode: git.MixedReset, Commit: pick().Hash})
	case "repack":
		return repo.RepackObjects(&git.RepackConfig{})
	case "repack-refdelta":
		return repo.RepackObjects(&git.RepackConfig{UseRefDeltas: true})
	case "prune":
		return repo.Prune(git.PruneOptions{Handler: repo.DeleteObject})
	case "packrefs":
		return env.Storage.PackRefs()
	case "setconfig":
		cfg, err := repo.Config()
		if err != nil {
			return err
		}
		cfg.Remotes["origin"] = &config.RemoteConfig{Name: "origin", URLs: []string{"https://example.com/" + fmt.Sprint(p.OpSeed)}}
		cfg.User.Name = "Crash Tester"
		return repo.SetConfig(cfg)
	case "tag":
		_, err := repo.CreateTag("v2", pick().Hash, &git.CreateTagOptions{Tagger: gen.Sig(60), Message: "second"})
		return err
	case "tag-delete":
		return repo.DeleteTag("light")
	case "branch-delete":
		return repo.Storer.RemoveReference("refs/heads/old")
	case "detach-head":
		return repo.Storer.SetReference(plumbing.NewHashReference(plumbing.HEAD, pick().Hash))
	case "setshallow":
		return repo.Storer.SetShallow([]plumbing.Hash{m.Commits[len(m.Commits)-1].Hash})
	}
	return nil
}

func pathCat(p string) string {
	p = strings.TrimPrefix(p, "/w/")
	switch {
	case !strings.HasPrefix(p, ".git"):
		return "worktree"
	}
	p = strings.TrimPrefix(p, ".git/")
	switch {
	case p == "HEAD":
		return "HEAD"
	case p == "ORIG_HEAD":
		return "ORIG_HEAD"
	case p == "packed-refs":
		return "packed-refs"
	case p == "index":
		return "index"
	case p == "config":
		return "config"
	case p == "shallow":
		return "shallow"
	case p == "objects/info/alternates":
		return "alternates"
	case strings.HasPrefix(p, "worktrees/"):
		return "wt-meta" // metadata of a linked worktree (.git/worktrees/<name>/...)
	case strings.HasPrefix(p, "refs/"):
		return "loose-ref"
	case strings.HasPrefix(p, "logs/"):
		return "reflog"
	case strings.HasPrefix(p, ".tmp/"):
		return "tmp"
	case strings.HasPrefix(p, "objects/pack/tmp_"), strings.HasPrefix(p, "objects/pack/.tmp"):
		return "tmp-obj"
	case strings.HasSuffix(p, ".pack"):
		return "pack"
	case strings.HasSuffix(p, ".idx"):
		return "idx"
	case strings.HasSuffix(p, ".rev"):
		return "rev"
	case strings.HasSuffix(p, ".promisor"):
		return "promisor"
	case strings.HasPrefix(p, "objects/"):
		return "loose-object"
	}
	return "other"
}

type mutInfo struct {
	class simfs.OpClass
	cat   string
}

// normalise makes any decodable plan executable (the shrinker zeroes and
// deletes fields).
func normalise(p *Plan) {
	known := false
	for _, k := range opKinds {
		if k == p.Op {
			known = true
		}
	}
	if !known {
		p.Op = "commit"
	}
	if isNetKind(p.Op) {
		if p.Net == nil {
			p.Net = &NetPlan{}
		}
		p.Net.clamp(p.Op)
	}
}

// measured is one execution of the planned call on a fresh copy of the
// generated state, with the crash armed if the plan says so.
type measured struct {
	disk     *simfs.Disk // the recorded, crashing and judged disk
	pre      *preState
	deleted  map[string]bool // references the call legitimately removes
	opErr    error
	inconc   string
	msg      string
	panicked any
}

// measure runs the planned call. It is the only place that executes go-git
// mutations under measurement; the dry run is measure with CrashAt == 0.
func measure(t *testing.T, p *Plan) *measured {
	hooks.Deterministic(true)
	normalise(p)
	if isNetKind(p.Op) {
		r := runNet(t, p)
		m := &measured{disk: r.disk, opErr: r.opErr, inconc: r.inconc, panicked: r.panicked}
		if r.base != nil {
			m.pre, m.deleted = r.base.pre, r.base.deleted
			if r.base.err != nil {
				m.msg = r.base.err.Error()
			}
		}
		return m
	}
	m := &measured{}
	b := getBase(p)
	if b.err != nil {
		m.inconc, m.msg = "setup-failed", b.err.Error()
		return m
	}
	d := b.disk.Clone()
	env, err := gen.Open(d, "/w", "op", filesystem.Options{})
	if err != nil {
		m.inconc = "setup-open-failed"
		return m
	}
	ctx, err := prepOp(p, env, b.model)
	if err != nil {
		m.inconc, m.msg = "prep-failed", err.Error()
		return m
	}
	if isStoreKind(p.Op) {
		// the measured call starts from a brand-new Storage, like every other kind
		_ = env.Storage.Close()
		if env, err = gen.Open(d, "/w", "op", filesystem.Options{}); err != nil {
			m.inconc = "setup-open-failed"
			return m
		}
	}
	m.disk, m.deleted = d, ctx.deleted
	m.pre = &preState{refs: map[string]plumbing.Hash{}, roots: append([]plumbing.Hash{}, b.roots...)}
	for n, h := range b.model.Refs {
		m.pre.refs[n] = h
	}
	for n, h := range ctx.preExtra {
		m.pre.refs[n] = h
		m.pre.roots = append(m.pre.roots, h)
	}
	sort.Slice(m.pre.roots, func(i, j int) bool { return m.pre.roots[i].String() < m.pre.roots[j].String() })
	d.ResetCounters()
	d.Record = true
	if p.CrashAt > 0 {
		d.SetCrash(simfs.Crash{AtMut: p.CrashAt, Torn: p.Torn})
	}
	m.opErr = runOp(p, env, b.model, ctx)
	return m
}

// dryRun returns the mutating operations the planned call performs.
func dryRun(t *testing.T, p *Plan) ([]mutInfo, error) {
	c := *p
	c.CrashAt, c.Torn = 0, 0
	m := measure(t, &c)
	if m.inconc != "" || m.disk == nil {
		return nil, fmt.Errorf("%s %s", m.inconc, m.msg)
	}
	if m.panicked != nil {
		return nil, fmt.Errorf("panic in dry run: %v", m.panicked)
	}
	var out []mutInfo
	for _, op := range m.disk.Log {
		if op.MutN > 0 {
			out = append(out, mutInfo{op.Class, pathCat(op.Path)})
		}
	}
	return out, nil
}

// Quick-tier sampling of crash points (the thorough tier enumerates every
// point). Long runs of identical bulk writes - the hundreds of 4-byte writes of
// an .idx / .rev encoder, the chunks of a pack stream, the loose objects a
// repack deletes one by one - are all the same situation for the property (the
// same files exist, one of them a little longer): of a run of more than
// quickRun consecutive mutations of the same class and path category the first
// and last quickEdge and quickMid drawn ones are kept. Everything else (every
// create, rename, chmod, remove, reference / HEAD / shallow / index / config
// write) is always kept. If a plan still has more than quickCap points, the
// first quickHead, the last quickTail and a drawn sample of the middle remain.
const (
	quickRun  = 12
	quickEdge = 1
	quickMid  = 2
	quickCap  = 110
	quickHead = 35
	quickTail = 55
)

func sampleQuick(muts []mutInfo, r *core.Rand) []int {
	var ks []int
	for i := 0; i < len(muts); {
		j := i
		for j < len(muts) && muts[j] == muts[i] {
			j++
		}
		n := j - i
		if n <= quickRun {
			for k := i; k < j; k++ {
				ks = append(ks, k+1)
			}
		} else {
			pick := map[int]bool{}
			for e := 0; e < quickEdge; e++ {
				pick[i+e], pick[j-1-e] = true, true
			}
			for e := 0; e < quickMid; e++ {
				pick[i+quickEdge+r.Intn(n-2*quickEdge)] = true
			}
			for k := i; k < j; k++ {
				if pick[k] {
					ks = append(ks, k+1)
				}
			}
		}
		i = j
	}
	if len(ks) > quickCap {
		keep := append(append([]int{}, ks[:quickHead]...), ks[len(ks)-quickTail:]...)
		mid := ks[quickHead : len(ks)-quickTail]
		seen := map[int]bool{}
		for i := 0; i < quickCap-quickHead-quickTail; i++ {
			k := mid[r.Intn(len(mid))]
			if !seen[k] {
				seen[k] = true
				keep = append(keep, k)
			}
		}
		sort.Ints(keep)
		ks = keep
	}
	return ks
}

func expand(t *testing.T, pa any, tier string) []any {
	p := pa.(*Plan)
	normalise(p)
	muts, err := dryRun(t, p)
	if err != nil {
		return []any{p}
	}
	p.Muts = len(muts)
	var out []any
	ks := make([]int, 0, len(muts))
	for k := 1; k <= len(muts); k++ {
		ks = append(ks, k)
	}
	if tier != "thorough" {
		ks = sampleQuick(muts, core.NewRand(p.OpSeed))
	}
	for _, k := range ks {
		mi := muts[k-1]
		c := *p
		c.CrashAt, c.Torn = k, 1
		out = append(out, &c)
		switch mi.class {
		case simfs.OpWrite:
			for _, torn := range []int{3, 2 + 17} {
				c2 := *p
				c2.CrashAt, c2.Torn = k, torn
				out = append(out, &c2)
			}
		case simfs.OpMkdir:
			c2 := *p
			c2.CrashAt, c2.Torn = k, 3
			out = append(out, &c2)
		}
	}
	if len(out) == 0 {
		out = append(out, p)
	}
	return out
}

func isRefCat(c string) bool {
	return c == "loose-ref" || c == "packed-refs" || c == "HEAD"
}

func execPlan(t *testing.T, pa any) (out core.Outcome) {
	p := pa.(*Plan)
	m := measure(t, p)
	if m.inconc != "" || m.disk == nil {
		out.Inconclusive = m.inconc
		if out.Inconclusive == "" {
			out.Inconclusive = "no-run"
		}
		out.Message = m.msg
		return out
	}
	d := m.disk
	opErr := m.opErr
	out.Steps = d.OpCount()
	crashOp := "none"
	var trace []string
	var crashRec *simfs.Op
	packRenamed, refMutAfterPack, removesRef := false, false, false
	for _, v := range m.deleted {
		removesRef = removesRef || v
	}
	for i := range d.Log {
		op := d.Log[i]
		// only mutating operations enter the event log: reads of go-git's
		// pack-indexer goroutine interleave with the writer's writes outside
		// any seam and do not change the image
		if op.MutN > 0 {
			if len(trace) < 600 {
				trace = append(trace, fmt.Sprintf("m%d %s %s %s %s %s", op.MutN, op.Class, op.Path, op.Path2, op.Detail, op.Err))
			}
			crashing := strings.Contains(op.Detail, "CRASH")
			if packRenamed && !crashing && (isRefCat(pathCat(op.Path)) || (op.Path2 != "" && isRefCat(pathCat(op.Path2)))) {
				refMutAfterPack = true
			}
			if op.Class == simfs.OpRename && pathCat(op.Path2) == "pack" {
				packRenamed = true
			}
		}
		if strings.Contains(op.Detail, "CRASH") {
			crashRec = &d.Log[i]
			crashOp = fmt.Sprintf("%s:%s", op.Class, pathCat(op.Path))
			if op.Class == simfs.OpWrite && p.Torn >= 2 {
				crashOp += ":torn"
			}
			if op.Class == simfs.OpCreate && strings.Contains(op.Detail, "TRUNC") {
				crashOp = "create-trunc:" + pathCat(op.Path)
			}
		}
	}
	out.Trace = trace
	out.LogHash = core.HashStrings(trace) + "/" + fmt.Sprint(d.MutCount())
	if p.CrashAt == 1 && p.Torn == 1 {
		// once per plan: how many mutating operations the measured call has
		out.Probe("plans:" + p.Op)
		out.ProbeN("mutations:"+p.Op, p.Muts)
	}
	if !d.Crashed() {
		if p.CrashAt > 0 {
			out.Inconclusive = "crash-point-beyond-end"
		}
		if opErr != nil {
			out.Probe("op-error-without-crash:" + p.Op)
		}
		if m.panicked != nil {
			out.Inconclusive = "bubble-panic-without-crash"
			out.Message = fmt.Sprint(m.panicked)
			return out
		}
		// no crash: still check the end state (a completed operation must
		// leave a good repository too)
	} else {
		out.NonTrivial = true
		out.Faults = map[string]int{"crash@" + crashOp: 1}
		if opErr == nil {
			out.Probe("op-returned-nil-after-crash")
		}
		if m.panicked != nil {
			// the image is frozen and can be judged; what is left over is reported
			out.Probe("bubble-panic-after-crash:" + p.Op)
		}
		// ---- reach ----
		cat := pathCat(crashRec.Path)
		netOrPack := isNetKind(p.Op) || p.Op == "packwriter"
		if netOrPack && packRenamed && !refMutAfterPack && !isRefCat(cat) && !isRefCat(pathCat(crashRec.Path2)) {
			// the pack is in place (the crashing operation is its rename or a later
			// one) and no reference has been touched since
			switch p.Op {
			case "receive-pack":
				out.Probe("crash-between-pack-rename-and-ref-update:receive-pack")
			case "fetch", "clone":
				out.Probe("crash-between-pack-rename-and-ref-update:fetch")
			default:
				out.Probe("crash-between-pack-rename-and-ref-update:" + p.Op)
			}
		}
		if netOrPack && cat == "tmp-obj" && crashRec.Class == simfs.OpWrite && strings.Contains(crashRec.Path, "tmp_pack_") {
			out.Probe("crash-during-pack-write")
		}
		if (cat == "shallow" || strings.Contains(crashRec.Path, "._shallow") || strings.HasSuffix(crashRec.Path2, "/shallow")) && isNetKind(p.Op) {
			// since /repo d7730d7 the shallow file is written to a temporary file (._shallow*) and renamed
			out.Probe("crash-during-shallow-write")
		}
		if removesRef && (strings.Contains(crashRec.Path, "._packed-refs") || pathCat(crashRec.Path2) == "packed-refs") {
			out.Probe("crash-during-packed-refs-rewrite-by-remove")
		}
	}
	bulkWrite := false
	if crashRec != nil && crashRec.Class == simfs.OpWrite {
		c := pathCat(crashRec.Path)
		bulkWrite = c == "idx" || c == "rev" || c == "tmp-obj"
	}
	post := d.Clone()
	out.StateHash = post.Digest("/w/.git", nil)
	sym, msg := oracle(post, m.pre, m.deleted, p, out.Probe)
	if sym != "" {
		out.Fail(fmt.Sprintf("C21|%s|%s|%s", p.Op, sym, crashOp), "%s (crash at mutation %d torn=%d: %s)", msg, p.CrashAt, p.Torn, crashOp)
		return out
	}
	if p.Git && d.Crashed() {
		if out.Probes["crash-in-clone-before-HEAD"] > 0 || out.Probes["clone-in-progress-HEAD"] > 0 {
			// not a repository yet / HEAD is git's own "clone in progress" marker
			// (refs/heads/.invalid), which git fsck reports as an invalid HEAD by design
			out.Probe("git-fsck-skipped:clone-in-progress")
			return out
		}
		if bulkWrite && p.CrashAt%8 != 0 {
			// one of the hundreds of idx / rev / pack-stream writes before the pack is
			// renamed into place: the image differs from its neighbours by the length
			// of an unreferenced temporary or orphan file; git is asked about every
			// eighth of them (go-git's own read path judges all)
			out.Probe("git-fsck-skipped:bulk-write")
			return out
		}
		if sym, msg := gitOracle(post, p, out.Probe); sym != "" {
			out.Fail(fmt.Sprintf("C21|%s|%s|%s", p.Op, sym, crashOp), "%s (crash at mutation %d torn=%d: %s)", msg, p.CrashAt, p.Torn, crashOp)
		}
		out.Probe("git-fsck-run")
	}
	return out
}

// oracle reopens the image with fresh values and checks the property.
func oracle(post *simfs.Disk, pre *preState, deleted map[string]bool, p *Plan, probe func(string)) (symptom, msg string) {
	env, err := gen.Open(post, "/w", "verify", filesystem.Options{})
	if err != nil {
		// A clone starts from nothing. Until it has created HEAD there is no
		// repository yet, which is what a crashed `git clone` leaves as well; that
		// is accepted ONLY while the HEAD file does not exist at all and nothing
		// that could be a reference exists either. From the creation of HEAD on
		// (even as an empty file) the directory claims to be a repository and has
		// to open.
		if p.Op == "clone" && errors.Is(err, git.ErrRepositoryNotExists) && post.Lookup("/w/.git/HEAD") == "" && post.Lookup("/w/.git/packed-refs") == "" {
			refFiles := 0
			for _, e := range post.List("/w/.git/refs") {
				if e.Kind != "dir" {
					refFiles++
				}
			}
			if refFiles == 0 {
				probe("crash-in-clone-before-HEAD")
				return "", ""
			}
		}
		return "open-failed", fmt.Sprintf("git.Open after crash: %v", err)
	}
	defer env.Storage.Close()
	repo := env.Repo
	if _, err := repo.Config(); err != nil {
		return "config-unreadable", fmt.Sprintf("Config(): %v", err)
	}
	roots := append([]plumbing.Hash{}, pre.roots...)
	iter, err := repo.Storer.IterReferences()
	if err != nil {
		return "refs-unlistable", fmt.Sprintf("IterReferences: %v", err)
	}
	var refs []*plumbing.Reference
	err = iter.ForEach(func(r *plumbing.Reference) error { refs = append(refs, r); return nil })
	if err != nil {
		return "refs-unlistable", fmt.Sprintf("IterReferences.ForEach: %v", err)
	}
	sawHead := false
	for _, ref := range refs {
		if ref.Name() == plumbing.HEAD {
			sawHead = true
		}
		switch ref.Type() {
		case plumbing.HashReference:
			if ref.Hash().IsZero() {
				return "ref-zero:" + refCat(ref.Name()), fmt.Sprintf("reference %s has the zero hash", ref.Name())
			}
			roots = append(roots, ref.Hash())
		case plumbing.SymbolicReference:
			res, err := repo.Reference(ref.Name(), true)
			if err != nil {
				if ref.Name() == plumbing.HEAD && unbornOK(repo, ref, pre, p) {
					// HEAD names a branch that does not exist yet, and did so before
					// the operation (or is the marker a clone in progress carries)
					if ref.Target() == plumbing.Invalid {
						probe("clone-in-progress-HEAD")
					} else {
						probe("head-unborn-as-before")
					}
					continue
				}
				return "symref-unresolvable:" + refCat(ref.Name()), fmt.Sprintf("symbolic reference %s -> %s does not resolve: %v", ref.Name(), ref.Target(), err)
			}
			roots = append(roots, res.Hash())
		default:
			return "ref-invalid:" + refCat(ref.Name()), fmt.Sprintf("reference %s has invalid type", ref.Name())
		}
	}
	if !sawHead {
		if _, err := repo.Reference(plumbing.HEAD, false); err != nil {
			return "head-unreadable", fmt.Sprintf("HEAD: %v", err)
		}
	}
	// every reference that existed before and that this operation does not
	// remove must still be readable (a crash may not make refs vanish)
	names := make([]string, 0, len(pre.refs))
	for name := range pre.refs {
		names = append(names, name)
	}
	sort.Strings(names)
	for _, name := range names {
		if deleted[name] {
			continue
		}
		if _, err := repo.Storer.Reference(plumbing.ReferenceName(name)); err != nil {
			return "ref-lost:" + refCat(plumbing.ReferenceName(name)), fmt.Sprintf("reference %s existed before the operation and is unreadable after the crash: %v", name, err)
		}
	}
	shallow, _ := repo.Storer.Shallow()
	isShallow := map[plumbing.Hash]bool{}
	for _, h := range shallow {
		isShallow[h] = true
	}
	seen := map[plumbing.Hash]bool{}
	var walk func(h plumbing.Hash, want plumbing.ObjectType) (string, string)
	walk = func(h plumbing.Hash, want plumbing.ObjectType) (string, string) {
		if seen[h] {
			return "", ""
		}
		seen[h] = true
		eo, err := repo.Storer.EncodedObject(plumbing.AnyObject, h)
		if err != nil {
			return "object-missing:" + want.String(), fmt.Sprintf("object %s (%s) reachable from a reference is not readable: %v", h, want, err)
		}
		rd, err := eo.Reader()
		if err != nil {
			return "object-unreadable:" + eo.Type().String(), fmt.Sprintf("object %s: %v", h, err)
		}
		_, err = io.Copy(io.Discard, rd)
		rd.Close()
		if err != nil {
			return "object-unreadable:" + eo.Type().String(), fmt.Sprintf("object %s: %v", h, err)
		}
		switch eo.Type() {
		case plumbing.CommitObject:
			c, err := object.DecodeCommit(repo.Storer, eo)
			if err != nil {
				return "object-undecodable:commit", fmt.Sprintf("commit %s: %v", h, err)
			}
			if s, m := walk(c.TreeHash, plumbing.TreeObject); s != "" {
				return s, m
			}
			if !isShallow[h] {
				for _, ph := range c.ParentHashes {
					if s, m := walk(ph, plumbing.CommitObject); s != "" {
						return s, m
					}
				}
			}
		case plumbing.TreeObject:
			tr, err := object.DecodeTree(repo.Storer, eo)
			if err != nil {
				return "object-undecodable:tree", fmt.Sprintf("tree %s: %v", h, err)
			}
			for _, e := range tr.Entries {
				want := plumbing.BlobObject
				if e.Mode.IsFile() == false && e.Mode.String() == "0040000" {
					want = plumbing.TreeObject
				}
				if e.Mode.String() == "0160000" {
					continue
				}
				if s, m := walk(e.Hash, want); s != "" {
					return s, m
				}
			}
		case plumbing.TagObject:
			tg, err := object.DecodeTag(repo.Storer, eo)
			if err != nil {
				return "object-undecodable:tag", fmt.Sprintf("tag %s: %v", h, err)
			}
			if s, m := walk(tg.Target, tg.TargetType); s != "" {
				return s, m
			}
		}
		return "", ""
	}
	for _, h := range roots {
		if s, m := walk(h, plumbing.AnyObject); s != "" {
			return s, m
		}
	}
	if _, err := repo.Storer.(storer.IndexStorer).Index(); err != nil {
		return "index-unreadable", fmt.Sprintf("Index(): %v", err)
	}
	return "", ""
}

// unbornOK reports whether an unresolvable symbolic HEAD is the legitimate
// "unborn branch" state: its target is a well-formed branch name that does not
// exist at all (no loose file, no packed entry), and either HEAD pointed at
// that same unborn branch before the operation, or the operation is a clone
// and the target is the marker go-git (like git) writes while a clone is in
// progress. A torn "ref: refs/heads/ma" is neither.
func unbornOK(repo *git.Repository, head *plumbing.Reference, pre *preState, p *Plan) bool {
	if _, err := repo.Storer.Reference(head.Target()); !errors.Is(err, plumbing.ErrReferenceNotFound) {
		return false
	}
	if pre.unborn != "" && head.Target().String() == pre.unborn {
		return true
	}
	return p.Op == "clone" && head.Target() == plumbing.Invalid
}

func refCat(n plumbing.ReferenceName) string {
	switch {
	case n == plumbing.HEAD:
		return "HEAD"
	case n.IsBranch():
		return "branch"
	case n.IsTag():
		return "tag"
	}
	return "other"
}

var errGit = errors.New("git")

// gitOracle exports the image and asks git.
//
// Two kinds of fsck lines are about things outside the repository under
// judgement and are dropped before the verdict (counted as probes):
//   - add-alternate: the alternate is an absolute path on the simulated disk
//     (/alt/repo.git/objects) that does not exist next to the exported copy;
//     git reports an unusable alternate ("unable to normalize alternate object
//     path", "object directory ... does not exist") and carries on, exit 0.
//   - worktree-add / worktree-remove: the metadata directory of the LINKED
//     worktree (.git/worktrees/<name>/HEAD, ORIG_HEAD, gitdir, commondir) is
//     written in place file by file and removed file by file, by go-git as by
//     `git worktree add/remove`; a half-made or half-removed linked worktree is
//     reported by fsck as "worktrees/<name>/HEAD: ...". The statement is about
//     the repository: these kinds judge the main repository only.
func gitOracle(post *simfs.Disk, p *Plan, probe func(string)) (string, string) {
	dir, err := os.MkdirTemp("/var/tmp", "verif-c21-git-")
	if err != nil {
		return "", ""
	}
	defer os.RemoveAll(dir)
	if err := post.Export("/w", dir); err != nil {
		return "", ""
	}
	run := func(args ...string) (string, error) {
		cmd := exec.Command("git", append([]string{"-C", dir}, args...)...)
		cmd.Env = []string{"GIT_CONFIG_NOSYSTEM=1", "HOME=" + dir, "LC_ALL=C", "TZ=UTC", "PATH=" + os.Getenv("PATH"), "GIT_CONFIG_GLOBAL=/dev/null"}
		o, err := cmd.CombinedOutput()
		return string(o), err
	}
	o, err := run("fsck", "--connectivity-only", "--no-dangling")
	ignored := 0
	if p.Op == "add-alternate" || p.Op == "worktree-add" || p.Op == "worktree-remove" {
		var keep []string
		for _, l := range strings.Split(o, "\n") {
			switch {
			case p.Op == "add-alternate" && (strings.Contains(l, "alternate")):
				ignored++
			case p.Op != "add-alternate" && strings.Contains(l, "worktrees/"+lwName+"/"):
				ignored++
			default:
				keep = append(keep, l)
			}
		}
		o = strings.Join(keep, "\n")
		if ignored > 0 {
			probe("git-fsck-lines-ignored:" + p.Op)
			if !strings.Contains(o, "error") && !strings.Contains(o, "fatal") && !strings.Contains(o, "missing ") && !strings.Contains(o, "broken link") {
				// the exit status reflected the ignored lines only
				err = nil
			}
		}
	}
	if err != nil || strings.Contains(o, "error:") || strings.Contains(o, "fatal:") || strings.Contains(o, "missing ") || strings.Contains(o, "broken link") {
		line := strings.SplitN(strings.TrimSpace(o), "\n", 2)[0]
		return "git-fsck:" + gitClass(o), fmt.Sprintf("git fsck --connectivity-only: %v: %s", err, line)
	}
	if o, err := run("for-each-ref"); err != nil {
		return "git-for-each-ref", fmt.Sprintf("git for-each-ref: %v: %s", err, strings.SplitN(o, "\n", 2)[0])
	}
	return "", ""
}

func gitClass(o string) string {
	switch {
	case strings.Contains(o, "bad shallow line"):
		return "shallow"
	case strings.Contains(o, "bad index file"), strings.Contains(o, "index file"):
		return "index"
	case strings.Contains(o, "invalid sha1 pointer"), strings.Contains(o, "not a valid"), strings.Contains(o, "bad ref"), strings.Contains(o, "badRefContent"), strings.Contains(o, "invalid HEAD"):
		return "ref"
	case strings.Contains(o, "missing "), strings.Contains(o, "broken link"):
		return "missing-object"
	case strings.Contains(o, "config"):
		return "config"
	case strings.Contains(o, "packfile"), strings.Contains(o, ".pack"), strings.Contains(o, ".idx"):
		return "pack"
	}
	return "other"
}

func TestCheck(t *testing.T) {
	core.Main(t, core.Check{
		ID:    "C21",
		Level: "fault_enumeration",
		Rule: "plan = one mutating operation with generated arguments on generated state: (a) porcelain and storage kinds on a generated repository (3-7 commits, side branch + merge, tags, optionally repacked / packed refs; storage kinds may first be put into the state they need: packed refs, a stale packed value under a loose one, a redundant pack, an existing linked worktree); " +
			"(b) network kinds on two generated repositories on two disks joined by simulated streams: fetch (client empty / holding a prefix / with a stale or a diverged remote-tracking ref / shallow and deepening; wildcard or explicit refspecs; tag modes; depth; prune; v0/v1/v2; client refs loose or packed), clone with checkout (default or single-branch, optional depth), push seen from the client, receive-pack seen from the server (1-4 commands out of fast-forward, create, forced non-fast-forward, annotated tag, two deletes; server refs loose or packed); " +
			"each plan is expanded into one run per mutating disk operation k of that call on the crashing disk (crash after k applied; for writes also two torn prefixes, for mkdir a partial path); quick tier: long runs of identical bulk writes (idx/rev encoders, pack stream, loose-object removal) are sampled (edges + drawn), everything else enumerated; thorough: every k; " +
			"non-trivial = the crash point was reached; distinct = distinct (plan, k, torn)",
		Assumptions: []string{"crash = process stop: completed disk operations persist, the crashing write may be torn, nothing later happens (no power-loss/page-cache model: go-git never syncs)",
			"the verifier is go-git's own read path on brand-new Storage values over a copy of the frozen image; thorough tier adds git fsck --connectivity-only on an exported copy",
			"network kinds: both peers are go-git; only one disk crashes and is judged (client for fetch/clone/push, server for receive-pack); workloads avoid the places where go-git orders disk writes by Go map iteration (one branch under a wildcard refspec, at most one tag, explicit push refspecs)",
			"a clone that has not created HEAD yet has not created a repository; HEAD -> refs/heads/.invalid is the legitimate clone-in-progress state; the metadata of a linked worktree is not part of the judged repository"},
		Real: []string{"Worktree.Commit/Add/Checkout/Reset", "Repository.RepackObjects/Prune/SetConfig/CreateTag/DeleteTag", "Storage.PackRefs/RemoveReference/SetReference/CheckAndSetReference/SetShallow/SetIndex/PackfileWriter/DeleteLooseObject/DeleteOldObjectPackAndIndex/AddAlternate/AppendReflog",
			"x/plumbing/worktree Add/Remove", "Remote.Fetch / git.Clone / Remote.Push with negotiation, pack encode and ingestion", "transport.UploadPack (v0/v1/v2) and transport.ReceivePack on the peer", "dotgit writers"},
		Stub:    []string{"disk (simfs) with CrashAt/torn writes, one per peer", "network (simnet streams)", "clock (synctest bubble) for the network kinds"},
		Runs:    map[string]int{"quick": 280, "thorough": 800},
		NewPlan: func() any { return &Plan{} },
		Gen:     genPlan,
		Expand:  expand,
		Exec:    execPlan,
		RequiredProbes: []string{"crash-between-pack-rename-and-ref-update:fetch", "crash-between-pack-rename-and-ref-update:receive-pack", "crash-during-pack-write", "crash-during-shallow-write",
			"crash-during-packed-refs-rewrite-by-remove", "crash-in-clone-before-HEAD", "clone-in-progress-HEAD", "head-unborn-as-before",
			"plans:fetch", "plans:clone", "plans:receive-pack", "plans:push", "plans:remove-packed-ref", "plans:remove-stale-packed", "plans:packwriter", "plans:worktree-add"},
	})
}
