//go:build verif

// C32 — sparse checkout materialises exactly the selected directories.
//
// The check builds its own repositories (three commits whose trees contain
// directory names that are string prefixes of sibling names: a, ab, a.b, a-b,
// a/b, a/bc, a top-level file "abc", ...) through go-git on the simulated
// disk, then runs one to three sparse operations: Checkout{Branch|Hash,
// SparseCheckoutDirectories: D, Force on/off} and Reset{Hard|Mixed|Merge,
// SparseDirs: D, SkipSparseDirValidation on/off}, from a full checkout or
// from a "clone --no-checkout" state (empty worktree, no index). Whenever a
// call returns nil the on-disk index and the worktree are read straight from
// the image and compared with
//
//	selected(path) := exists d in D: path == d or path has prefix d + "/"
//
// every tracked path of the target commit must still have an index entry,
// entry.SkipWorktree == !selected(path), and a tracked path is present in the
// worktree (with the commit's bytes and mode) iff selected(path).
package c32

import (
	"crypto/sha1"
	"encoding/hex"
	"errors"
	"fmt"
	iofs "io/fs"
	"sort"
	"strings"
	"testing"

	git "github.com/go-git/go-git/v6"
	"github.com/go-git/go-git/v6/plumbing"
	"github.com/go-git/go-git/v6/plumbing/cache"
	"github.com/go-git/go-git/v6/storage/filesystem"
	"github.com/go-git/go-git/v6/verifsim/core"
	"github.com/go-git/go-git/v6/verifsim/gen"
	"github.com/go-git/go-git/v6/verifsim/hooks"
	"github.com/go-git/go-git/v6/verifsim/porc"
	"github.com/go-git/go-git/v6/verifsim/simfs"
)

// pathUniverse has no file/directory conflicts: a name is either always a
// file or always a directory.
var pathUniverse = []string{
	"a/x", "a/b/c", "a/b/d/e", "a/bc/v", "a/l",
	"ab/y", "ab/c/z", "a.b/z", "a-b/q", "abc", "top.txt",
	"b/x", "b/a/x", "c/a/b/w", "a/x2.sh",
}

// dirUniverse is what a selection draws from. "missing", "a/missing" never
// exist; "abc" and "top.txt" are files, not directories.
var dirUniverse = []string{"a", "ab", "a.b", "a/b", "a/b/d", "b", "b/a", "c", "c/a", "a-b", "a/bc", "c/a/b", "missing", "a/missing", "abc", "top.txt"}

var branches = []string{"refs/heads/b0", "refs/heads/b1", "refs/heads/b2"}

type Op struct {
	Kind   string `json:"kind"`   // checkout-branch | checkout-hash | reset
	Mode   int    `json:"mode"`   // reset: 0 hard, 1 mixed, 2 merge
	Force  bool   `json:"force"`  // checkout
	Target int    `json:"target"` // commit index
	Dirs   []int  `json:"dirs"`   // 2*index into dirUniverse + (1 = trailing slash)
	SkipV  bool   `json:"skip_validation"`
}

type Plan struct {
	TreeSeed uint64 `json:"tree_seed"`
	Fresh    bool   `json:"fresh"` // start from a clone --no-checkout state
	Ops      []Op   `json:"ops"`
}

type base struct {
	disk    *simfs.Disk
	commits []gen.Commit
	err     error
}

var baseCache = map[uint64]*base{}

func buildBase(seed uint64) *base {
	if b, ok := baseCache[seed]; ok {
		return b
	}
	if len(baseCache) > 600 {
		baseCache = map[uint64]*base{}
	}
	b := &base{disk: simfs.NewDisk()}
	baseCache[seed] = b
	r := core.NewRand(seed*2654435761 + 17)
	wt := b.disk.FS("/w", "setup")
	dotfs, err := wt.Chroot(".git")
	if err != nil {
		b.err = err
		return b
	}
	st := filesystem.NewStorage(dotfs, cache.NewObjectLRUDefault())
	repo, err := git.Init(st, git.WithWorkTree(wt))
	if err != nil {
		b.err = err
		return b
	}
	w, err := repo.Worktree()
	if err != nil {
		b.err = err
		return b
	}
	prev := map[string]gen.File{}
	for k := 0; k < 3; k++ {
		tree := map[string]gen.File{}
		for _, p := range pathUniverse {
			if !r.Chance(7, 8) {
				continue
			}
			ver := r.Intn(2) // the same version in two commits = an unchanged file
			f := gen.File{Data: fmt.Sprintf("v%d of %s\n", ver, p), Exec: strings.HasSuffix(p, ".sh")}
			if p == "a/l" {
				f = gen.File{Data: []string{"x", "../ab/y"}[ver], Link: true}
			}
			tree[p] = f
		}
		if len(tree) == 0 {
			tree["a/x"] = gen.File{Data: "only\n"}
		}
		// write the tree
		for p := range prev {
			if _, ok := tree[p]; !ok {
				b.disk.RemoveAllDirect("/w/" + p)
			}
		}
		keys := sortedKeys(tree)
		for _, p := range keys {
			f := tree[p]
			if old, ok := prev[p]; ok && old == f {
				continue
			}
			b.disk.RemoveAllDirect("/w/" + p)
			b.disk.Advance(b.disk.Tick)
			if f.Link {
				b.err = b.disk.PlantSymlink(f.Data, "/w/"+p)
			} else {
				mode := iofs.FileMode(0o644)
				if f.Exec {
					mode = 0o755
				}
				b.err = b.disk.WriteFile("/w/"+p, []byte(f.Data), mode)
			}
			if b.err != nil {
				return b
			}
		}
		// directories emptied by the deletions above
		pruneEmptyDirs(b.disk)
		if err := w.AddWithOptions(&git.AddOptions{All: true}); err != nil {
			b.err = err
			return b
		}
		h, err := w.Commit(fmt.Sprintf("c%d", k), &git.CommitOptions{Author: gen.Sig(k), Committer: gen.Sig(k), AllowEmptyCommits: true})
		if err != nil {
			b.err = err
			return b
		}
		if err := st.SetReference(plumbing.NewHashReference(plumbing.ReferenceName(branches[k]), h)); err != nil {
			b.err = err
			return b
		}
		var parents []int
		if k > 0 {
			parents = []int{k - 1}
		}
		b.commits = append(b.commits, gen.Commit{Hash: h, Tree: tree, Parents: parents})
		prev = tree
	}
	_ = st.Close()
	return b
}

func pruneEmptyDirs(d *simfs.Disk) {
	for changed := true; changed; {
		changed = false
		es := d.List("/w")
		hasChild := map[string]bool{}
		for _, e := range es {
			hasChild[parentOf(e.Path)] = true
		}
		for _, e := range es {
			if e.Kind == "dir" && !hasChild[e.Path] && e.Path != "/w/.git" && !strings.HasPrefix(e.Path, "/w/.git/") {
				d.RemoveAllDirect(e.Path)
				changed = true
			}
		}
	}
}

func parentOf(p string) string {
	i := strings.LastIndex(p, "/")
	if i <= 0 {
		return "/"
	}
	return p[:i]
}

func sortedKeys[V any](m map[string]V) []string {
	keys := make([]string, 0, len(m))
	for k := range m {
		keys = append(keys, k)
	}
	sort.Strings(keys)
	return keys
}

func mod(a, n int) int {
	if n <= 0 {
		return 0
	}
	a %= n
	if a < 0 {
		a += n
	}
	return a
}

func genPlan(r *core.Rand, tier string) any {
	p := &Plan{TreeSeed: r.Uint64() % 96, Fresh: r.Chance(1, 3)}
	if tier == "thorough" {
		p.TreeSeed = r.Uint64() % 4096
	}
	n := r.Range(1, 3)
	for i := 0; i < n; i++ {
		o := Op{Kind: r.Pick("checkout-branch", "checkout-branch", "checkout-hash", "reset", "reset"), Mode: r.Intn(3), Force: r.Bool(), Target: r.Intn(3), SkipV: r.Chance(1, 4)}
		nd := r.Pick2(1, 1, 1, 2, 2, 3)
		for j := 0; j < nd; j++ {
			k := r.Intn(len(dirUniverse) - 4) // the real directories
			if r.Chance(1, 10) {
				k = len(dirUniverse) - 4 + r.Intn(4) // missing / file names
			}
			v := 2 * k
			if r.Chance(1, 8) {
				v++
			}
			o.Dirs = append(o.Dirs, v)
		}
		p.Ops = append(p.Ops, o)
	}
	return p
}

func dirsOf(o Op) []string {
	var out []string
	for i, v := range o.Dirs {
		if i >= 4 {
			break
		}
		v = mod(v, 2*len(dirUniverse))
		d := dirUniverse[v/2]
		if v%2 == 1 {
			d += "/"
		}
		out = append(out, d)
	}
	return out
}

func selectedBy(path, d string) bool {
	if d == "" || d == "/" {
		return false
	}
	if strings.HasSuffix(d, "/") {
		// "top.txt/" names a directory: it cannot select the file top.txt
		return strings.HasPrefix(path, d)
	}
	return path == d || strings.HasPrefix(path, d+"/")
}

func selected(path string, dirs []string) bool {
	for _, d := range dirs {
		if selectedBy(path, d) {
			return true
		}
	}
	return false
}

// prefixSibling: some d is a string prefix of path without selecting it by
// whole components.
func prefixSibling(path string, dirs []string) bool {
	if selected(path, dirs) {
		return false
	}
	for _, d := range dirs {
		if strings.HasPrefix(path, d) {
			return true
		}
	}
	return false
}

func blobID(data string) string {
	h := sha1.New()
	fmt.Fprintf(h, "blob %d\x00%s", len(data), data)
	return hex.EncodeToString(h.Sum(nil))
}

func opName(o Op) string {
	switch o.Kind {
	case "checkout-branch", "checkout-hash":
		if o.Force {
			return o.Kind + "-force"
		}
		return o.Kind
	default:
		return "reset-" + []string{"hard", "mixed", "merge"}[mod(o.Mode, 3)]
	}
}

func sameSet(a, b []string) bool {
	x := map[string]bool{}
	for _, s := range a {
		x[strings.TrimRight(s, "/")] = true
	}
	y := map[string]bool{}
	for _, s := range b {
		y[strings.TrimRight(s, "/")] = true
	}
	if len(x) != len(y) {
		return false
	}
	for k := range x {
		if !y[k] {
			return false
		}
	}
	return true
}

type wfile struct {
	link bool
	exec bool
	data string
}

func listWorktree(d *simfs.Disk) map[string]wfile {
	out := map[string]wfile{}
	for _, e := range d.List("/w") {
		rel := strings.TrimPrefix(e.Path, "/w/")
		if rel == ".git" || strings.HasPrefix(rel, ".git/") || e.Kind == "dir" {
			continue
		}
		if e.Kind == "link" {
			out[rel] = wfile{link: true, data: e.Target}
		} else {
			out[rel] = wfile{exec: e.Mode&0o100 != 0, data: string(e.Data)}
		}
	}
	return out
}

// resync reads HEAD and the branches back from the image after a refused
// operation (which may have moved them before failing).
func resync(d *simfs.Disk, b *base, refs map[string]int, head *string) bool {
	snap := porc.TakeSnapshot(d)
	byHash := map[string]int{}
	for i, c := range b.commits {
		byHash[c.Hash.String()] = i
	}
	for _, name := range sortedKeys(refs) {
		i, ok := byHash[snap.Refs[name]]
		if !ok {
			return false
		}
		refs[name] = i
	}
	h := strings.TrimSpace(snap.Head)
	if strings.HasPrefix(h, "ref: ") {
		*head = strings.TrimPrefix(h, "ref: ")
		_, ok := refs[*head]
		return ok
	}
	*head = ""
	_, ok := byHash[h]
	return ok
}

// describe renders the worktree files and the index entries (name, first
// hash digits, S = skip-worktree) for the event log.
func describe(d *simfs.Disk) string {
	var b strings.Builder
	b.WriteString("worktree{")
	files := listWorktree(d)
	for i, k := range sortedKeys(files) {
		if i > 0 {
			b.WriteString(" ")
		}
		f := files[k]
		b.WriteString(k)
		if !f.link && strings.HasPrefix(f.data, "v") && len(f.data) > 2 {
			b.WriteString("@" + f.data[:2])
		}
	}
	b.WriteString("} index{")
	idx, ok := porc.DecodeIndexOnDisk(d)
	if !ok {
		b.WriteString("undecodable")
	} else if idx != nil {
		for i, e := range idx.Entries {
			if i > 0 {
				b.WriteString(" ")
			}
			b.WriteString(e.Name + ":" + e.Hash.String()[:4])
			if e.SkipWorktree {
				b.WriteString(":S")
			}
		}
	}
	b.WriteString("}")
	return b.String()
}

func execPlan(t *testing.T, pa any) (out core.Outcome) {
	p := pa.(*Plan)
	hooks.Deterministic(true)
	b := buildBase(p.TreeSeed % 4096)
	if b.err != nil || len(b.commits) != 3 {
		out.Inconclusive = "setup-failed"
		out.Message = fmt.Sprint(b.err)
		return out
	}
	d := b.disk.Clone()
	var trace []string
	logf := func(format string, args ...any) {
		if len(trace) < 400 {
			trace = append(trace, fmt.Sprintf(format, args...))
		}
	}
	if p.Fresh {
		for _, e := range d.List("/w") {
			rel := strings.TrimPrefix(e.Path, "/w/")
			if rel == ".git" || strings.HasPrefix(rel, ".git/") {
				continue
			}
			d.RemoveAllDirect(e.Path)
		}
		d.RemoveAllDirect("/w/.git/index")
		logf("start: no-checkout state (empty worktree, no index), HEAD=master=c2")
	} else {
		logf("start: full checkout of c2 on master")
	}
	env, err := gen.Open(d, "/w", "op", filesystem.Options{})
	if err != nil {
		out.Inconclusive = "setup-open-failed"
		return out
	}
	defer func() { _ = env.Storage.Close() }()
	wt, err := env.Repo.Worktree()
	if err != nil {
		out.Inconclusive = "setup-open-failed"
		return out
	}
	var prevDirs []string
	havePrev := false
	refs := map[string]int{"refs/heads/master": 2, branches[0]: 0, branches[1]: 1, branches[2]: 2}
	head := "refs/heads/master" // "" = detached
	for i, o := range p.Ops {
		if i >= 4 {
			break
		}
		dirs := dirsOf(o)
		if len(dirs) == 0 {
			logf("op %d: empty selection, skipped", i)
			continue
		}
		// where the operation leads: a branch name resolves through the model's
		// reference table (a reset moves the branch HEAD is on)
		ti := mod(o.Target, 3)
		if o.Kind == "checkout-branch" {
			ti = refs[branches[mod(o.Target, 3)]]
		}
		target := b.commits[ti]
		name := opName(o)
		d.Advance(d.Tick)
		var cerr error
		switch o.Kind {
		case "checkout-branch":
			cerr = wt.Checkout(&git.CheckoutOptions{Branch: plumbing.ReferenceName(branches[mod(o.Target, 3)]), Force: o.Force, SparseCheckoutDirectories: dirs})
		case "checkout-hash":
			cerr = wt.Checkout(&git.CheckoutOptions{Hash: target.Hash, Force: o.Force, SparseCheckoutDirectories: dirs})
		default:
			mode := []git.ResetMode{git.HardReset, git.MixedReset, git.MergeReset}[mod(o.Mode, 3)]
			cerr = wt.Reset(&git.ResetOptions{Mode: mode, Commit: target.Hash, SparseDirs: dirs, SkipSparseDirValidation: o.SkipV})
		}
		what := ""
		if o.Kind == "checkout-branch" {
			what = " (" + strings.TrimPrefix(branches[mod(o.Target, 3)], "refs/heads/") + ")"
		}
		logf("op %d: %s target=c%d%s dirs=%v skipv=%v: %s", i, name, ti, what, dirs, o.SkipV, porc.ErrKind(cerr))
		if cerr == nil {
			switch o.Kind {
			case "checkout-branch":
				head = branches[mod(o.Target, 3)]
			case "checkout-hash":
				head = ""
			default:
				if head != "" {
					refs[head] = ti
				}
			}
		} else if !resync(d, b, refs, &head) {
			out.Inconclusive = "head-unresolvable-after-refusal"
			break
		}
		logf("   state: %s", describe(d))
		if cerr != nil {
			out.Probe("refused:" + porc.ErrKind(cerr))
			if errors.Is(cerr, git.ErrSparseResetDirectoryNotFound) {
				out.Probe("refused-dir-not-found")
			}
			// a refused operation is not judged here; whatever it left is the
			// start state of the next one
			continue
		}
		out.Probe("op-ok:" + name)

		// selection class of this operation
		class := "plain"
		switch {
		case havePrev && !sameSet(prevDirs, dirs):
			class = "switch"
		case len(dirs) > 1:
			class = "multi"
		}
		if class == "plain" {
			for _, dd := range dirs {
				if strings.Contains(strings.TrimRight(dd, "/"), "/") {
					class = "nested"
				}
			}
		}
		nSel, nUnsel, nSib := 0, 0, 0
		tracked := sortedKeys(target.Tree)
		for _, tp := range tracked {
			switch {
			case selected(tp, dirs):
				nSel++
				if havePrev && !selected(tp, prevDirs) {
					out.Probe("switch-moves-in")
				}
			default:
				nUnsel++
				if prefixSibling(tp, dirs) {
					nSib++
				}
				if havePrev && selected(tp, prevDirs) {
					out.Probe("switch-moves-out")
				}
			}
		}
		if nSel > 0 && nUnsel > 0 {
			out.NonTrivial = true
		}
		out.Probe("class:" + class)
		if nSib > 0 {
			out.Probe("prefix-sibling-present")
		}
		for _, dd := range dirs {
			if strings.HasSuffix(dd, "/") {
				out.Probe("trailing-slash-accepted")
			}
		}
		if o.SkipV {
			out.Probe("ok-with-skip-validation")
		}
		// stage: whether an earlier sparse operation of this plan succeeded (the recorded defects of go-git's sparse
		// support all need one: the second operation does not see skip-worktree entries), or this is the first one,
		// from an empty worktree or from a full checkout
		stage := "later"
		if !havePrev {
			stage = "first-full"
			if p.Fresh {
				stage = "first-fresh"
			}
		}
		classFor := func(tp string) string {
			if prefixSibling(tp, dirs) {
				return "prefix-sibling|" + stage
			}
			return class + "|" + stage
		}

		// 1. the on-disk index
		idx, ok := porc.DecodeIndexOnDisk(d)
		if !ok || idx == nil {
			out.Fail(fmt.Sprintf("C32|%s|entry-dropped|%s", name, classFor("")), "after %s (nil) the index is missing or undecodable", name)
			break
		}
		flags := map[string]bool{}
		for _, e := range idx.Entries {
			flags[e.Name] = e.SkipWorktree
			want, tracked := target.Tree[e.Name]
			switch {
			case !tracked:
				// not one of the statement's divergences; same root cause as
				// entry-dropped (resetIndex does not see skip-worktree entries)
				out.Probe("stale-entry-of-previous-commit-kept")
			case e.Hash.String() != blobID(want.Data):
				out.Probe("entry-id-is-not-the-target-commits")
			}
		}
		for _, tp := range tracked {
			skip, present := flags[tp]
			sel := selected(tp, dirs)
			switch {
			case !present:
				out.Fail(fmt.Sprintf("C32|%s|entry-dropped|%s", name, classFor(tp)), "after %s dirs=%v target c%d: tracked path %q has no index entry", name, dirs, ti, tp)
			case sel && skip:
				out.Fail(fmt.Sprintf("C32|%s|skip-flag-wrong-on-selected|%s", name, classFor(tp)), "after %s dirs=%v: %q lies inside the selection but is marked skip-worktree", name, dirs, tp)
			case !sel && !skip:
				out.Fail(fmt.Sprintf("C32|%s|skip-flag-missing-on-unselected|%s", name, classFor(tp)), "after %s dirs=%v: %q lies outside the selection (by path components) but is not marked skip-worktree", name, dirs, tp)
			}
			if out.Signature != "" {
				break
			}
		}
		if out.Signature != "" {
			break
		}
		// 2. the worktree
		files := listWorktree(d)
		for _, tp := range tracked {
			f, present := files[tp]
			sel := selected(tp, dirs)
			want := target.Tree[tp]
			switch {
			case sel && !present:
				out.Fail(fmt.Sprintf("C32|%s|selected-file-missing|%s", name, classFor(tp)), "after %s dirs=%v: %q lies inside the selection but is absent from the worktree", name, dirs, tp)
			case !sel && present:
				out.Fail(fmt.Sprintf("C32|%s|unselected-file-present|%s", name, classFor(tp)), "after %s dirs=%v: %q lies outside the selection but is present in the worktree", name, dirs, tp)
			case sel && (f.link != want.Link || f.data != want.Data || (!f.link && f.exec != want.Exec)):
				// only judged where the operation is meant to write the worktree
				if name != "reset-mixed" {
					out.Fail(fmt.Sprintf("C32|%s|selected-file-wrong-content|%s", name, classFor(tp)), "after %s dirs=%v: %q is selected but its worktree content/mode is not the commit's (worktree link=%v exec=%v %q, commit c%d link=%v exec=%v %q)", name, dirs, tp, f.link, f.exec, f.data, ti, want.Link, want.Exec, want.Data)
				}
			}
			if out.Signature != "" {
				break
			}
		}
		if out.Signature != "" {
			break
		}
		prevDirs, havePrev = dirs, true
	}
	out.Trace = trace
	out.LogHash = core.HashStrings(trace)
	out.StateHash = d.Digest("/w", nil)
	out.Steps = len(p.Ops)
	return out
}

func TestCheck(t *testing.T) {
	core.Main(t, core.Check{
		ID:    "C32",
		Level: "exploration",
		Rule: "plan = repository built in the check (3 commits c0<-c1<-c2 on branches b0,b1,b2; each tree a 7/8 subset of 15 paths with directory names that are string prefixes of siblings: a, ab, a.b, a-b, a/b, a/bc, file abc; two content versions so files are changed or unchanged between commits; one symlink, one executable) " +
			"x start state (full checkout of c2 | no-checkout: empty worktree, no index) x 1-3 sparse operations (Checkout by branch or hash with/without Force; Reset hard/mixed/merge with/without SkipSparseDirValidation) each with a selection of 1-3 directories (nested, prefix-of-sibling, 1/8 with trailing slash, 1/10 missing or a file name); " +
			"judged only when the call returned nil; non-trivial = a judged operation whose target commit has both selected and unselected tracked paths; distinct = distinct plan JSON",
		Assumptions: []string{
			"selected(path) is decided by whole path components after trimming a trailing slash from d; top-level files are never selected (git's cone mode would always materialise them, but go-git documents 'Directories not listed here will not appear in the worktree' and its own TestCheckoutSparse requires that only the listed directories exist at the top level, and the statement says 'exactly the tracked files whose path lies inside one of D')",
			"only paths tracked by the target commit are judged; files left over from a previous commit that the target does not track are not this property's concern",
			"Reset{MixedReset, SparseDirs} is judged like the others (the statement says 'a checkout or reset'; ResetOptions.SparseDirs documents 'Directories not listed here will not appear in the worktree'); its signatures carry op=reset-mixed so they can be triaged separately; the content of selected files is not judged for reset-mixed",
			"index and worktree are read straight from the simulated disk image",
		},
		Real:           []string{"Worktree.Checkout (SparseCheckoutDirectories)", "Worktree.Reset (SparseDirs, SkipSparseDirValidation)", "index.Index.SkipUnless", "treeContainsDirs", "resetIndex/resetWorktree/resetWorktreeToTree", "storage/filesystem"},
		Stub:           []string{"disk (simfs)"},
		Runs:           map[string]int{"quick": 100000, "thorough": 3000000},
		NewPlan:        func() any { return &Plan{} },
		Gen:            genPlan,
		Exec:           execPlan,
		RequiredProbes: []string{"op-ok:checkout-branch", "op-ok:checkout-branch-force", "op-ok:checkout-hash", "op-ok:reset-hard", "op-ok:reset-mixed", "op-ok:reset-merge", "prefix-sibling-present", "switch-moves-in", "switch-moves-out", "refused-dir-not-found", "class:nested", "class:multi", "class:switch", "ok-with-skip-validation"},
	})
}
