//go:build verif

package c28

import (
	"fmt"
	"os"
	"strings"
	"testing"

	"github.com/go-git/go-git/v6/verifsim/core"
)

// TestDbg prints the traces of generated runs whose trace contains C28_GREP.
func TestDbg(t *testing.T) {
	pat := os.Getenv("C28_GREP")
	if pat == "" {
		t.Skip()
	}
	shown := 0
	for i := 0; i < 3000 && shown < 4; i++ {
		p := genPlan(core.NewRand(core.Mix(99, uint64(i))), "quick")
		o := execPlan(t, p)
		all := strings.Join(o.Trace, "\n")
		if strings.Contains(all, pat) || strings.Contains(o.Signature, pat) {
			shown++
			fmt.Printf("---- %s %s\n%s\n", o.Signature, o.Message, all)
		}
	}
}
