//go:build verif

package c28

// Real git (2.39) as a second oracle for the reference model: the same user
// edits and the equivalent git commands are run in a scratch repository under
// /var/tmp and `git ls-files -s`, the files left in the directory and
// `git rev-parse HEAD^{tree}` are compared with the model after every step.

import (
	"fmt"
	"os"
	"os/exec"
	"path/filepath"
	"strconv"
	"strings"

	"github.com/go-git/go-git/v6/plumbing"
	"github.com/go-git/go-git/v6/verifsim/gen"
)

func plumbingHash(s string) plumbing.Hash { return plumbing.NewHash(s) }

type gitRepo struct {
	top string // scratch directory (removed by close)
	dir string // the repository
	env []string
}

func newGitRepo(tree map[string]gen.File, initial wtree) (*gitRepo, error) {
	top, err := os.MkdirTemp("/var/tmp", "c28-git-")
	if err != nil {
		return nil, err
	}
	g := &gitRepo{top: top, dir: filepath.Join(top, "r")}
	home := filepath.Join(top, "h")
	if err := os.MkdirAll(home, 0o755); err != nil {
		g.close()
		return nil, err
	}
	g.env = []string{
		"PATH=" + os.Getenv("PATH"), "HOME=" + home, "GIT_CONFIG_NOSYSTEM=1", "GIT_CONFIG_GLOBAL=/dev/null", "LC_ALL=C", "TZ=UTC",
		"GIT_AUTHOR_NAME=Sim", "GIT_AUTHOR_EMAIL=sim@example.com", "GIT_COMMITTER_NAME=Sim", "GIT_COMMITTER_EMAIL=sim@example.com",
		"GIT_AUTHOR_DATE=1600000000 +0000", "GIT_COMMITTER_DATE=1600000000 +0000", "GIT_TERMINAL_PROMPT=0",
		"GIT_CONFIG_COUNT=2", "GIT_CONFIG_KEY_0=gc.auto", "GIT_CONFIG_VALUE_0=0", "GIT_CONFIG_KEY_1=maintenance.auto", "GIT_CONFIG_VALUE_1=false",
	}
	if err := os.MkdirAll(g.dir, 0o755); err != nil {
		g.close()
		return nil, err
	}
	if _, err := g.git("init", "-q", "-b", "master"); err != nil {
		g.close()
		return nil, err
	}
	var ps []prim
	for _, p := range sortedKeys(tree) {
		f := tree[p]
		if par := parent(p); par != "" {
			ps = append(ps, prim{op: "mkdir", path: par})
		}
		if f.Link {
			ps = append(ps, prim{op: "symlink", path: p, target: f.Data})
		} else {
			ps = append(ps, prim{op: "write", path: p, data: f.Data, exec: f.Exec})
		}
	}
	// directories the generator left empty
	for _, p := range sortedKeys(initial) {
		if initial[p].kind == 'd' {
			ps = append(ps, prim{op: "mkdir", path: p})
		}
	}
	if err := g.apply(ps); err != nil {
		g.close()
		return nil, err
	}
	if _, err := g.git("add", "-A"); err != nil {
		g.close()
		return nil, err
	}
	if _, err := g.git("commit", "-q", "--allow-empty", "-m", "base"); err != nil {
		g.close()
		return nil, err
	}
	return g, nil
}

func (g *gitRepo) close() { _ = os.RemoveAll(g.top) }

func (g *gitRepo) git(args ...string) (string, error) {
	cmd := exec.Command("git", args...)
	cmd.Dir = g.dir
	cmd.Env = g.env
	out, err := cmd.CombinedOutput()
	if err != nil {
		return string(out), fmt.Errorf("git %s: %v: %s", strings.Join(args, " "), err, strings.TrimSpace(string(out)))
	}
	return string(out), nil
}

func (g *gitRepo) apply(ps []prim) error {
	for _, p := range ps {
		full := filepath.Join(g.dir, filepath.FromSlash(p.path))
		mode := os.FileMode(0o644)
		if p.exec {
			mode = 0o755
		}
		var err error
		switch p.op {
		case "rmall":
			err = os.RemoveAll(full)
		case "mkdir":
			err = os.MkdirAll(full, 0o755)
		case "write":
			if err = os.WriteFile(full, []byte(p.data), mode); err == nil {
				err = os.Chmod(full, mode)
			}
		case "symlink":
			err = os.Symlink(p.target, full)
		case "chmod":
			err = os.Chmod(full, mode)
		}
		if err != nil {
			return err
		}
	}
	return nil
}

func (g *gitRepo) headTree() string {
	out, err := g.git("rev-parse", "HEAD^{tree}")
	if err != nil {
		return "error: " + err.Error()
	}
	return strings.TrimSpace(out)
}

func (g *gitRepo) head() string {
	out, _ := g.git("rev-parse", "HEAD")
	return strings.TrimSpace(out)
}

// state reads `git ls-files -s` and walks the directory.
func (g *gitRepo) state() (index, wtree, error) {
	out, err := g.git("ls-files", "-s", "-z")
	if err != nil {
		return nil, nil, err
	}
	x := index{}
	for _, rec := range strings.Split(out, "\x00") {
		if rec == "" {
			continue
		}
		tab := strings.IndexByte(rec, '\t')
		f := strings.Fields(rec[:tab])
		if tab < 0 || len(f) != 3 {
			return nil, nil, fmt.Errorf("unparsable ls-files record %q", rec)
		}
		m, _ := strconv.ParseUint(f[0], 8, 32)
		name := rec[tab+1:]
		if f[2] != "0" {
			return nil, nil, fmt.Errorf("git has stage %s for %q", f[2], name)
		}
		x[name] = ient{mode: uint32(m), id: f[1]}
	}
	w := wtree{}
	err = filepath.Walk(g.dir, func(p string, info os.FileInfo, err error) error {
		if err != nil {
			return err
		}
		rel, _ := filepath.Rel(g.dir, p)
		rel = filepath.ToSlash(rel)
		if rel == "." {
			return nil
		}
		if rel == ".git" {
			return filepath.SkipDir
		}
		switch {
		case info.Mode()&os.ModeSymlink != 0:
			t, err := os.Readlink(p)
			if err != nil {
				return err
			}
			w[rel] = node{kind: 'l', data: t}
		case info.IsDir():
			w[rel] = node{kind: 'd'}
		default:
			b, err := os.ReadFile(p)
			if err != nil {
				return err
			}
			w[rel] = node{kind: 'f', exec: info.Mode()&0o100 != 0, data: string(b)}
		}
		return nil
	})
	return x, w, err
}

// replay runs the git commands that are equivalent to the go-git call and
// compares git's result with the model's. "" = they agree.
func (g *gitRepo) replay(cmds [][]string, r result, expectCommit bool, wantTree string) string {
	before := g.head()
	var outputs []string
	for _, c := range cmds {
		if c[0] == "!mkdir" {
			_ = os.MkdirAll(filepath.Join(g.dir, filepath.FromSlash(c[1])), 0o755)
			continue
		}
		if _, err := g.git(c...); err != nil {
			outputs = append(outputs, err.Error())
		}
	}
	gx, gw, err := g.state()
	if err != nil {
		return "cannot read git's state: " + err.Error()
	}
	note := ""
	if len(outputs) > 0 {
		note = " [git said: " + strings.Join(outputs, " | ") + "]"
		if len(note) > 400 {
			note = note[:400] + "...]"
		}
	}
	if !sameIndex(gx, r.idx) || !sameTree(gw, r.wt) {
		return describeDiff(r.idx, r.wt, gx, gw) + note
	}
	after := g.head()
	if expectCommit {
		if after == before {
			return "the model expects a commit, git made none" + note
		}
		if t := g.headTree(); t != wantTree {
			return fmt.Sprintf("git's commit has tree %s, the model's encoder gives %s", t, wantTree)
		}
	} else if after != before {
		return "git moved HEAD where the model expects no commit" + note
	}
	return ""
}
