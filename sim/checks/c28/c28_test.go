//go:build verif

// C28 — add, remove, move, clean and commit produce git's index and trees.
//
// Histories of up to 12 steps on a generated repository: user edits made
// directly on the simulated disk (write / delete files, chmod, replace a file
// by a symlink or by a directory and back, create empty directories, write
// .gitignore files) interleaved with go-git calls (Add of a file or directory,
// AddWithOptions{All}, AddGlob, Remove of a file or directory, RemoveGlob,
// Move, Clean with and without Dir, Commit plain and All). A reference model
// of git's index semantics (model_test.go) is applied next to the real thing;
// after every go-git call that returned nil the decoded ON-DISK index must
// equal the model's (paths, modes, blob ids, all stage 0) and the worktree on
// the simulated disk must equal the model's expectation of remaining files;
// after Commit the commit's tree id must equal the independently encoded tree
// of the model index and the branch must have advanced to a commit whose only
// parent is the old HEAD. In the thorough tier a fraction of the plans is
// replayed in a real scratch repository with git 2.39 (gitreplay_test.go) and
// the model is compared with `git ls-files -s`, the files git left and
// `git rev-parse HEAD^{tree}` after every step.
package c28

import (
	"fmt"
	iofs "io/fs"
	"sort"
	"strings"
	"testing"
	"time"

	git "github.com/go-git/go-git/v6"
	"github.com/go-git/go-git/v6/plumbing/object"
	"github.com/go-git/go-git/v6/storage/filesystem"
	"github.com/go-git/go-git/v6/verifsim/core"
	"github.com/go-git/go-git/v6/verifsim/gen"
	"github.com/go-git/go-git/v6/verifsim/hooks"
	"github.com/go-git/go-git/v6/verifsim/porc"
	"github.com/go-git/go-git/v6/verifsim/simfs"
)

type Step struct {
	Kind string `json:"kind"`
	A    int    `json:"a"`
	B    int    `json:"b"`
	F    bool   `json:"f"`
}

type Plan struct {
	RepoSeed   uint64 `json:"repo_seed"`
	Repack     bool   `json:"repack"`
	TickMs     int    `json:"tick_ms"`
	StrictDirs bool   `json:"strict_dirs"` // also compare the set of directories
	Git        bool   `json:"git"`         // replay in a real repository with git
	ModelOnly  bool   `json:"model_only"`  // with Git: go-git is not called at all, the model alone is compared with git (validation of the model)
	Steps      []Step `json:"steps"`
}

// the first seven are what the generator tracks
var filePaths = []string{
	"a.txt", "b.txt", "dir/c.txt", "dir/sub/d.txt", "e.sh", "z/y/x.txt", "dir/e.txt",
	"new1.txt", "dir/new2.txt", "un/tracked.txt", "un/deep/er.txt",
	"x.log", "dir/y.log", "keep.log", "ign/f.txt", "dir/ign/g.txt", "dir/sub/t.tmp",
	"a.txt/inner.txt", "z", "dir/sub", "newdir/n.txt",
	".gitignore", "dir/.gitignore", "un/.gitignore",
	// siblings that sort between "name" and "name/" (git orders a directory as name+"/")
	"dir.txt", "z-old", "dir/sub.txt",
}

var dirPaths = []string{".", "dir", "dir/sub", "z", "z/y", "un", "un/deep", "ign", "dir/ign", "empty", "dir/empty2", "newdir", "a.txt"}

var allPaths = append(append([]string{}, filePaths...), dirPaths...)

var ignoreSets = []string{
	"*.log\n",
	"*.log\n!keep.log\n",
	"ign/\n",
	"/new1.txt\n*.tmp\n",
	"un\n",
	"*.log\nign/\n*.tmp\n",
	"sub/\n",
	"/dir/*.txt\n",
	"# nothing\n",
	"*.txt\n!c.txt\n",
	"deep/\n*.log\n",
}

var linkTargets = []string{"a.txt", "dir", "../b.txt", "nowhere", "dir/c.txt", "z/y"}

var addGlobs = []string{"*.txt", "dir/*", "*", "d*", "*/c.txt", "dir/*.log", "*.log", "dir/s*", "un/*", "z/*/x.txt", "*.sh", "nomatch*", "*/*.txt"}

var rmGlobs = []string{"*.txt", "dir/*", "d*", "*/c.txt", "z/*", "*.log", "dir/s*", "dir", "a.txt", "z", "un*", "*.sh", "dir/sub/*", "nomatch*"}

var mvTargets = append(append([]string{}, filePaths[:21]...), "dir", "newdir/moved.txt", "z/y/moved.txt", "moved.txt", "dir.txt", "z-old", "dir/sub.txt")

var userKinds = map[string]bool{"write": true, "delete": true, "chmod": true, "symlink": true, "mkdir": true}

var weights = map[string]int{"write": 8, "delete": 4, "chmod": 2, "symlink": 3, "mkdir": 2,
	"add": 8, "addall": 3, "addglob": 3, "rm": 5, "rmglob": 3, "mv": 5, "clean": 4, "commit": 4}

func mod(a, n int) int {
	if n <= 0 {
		return 0
	}
	a %= n
	if a < 0 {
		a += n
	}
	return a
}

func genPlan(r *core.Rand, tier string) any {
	p := &Plan{RepoSeed: r.Uint64() % 48, Repack: r.Bool(), TickMs: r.Pick2(1, 1000), StrictDirs: r.Bool()}
	switch tier {
	case "thorough":
		p.RepoSeed = r.Uint64() % 2048
		p.Git = r.Chance(1, 25)
	case "gitall": // development: every plan is replayed with git
		p.Git = true
	case "gitmodel": // development: long histories of model against git, without go-git
		p.Git, p.ModelOnly = true, true
	}
	var bag []string
	for _, k := range sortedKeys(weights) {
		for i := 0; i < weights[k]; i++ {
			bag = append(bag, k)
		}
	}
	n := r.Range(3, 12)
	if r.Chance(2, 5) {
		// ignore rules plus files they may cover, early in the history
		p.Steps = append(p.Steps, Step{Kind: "write", A: 21 + r.Intn(3), B: r.Intn(96)})
		for k := r.Range(1, 2); k > 0; k-- {
			p.Steps = append(p.Steps, Step{Kind: "write", A: r.Pick2(9, 10, 11, 12, 13, 14, 15, 16, 7, 8, 24, 26), B: r.Intn(96)})
		}
	}
	for len(p.Steps) < n {
		s := Step{Kind: bag[r.Intn(len(bag))], A: r.Intn(96), B: r.Intn(96), F: r.Bool()}
		p.Steps = append(p.Steps, s)
		// an edit is often followed by an operation on the same path or on its
		// directory, so that operations meet dirty states
		if userKinds[s.Kind] && len(p.Steps) < n && r.Chance(1, 2) {
			a := s.A
			if s.Kind == "mkdir" {
				a = len(filePaths) + mod(s.A, len(dirPaths))
			} else if s.Kind == "delete" || s.Kind == "symlink" {
				a = mod(s.A, len(allPaths))
			} else {
				a = mod(s.A, len(filePaths))
			}
			f := Step{Kind: r.Pick("add", "add", "rm", "mv", "commit", "clean"), A: a, B: r.Intn(96), F: r.Bool()}
			if r.Chance(1, 4) && a < len(filePaths) {
				// the containing directory instead
				dir := parent(filePaths[a])
				for i, dp := range dirPaths {
					if dp == dir {
						f.A = len(filePaths) + i
					}
				}
			}
			p.Steps = append(p.Steps, f)
		}
	}
	return p
}

// ---- user edits -------------------------------------------------------------

// prim is one primitive change of the worktree, applied identically to the
// simulated disk and (when replaying) to the real directory.
type prim struct {
	op     string // rmall | mkdir | write | symlink | chmod
	path   string
	data   string
	exec   bool
	target string
}

func isIgnoreFile(p string) bool { return p == ".gitignore" || strings.HasSuffix(p, "/.gitignore") }

func clearParents(w wtree, p string) []prim {
	var anc []string
	for a := parent(p); a != ""; a = parent(a) {
		anc = append(anc, a)
	}
	var out []prim
	for i := len(anc) - 1; i >= 0; i-- {
		if n, ok := w[anc[i]]; ok && n.kind != 'd' {
			out = append(out, prim{op: "rmall", path: anc[i]})
			break // everything below is gone with it
		}
	}
	return out
}

func planEdit(s Step, w wtree) ([]prim, string) {
	var ps []prim
	mk := func(p string) {
		if par := parent(p); par != "" {
			ps = append(ps, prim{op: "mkdir", path: par})
		}
	}
	switch s.Kind {
	case "write":
		p := filePaths[mod(s.A, len(filePaths))]
		n, exists := w[p]
		if exists && n.kind == 'd' && !s.F {
			return nil, "write " + p + ": is a directory, skipped"
		}
		data := fmt.Sprintf("edit %d %d\n%s", s.A, s.B, strings.Repeat("x", mod(s.B, 7)))
		if isIgnoreFile(p) {
			data = ignoreSets[mod(s.B, len(ignoreSets))]
		}
		exec := mod(s.B, 4) == 0
		if p == "e.sh" {
			exec = mod(s.B, 4) != 1
		}
		ps = append(ps, clearParents(w, p)...)
		if exists {
			ps = append(ps, prim{op: "rmall", path: p})
		}
		mk(p)
		ps = append(ps, prim{op: "write", path: p, data: data, exec: exec})
		return ps, fmt.Sprintf("write %s (exec=%v, %d bytes, was %s)", p, exec, len(data), kindName(n, exists))
	case "delete":
		p := allPaths[mod(s.A, len(allPaths))]
		n, exists := w[p]
		if p == "." || !exists || (n.kind == 'd' && !s.F) {
			return nil, "delete " + p + ": nothing done"
		}
		return []prim{{op: "rmall", path: p}}, fmt.Sprintf("delete %s (was %s)", p, kindName(n, exists))
	case "chmod":
		p := filePaths[mod(s.A, len(filePaths))]
		n, exists := w[p]
		if !exists || n.kind != 'f' {
			return nil, "chmod " + p + ": not a regular file"
		}
		return []prim{{op: "chmod", path: p, exec: !n.exec}}, fmt.Sprintf("chmod %s exec=%v", p, !n.exec)
	case "symlink":
		p := allPaths[mod(s.A, len(allPaths))]
		n, exists := w[p]
		if p == "." || isIgnoreFile(p) || (exists && n.kind == 'd' && !s.F) {
			return nil, "symlink " + p + ": skipped"
		}
		t := linkTargets[mod(s.B, len(linkTargets))]
		ps = append(ps, clearParents(w, p)...)
		if exists {
			ps = append(ps, prim{op: "rmall", path: p})
		}
		mk(p)
		ps = append(ps, prim{op: "symlink", path: p, target: t})
		return ps, fmt.Sprintf("symlink %s -> %s (was %s)", p, t, kindName(n, exists))
	case "mkdir":
		p := dirPaths[mod(s.A, len(dirPaths))]
		n, exists := w[p]
		if p == "." || (exists && n.kind != 'd' && !s.F) {
			return nil, "mkdir " + p + ": skipped"
		}
		ps = append(ps, clearParents(w, p)...)
		if exists && n.kind != 'd' {
			ps = append(ps, prim{op: "rmall", path: p})
		}
		ps = append(ps, prim{op: "mkdir", path: p})
		return ps, fmt.Sprintf("mkdir %s (was %s)", p, kindName(n, exists))
	}
	return nil, "unknown user step " + s.Kind
}

func kindName(n node, exists bool) string {
	if !exists {
		return "absent"
	}
	switch n.kind {
	case 'd':
		return "dir"
	case 'l':
		return "symlink"
	}
	if n.exec {
		return "exec-file"
	}
	return "file"
}

func applySim(d *simfs.Disk, ps []prim) error {
	fs := d.FS("/w", "user")
	for _, p := range ps {
		var err error
		switch p.op {
		case "rmall":
			d.RemoveAllDirect("/w/" + p.path)
		case "mkdir":
			err = fs.MkdirAll(p.path, 0o755)
		case "write":
			mode := iofs.FileMode(0o644)
			if p.exec {
				mode = 0o755
			}
			err = d.WriteFile("/w/"+p.path, []byte(p.data), mode)
		case "symlink":
			err = d.PlantSymlink(p.target, "/w/"+p.path)
		case "chmod":
			mode := iofs.FileMode(0o644)
			if p.exec {
				mode = 0o755
			}
			err = fs.Chmod(p.path, mode)
		}
		if err != nil {
			return fmt.Errorf("%s %s: %w", p.op, p.path, err)
		}
	}
	return nil
}

func listWT(d *simfs.Disk) wtree {
	w := wtree{}
	for _, e := range d.List("/w") {
		rel := strings.TrimPrefix(e.Path, "/w/")
		if rel == ".git" || strings.HasPrefix(rel, ".git/") {
			continue
		}
		switch e.Kind {
		case "dir":
			w[rel] = node{kind: 'd'}
		case "link":
			w[rel] = node{kind: 'l', data: e.Target}
		default:
			w[rel] = node{kind: 'f', exec: e.Mode&0o100 != 0, data: string(e.Data)}
		}
	}
	return w
}

// diskIndex decodes the on-disk index into the model's form. problem != ""
// when it is undecodable or holds something a stage-0-only index cannot.
func diskIndex(d *simfs.Disk) (x index, problem string) {
	idx, ok := porc.DecodeIndexOnDisk(d)
	if !ok {
		return nil, "undecodable"
	}
	x = index{}
	if idx == nil {
		return x, ""
	}
	for _, e := range idx.Entries {
		if e.Stage != 0 {
			problem = fmt.Sprintf("entry %q has stage %d", e.Name, e.Stage)
		}
		if _, dup := x[e.Name]; dup {
			problem = fmt.Sprintf("entry %q appears twice", e.Name)
		}
		x[e.Name] = ient{mode: uint32(e.Mode), id: e.Hash.String()}
	}
	return x, problem
}

// ---- state classes ----------------------------------------------------------

// classOf names the state class of the path a divergence is about, from the
// state before the operation.
func classOf(p string, isDir bool, x index, w wtree, ig *ignorer, div string) string {
	n, inW := w[p]
	e, inX := x[p]
	typeChange := (inX && inW && n.kind == 'd') || (inW && n.kind != 'd' && x.hasUnder(p))
	for a := parent(p); a != ""; a = parent(a) {
		if _, ok := x[a]; ok {
			typeChange = true // an ancestor is tracked as a file
		}
		if an, ok := w[a]; ok && an.kind != 'd' && inX {
			typeChange = true // an ancestor of a tracked path is a file now
		}
	}
	link := (inW && n.kind == 'l') || (inX && e.mode == 0o120000) || w.beyondSymlink(p)
	switch {
	case typeChange:
		return "type-change"
	case link:
		return "symlink"
	case div == "index-wrong-mode", inW && inX && n.kind == 'f' && n.exec != (e.mode == 0o100755):
		return "exec"
	case ig.ignored(p, isDir || (inW && n.kind == 'd')):
		return "ignored"
	case isDir:
		return "empty-dir"
	case strings.Contains(p, "/"):
		return "nested"
	}
	return "plain"
}

// statePresent reports which classes the state before a call contains (probes).
func statePresent(x index, w wtree, ig *ignorer) []string {
	set := map[string]bool{}
	for p, n := range w {
		e, inX := x[p]
		switch {
		case n.kind == 'l':
			set["symlink"] = true
		case n.kind == 'd':
			if !w.hasChildren(p) {
				set["empty-dir"] = true
			}
			if inX {
				set["type-change"] = true
			}
		case inX && n.exec != (e.mode == 0o100755):
			set["exec"] = true
		}
		if n.kind != 'd' {
			if x.hasUnder(p) {
				set["type-change"] = true
			}
			if !inX && ig.ignored(p, false) {
				set["ignored"] = true
			}
			if !inX && strings.Contains(p, "/") {
				set["nested-untracked"] = true
			}
		}
	}
	for p := range x {
		if _, ok := w[p]; !ok {
			set["deleted"] = true
		}
	}
	return sortedKeys(set)
}

// ---- comparison ---------------------------------------------------------------

func modeStr(m uint32) string { return fmt.Sprintf("%o", m) }

// compareState returns (divergence, path, isDir, message) or "" when the
// actual index and worktree equal the expected ones.
func compareState(wantX index, wantW wtree, gotX index, gotProblem string, gotW wtree, strictDirs bool) (string, string, bool, string) {
	if gotProblem == "undecodable" {
		return "index-undecodable", "", false, "the on-disk index does not decode"
	}
	names := map[string]bool{}
	for p := range wantX {
		names[p] = true
	}
	for p := range gotX {
		names[p] = true
	}
	for _, p := range sortedKeys(names) {
		we, inW := wantX[p]
		ge, inG := gotX[p]
		switch {
		case inW && !inG:
			return "index-missing-path", p, false, fmt.Sprintf("index lacks %q (git: %s %s)", p, modeStr(we.mode), we.id[:8])
		case !inW && inG:
			return "index-extra-path", p, false, fmt.Sprintf("index has %q (%s %s) which git's index would not have", p, modeStr(ge.mode), ge.id[:8])
		case we.id != ge.id:
			return "index-wrong-id", p, false, fmt.Sprintf("index entry %q has id %s, git: %s", p, ge.id[:8], we.id[:8])
		case we.mode != ge.mode:
			return "index-wrong-mode", p, false, fmt.Sprintf("index entry %q has mode %s, git: %s", p, modeStr(ge.mode), modeStr(we.mode))
		}
	}
	if gotProblem != "" {
		return "index-wrong-stage", "", false, gotProblem
	}
	paths := map[string]bool{}
	for p := range wantW {
		paths[p] = true
	}
	for p := range gotW {
		paths[p] = true
	}
	keys := sortedKeys(paths)
	for _, p := range keys {
		wn, inW := wantW[p]
		gn, inG := gotW[p]
		wf, gf := inW && wn.kind != 'd', inG && gn.kind != 'd'
		switch {
		case wf && !gf:
			return "file-wrongly-removed", p, false, fmt.Sprintf("%q is gone from the worktree; git keeps it", p)
		case !wf && gf:
			return "file-left-behind", p, false, fmt.Sprintf("%q is in the worktree; with git it would not be", p)
		case wf && gf && wn != gn:
			return "file-content-changed", p, false, fmt.Sprintf("%q differs from what git leaves (kind/exec/content)", p)
		}
	}
	if strictDirs {
		for _, p := range keys {
			wn, inW := wantW[p]
			gn, inG := gotW[p]
			wd, gd := inW && wn.kind == 'd', inG && gn.kind == 'd'
			switch {
			case wd && !gd:
				return "file-wrongly-removed", p, true, fmt.Sprintf("directory %q is gone; git keeps it", p)
			case !wd && gd:
				return "file-left-behind", p, true, fmt.Sprintf("directory %q is left in the worktree; git removes it (or never creates it)", p)
			}
		}
	}
	return "", "", false, ""
}

// ---- execution ------------------------------------------------------------------

func execPlan(t *testing.T, pa any) (out core.Outcome) {
	p := pa.(*Plan)
	hooks.Deterministic(true)
	b := porc.GetBase(p.RepoSeed%2048, p.Repack, false)
	if b.Err != nil {
		out.Inconclusive = "setup-failed"
		return out
	}
	w, err := porc.Open(b, filesystem.Options{})
	if err != nil {
		out.Inconclusive = "setup-open-failed"
		return out
	}
	defer func() { _ = w.Env.Storage.Close() }()
	d := w.Disk
	d.Tick = time.Millisecond
	if p.TickMs >= 1000 {
		d.Tick = time.Second
	}
	var trace, detail []string
	logf := func(format string, args ...any) {
		if len(trace) < 500 {
			trace = append(trace, fmt.Sprintf(format, args...))
		}
	}
	finish := func() core.Outcome {
		out.LogHash = core.HashStrings(trace)
		out.Trace = trace
		if len(detail) > 0 {
			out.Trace = append(append([]string{}, trace...), "errors returned by go-git (not part of the hashed log):")
			out.Trace = append(out.Trace, detail...)
		}
		// loose objects written by a call that then failed are not part of the
		// end state (see above)
		out.StateHash = d.Digest("/w", func(p string) bool { return strings.HasPrefix(p, "/w/.git/objects/") })
		out.Steps = len(p.Steps)
		return out
	}

	// the model starts from what the generator committed last
	headC := b.Model.Commits[b.Model.HeadIdx]
	mx := index{}
	for name, f := range headC.Tree {
		mx[name] = entryOf(fileNode(f))
	}
	head := headC.Hash.String()
	headTree := treeID(mx)
	if gx, prob := diskIndex(d); prob != "" || !sameIndex(gx, mx) {
		out.Inconclusive = "base-index-differs-from-generator-model"
		return finish()
	}
	wt, err := w.Env.Repo.Worktree()
	if err != nil {
		out.Inconclusive = "setup-open-failed"
		return finish()
	}
	var g *gitRepo
	if p.Git {
		g, err = newGitRepo(headC.Tree, listWT(d))
		if err != nil {
			out.Inconclusive = "git-scratch-repo-failed"
			out.Message = err.Error()
			return finish()
		}
		defer func() {
			if g != nil {
				g.close()
			}
		}()
		if gt := g.headTree(); gt != headTree {
			out.Fail("C28|harness|model-vs-git|initial-tree", "the model's tree id %s of the generated HEAD differs from git's %s", headTree, gt)
			return finish()
		}
	}
	abandon := func(why string) {
		if g != nil {
			logf("   git replay abandoned: %s", why)
			out.Probe("git-replay-abandoned")
			g.close()
			g = nil
		}
	}
	nCommit := 0

	for i, s := range p.Steps {
		if i >= 12 || out.Signature != "" {
			break
		}
		d.Advance(d.Tick)
		pre := listWT(d)
		if p.ModelOnly && g != nil {
			_, rw, e := g.state()
			if e != nil {
				out.Inconclusive = "git-state-unreadable"
				break
			}
			pre = rw
		}
		if userKinds[s.Kind] {
			prims, desc := planEdit(s, pre)
			logf("step %d: user: %s", i, desc)
			if p.ModelOnly && g != nil {
				if err := g.apply(prims); err != nil {
					out.Inconclusive = "user-edit-failed"
					break
				}
				continue
			}
			if err := applySim(d, prims); err != nil {
				out.Inconclusive = "user-edit-failed"
				out.Message = err.Error()
				break
			}
			if g != nil {
				if err := g.apply(prims); err != nil {
					abandon("user edit failed in the real directory: " + err.Error())
				}
			}
			continue
		}
		ig := newIgnorer(pre)
		var r result
		var cerr error
		var call func() error
		desc := ""
		op := s.Kind
		var gitCmds [][]string
		isCommit := false
		var commitHash string
		wantTree := ""
		switch s.Kind {
		case "add":
			path := allPaths[mod(s.A, len(allPaths))]
			isDir := path == "." || pre[path].kind == 'd'
			op = "add-file"
			if isDir {
				op = "add-dir"
			}
			r = gitAdd(mx, pre, path, !isDir)
			if isDir {
				gitCmds = [][]string{{"add", "--", path}}
			} else {
				gitCmds = [][]string{{"add", "-f", "--", path}}
			}
			call = func() error { _, e := wt.Add(path); return e }
			desc = fmt.Sprintf("Add(%q) [%s]", path, op)
		case "addall":
			op = "add-all"
			r = gitAdd(mx, pre, ".", false)
			gitCmds = [][]string{{"add", "-A"}}
			call = func() error { return wt.AddWithOptions(&git.AddOptions{All: true}) }
			desc = "AddWithOptions{All}"
		case "addglob":
			op = "add-glob"
			pattern := addGlobs[mod(s.A, len(addGlobs))]
			cur := mx
			for _, m := range globWT(pre, pattern) {
				if m == ".git" || strings.HasPrefix(m, ".git/") {
					continue
				}
				real, ok := pre.resolve(m, false)
				isDir := ok && pre[real].kind == 'd'
				rr := gitAdd(cur, pre, m, !isDir)
				cur = rr.idx
				if isDir {
					gitCmds = append(gitCmds, []string{"add", "--", m})
				} else {
					gitCmds = append(gitCmds, []string{"add", "-f", "--", m})
				}
			}
			r = result{idx: cur.clone(), wt: pre.clone()}
			if len(gitCmds) == 0 {
				r = unchanged(mx, pre, "the pattern matches nothing")
			}
			call = func() error {
				if s.F {
					return wt.AddWithOptions(&git.AddOptions{Glob: pattern})
				}
				return wt.AddGlob(pattern)
			}
			desc = fmt.Sprintf("AddGlob(%q)", pattern)
		case "rm":
			path := allPaths[mod(s.A, len(allPaths))]
			if path == "." {
				path = "dir"
			}
			op = "rm-file"
			if pre[path].kind == 'd' {
				op = "rm-dir"
			}
			r = gitRm(mx, pre, path)
			gitCmds = [][]string{{"rm", "-r", "-f", "-q", "--", path}}
			call = func() error { _, e := wt.Remove(path); return e }
			desc = fmt.Sprintf("Remove(%q) [%s]", path, op)
		case "rmglob":
			op = "rm-glob"
			pattern := rmGlobs[mod(s.A, len(rmGlobs))]
			if !hasMeta(pattern) {
				op = "rm-glob-literal"
			}
			r = gitRm(mx, pre, pattern)
			gitCmds = [][]string{{"rm", "-r", "-f", "-q", "--", pattern}}
			call = func() error { return wt.RemoveGlob(pattern) }
			desc = fmt.Sprintf("RemoveGlob(%q)", pattern)
		case "mv":
			op = "mv"
			from := filePaths[mod(s.A, len(filePaths))]
			to := mvTargets[mod(s.B, len(mvTargets))]
			r = gitMv(mx, pre, from, to)
			if !r.refused && parent(to) != "" {
				if _, ok := pre[parent(to)]; !ok {
					gitCmds = append(gitCmds, []string{"!mkdir", parent(to)})
				}
			}
			gitCmds = append(gitCmds, []string{"mv", "--", from, to})
			call = func() error { _, e := wt.Move(from, to); return e }
			desc = fmt.Sprintf("Move(%q, %q)", from, to)
		case "clean":
			op = "clean"
			gitCmds = [][]string{{"clean", "-f", "-q"}}
			if s.F {
				op = "clean-dir"
				gitCmds = [][]string{{"clean", "-f", "-d", "-q"}}
			}
			r = gitClean(mx, pre, s.F)
			call = func() error { return wt.Clean(&git.CleanOptions{Dir: s.F}) }
			desc = fmt.Sprintf("Clean{Dir:%v}", s.F)
		case "commit":
			op = "commit"
			isCommit = true
			nx := mx
			gitCmds = [][]string{{"commit", "-q", "-m", "history"}}
			if s.F {
				op = "commit-all"
				nx = gitAddUpdate(mx, pre)
				gitCmds = [][]string{{"commit", "-q", "-a", "-m", "history"}}
			}
			wantTree = treeID(nx)
			if wantTree == headTree {
				// git 2.39: "nothing to commit", exit 1, index rolled back
				r = unchanged(mx, pre, "nothing to commit")
			} else {
				r = result{idx: nx.clone(), wt: pre.clone()}
			}
			nCommit++
			call = func() error {
				h, e := wt.Commit(fmt.Sprintf("history commit %d", nCommit), &git.CommitOptions{Author: gen.Sig(300 + nCommit), Committer: gen.Sig(300 + nCommit), All: s.F})
				commitHash = h.String()
				return e
			}
			desc = fmt.Sprintf("Commit{All:%v}", s.F)
		default:
			logf("step %d: unknown kind %q skipped", i, s.Kind)
			continue
		}
		if p.ModelOnly {
			// validation of the model alone: git is the only actor
			if g == nil {
				break
			}
			logf("step %d: model-only %s", i, desc)
			if r.unmodeled != "" {
				logf("   not judged: %s", r.unmodeled)
				break
			}
			msg := g.replay(gitCmds, r, isCommit && !r.refused, wantTree)
			for _, c := range gitCmds {
				logf("   git %s", strings.Join(c, " "))
			}
			if msg != "" {
				out.Fail("C28|harness|model-vs-git|"+op, "step %d (%s): the reference model disagrees with git 2.39: %s", i, op, msg)
				break
			}
			out.Probe("git-replayed:" + op)
			out.NonTrivial = true
			mx = r.idx
			if isCommit && !r.refused {
				headTree = wantTree
			}
			continue
		}
		cerr = call()
		// Add of a directory, add -A, AddGlob and commit -a walk a Go map: when
		// several paths would fail, which error comes first (and which blobs were
		// written before it) is not a function of the plan. The error text is
		// shown in the trace but kept out of the hashed event log.
		if cerr == nil {
			logf("step %d: %s: ok", i, desc)
		} else {
			logf("step %d: %s: error", i, desc)
			detail = append(detail, fmt.Sprintf("step %d: %v", i, cerr))
		}
		for _, c := range statePresent(mx, pre, ig) {
			out.Probe("state:" + c)
		}
		gotW := listWT(d)
		gotX, prob := diskIndex(d)
		snap := porc.TakeSnapshot(d)
		curHead := snap.Refs[strings.TrimPrefix(strings.TrimSpace(snap.Head), "ref: ")]
		resync := func() bool {
			if prob == "undecodable" {
				return false
			}
			mx = gotX.clone()
			if curHead != head {
				// a refused call must not move HEAD; another property's concern
				head = curHead
				if c, e := w.Env.Repo.CommitObject(plumbingHash(curHead)); e == nil {
					headTree = c.TreeHash.String()
				}
			}
			return true
		}
		if cerr != nil {
			out.Probe("refused:" + op)
			if !r.refused && r.unmodeled == "" {
				out.Probe("refused-where-git-succeeds:" + op)
				logf("   (git would have succeeded)")
			}
			if !resync() {
				out.Inconclusive = "index-undecodable-after-refusal"
				break
			}
			// keep the replay only while the real directory still mirrors the image
			if g != nil {
				rx, rw, e := g.state()
				if e != nil || !sameIndex(rx, mx) || !sameTree(rw, gotW) {
					abandon("state after a refused go-git call cannot be mirrored")
				}
			}
			continue
		}
		if r.unmodeled != "" {
			out.Probe("unmodelled:" + op)
			logf("   not judged: %s", r.unmodeled)
			abandon("unmodelled step")
			if !resync() {
				out.Inconclusive = "index-undecodable"
				break
			}
			continue
		}
		out.Probe("judged:" + op)
		if r.refused {
			out.Probe("ok-where-git-refuses:" + op)
			logf("   (git refuses: %s; expecting no change)", r.why)
		}
		if !sameIndex(r.idx, mx) || !sameTree(r.wt, pre) {
			out.NonTrivial = true
		}

		// the model against real git, before go-git is judged by the model
		if g != nil {
			msg := g.replay(gitCmds, r, isCommit && !r.refused, wantTree)
			for _, c := range gitCmds {
				logf("   git %s", strings.Join(c, " "))
			}
			if msg != "" {
				out.Fail("C28|harness|model-vs-git|"+op, "step %d (%s): the reference model disagrees with git 2.39: %s", i, op, msg)
				break
			}
			out.Probe("git-replayed:" + op)
		}

		div, dp, isDir, msg := compareState(r.idx, r.wt, gotX, prob, gotW, p.StrictDirs || p.Git)
		if div != "" {
			class := "plain"
			if isDir {
				class = "empty-dir" // the divergence is about a directory, whatever else is true of it
			} else if dp != "" {
				class = classOf(dp, isDir, mx, pre, ig, div)
			}
			out.Fail(fmt.Sprintf("C28|%s|%s|%s", op, div, class), "step %d (%s) returned nil: %s", i, op, msg)
			break
		}
		if isCommit {
			if r.refused {
				out.Fail(fmt.Sprintf("C28|%s|commit-where-git-refuses|plain", op), "step %d: go-git committed %s although the index tree equals HEAD's tree (git: nothing to commit)", i, commitHash)
				break
			}
			c, e := w.Env.Repo.CommitObject(plumbingHash(commitHash))
			switch {
			case e != nil:
				out.Fail(fmt.Sprintf("C28|%s|head-not-advanced|plain", op), "step %d: the returned commit %s cannot be read: %v", i, commitHash, e)
			case c.TreeHash.String() != wantTree:
				// name the first entry in which the recorded tree differs
				cls, where := "plain", ""
				if tr, e := w.Env.Repo.TreeObject(c.TreeHash); e == nil {
					tx := index{}
					_ = tr.Files().ForEach(func(f *object.File) error {
						tx[f.Name] = ient{mode: uint32(f.Mode), id: f.Hash.String()}
						return nil
					})
					if _, dp, _, m := compareState(r.idx, wtree{}, tx, "", wtree{}, false); dp != "" {
						cls, where = classOf(dp, false, mx, pre, ig, ""), " ("+strings.Replace(m, "index", "tree", 1)+")"
					}
				}
				out.Fail(fmt.Sprintf("C28|%s|tree-id-differs|%s", op, cls), "step %d: commit %s records tree %s; git write-tree of the same index gives %s%s", i, commitHash[:8], c.TreeHash, wantTree, where)
			case curHead != commitHash:
				out.Fail(fmt.Sprintf("C28|%s|head-not-advanced|plain", op), "step %d: branch is at %s after committing %s", i, curHead, commitHash)
			case len(c.ParentHashes) != 1 || c.ParentHashes[0].String() != head:
				out.Fail(fmt.Sprintf("C28|%s|head-not-advanced|plain", op), "step %d: commit %s has parents %v, old HEAD was %s", i, commitHash[:8], c.ParentHashes, head)
			default:
				if _, e := w.Env.Repo.TreeObject(c.TreeHash); e != nil {
					out.Fail(fmt.Sprintf("C28|%s|tree-id-differs|plain", op), "step %d: tree %s of the new commit is not in the object store: %v", i, c.TreeHash, e)
				}
			}
			if out.Signature != "" {
				break
			}
			head, headTree = commitHash, wantTree
			out.Probe("commit-verified")
		}
		mx = r.idx
	}
	return finish()
}

func fileNode(f gen.File) node {
	if f.Link {
		return node{kind: 'l', data: f.Data}
	}
	return node{kind: 'f', exec: f.Exec, data: f.Data}
}

func sameIndex(a, b index) bool {
	if len(a) != len(b) {
		return false
	}
	for k, v := range a {
		if bv, ok := b[k]; !ok || bv != v {
			return false
		}
	}
	return true
}

func sameTree(a, b wtree) bool {
	if len(a) != len(b) {
		return false
	}
	for k, v := range a {
		if bv, ok := b[k]; !ok || bv != v {
			return false
		}
	}
	return true
}

func describeDiff(ax index, aw wtree, bx index, bw wtree) string {
	var out []string
	names := map[string]bool{}
	for k := range ax {
		names[k] = true
	}
	for k := range bx {
		names[k] = true
	}
	for _, k := range sortedKeys(names) {
		a, ina := ax[k]
		b, inb := bx[k]
		if ina != inb || a != b {
			out = append(out, fmt.Sprintf("index %q model=%v/%v git=%v/%v", k, ina, a, inb, b))
		}
	}
	paths := map[string]bool{}
	for k := range aw {
		paths[k] = true
	}
	for k := range bw {
		paths[k] = true
	}
	for _, k := range sortedKeys(paths) {
		a, ina := aw[k]
		b, inb := bw[k]
		if ina != inb || a != b {
			out = append(out, fmt.Sprintf("worktree %q model=%v/%c git=%v/%c", k, ina, kindByte(a), inb, kindByte(b)))
		}
	}
	sort.Strings(out)
	if len(out) > 6 {
		out = out[:6]
	}
	return strings.Join(out, "; ")
}

func kindByte(n node) byte {
	if n.kind == 0 {
		return '-'
	}
	return n.kind
}

func TestCheck(t *testing.T) {
	core.Main(t, core.Check{
		ID:    "C28",
		Level: "exploration",
		Rule: "plan = generated repository (3-7 commits, some with symlinks, optionally repacked) x history of 3-12 steps: user edits on the simulated disk (write/overwrite a file incl. .gitignore files with 11 pattern sets, delete a file or a directory tree, chmod +-x, replace a path by a symlink, by a directory or by a file, mkdir of empty directories) interleaved with go-git calls " +
			"(Add of a file or a directory incl. '.', AddWithOptions{All}, AddGlob/AddWithOptions{Glob} with 13 patterns, Remove of a file or a directory, RemoveGlob with 14 patterns, Move, Clean{Dir false/true}, Commit{All false/true}); half of the edits are followed by a call on the same path or its directory; " +
			"after every call that returned nil the decoded on-disk index and the worktree image are compared with a reference model of git's semantics, after Commit the tree id with an independent encoder and the branch/parent with the old HEAD; half of the plans also compare the set of directories (strict_dirs); " +
			"thorough: 1/25 of the plans is replayed step by step in a real repository with git 2.39 and the model compared with git; non-trivial = at least one judged call whose expected result changes the index or the worktree; distinct = distinct plan JSON",
		Assumptions: []string{
			"equivalent git commands: Add(file) = git add -f -- file (go-git adds explicitly named ignored files on purpose: TestAddSkipStatusWithIgnoredPath), Add(dir) = git add -- dir, AddWithOptions{All} = git add -A, AddGlob = the same per path.Match expansion of the pattern over the worktree, Remove(path) = git rm -r -f -- path (go-git has no force flag and no safety check), RemoveGlob(p) = git rm -r -f -- 'p', Move(a,b) = mkdir -p $(dirname b) && git mv -- a b, Clean{Dir} = git clean -f [-d], Commit{All} = git commit [-a]",
			"a go-git call that returns an error is not judged here (C29 covers refusals); the model then adopts the actual on-disk index",
			"user edits always advance the simulated clock by one tick, so no racy-timestamp state is generated (covered elsewhere)",
			"blob ids are sha1 over 'blob <len>\\0' + bytes (core.autocrlf unset); tree ids are encoded independently with git's directory-as-name+'/' ordering",
			"directories are compared only in strict_dirs plans (git tracks no directories, but git rm / git clean -d remove emptied ones and the quantifier names empty-directory leftovers)",
			"the model's ignore matcher covers the generated pattern forms only (*, leading /, trailing /, !negation, one nested level of .gitignore) and was validated against git 2.39 with the gitall tier",
		},
		Real:           []string{"Worktree.Add/AddWithOptions/AddGlob", "Worktree.Remove/RemoveGlob", "Worktree.Move", "Worktree.Clean", "Worktree.Commit (autoAddModifiedAndDeleted, buildTreeHelper.BuildTree, updateHEAD)", "Worktree.Status", "gitignore", "index encoder/decoder", "storage/filesystem"},
		Stub:           []string{"disk (simfs), manual clock", "thorough tier: real git 2.39 in a scratch repository as a second oracle for the model"},
		Runs:           map[string]int{"quick": 120000, "thorough": 2000000},
		NewPlan:        func() any { return &Plan{} },
		Gen:            genPlan,
		Exec:           execPlan,
		RequiredProbes: []string{"judged:add-file", "judged:add-dir", "judged:add-all", "judged:add-glob", "judged:rm-file", "judged:rm-dir", "judged:rm-glob", "judged:rm-glob-literal", "judged:mv", "judged:clean", "judged:clean-dir", "judged:commit", "judged:commit-all", "commit-verified", "state:symlink", "state:exec", "state:type-change", "state:ignored", "state:empty-dir", "state:deleted"},
	})
}
