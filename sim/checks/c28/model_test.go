//go:build verif

package c28

// Reference model of git's index semantics for add / add -A / rm / mv /
// clean / commit, written from git 2.39 behaviour observed in scratch
// repositories (see the comments carrying "git 2.39:"). It knows nothing of
// go-git: blob and tree ids are computed with crypto/sha1 over git's object
// framing, ignore rules with a small matcher for the pattern forms the check
// generates.

import (
	"crypto/sha1"
	"encoding/hex"
	"fmt"
	"path"
	"sort"
	"strings"
)

// node is one worktree entry: 'f' regular file, 'l' symlink, 'd' directory.
type node struct {
	kind byte
	exec bool
	data string // content or link target
}

// wtree is a worktree image: path -> node, directories included, ".git" and
// the root excluded.
type wtree map[string]node

func (w wtree) clone() wtree {
	c := make(wtree, len(w))
	for k, v := range w {
		c[k] = v
	}
	return c
}

type ient struct {
	mode uint32
	id   string
}

type index map[string]ient

func (x index) clone() index {
	c := make(index, len(x))
	for k, v := range x {
		c[k] = v
	}
	return c
}

func sortedKeys[V any](m map[string]V) []string {
	keys := make([]string, 0, len(m))
	for k := range m {
		keys = append(keys, k)
	}
	sort.Strings(keys)
	return keys
}

func blobID(data string) string {
	h := sha1.New()
	fmt.Fprintf(h, "blob %d\x00%s", len(data), data)
	return hex.EncodeToString(h.Sum(nil))
}

func entryOf(n node) ient {
	switch {
	case n.kind == 'l':
		return ient{0o120000, blobID(n.data)}
	case n.exec:
		return ient{0o100755, blobID(n.data)}
	}
	return ient{0o100644, blobID(n.data)}
}

// treeID encodes the trees of an index the way git write-tree does: entries
// sorted bytewise with directories compared as name+"/", each
// "<octal mode> <name>\0<20 raw bytes>", hashed as "tree <len>\0...".
func treeID(x index) string {
	type ent struct {
		name string
		mode uint32
		id   string
		dir  bool
	}
	var build func(prefix string, names []string) string
	build = func(prefix string, names []string) string {
		var ents []ent
		sub := map[string][]string{}
		for _, n := range names {
			rest := strings.TrimPrefix(n, prefix)
			if i := strings.IndexByte(rest, '/'); i >= 0 {
				sub[rest[:i]] = append(sub[rest[:i]], n)
				continue
			}
			ents = append(ents, ent{name: rest, mode: x[n].mode, id: x[n].id})
		}
		for _, d := range sortedKeys(sub) {
			ents = append(ents, ent{name: d, mode: 0o40000, id: build(prefix+d+"/", sub[d]), dir: true})
		}
		key := func(e ent) string {
			if e.dir {
				return e.name + "/"
			}
			return e.name
		}
		sort.Slice(ents, func(i, j int) bool { return key(ents[i]) < key(ents[j]) })
		var body []byte
		for _, e := range ents {
			raw, _ := hex.DecodeString(e.id)
			body = append(body, []byte(fmt.Sprintf("%o %s\x00", e.mode, e.name))...)
			body = append(body, raw...)
		}
		h := sha1.New()
		fmt.Fprintf(h, "tree %d\x00", len(body))
		h.Write(body)
		return hex.EncodeToString(h.Sum(nil))
	}
	return build("", sortedKeys(x))
}

// ---- ignore rules ---------------------------------------------------------

type ipat struct {
	base     string // directory of the .gitignore ("" = root)
	neg      bool
	dirOnly  bool
	anchored bool
	segs     []string
}

type ignorer struct{ pats []ipat }

// newIgnorer reads every regular .gitignore of the image, root first, deeper
// files later (= higher precedence).
func newIgnorer(w wtree) *ignorer {
	var files []string
	for p, n := range w {
		if n.kind == 'f' && (p == ".gitignore" || strings.HasSuffix(p, "/.gitignore")) {
			files = append(files, p)
		}
	}
	sort.Slice(files, func(i, j int) bool {
		di, dj := strings.Count(files[i], "/"), strings.Count(files[j], "/")
		if di != dj {
			return di < dj
		}
		return files[i] < files[j]
	})
	ig := &ignorer{}
	for _, f := range files {
		base := path.Dir(f)
		if base == "." {
			base = ""
		}
		for _, line := range strings.Split(w[f].data, "\n") {
			line = strings.TrimRight(line, " \r")
			if line == "" || strings.HasPrefix(line, "#") {
				continue
			}
			p := ipat{base: base}
			if strings.HasPrefix(line, "!") {
				p.neg = true
				line = line[1:]
			}
			if strings.HasSuffix(line, "/") {
				p.dirOnly = true
				line = strings.TrimRight(line, "/")
			}
			if strings.HasPrefix(line, "/") {
				p.anchored = true
				line = strings.TrimLeft(line, "/")
			}
			if strings.Contains(line, "/") {
				p.anchored = true
			}
			if line == "" {
				continue
			}
			p.segs = strings.Split(line, "/")
			ig.pats = append(ig.pats, p)
		}
	}
	return ig
}

// starMatch: '*' matches any run of characters (the subject never contains
// '/'), everything else is literal.
func starMatch(pat, s string) bool {
	for len(pat) > 0 {
		if pat[0] == '*' {
			for len(pat) > 0 && pat[0] == '*' {
				pat = pat[1:]
			}
			if pat == "" {
				return true
			}
			for i := 0; i <= len(s); i++ {
				if starMatch(pat, s[i:]) {
					return true
				}
			}
			return false
		}
		if s == "" || pat[0] != s[0] {
			return false
		}
		pat, s = pat[1:], s[1:]
	}
	return s == ""
}

// verdict for one path level: 0 no pattern matched, 1 excluded, -1 re-included.
func (ig *ignorer) level(p string, isDir bool) int {
	v := 0
	for _, pt := range ig.pats {
		rel := p
		if pt.base != "" {
			if !strings.HasPrefix(p, pt.base+"/") {
				continue
			}
			rel = p[len(pt.base)+1:]
		}
		if pt.dirOnly && !isDir {
			continue
		}
		ok := false
		if !pt.anchored {
			ok = starMatch(pt.segs[0], path.Base(rel))
		} else {
			comps := strings.Split(rel, "/")
			if len(comps) == len(pt.segs) {
				ok = true
				for i := range comps {
					if !starMatch(pt.segs[i], comps[i]) {
						ok = false
						break
					}
				}
			}
		}
		if ok {
			if pt.neg {
				v = -1
			} else {
				v = 1
			}
		}
	}
	return v
}

// ignored: git's rule — the last matching pattern decides, and a path below
// an excluded directory cannot be re-included.
func (ig *ignorer) ignored(p string, isDir bool) bool {
	comps := strings.Split(p, "/")
	for i := 1; i <= len(comps); i++ {
		sub := strings.Join(comps[:i], "/")
		dir := i < len(comps) || isDir
		if ig.level(sub, dir) == 1 {
			return true
		}
	}
	return false
}

// ---- worktree helpers -----------------------------------------------------

func parent(p string) string {
	d := path.Dir(p)
	if d == "." {
		return ""
	}
	return d
}

func under(p, dir string) bool {
	return dir == "" || dir == "." || strings.HasPrefix(p, dir+"/")
}

func (w wtree) hasChildren(dir string) bool {
	for p := range w {
		if strings.HasPrefix(p, dir+"/") {
			return true
		}
	}
	return false
}

// beyondSymlink: a proper ancestor of p is a symlink.
func (w wtree) beyondSymlink(p string) bool {
	for a := parent(p); a != ""; a = parent(a) {
		if w[a].kind == 'l' {
			return true
		}
	}
	return false
}

// blockedParent: a proper ancestor of p exists and is not a directory.
func (w wtree) blockedParent(p string) bool {
	for a := parent(p); a != ""; a = parent(a) {
		if n, ok := w[a]; ok && n.kind != 'd' {
			return true
		}
	}
	return false
}

func (w wtree) mkParents(p string) {
	for a := parent(p); a != ""; a = parent(a) {
		if _, ok := w[a]; !ok {
			w[a] = node{kind: 'd'}
		}
	}
}

func (w wtree) removeTree(p string) {
	delete(w, p)
	for q := range w {
		if strings.HasPrefix(q, p+"/") {
			delete(w, q)
		}
	}
}

// pruneUp removes the now-empty directories above p (git rm does this).
func (w wtree) pruneUp(p string) {
	for a := parent(p); a != ""; a = parent(a) {
		if n, ok := w[a]; !ok || n.kind != 'd' || w.hasChildren(a) {
			return
		}
		delete(w, a)
	}
}

// ---- index helpers --------------------------------------------------------

func (x index) hasUnder(dir string) bool {
	for p := range x {
		if strings.HasPrefix(p, dir+"/") {
			return true
		}
	}
	return false
}

// stage records n at p and drops entries in file/directory conflict with it
// (git 2.39: "git add a/b" with a tracked file "a" replaces the entry "a";
// "git add a" with tracked "a/b" drops "a/b").
func (x index) stage(p string, e ient) {
	for a := parent(p); a != ""; a = parent(a) {
		delete(x, a)
	}
	for q := range x {
		if strings.HasPrefix(q, p+"/") {
			delete(x, q)
		}
	}
	x[p] = e
}

// ---- operations -----------------------------------------------------------

// result of applying one git command to (index, worktree).
type result struct {
	idx       index
	wt        wtree
	refused   bool   // git changes nothing (error or nothing to do)
	unmodeled string // the model does not claim to know git's result
	why       string
}

func unchanged(x index, w wtree, why string) result {
	return result{idx: x.clone(), wt: w.clone(), refused: true, why: why}
}

// gitAdd models "git add [-f] -- p" (force only for explicitly named files)
// and, with p == ".", "git add -A".
//
// git 2.39: an explicitly named untracked ignored file is refused without -f
// ("The following paths are ignored", exit 1) while the other pathspecs of the
// same command are still added; untracked ignored files found while walking a
// named directory are skipped silently; tracked files are always updated;
// index entries below the pathspec whose file is gone are removed ("git add
// <path>" == "git add -A <path>" since git 2.0); a pathspec below a symlink is
// fatal ("is beyond a symbolic link"); an unmatched pathspec is fatal.
func gitAdd(x index, w wtree, p string, force bool) result {
	if p == "." {
		p = ""
	}
	if p != "" && w.beyondSymlink(p) {
		return unchanged(x, w, "beyond a symbolic link")
	}
	ig := newIgnorer(w)
	n, exists := w[p]
	if p == "" {
		n, exists = node{kind: 'd'}, true
	}
	matchesIdx := false
	for q := range x {
		if q == p || under(q, p) {
			matchesIdx = true
			break
		}
	}
	if !exists && !matchesIdx {
		return unchanged(x, w, "pathspec did not match")
	}
	nx := x.clone()
	changed := false
	if exists && n.kind != 'd' {
		_, tracked := x[p]
		if !tracked && !force && ig.ignored(p, false) {
			return unchanged(x, w, "path is ignored")
		}
		nx.stage(p, entryOf(n))
		changed = true
	}
	if exists && n.kind == 'd' {
		for _, q := range sortedKeys(w) {
			if !under(q, p) || w[q].kind == 'd' || w.beyondSymlink(q) {
				continue
			}
			if _, tracked := x[q]; !tracked && ig.ignored(q, false) {
				continue
			}
			nx.stage(q, entryOf(w[q]))
			changed = true
		}
	}
	for _, q := range sortedKeys(x) {
		if q != p && !under(q, p) {
			continue
		}
		if wn, ok := w[q]; !ok || wn.kind == 'd' || w.beyondSymlink(q) {
			if _, still := nx[q]; still {
				delete(nx, q)
				changed = true
			}
		}
	}
	_ = changed
	return result{idx: nx, wt: w.clone()}
}

// gitAddUpdate models the staging half of "git commit -a" (git add -u):
// tracked files only.
func gitAddUpdate(x index, w wtree) index {
	nx := x.clone()
	for _, q := range sortedKeys(x) {
		if wn, ok := w[q]; !ok || wn.kind == 'd' || w.beyondSymlink(q) {
			delete(nx, q)
		} else {
			nx[q] = entryOf(wn)
		}
	}
	return nx
}

func hasMeta(p string) bool { return strings.ContainsAny(p, "*?[") }

// fullMatch: '*' matches any run of characters including '/'.
func fullMatch(pat, s string) bool { return starMatch(pat, s) }

// gitRm models "git rm -r -f -- <pathspec>".
//
// git 2.39: a pathspec without wildcards matches the entry of that name and
// every entry below it; with wildcards it is matched against the whole entry
// name and '*' matches '/' too; nothing matched = fatal, nothing changes;
// matched entries are dropped from the index, their files (if present)
// unlinked, and directories emptied by that are removed upwards; untracked
// files are never touched; an entry whose path is now a directory makes
// git die ("Is a directory") before the index is written.
func gitRm(x index, w wtree, spec string) result {
	var matched []string
	for _, q := range sortedKeys(x) {
		if hasMeta(spec) {
			if fullMatch(spec, q) {
				matched = append(matched, q)
			}
		} else if q == spec || under(q, spec) {
			matched = append(matched, q)
		}
	}
	if len(matched) == 0 {
		return unchanged(x, w, "pathspec did not match")
	}
	for _, q := range matched {
		if w[q].kind == 'd' {
			if len(matched) == 1 {
				return unchanged(x, w, "is a directory")
			}
			r := unchanged(x, w, "")
			r.unmodeled = "rm dies half-way on an entry that became a directory"
			return r
		}
		if w.beyondSymlink(q) {
			r := unchanged(x, w, "")
			r.unmodeled = "rm of an entry below a symlink"
			return r
		}
	}
	nx, nw := x.clone(), w.clone()
	for _, q := range matched {
		delete(nx, q)
		// git 2.39: the emptied parent directories are removed even when the
		// file itself was already gone from the worktree
		delete(nw, q)
		nw.pruneUp(q)
	}
	return result{idx: nx, wt: nw}
}

// gitMv models "mkdir -p $(dirname to) && git mv -- from to" for a file.
//
// git 2.39: the source must exist in the worktree ("bad source") and in the
// index ("not under version control"); an existing destination is refused
// ("destination exists"; a destination directory would mean "move into",
// which go-git refuses, so it is not modelled as success); a destination that
// is only in the index (file deleted from the worktree) is overwritten; the
// entry keeps its mode and blob id whatever the worktree file looks like
// now (unstaged edits, chmod, type change stay unstaged); entries in
// file/directory conflict with the destination are dropped; the emptied
// source directory is left in place.
func gitMv(x index, w wtree, from, to string) result {
	fn, ok := w[from]
	switch {
	case from == to:
		return unchanged(x, w, "same path")
	case !ok:
		return unchanged(x, w, "bad source")
	case w.beyondSymlink(from) || w.beyondSymlink(to):
		r := unchanged(x, w, "")
		r.unmodeled = "mv across a symlinked directory"
		return r
	case fn.kind == 'd' && x.hasUnder(from):
		r := unchanged(x, w, "")
		r.unmodeled = "mv of a directory (go-git: not supported, returns an error)"
		return r
	case fn.kind == 'd':
		return unchanged(x, w, "source is a directory without tracked files below it")
	case w[to].kind == 'd':
		r := unchanged(x, w, "")
		r.unmodeled = "mv into an existing directory (go-git refuses: destination exists)"
		return r
	}
	e, tracked := x[from]
	if !tracked {
		return unchanged(x, w, "not under version control")
	}
	if _, exists := w[to]; exists {
		return unchanged(x, w, "destination exists")
	}
	if w.blockedParent(to) {
		return unchanged(x, w, "destination parent is not a directory")
	}
	nx, nw := x.clone(), w.clone()
	delete(nx, from)
	nx.stage(to, e)
	delete(nw, from)
	nw.mkParents(to)
	nw[to] = fn
	return result{idx: nx, wt: nw}
}

// gitClean models "git clean -f" and "git clean -f -d".
//
// git 2.39: untracked, not ignored files are removed in the root and in every
// directory that contains tracked entries (at any depth); a directory without
// tracked entries is left alone without -d; with -d it is skipped when it is
// ignored itself, otherwise cleaned recursively and removed when nothing
// (i.e. no ignored file) is left in it; a directory that has tracked entries
// in the index is never removed, even when empty; ignore rules are the ones in
// force when the command starts (an untracked .gitignore is itself removed).
func gitClean(x index, w wtree, dirs bool) result {
	ig := newIgnorer(w)
	nw := w.clone()
	var walk func(dir string)
	walk = func(dir string) {
		var kids []string
		for p := range w {
			if parent(p) == dir {
				kids = append(kids, p)
			}
		}
		sort.Strings(kids)
		for _, c := range kids {
			n := w[c]
			if n.kind != 'd' {
				if _, tracked := x[c]; !tracked && !ig.ignored(c, false) {
					delete(nw, c)
				}
				continue
			}
			if x.hasUnder(c) {
				walk(c)
				continue
			}
			if _, tracked := x[c]; tracked {
				// git 2.39: a directory standing where the index has a file
				// entry is left alone, contents included, with and without -d
				continue
			}
			if !dirs || ig.ignored(c, true) {
				continue
			}
			walk(c)
			if !nw.hasChildren(c) {
				delete(nw, c)
			}
		}
	}
	walk("")
	return result{idx: x.clone(), wt: nw}
}

// ---- glob over the worktree (the pattern language of filepath.Glob) --------

// resolve follows symlinks in every component of p (as lstat/stat of a path
// does for the intermediate ones). ok=false: dangling or outside the tree.
func (w wtree) resolve(p string, followFinal bool) (string, bool) {
	comps := strings.Split(p, "/")
	cur := ""
	for i, c := range comps {
		next := c
		if cur != "" {
			next = cur + "/" + c
		}
		hops := 0
		for {
			n, ok := w[next]
			if !ok {
				return "", false
			}
			if n.kind != 'l' || (i == len(comps)-1 && !followFinal) {
				break
			}
			t := path.Clean(path.Join(parent(next), n.data))
			if t == "." || t == ".." || strings.HasPrefix(t, "../") || strings.HasPrefix(t, "/") {
				return "", false
			}
			next = t
			if hops++; hops > 4 {
				return "", false
			}
		}
		cur = next
	}
	return cur, true
}

// globWT lists what util.Glob(worktree, pattern) yields: per segment, literal
// names must exist, wildcard names are matched with path.Match against the
// listing of the directory (symlinks to directories are listed through).
func globWT(w wtree, pattern string) []string {
	cur := []string{""}
	segs := strings.Split(pattern, "/")
	for i, seg := range segs {
		var next []string
		for _, d := range cur {
			if !hasMeta(seg) {
				cand := seg
				if d != "" {
					cand = d + "/" + seg
				}
				if _, ok := w.resolve(cand, false); ok {
					next = append(next, cand)
				}
				continue
			}
			real := ""
			if d != "" {
				r, ok := w.resolve(d, true)
				if !ok || w[r].kind != 'd' {
					continue
				}
				real = r
			}
			var names []string
			for p := range w {
				if parent(p) == real {
					names = append(names, path.Base(p))
				}
			}
			if real == "" {
				names = append(names, ".git")
			}
			sort.Strings(names)
			for _, n := range names {
				if ok, _ := path.Match(seg, n); ok {
					if d == "" {
						next = append(next, n)
					} else {
						next = append(next, d+"/"+n)
					}
				}
			}
		}
		cur = next
		_ = i
	}
	return cur
}
