//go:build verif

// C11 — every stored object reads back identically on every read path.
//
// WHAT IS REAL. go-git's whole filesystem read path: storage/filesystem
// (ObjectStorage: pack-first routing, object LRU cache, MRU pack hint,
// requireIndex/populateIndex, alternates, iterators, HashesWithPrefix,
// DeltaObject, CloseIdleDescriptors), dotgit (pack handles, loose objects,
// ExclusiveAccess lists, large-object streaming readers), internal/packhandle,
// internal/sharedfile (1 s grace timer), x/fdpool, idxfile (LazyIndex and
// MemoryIndex), packfile.Packfile / FSObject / Scanner — the last three also
// driven directly ("by offset": GetByOffset, Get, GetSizeByOffset, FindHash,
// FindOffset, GetByType) over a dotgit of the harness's own on the same disk,
// in pack-handle mode and in the legacy file mode where FSObject re-opens a
// closed pack by path.
//
// WHAT IS STUBBED. The disk (simfs: every operation is a seam that can fail
// at a drawn ordinal), the clock (testing/synctest bubble: sharedfile's timers
// and the disk's clock are the same fake clock) and the choice of which
// goroutine runs (lane_test.go: one task; go-git's own index loaders and
// timers are run one at a time in a canonical order, so a run does not depend
// on GOMAXPROCS).
//
// OUT OF REACH. Memory-mapped reads (osfs.WithMmap) need real files and a real
// kernel; the simulated disk has neither. That clause of the statement is NOT
// covered here and nothing pretends to cover it.
//
// REPOSITORIES (repos_test.go; built before any run, never inside one: the
// first worker process of a bin/check run lets git build them in
// /var/tmp/c11-shared-<parent pid>, the other workers and the replay processes
// read that directory, a reaper removes it when bin/check ends). Written by
// real git 2.39: sha1 and
// sha256 repositories with three packs each (one repacked with --depth=50
// --window=50 over files that are edits of each other, one made by `git
// repack` of loose objects whose loose copies stay — duplicates —, one written
// by fast-import), loose commits/trees/blobs/an annotated tag, blobs of 0, 1,
// 65, 5000, 40000 and 50000 bytes around the large-object thresholds; a
// repository whose objects/info/alternates names another one; and four .git
// fixtures of go-git-fixtures (ofs-delta, ref-delta, tags, sha256). Ground
// truth = `git cat-file --batch-all-objects --batch` (thorough tier: also
// --batch-check), every object re-hashed with crypto/sha1 / crypto/sha256;
// offsets and delta depths from the harness's own idx/pack reader
// (TestPackWalker compares it with `git verify-pack -v`).
//
// PLAN. repository x storage options (ExclusiveAccess, UseInMemoryIdx,
// LargeObjectThreshold 0/1/64/4096, object cache default/4 KiB/512 B/0,
// descriptor pool default/no-op/capacity 1,2,3, cache kept or dropped at
// re-open) x history of reads (by id any / right / wrong type, has, size, ids
// stored nowhere incl. near misses, prefix search with 1-4 and all bytes, type
// iteration full / partial-then-closed / left open and continued later,
// DeltaObject, readers consumed whole, in chunks, partially then closed, left
// open; objects held and re-read later; by-offset reads; CloseIdleDescriptors;
// clock steps of 0.2-2.5 s; closing the Storage and opening a new one) x fault
// plan (none, or 1-3 transient errors — EIO on read/stat/readdir, EIO / EMFILE /
// EACCES on open — at drawn ordinals of operations on .idx / .pack / .rev /
// loose / alternates / config / any path, armed before the Storage is
// constructed or before a drawn read).
//
// ORACLE. A call during which no fault fired must be exactly right: type, size,
// id and bytes as git reports; not-found (errors.Is ErrObjectNotFound) for ids
// stored nowhere and for wrong-type requests; prefix searches return exactly
// the ids with that prefix (alternates included); an iteration all of whose
// Next calls succeeded yields every object of the repository's own store of
// that type; nothing yielded or listed may be unknown to git; the DeltaObject
// path must give a delta that, applied (by an applier of the harness's own) to
// git's bytes of the base, produces git's bytes of the object, and the actual
// hash and size of that object. A call during which an injected fault fired may
// return any error, but what it returns with a nil error is judged like any
// other result — success is never excused. It is then repeated once: without a
// new fault it must be exactly right (recovery within one retry), and so must
// every later call, and a final fault-free sweep. A reader, iterator or
// hand-built Packfile on which a fault fired may keep reporting that error
// (buffered readers latch it) and is dropped at its first error; the Storage
// itself gets no such allowance.
//
// NOT JUDGED, AND WHY. Iteration does not descend into alternates (long-standing
// design of IterEncodedObjects; probe). Repeated entries in a listing (probe).
// Descriptors still open 3 s after Storage.Close (probe: the statement does not
// speak about descriptors; two leaks are visible there, see the report).
// ErrObjectNotFound returned under a fault for an object that exists (excused
// like any error; probe). Errors from Close. DeltaObject is only asked for
// AnyObject (its typed form compares against the delta type). The image is
// compared with git's after the run (probe: reads must not write).
//
// SIGNATURES. C11|<read path[:where the object lives][:reader|read|held]>|<wrong-type |
// wrong-size | wrong-id | wrong-bytes | spurious-error | spurious-notfound |
// phantom-found | phantom-id | missing-id | missing-object | no-recovery-after-fault |
// panic>|<options>|<none | after-fault:class@file | during-fault:class@file>.
// <options>: for a divergence that shows without faults, the smallest set of
// non-default options that still shows it (found by switching them back one at
// a time), or opts:any; for one that needs its fault, opts:exclusive or
// opts:not-attributed (switching options moves every fault ordinal, so re-runs
// prove nothing there). The fault named is, of those that fired before, the one
// that hit the most "one-time" thing (config at construction, then the
// alternates list, then a directory listing, then the rest, latest first); when
// it is one of the first three the read path is replaced by any-read-path,
// because which read notices a damaged Storage first is incidental. Two
// divergences that are pure functions of the request (DeltaObject.ActualSize,
// prefixes longer than 20 bytes) do not end the run: it goes on, and reports
// them only if nothing else turns up.
package c11

import (
	"bytes"
	"crypto"
	"errors"
	"fmt"
	"io"
	"os"
	"sort"
	"strings"
	"testing"
	"time"

	"github.com/go-git/go-billy/v6"
	"github.com/go-git/go-git/v6/plumbing"
	"github.com/go-git/go-git/v6/plumbing/cache"
	formatcfg "github.com/go-git/go-git/v6/plumbing/format/config"
	"github.com/go-git/go-git/v6/plumbing/format/idxfile"
	"github.com/go-git/go-git/v6/plumbing/format/packfile"
	githash "github.com/go-git/go-git/v6/plumbing/hash"
	"github.com/go-git/go-git/v6/plumbing/storer"
	"github.com/go-git/go-git/v6/storage/filesystem"
	"github.com/go-git/go-git/v6/storage/filesystem/dotgit"
	"github.com/go-git/go-git/v6/verifsim/core"
	"github.com/go-git/go-git/v6/verifsim/hooks"
	"github.com/go-git/go-git/v6/verifsim/sched"
	"github.com/go-git/go-git/v6/verifsim/simfs"
	"github.com/go-git/go-git/v6/x/fdpool"
)

// ---------------------------------------------------------------- plan

type Opts struct {
	Exclusive bool `json:"exclusive"`
	InMemIdx  bool `json:"in_mem_idx"`
	LOT       int  `json:"large_object_threshold"` // 0 off, else bytes
	Cache     int  `json:"cache"`                  // 0 default (96 MiB), 1: 4 KiB, 2: 512 B, 3: 0 (keeps nothing)
	Pool      int  `json:"pool"`                   // 0 nil (default 256), -1 fdpool.New(0), n>0 fdpool.New(n)
	KeepCache bool `json:"keep_cache"`             // a re-opened Storage gets the same cache object
}

type Op struct {
	Kind string `json:"kind"`
	A    int    `json:"a"`
	B    int    `json:"b"`
	C    int    `json:"c"`
}

type Plan struct {
	Repo   int           `json:"repo"`
	Opts   Opts          `json:"opts"`
	Ops    []Op          `json:"ops"`
	Faults []simfs.Fault `json:"faults,omitempty"`
	ArmAt  int           `json:"arm_at"` // faults are armed before op ArmAt; 0 = before the Storage is constructed
}

var opWeights = []struct {
	k string
	w int
}{
	{"get", 30}, {"gettyped", 6}, {"getwrong", 5}, {"has", 5}, {"size", 6}, {"absent", 5}, {"prefix", 5},
	{"iter", 4}, {"iter-next", 4}, {"iter-close", 1}, {"delta", 5}, {"reread", 5}, {"reader-next", 3}, {"reader-close", 1},
	{"close-idle", 3}, {"clock", 5}, {"reopen", 2},
	{"pf-off", 5}, {"pf-get", 3}, {"pf-size", 1}, {"pf-hash", 2}, {"pf-iter", 1}, {"pf-close", 1},
}

func genPlan(r *core.Rand, tier string) any {
	p := &Plan{Repo: r.Intn(1 << 10)}
	// the three git-built repositories get half of the plans
	if r.Bool() {
		p.Repo = r.Intn(3)
	}
	p.Opts = Opts{Exclusive: r.Chance(1, 4), InMemIdx: r.Chance(1, 3), LOT: r.Pick2(0, 0, 1, 64, 4096),
		Cache: r.Pick2(0, 0, 1, 2, 2, 3), Pool: r.Pick2(0, 0, -1, -1, 1, 1, 2, 3), KeepCache: r.Bool()}
	total := 0
	for _, w := range opWeights {
		total += w.w
	}
	n := r.Range(30, 120)
	if r.Chance(1, 6) {
		n = r.Range(120, 300)
	}
	var recent []int
	for i := 0; i < n; i++ {
		x := r.Intn(total)
		kind := ""
		for _, w := range opWeights {
			if x < w.w {
				kind = w.k
				break
			}
			x -= w.w
		}
		op := Op{Kind: kind, A: r.Intn(1 << 16), B: r.Intn(1 << 12), C: r.Intn(1 << 12)}
		// locality: come back to recently used objects (cache hits, same-pack runs)
		if len(recent) > 0 && r.Chance(2, 5) {
			op.A = recent[r.Intn(len(recent))]
		}
		recent = append(recent, op.A)
		if len(recent) > 8 {
			recent = recent[1:]
		}
		p.Ops = append(p.Ops, op)
	}
	if r.Bool() {
		nf := r.Range(1, 3)
		for i := 0; i < nf; i++ {
			var f simfs.Fault
			switch r.Intn(8) {
			case 0, 1, 2:
				f = simfs.Fault{Class: simfs.OpRead, Errno: "EIO", Nth: r.Range(1, 60)}
			case 3, 4, 5:
				f = simfs.Fault{Class: simfs.OpOpen, Errno: r.Pick("EIO", "EMFILE", "EMFILE", "EACCES"), Nth: r.Range(1, 12)}
			case 6:
				f = simfs.Fault{Class: simfs.OpStat, Errno: r.Pick("EIO", "EACCES"), Nth: r.Range(1, 8)}
			default:
				f = simfs.Fault{Class: simfs.OpReadDir, Errno: r.Pick("EIO", "EMFILE"), Nth: r.Range(1, 4)}
			}
			f.PathSub = r.Pick("", "", "", ".idx", ".idx", ".idx", ".pack", ".pack", ".pack", ".rev", ".rev", "objects/", "objects/", "/alt/", "/alt/", "alternates", "config")
			if f.PathSub == "alternates" || f.PathSub == "config" {
				f.Nth = r.Range(1, 2)
				if f.Class == simfs.OpReadDir {
					f.Class = simfs.OpOpen
					f.Errno = "EMFILE"
				}
			}
			p.Faults = append(p.Faults, f)
		}
		if !r.Chance(1, 4) {
			p.ArmAt = r.Intn(len(p.Ops))
		}
	}
	return p
}

func mod(a, n int) int {
	if n <= 0 {
		return 0
	}
	a %= n
	if a < 0 {
		a += n
	}
	return a
}

// ---------------------------------------------------------------- instrumented cache

// countingCache is a cache.Object that delegates to the real ObjectLRU and
// counts hits, and hits that came after the LRU had already evicted something.
type countingCache struct {
	inner             cache.Object
	put               map[string]bool
	hits              int
	evicted           bool
	hitsAfterEviction int
}

func newCountingCache(kind int) *countingCache {
	var in cache.Object
	switch mod(kind, 4) {
	case 1:
		in = cache.NewObjectLRU(4 * cache.KiByte)
	case 2:
		in = cache.NewObjectLRU(512 * cache.Byte)
	case 3:
		in = cache.NewObjectLRU(0)
	default:
		in = cache.NewObjectLRUDefault()
	}
	return &countingCache{inner: in, put: map[string]bool{}}
}

func (c *countingCache) Put(o plumbing.EncodedObject) {
	c.inner.Put(o)
	c.put[o.Hash().String()] = true
}

func (c *countingCache) Get(k plumbing.Hash) (plumbing.EncodedObject, bool) {
	o, ok := c.inner.Get(k)
	if ok {
		c.hits++
		if c.evicted {
			c.hitsAfterEviction++
		}
	} else if c.put[k.String()] {
		c.evicted = true
	}
	return o, ok
}

func (c *countingCache) Clear() {
	c.inner.Clear()
	c.put = map[string]bool{}
}

// ---------------------------------------------------------------- the run

type failure struct {
	path  string // read path
	kind  string
	fault string // none | after-fault:x | during-fault:x
	msg   string
	pure  bool // a function of the request alone (no option, fault or history can matter)
}

func (f *failure) key() string { return f.path + "|" + f.kind }

type heldIter struct {
	it      storer.EncodedObjectIter
	typ     plumbing.ObjectType
	seen    map[string]int
	n       int
	tainted bool // completeness is not judged
	faulted bool // a fault fired during some call on this iterator
	path    string
}

type heldReader struct {
	rd   io.ReadCloser
	o    *truthObj
	got  int
	path string
	// a fault fired during some call on this reader: whatever error it
	// reports from now on may be that one
	faultSeen bool
}

type heldObj struct {
	eo   plumbing.EncodedObject
	o    *truthObj
	path string
}

type pfPack struct {
	p         *packfile.Packfile
	idx       idxfile.Index
	pk        int
	legacy    bool
	faultSeen bool // a fault fired during some call on this Packfile
}

type runner struct {
	p     *Plan
	opts  Opts
	repo  *repo
	disk  *simfs.Disk
	ln    *lane
	out   *core.Outcome // nil in attribution re-runs
	trace []string

	st    *filesystem.Storage
	cache *countingCache
	pool  *fdpool.Pool
	epoch int

	iters   []*heldIter
	readers []*heldReader
	objs    []*heldObj
	pfDG    *dotgit.DotGit
	pfCache cache.Object
	pf      map[int]*pfPack

	fail *failure
	// soft is a divergence that does not depend on the state of the storage
	// (a pure function of the request): the run goes on, and reports it only
	// if nothing else turns up
	soft []*failure

	// disk log scanning
	logPos      int
	firedTotal  int
	lastFault   string // class@file of the most recent injected fault
	faultSet    map[string]bool
	inClock     bool
	timerClosed map[string]bool
	opened      map[string]int
	sawPackDir  bool
	armed       bool
	lastPack    int // pack of the previous successful packed read, -1 none
	touched     []int
	touchedSet  map[int]bool
	curOp       string
	probes      map[string]int
}

func (r *runner) probe(name string) {
	r.probes[name]++
}

func (r *runner) logf(format string, a ...any) {
	if len(r.trace) < 600 {
		r.trace = append(r.trace, fmt.Sprintf(format, a...))
	}
}

func fileClass(p string) string {
	pre := ""
	if strings.HasPrefix(p, "/alt/") {
		pre = "alt-"
	}
	switch {
	case strings.HasSuffix(p, ".idx"):
		return pre + "idx"
	case strings.HasSuffix(p, ".pack"):
		return pre + "pack"
	case strings.HasSuffix(p, ".rev"):
		return pre + "rev"
	case strings.HasSuffix(p, "/info/alternates"):
		return pre + "alternates"
	case strings.HasSuffix(p, "/.git/config"):
		return pre + "config"
	case strings.HasSuffix(p, "/objects/pack"):
		return pre + "packdir"
	case strings.HasSuffix(p, "/objects"):
		return pre + "objdir"
	}
	i := strings.Index(p, "/objects/")
	if i >= 0 {
		rest := p[i+len("/objects/"):]
		if len(rest) == 2 {
			return pre + "loosedir"
		}
		if len(rest) > 3 && rest[2] == '/' {
			return pre + "loose"
		}
	}
	return pre + "other"
}

// scan reads the disk log written since the last call and returns how many
// injected faults fired in that stretch.
func (r *runner) scan() int {
	log := r.disk.Log
	fired := 0
	for ; r.logPos < len(log); r.logPos++ {
		op := &log[r.logPos]
		fc := fileClass(op.Path)
		if op.Injected {
			fired++
			r.lastFault = string(op.Class) + "@" + fc
			r.faultSet[r.lastFault] = true
			r.probe("fault:" + r.lastFault)
			if r.out != nil {
				if r.out.Faults == nil {
					r.out.Faults = map[string]int{}
				}
				r.out.Faults[string(op.Class)+":"+op.Err]++
			}
			r.logf("   ! injected %s on %s %s", op.Err, op.Class, op.Path)
			if r.sawPackDir && (strings.HasSuffix(fc, "idx") || strings.HasSuffix(fc, "rev")) {
				r.probe("fault-during-index-load")
			}
			continue
		}
		switch op.Class {
		case simfs.OpReadDir:
			if strings.HasSuffix(fc, "packdir") {
				r.sawPackDir = true
			}
		case simfs.OpClose:
			if r.inClock && op.Err == "" {
				r.timerClosed[op.Path] = true
				r.probe("descriptor-closed-by-grace-timer")
			}
		case simfs.OpOpen:
			if op.Err != "" {
				break
			}
			if r.timerClosed[op.Path] {
				delete(r.timerClosed, op.Path)
				r.probe("grace-close-then-reopen")
			}
			r.opened[op.Path]++
			if r.opened[op.Path] > 1 && strings.HasSuffix(fc, "idx") && !r.opts.InMemIdx && r.pool != nil && r.pool.Stats().Evictions > 0 {
				r.probe("lazy-idx-reopened-after-pool-eviction")
			}
		}
	}
	// everything up to here has been looked at: keep the log short
	r.disk.Log = r.disk.Log[:0]
	r.logPos = 0
	r.firedTotal += fired
	return fired
}

// call runs one go-git API call and reports whether a fault fired during it.
func (r *runner) call(f func()) bool {
	r.scan()
	r.sawPackDir = false
	f()
	return r.scan() > 0
}

// faultRank orders fired faults by how likely they are to matter later: a
// fault that hit a one-time initialisation (the config read at construction,
// the alternates list, a directory listing) comes before faults on files that
// are opened and read all the time.
func faultRank(f string) int {
	switch {
	case strings.HasSuffix(f, "@config"):
		return 0
	case strings.HasSuffix(f, "alternates"), f == "stat@alt-objdir":
		return 1
	case strings.HasPrefix(f, "readdir@"):
		return 2
	case strings.HasPrefix(f, "stat@"):
		return 3
	}
	return 4
}

// faultState names the fault a divergence is put down to: of those that have
// fired, the one of the lowest rank, the most recent one among equals.
func (r *runner) faultState(during bool) string {
	if r.firedTotal == 0 {
		return "none"
	}
	if during {
		return "during-fault:" + r.lastFault
	}
	best := r.lastFault
	var fs []string
	for f := range r.faultSet {
		fs = append(fs, f)
	}
	sort.Strings(fs)
	for _, f := range fs {
		if faultRank(f) < faultRank(best) {
			best = f
		}
	}
	return "after-fault:" + best
}

func (r *runner) failf(path, kind string, during bool, format string, a ...any) {
	if r.fail != nil {
		return
	}
	r.fail = &failure{path: path, kind: kind, fault: r.faultState(during), msg: fmt.Sprintf(format, a...)}
	r.logf("   VIOLATION %s|%s|%s: %s", path, kind, r.fail.fault, r.fail.msg)
}

func (r *runner) softf(path, kind string, during bool, format string, a ...any) {
	if r.fail != nil {
		return
	}
	f := &failure{path: path, kind: kind, fault: r.faultState(during), msg: fmt.Sprintf(format, a...), pure: true}
	for _, x := range r.soft {
		if x.key() == f.key() {
			return
		}
	}
	r.soft = append(r.soft, f)
	r.logf("   VIOLATION (run continues) %s|%s|%s: %s", path, kind, f.fault, f.msg)
}

// judgeErr classifies a non-nil error of a call that should have succeeded.
// It returns true when the error is excused (a fault fired during the call).
func (r *runner) judgeErr(path string, faulted bool, err error, what string) bool {
	if faulted {
		r.probe("call-failed-under-fault")
		if errors.Is(err, plumbing.ErrObjectNotFound) {
			// excused like any error, but worth counting: "absent" is an answer
			r.probe("not-found-reported-under-fault-for-a-stored-object")
		}
		return true
	}
	kind := "spurious-error"
	if errors.Is(err, plumbing.ErrObjectNotFound) {
		kind = "spurious-notfound"
	}
	if r.firedTotal > 0 {
		r.failf(path, "no-recovery-after-fault", false, "%s = %v (%s); no fault fired during this call, the last one fired earlier (%s)", what, err, kind, r.lastFault)
	} else {
		r.failf(path, kind, false, "%s = %v", what, err)
	}
	return false
}

func (r *runner) absentID(k int) plumbing.Hash {
	if k%2 == 0 {
		// a near miss: an existing id with its last byte changed
		o := r.repo.objs[mod(k/2, len(r.repo.objs))]
		b := append([]byte(nil), o.id.Bytes()...)
		for d := 1; d < 256; d++ {
			b[len(b)-1] = o.id.Bytes()[len(b)-1] ^ byte(d)
			h, _ := plumbing.FromBytes(b)
			if _, ok := r.repo.byHex[h.String()]; !ok {
				return h
			}
		}
	}
	hx := objectID(r.repo.sha256, "blob", []byte(fmt.Sprintf("stored nowhere %d", k)))
	h, _ := plumbing.FromHex(hx)
	return h
}

const (
	stOK = iota
	stExcused
	stFailed
)

// checkHeader compares what an object says about itself with git's inventory.
func (r *runner) checkHeader(path string, o *truthObj, eo plumbing.EncodedObject, during bool) bool {
	if eo == nil {
		r.failf(path, "spurious-error", during, "nil object and nil error for %s", o.hex)
		return false
	}
	if eo.Type() != o.typ {
		r.failf(path, "wrong-type", during, "%s: type %s, git says %s", o.hex, eo.Type(), o.typ)
		return false
	}
	if eo.Size() != int64(len(o.data)) {
		r.failf(path, "wrong-size", during, "%s: size %d, git says %d", o.hex, eo.Size(), len(o.data))
		return false
	}
	if eo.Hash().String() != o.hex {
		r.failf(path, "wrong-id", during, "object asked for as %s calls itself %s", o.hex, eo.Hash())
		return false
	}
	return true
}

// readContent reads eo's bytes in the given manner and compares them.
// mode: 0 whole, 1 in chunks, 2 partially then closed then whole, 3 whole through a held-open reader (returns it)
func (r *runner) readContent(path string, o *truthObj, eo plumbing.EncodedObject, mode, c int) int {
	var rd io.ReadCloser
	var err error
	attempt := func(partial int) (int, []byte) {
		faulted := r.call(func() { rd, err = eo.Reader() })
		if err != nil {
			if r.judgeErr(path+":reader", faulted, err, fmt.Sprintf("Reader() of %s %s", o.typ, o.hex)) {
				return stExcused, nil
			}
			return stFailed, nil
		}
		if rd == nil {
			r.failf(path+":reader", "spurious-error", faulted, "Reader() of %s returned nil, nil", o.hex)
			return stFailed, nil
		}
		var got []byte
		var rerr error
		faulted2 := r.call(func() {
			switch {
			case partial >= 0:
				got = make([]byte, partial)
				var n int
				n, rerr = io.ReadFull(rd, got)
				got = got[:n]
				if rerr == io.EOF || rerr == io.ErrUnexpectedEOF {
					rerr = nil
				}
			case mode == 1:
				buf := make([]byte, 1+c%97)
				for {
					n, e := rd.Read(buf)
					got = append(got, buf[:n]...)
					if e == io.EOF {
						break
					}
					if e != nil {
						rerr = e
						break
					}
					if len(got) > len(o.data)+1024 {
						break
					}
				}
			default:
				got, rerr = io.ReadAll(rd)
			}
		})
		var cerr error
		faulted3 := r.call(func() { cerr = rd.Close() })
		_ = cerr
		_ = faulted3
		if rerr != nil {
			// (a fault that fired while the reader was being opened may have hit its
			// read-ahead: buffered readers report such an error on a later Read)
			if r.judgeErr(path+":read", faulted || faulted2, rerr, fmt.Sprintf("reading %s %s (%d bytes)", o.typ, o.hex, len(o.data))) {
				return stExcused, nil
			}
			return stFailed, nil
		}
		return stOK, got
	}
	if mode == 2 && len(o.data) > 0 {
		k := c % (len(o.data) + 1)
		s, got := attempt(k)
		if s != stOK {
			return s
		}
		if !bytes.Equal(got, o.data[:min(k, len(o.data))]) {
			r.failf(path+":read", "wrong-bytes", false, "first %d bytes of %s %s differ from git's", k, o.typ, o.hex)
			return stFailed
		}
		r.probe("reader-partially-consumed-then-closed")
	}
	s, got := attempt(-1)
	if s != stOK {
		return s
	}
	if !bytes.Equal(got, o.data) {
		r.failf(path+":read", "wrong-bytes", false, "%s %s: %d bytes read, git has %d; first difference at %d", o.typ, o.hex, len(got), len(o.data), firstDiff(got, o.data))
		return stFailed
	}
	return stOK
}

func firstDiff(a, b []byte) int {
	for i := 0; i < len(a) && i < len(b); i++ {
		if a[i] != b[i] {
			return i
		}
	}
	return min(len(a), len(b))
}

func (r *runner) touch(i int) {
	if !r.touchedSet[i] && len(r.touched) < 24 {
		r.touchedSet[i] = true
		r.touched = append(r.touched, i)
	}
}

// noteGoodRead updates the reach probes after a successful read by id.
func (r *runner) noteGoodRead(o *truthObj, eo plumbing.EncodedObject, hitsBefore, hitsAEBefore int) {
	switch {
	case o.altOnly:
		r.probe("read-through-alternate")
	case len(o.packs) > 0:
		if o.depth >= 3 {
			r.probe("delta-chain>=3-resolved")
		}
		if len(o.packs) == 1 && !o.loose {
			if r.lastPack >= 0 && r.lastPack != o.packs[0] {
				r.probe("mru-hint-miss")
			} else if r.lastPack == o.packs[0] {
				r.probe("mru-hint-hit")
			}
			r.lastPack = o.packs[0]
		}
		if o.loose || len(o.packs) > 1 {
			r.probe("read-of-duplicated-object")
		}
	default:
		r.probe("read-loose")
	}
	if _, ok := eo.(*dotgit.EncodedObject); ok {
		r.probe("large-object-streaming-reader")
	}
	if _, ok := eo.(*packfile.FSObject); ok {
		r.probe("fsobject")
	}
	if r.cache.hits > hitsBefore {
		r.probe("served-with-cache-hit")
	}
	if r.cache.hitsAfterEviction > hitsAEBefore {
		r.probe("cache-hit-after-eviction-pressure")
	}
}

func (r *runner) opGet(op Op, want plumbing.ObjectType, path string) int {
	i := mod(op.A, len(r.repo.objs))
	o := r.repo.objs[i]
	r.touch(i)
	path += ":" + loc(o)
	var eo plumbing.EncodedObject
	var err error
	hb, hae := r.cache.hits, r.cache.hitsAfterEviction
	faulted := r.call(func() { eo, err = r.st.EncodedObject(want, o.id) })
	if err != nil {
		if r.judgeErr(path, faulted, err, fmt.Sprintf("EncodedObject(%s, %s) [%s]", want, o.hex, where(o))) {
			return stExcused
		}
		return stFailed
	}
	if !r.checkHeader(path, o, eo, faulted) {
		return stFailed
	}
	mode := mod(op.B, 5)
	switch mode {
	case 3:
		r.hold(eo, o, path)
	case 4:
		if s := r.holdReader(eo, o, path, op.C); s != stOK {
			return s
		}
		r.noteGoodRead(o, eo, hb, hae)
		return stOK
	}
	if s := r.readContent(path, o, eo, mode, op.C); s != stOK {
		return s
	}
	r.noteGoodRead(o, eo, hb, hae)
	return stOK
}

// loc is the storage class of an object, part of the read path in signatures.
func loc(o *truthObj) string {
	switch {
	case o.altOnly:
		return "alternate"
	case o.loose && len(o.packs) > 0:
		return "loose+packed"
	case o.loose:
		return "loose"
	case len(o.packs) > 1:
		return "two-packs"
	case o.depth > 0:
		return "packed-delta"
	}
	return "packed"
}

func where(o *truthObj) string {
	var s []string
	if o.loose {
		s = append(s, "loose")
	}
	for _, p := range o.packs {
		s = append(s, fmt.Sprintf("pack%d@%d", p, o.offs[p]))
	}
	if o.altOnly {
		s = append(s, "alternate")
	}
	if o.depth > 0 {
		s = append(s, fmt.Sprintf("depth%d", o.depth))
	}
	return strings.Join(s, ",")
}

func (r *runner) hold(eo plumbing.EncodedObject, o *truthObj, path string) {
	if len(r.objs) >= 8 {
		r.objs = r.objs[1:]
	}
	r.objs = append(r.objs, &heldObj{eo: eo, o: o, path: path})
}

func (r *runner) holdReader(eo plumbing.EncodedObject, o *truthObj, path string, c int) int {
	var rd io.ReadCloser
	var err error
	faulted := r.call(func() { rd, err = eo.Reader() })
	if err != nil {
		if r.judgeErr(path+":reader", faulted, err, fmt.Sprintf("Reader() of %s %s", o.typ, o.hex)) {
			return stExcused
		}
		return stFailed
	}
	if len(r.readers) >= 3 {
		old := r.readers[0]
		r.readers = r.readers[1:]
		r.call(func() { old.rd.Close() })
	}
	hr := &heldReader{rd: rd, o: o, path: path, faultSeen: faulted}
	r.readers = append(r.readers, hr)
	r.probe("reader-left-open")
	return r.advanceReader(hr, c%600)
}

// advanceReader reads up to n more bytes from a held reader.
func (r *runner) advanceReader(hr *heldReader, n int) int {
	buf := make([]byte, n+1)
	var k int
	var err error
	faulted := r.call(func() { k, err = io.ReadFull(hr.rd, buf) })
	if faulted {
		hr.faultSeen = true
	}
	if err != nil && err != io.EOF && err != io.ErrUnexpectedEOF {
		r.dropReader(hr)
		if r.judgeErr(hr.path+":read", hr.faultSeen, err, fmt.Sprintf("continuing to read %s %s at %d", hr.o.typ, hr.o.hex, hr.got)) {
			return stExcused
		}
		return stFailed
	}
	end := hr.got + k
	if end > len(hr.o.data) || !bytes.Equal(buf[:k], hr.o.data[hr.got:end]) {
		r.failf(hr.path+":read", "wrong-bytes", faulted, "held reader of %s %s: bytes %d..%d differ from git's (object has %d)", hr.o.typ, hr.o.hex, hr.got, end, len(hr.o.data))
		return stFailed
	}
	hr.got = end
	if err != nil { // EOF
		if hr.got != len(hr.o.data) {
			r.failf(hr.path+":read", "wrong-bytes", faulted, "held reader of %s %s ended after %d of %d bytes", hr.o.typ, hr.o.hex, hr.got, len(hr.o.data))
			return stFailed
		}
		r.probe("held-reader-read-to-the-end")
		r.dropReader(hr)
	}
	return stOK
}

func (r *runner) dropReader(hr *heldReader) {
	for i, x := range r.readers {
		if x == hr {
			r.readers = append(r.readers[:i], r.readers[i+1:]...)
			break
		}
	}
	r.call(func() { hr.rd.Close() })
}

func (r *runner) opGetWrong(op Op) int {
	o := r.repo.objs[mod(op.A, len(r.repo.objs))]
	types := []plumbing.ObjectType{plumbing.CommitObject, plumbing.TreeObject, plumbing.BlobObject, plumbing.TagObject}
	wrong := types[mod(op.B, 4)]
	if wrong == o.typ {
		wrong = types[mod(op.B+1, 4)]
	}
	var eo plumbing.EncodedObject
	var err error
	faulted := r.call(func() { eo, err = r.st.EncodedObject(wrong, o.id) })
	switch {
	case err == nil:
		t := plumbing.InvalidObject
		if eo != nil {
			t = eo.Type()
		}
		r.failf("get-wrong-type", "phantom-found", faulted, "EncodedObject(%s, %s) succeeded (object of type %s); git says %s is a %s", wrong, o.hex, t, o.hex, o.typ)
		return stFailed
	case errors.Is(err, plumbing.ErrObjectNotFound):
		return stOK
	case faulted:
		r.probe("call-failed-under-fault")
		return stExcused
	}
	if r.firedTotal > 0 {
		r.failf("get-wrong-type", "no-recovery-after-fault", false, "EncodedObject(%s, %s) = %v; want ErrObjectNotFound; last fault earlier (%s)", wrong, o.hex, err, r.lastFault)
	} else {
		r.failf("get-wrong-type", "spurious-error", false, "EncodedObject(%s, %s) = %v; want ErrObjectNotFound", wrong, o.hex, err)
	}
	return stFailed
}

func (r *runner) opHas(op Op) int {
	i := mod(op.A, len(r.repo.objs))
	o := r.repo.objs[i]
	r.touch(i)
	var err error
	faulted := r.call(func() { err = r.st.HasEncodedObject(o.id) })
	if err != nil {
		if r.judgeErr("has:"+loc(o), faulted, err, fmt.Sprintf("HasEncodedObject(%s) [%s]", o.hex, where(o))) {
			return stExcused
		}
		return stFailed
	}
	return stOK
}

func (r *runner) opSize(op Op) int {
	i := mod(op.A, len(r.repo.objs))
	o := r.repo.objs[i]
	r.touch(i)
	var sz int64
	var err error
	faulted := r.call(func() { sz, err = r.st.EncodedObjectSize(o.id) })
	if err != nil {
		if r.judgeErr("size:"+loc(o), faulted, err, fmt.Sprintf("EncodedObjectSize(%s) [%s]", o.hex, where(o))) {
			return stExcused
		}
		return stFailed
	}
	if sz != int64(len(o.data)) {
		r.failf("size:"+loc(o), "wrong-size", faulted, "EncodedObjectSize(%s) = %d, git says %d [%s]", o.hex, sz, len(o.data), where(o))
		return stFailed
	}
	return stOK
}

func (r *runner) opAbsent(op Op) int {
	id := r.absentID(op.A)
	var err error
	var what string
	faulted := r.call(func() {
		switch mod(op.B, 4) {
		case 0:
			what = "HasEncodedObject"
			err = r.st.HasEncodedObject(id)
		case 1:
			what = "EncodedObjectSize"
			_, err = r.st.EncodedObjectSize(id)
		case 2:
			what = "DeltaObject"
			_, err = r.st.DeltaObject(plumbing.AnyObject, id)
		default:
			what = "EncodedObject"
			_, err = r.st.EncodedObject(plumbing.AnyObject, id)
		}
	})
	switch {
	case err == nil:
		r.failf("absent", "phantom-found", faulted, "%s(%s) succeeded; git has no such object", what, id)
		return stFailed
	case errors.Is(err, plumbing.ErrObjectNotFound):
		return stOK
	case faulted:
		r.probe("call-failed-under-fault")
		return stExcused
	}
	if r.firedTotal > 0 {
		r.failf("absent", "no-recovery-after-fault", false, "%s(%s) = %v; want ErrObjectNotFound; last fault earlier (%s)", what, id, err, r.lastFault)
	} else {
		r.failf("absent", "spurious-error", false, "%s(%s) = %v; want ErrObjectNotFound", what, id, err)
	}
	return stFailed
}

func (r *runner) opPrefix(op Op) int {
	var full []byte
	if mod(op.C, 5) == 0 {
		full = r.absentID(op.A).Bytes()
	} else {
		full = r.repo.objs[mod(op.A, len(r.repo.objs))].id.Bytes()
	}
	n := []int{1, 2, 3, 4, len(full), 20, 21, len(full) - 1}[mod(op.B, 8)]
	prefix := append([]byte(nil), full[:n]...)
	var hs []plumbing.Hash
	var err error
	faulted := r.call(func() { hs, err = r.st.HashesWithPrefix(prefix) })
	if err != nil {
		if r.judgeErr("prefix", faulted, err, fmt.Sprintf("HashesWithPrefix(%x)", prefix)) {
			return stExcused
		}
		return stFailed
	}
	got := map[string]int{}
	for _, h := range hs {
		got[h.String()]++
		if _, ok := r.repo.byHex[h.String()]; !ok {
			r.failf("prefix", "phantom-id", faulted, "HashesWithPrefix(%x) lists %s, which git does not have", prefix, h)
			return stFailed
		}
		if !bytes.HasPrefix(h.Bytes(), prefix) {
			r.failf("prefix", "phantom-id", faulted, "HashesWithPrefix(%x) lists %s", prefix, h)
			return stFailed
		}
		if got[h.String()] == 2 {
			r.probe("listing-repeats-an-id")
		}
	}
	for _, o := range r.repo.objs {
		if bytes.HasPrefix(o.id.Bytes(), prefix) && got[o.hex] == 0 {
			if len(prefix) > 20 && !faulted {
				// a pure function of the request: go on, report it if nothing else turns up
				r.softf("prefix:"+loc(o)+":longer-than-20-bytes", "missing-id", false, "HashesWithPrefix(%x) does not list %s [%s]", prefix, o.hex, where(o))
				continue
			}
			r.failf("prefix:"+loc(o), "missing-id", faulted, "HashesWithPrefix(%x) does not list %s [%s]", prefix, o.hex, where(o))
			return stFailed
		}
	}
	if len(hs) > 1 {
		r.probe("prefix-search-with-several-matches")
	}
	return stOK
}

var iterTypes = []plumbing.ObjectType{plumbing.AnyObject, plumbing.CommitObject, plumbing.TreeObject, plumbing.BlobObject, plumbing.TagObject}

// stepIter advances a held iterator by up to k objects. done reports that the
// iterator ended (and was dropped).
func (r *runner) stepIter(hi *heldIter, k int, verifyEvery int) (st int, done bool) {
	for j := 0; j < k; j++ {
		var eo plumbing.EncodedObject
		var err error
		faulted := r.call(func() { eo, err = hi.it.Next() })
		if faulted {
			// an error the iterator reports later may be this fault's; but as long
			// as every Next succeeds the iteration is held to be complete at its
			// end: a fault swallowed on the way is not an excuse
			hi.faulted = true
		}
		if err == io.EOF {
			s := r.endIter(hi)
			return s, true
		}
		if err != nil {
			r.dropIter(hi)
			if r.judgeErr(hi.path, hi.faulted, err, fmt.Sprintf("Next() of IterEncodedObjects(%s) after %d objects", hi.typ, hi.n)) {
				return stExcused, true
			}
			return stFailed, true
		}
		if eo == nil {
			r.failf(hi.path, "spurious-error", faulted, "Next() returned nil, nil")
			return stFailed, true
		}
		hx := eo.Hash().String()
		oi, ok := r.repo.byHex[hx]
		if !ok {
			r.failf(hi.path, "phantom-id", faulted, "IterEncodedObjects(%s) yields %s (%s, %d bytes), which git does not have", hi.typ, hx, eo.Type(), eo.Size())
			return stFailed, true
		}
		o := r.repo.objs[oi]
		if hi.typ != plumbing.AnyObject && eo.Type() != hi.typ {
			r.failf(hi.path, "wrong-type", faulted, "IterEncodedObjects(%s) yields %s of type %s", hi.typ, hx, eo.Type())
			return stFailed, true
		}
		if !r.checkHeader(hi.path, o, eo, faulted) {
			return stFailed, true
		}
		hi.seen[hx]++
		if hi.seen[hx] == 2 {
			r.probe("iteration-repeats-an-object")
		}
		hi.n++
		if verifyEvery <= 1 || hi.n%verifyEvery == 0 {
			if s := r.readContent(hi.path, o, eo, 0, 0); s != stOK {
				if s == stExcused {
					// the object's reader failed under a fault; the iteration goes on
					continue
				}
				return s, true
			}
			r.probe("object-from-iteration-read")
		} else if hi.n%7 == 3 {
			r.hold(eo, o, hi.path)
		}
	}
	return stOK, false
}

func (r *runner) endIter(hi *heldIter) int {
	r.dropIter(hi)
	if hi.tainted {
		return stOK
	}
	for _, i := range r.repo.local {
		o := r.repo.objs[i]
		if (hi.typ == plumbing.AnyObject || o.typ == hi.typ) && hi.seen[o.hex] == 0 {
			r.failf(hi.path, "missing-object", hi.faulted, "IterEncodedObjects(%s) ended after %d objects without %s %s [%s]", hi.typ, hi.n, o.typ, o.hex, where(o))
			return stFailed
		}
	}
	r.probe("iteration-complete")
	if r.repo.hasAlt {
		for _, o := range r.repo.objs {
			if o.altOnly && (hi.typ == plumbing.AnyObject || o.typ == hi.typ) && hi.seen[o.hex] == 0 {
				r.probe("iteration-omits-objects-of-the-alternate")
				break
			}
		}
	}
	return stOK
}

func (r *runner) dropIter(hi *heldIter) {
	for i, x := range r.iters {
		if x == hi {
			r.iters = append(r.iters[:i], r.iters[i+1:]...)
			break
		}
	}
	r.call(func() { hi.it.Close() })
}

func (r *runner) opIter(op Op) int {
	typ := iterTypes[mod(op.A, len(iterTypes))]
	var it storer.EncodedObjectIter
	var err error
	faulted := r.call(func() { it, err = r.st.IterEncodedObjects(typ) })
	if err != nil {
		if r.judgeErr("iter", faulted, err, fmt.Sprintf("IterEncodedObjects(%s)", typ)) {
			return stExcused
		}
		return stFailed
	}
	hi := &heldIter{it: it, typ: typ, seen: map[string]int{}, path: "iter", faulted: faulted}
	r.iters = append(r.iters, hi)
	verifyEvery := 1 + mod(op.C, 4)
	switch mod(op.B, 4) {
	case 0: // to the end
		for {
			s, done := r.stepIter(hi, 64, verifyEvery)
			if s != stOK || done {
				return s
			}
		}
	case 1: // partially consumed, then closed
		s, done := r.stepIter(hi, 1+mod(op.C, 12), verifyEvery)
		if s != stOK || done {
			return s
		}
		r.dropIter(hi)
		r.probe("iterator-partially-consumed-then-closed")
		return stOK
	case 2: // ForEach
		r.dropIterKeepOpen(hi)
		seen := map[string]int{}
		n := 0
		var bad *failure
		faulted := r.call(func() {
			err = it.ForEach(func(eo plumbing.EncodedObject) error {
				hx := eo.Hash().String()
				oi, ok := r.repo.byHex[hx]
				if !ok {
					bad = &failure{kind: "phantom-id", msg: fmt.Sprintf("ForEach over %s objects yields %s, which git does not have", typ, hx)}
					return storer.ErrStop
				}
				o := r.repo.objs[oi]
				if eo.Type() != o.typ || eo.Size() != int64(len(o.data)) || (typ != plumbing.AnyObject && eo.Type() != typ) {
					bad = &failure{kind: "wrong-type", msg: fmt.Sprintf("ForEach over %s objects yields %s as %s/%d; git says %s/%d", typ, hx, eo.Type(), eo.Size(), o.typ, len(o.data))}
					return storer.ErrStop
				}
				seen[hx]++
				n++
				return nil
			})
		})
		r.call(func() { it.Close() })
		if bad != nil {
			r.failf("iter-foreach", bad.kind, faulted, "%s", bad.msg)
			return stFailed
		}
		if err != nil {
			if r.judgeErr("iter-foreach", faulted, err, fmt.Sprintf("ForEach over %s objects after %d", typ, n)) {
				return stExcused
			}
			return stFailed
		}
		for _, i := range r.repo.local {
			o := r.repo.objs[i]
			if (typ == plumbing.AnyObject || o.typ == typ) && seen[o.hex] == 0 {
				r.failf("iter-foreach", "missing-object", faulted, "ForEach over %s objects ended after %d without %s %s [%s]", typ, n, o.typ, o.hex, where(o))
				return stFailed
			}
		}
		r.probe("iteration-complete")
		return stOK
	default: // left open
		s, done := r.stepIter(hi, 1+mod(op.C, 6), verifyEvery)
		if s != stOK || done {
			return s
		}
		r.probe("iterator-left-open")
		if len(r.iters) > 3 {
			r.dropIter(r.iters[0])
		}
		return stOK
	}
}

func (r *runner) dropIterKeepOpen(hi *heldIter) {
	for i, x := range r.iters {
		if x == hi {
			r.iters = append(r.iters[:i], r.iters[i+1:]...)
			return
		}
	}
}

// applyDelta is an independent implementation of git's delta format.
func applyDelta(base, delta []byte) ([]byte, error) {
	readSize := func() (int, error) {
		n, shift := 0, 0
		for {
			if len(delta) == 0 {
				return 0, errors.New("short delta header")
			}
			c := delta[0]
			delta = delta[1:]
			n |= int(c&0x7f) << shift
			shift += 7
			if c&0x80 == 0 {
				return n, nil
			}
		}
	}
	srcSize, err := readSize()
	if err != nil {
		return nil, err
	}
	if srcSize != len(base) {
		return nil, fmt.Errorf("delta is for a base of %d bytes, base has %d", srcSize, len(base))
	}
	dstSize, err := readSize()
	if err != nil {
		return nil, err
	}
	out := make([]byte, 0, dstSize)
	for len(delta) > 0 {
		c := delta[0]
		delta = delta[1:]
		if c&0x80 != 0 {
			var off, sz int
			for i := 0; i < 4; i++ {
				if c&(1<<i) != 0 {
					if len(delta) == 0 {
						return nil, errors.New("short copy instruction")
					}
					off |= int(delta[0]) << (8 * i)
					delta = delta[1:]
				}
			}
			for i := 0; i < 3; i++ {
				if c&(0x10<<i) != 0 {
					if len(delta) == 0 {
						return nil, errors.New("short copy instruction")
					}
					sz |= int(delta[0]) << (8 * i)
					delta = delta[1:]
				}
			}
			if sz == 0 {
				sz = 0x10000
			}
			if off+sz > len(base) {
				return nil, errors.New("copy outside the base")
			}
			out = append(out, base[off:off+sz]...)
		} else if c != 0 {
			if int(c) > len(delta) {
				return nil, errors.New("short insert instruction")
			}
			out = append(out, delta[:c]...)
			delta = delta[c:]
		} else {
			return nil, errors.New("reserved instruction 0")
		}
	}
	if len(out) != dstSize {
		return nil, fmt.Errorf("delta produces %d bytes, announces %d", len(out), dstSize)
	}
	return out, nil
}

func (r *runner) opDelta(op Op) int {
	i := mod(op.A, len(r.repo.objs))
	o := r.repo.objs[i]
	var eo plumbing.EncodedObject
	var err error
	faulted := r.call(func() { eo, err = r.st.DeltaObject(plumbing.AnyObject, o.id) })
	if err != nil {
		if r.judgeErr("delta-object:"+loc(o), faulted, err, fmt.Sprintf("DeltaObject(any, %s) [%s]", o.hex, where(o))) {
			return stExcused
		}
		return stFailed
	}
	do, isDelta := eo.(plumbing.DeltaObject)
	if !isDelta {
		if !r.checkHeader("delta-object", o, eo, faulted) {
			return stFailed
		}
		return r.readContent("delta-object", o, eo, 0, 0)
	}
	r.probe("delta-object-is-a-delta")
	if do.ActualHash().String() != o.hex {
		r.failf("delta-object", "wrong-id", faulted, "DeltaObject(%s).ActualHash() = %s", o.hex, do.ActualHash())
		return stFailed
	}
	bi, ok := r.repo.byHex[do.BaseHash().String()]
	if !ok {
		r.failf("delta-object", "phantom-id", faulted, "DeltaObject(%s).BaseHash() = %s, which git does not have", o.hex, do.BaseHash())
		return stFailed
	}
	base := r.repo.objs[bi]
	var rd io.ReadCloser
	f2 := r.call(func() { rd, err = do.Reader() })
	if err != nil {
		if r.judgeErr("delta-object:reader", f2, err, "Reader() of the delta") {
			return stExcused
		}
		return stFailed
	}
	var delta []byte
	f3 := r.call(func() { delta, err = io.ReadAll(rd); rd.Close() })
	if err != nil {
		if r.judgeErr("delta-object:read", f3, err, "reading the delta") {
			return stExcused
		}
		return stFailed
	}
	if int64(len(delta)) != do.Size() {
		r.failf("delta-object", "wrong-size", faulted, "delta of %s: Size() %d but %d bytes read", o.hex, do.Size(), len(delta))
		return stFailed
	}
	res, aerr := applyDelta(base.data, delta)
	if aerr != nil || !bytes.Equal(res, o.data) {
		r.failf("delta-object", "wrong-bytes", faulted, "delta of %s against base %s does not produce git's bytes (%v)", o.hex, base.hex, aerr)
		return stFailed
	}
	if do.ActualSize() != int64(len(o.data)) {
		r.softf("delta-object:actual-size", "wrong-size", faulted, "DeltaObject(%s).ActualSize() = %d; the object has %d bytes (the delta has %d)", o.hex, do.ActualSize(), len(o.data), len(delta))
	}
	return stOK
}

func (r *runner) opReread(op Op) int {
	if len(r.objs) == 0 {
		return stOK
	}
	ho := r.objs[mod(op.A, len(r.objs))]
	if !r.checkHeader(ho.path+":held", ho.o, ho.eo, false) {
		return stFailed
	}
	s := r.readContent(ho.path+":held", ho.o, ho.eo, mod(op.B, 3), op.C)
	if s == stOK {
		r.probe("held-object-read-again")
	}
	return s
}

// ---------------------------------------------------------------- by offset (packfile level)

func (r *runner) hashSize() int {
	if r.repo.sha256 {
		return crypto.SHA256.Size()
	}
	return crypto.SHA1.Size()
}

func (r *runner) memIdx(dg *dotgit.DotGit, h plumbing.Hash) (idxfile.Index, error) {
	f, err := dg.ObjectPackIdx(h)
	if err != nil {
		return nil, err
	}
	defer f.Close()
	hs := githash.New(crypto.SHA1)
	if r.repo.sha256 {
		hs = githash.New(crypto.SHA256)
	}
	idx := idxfile.NewMemoryIndex(r.hashSize())
	if err := idxfile.NewDecoder(f, hs).Decode(idx); err != nil {
		return nil, err
	}
	return idx, nil
}

// pfOpen returns the hand-built Packfile for (pack, mode), building it on
// first use. Building does disk I/O and is part of the calling operation.
func (r *runner) pfOpen(pk int, legacy, pooledFile, sharedCache bool) (*pfPack, error) {
	key := pk * 2
	if legacy {
		key++
	}
	if pp := r.pf[key]; pp != nil {
		return pp, nil
	}
	if r.pfDG == nil {
		of := formatcfg.SHA1
		if r.repo.sha256 {
			of = formatcfg.SHA256
		}
		r.pfDG = dotgit.NewWithOptions(r.disk.FS("/r/.git", "pf"), dotgit.Options{ObjectFormat: of, ReadReverseIndex: true, WriteReverseIndex: true, Pool: r.pool})
		r.pfCache = cache.NewObjectLRUDefault()
	}
	dg := r.pfDG
	h, _ := plumbing.FromHex(r.repo.packs[pk].hash)
	var c cache.Object = r.pfCache
	if sharedCache {
		c = r.cache
	}
	pp := &pfPack{pk: pk, legacy: legacy}
	var err error
	if legacy || r.opts.InMemIdx {
		pp.idx, err = r.memIdx(dg, h)
	} else {
		pp.idx, err = idxfile.NewLazyIndexWithPool(
			func() (idxfile.ReadAtCloser, error) { return dg.ObjectPackIdx(h) },
			func() (idxfile.ReadAtCloser, error) { return dg.OpenPackRev(h) }, h, r.pool)
	}
	if err != nil {
		return nil, err
	}
	if legacy {
		var f billy.File
		if pooledFile {
			f, err = dg.OpenPackForReading(h)
		} else {
			f, err = dg.ObjectPack(h)
		}
		if err != nil {
			pp.idx.Close()
			return nil, err
		}
		pp.p = packfile.NewPackfile(f, packfile.WithIdx(pp.idx), packfile.WithFs(dg.Fs()), packfile.WithCache(c), packfile.WithObjectIDSize(r.hashSize()))
		r.probe("packfile-legacy-file-mode")
	} else {
		pp.p = packfile.NewPackfile(nil,
			packfile.WithPackHandle(func() (packfile.PackHandle, error) { return dg.PackHandle(h) }),
			packfile.WithIdx(pp.idx), packfile.WithFs(dg.Fs()), packfile.WithCache(c), packfile.WithObjectIDSize(r.hashSize()))
	}
	r.pf[key] = pp
	return pp, nil
}

func (r *runner) pfDrop(pp *pfPack) {
	for k, v := range r.pf {
		if v == pp {
			delete(r.pf, k)
		}
	}
	r.call(func() {
		pp.p.Close()
		pp.idx.Close()
	})
}

func (r *runner) opPF(op Op) int {
	if len(r.repo.packs) == 0 {
		return stOK
	}
	pk := mod(op.B, len(r.repo.packs))
	ents := r.repo.packs[pk].ents
	e := ents[mod(op.A, len(ents))]
	o := r.repo.objs[r.repo.byHex[e.hex]]
	legacy := mod(op.C, 3) == 0
	path := op.Kind
	if legacy {
		path += ":legacy"
	}
	if op.Kind == "pf-close" {
		key := pk * 2
		if legacy {
			key++
		}
		if pp := r.pf[key]; pp != nil {
			r.pfDrop(pp)
			r.probe("packfile-closed-with-objects-outstanding")
		}
		return stOK
	}
	var pp *pfPack
	var err error
	var eo plumbing.EncodedObject
	var sz int64
	var gotHash plumbing.Hash
	var gotOff int64
	var it storer.EncodedObjectIter
	faulted := r.call(func() {
		pp, err = r.pfOpen(pk, legacy, mod(op.C/3, 2) == 0, mod(op.C/6, 3) == 0)
		if err != nil {
			return
		}
		switch op.Kind {
		case "pf-off":
			eo, err = pp.p.GetByOffset(e.off)
		case "pf-get":
			eo, err = pp.p.Get(o.id)
		case "pf-size":
			sz, err = pp.p.GetSizeByOffset(e.off)
		case "pf-hash":
			gotHash, err = pp.p.FindHash(e.off)
			if err == nil {
				gotOff, err = pp.p.FindOffset(o.id)
			}
		case "pf-iter":
			it, err = pp.p.GetByType(iterTypes[mod(op.A, len(iterTypes))])
		}
	})
	if faulted && pp != nil {
		pp.faultSeen = true
	}
	if err != nil {
		seen := faulted
		if pp != nil {
			seen = seen || pp.faultSeen
			r.pfDrop(pp) // its scanner / once-only init may have latched the error
		}
		if r.judgeErr(path, seen, err, fmt.Sprintf("%s for %s at pack%d@%d", op.Kind, o.hex, pk, e.off)) {
			return stExcused
		}
		return stFailed
	}
	switch op.Kind {
	case "pf-off", "pf-get":
		if !r.checkHeader(path, o, eo, faulted) {
			return stFailed
		}
		if mod(op.C, 5) == 1 {
			r.hold(eo, o, path)
		}
		s := r.readContent(path, o, eo, mod(op.C, 3), op.C)
		if s == stOK {
			r.probe("read-by-offset")
			if e.depth >= 3 {
				r.probe("delta-chain>=3-resolved")
			}
		}
		return s
	case "pf-size":
		if sz != int64(len(o.data)) {
			r.failf(path, "wrong-size", faulted, "GetSizeByOffset(pack%d@%d) = %d; git says %s has %d bytes", pk, e.off, sz, o.hex, len(o.data))
			return stFailed
		}
	case "pf-hash":
		if gotHash.String() != o.hex {
			r.failf(path, "wrong-id", faulted, "FindHash(pack%d@%d) = %s; git has %s there", pk, e.off, gotHash, o.hex)
			return stFailed
		}
		if gotOff != e.off {
			r.failf(path, "wrong-id", faulted, "FindOffset(%s) = %d in pack%d; git has it at %d", o.hex, gotOff, pk, e.off)
			return stFailed
		}
	case "pf-iter":
		typ := iterTypes[mod(op.A, len(iterTypes))]
		inPack := map[string]bool{}
		for _, x := range ents {
			inPack[x.hex] = true
		}
		hi := &heldIter{it: it, typ: typ, seen: map[string]int{}, path: path, tainted: true}
		r.iters = append(r.iters, hi)
		s, done := r.stepIter(hi, 1+mod(op.C, 40), 2)
		if !done {
			r.dropIter(hi)
		}
		if s == stExcused {
			r.pfDrop(pp)
		}
		if s != stOK {
			return s
		}
		for hx := range hi.seen {
			if !inPack[hx] {
				r.failf(path, "phantom-id", false, "GetByType over pack%d yields %s, which is not in that pack", pk, hx)
				return stFailed
			}
		}
		if done && hi.n > 0 {
			for _, x := range ents {
				xo := r.repo.objs[r.repo.byHex[x.hex]]
				if (typ == plumbing.AnyObject || xo.typ == typ) && hi.seen[x.hex] == 0 {
					r.failf(path, "missing-object", false, "GetByType(%s) over pack%d ended after %d objects without %s", typ, pk, hi.n, x.hex)
					return stFailed
				}
			}
		}
	}
	return stOK
}

// ---------------------------------------------------------------- storage life cycle

func (r *runner) fsOptions() filesystem.Options {
	o := filesystem.Options{ExclusiveAccess: r.opts.Exclusive, UseInMemoryIdx: r.opts.InMemIdx, AlternatesFS: r.disk.FS("/", "st")}
	if r.opts.LOT > 0 {
		o.LargeObjectThreshold = int64(r.opts.LOT)
	}
	o.Pool = r.pool
	return o
}

func (r *runner) open() {
	if r.cache == nil || !r.opts.KeepCache {
		r.cache = newCountingCache(r.opts.Cache)
	}
	switch {
	case r.opts.Pool < 0:
		r.pool = fdpool.New(0)
	case r.opts.Pool > 0:
		r.pool = fdpool.New(min(r.opts.Pool, 64))
	default:
		r.pool = nil
	}
	r.call(func() { r.st = filesystem.NewStorageWithOptions(r.disk.FS("/r/.git", "st"), r.cache, r.fsOptions()) })
	r.epoch++
	r.lastPack = -1
	r.pf = map[int]*pfPack{}
	r.pfDG = nil
}

func (r *runner) closeAll() {
	for len(r.iters) > 0 {
		r.dropIter(r.iters[0])
	}
	for len(r.readers) > 0 {
		r.dropReader(r.readers[0])
	}
	r.objs = nil
	for _, pp := range r.pf {
		r.pfDrop(pp)
	}
	if r.pfDG != nil {
		r.call(func() { r.pfDG.Close() })
		r.pfDG = nil
	}
	var err error
	r.call(func() { err = r.st.Close() })
	if err != nil {
		r.probe("storage-close-returned-error")
	}
}

func (r *runner) doOp(op Op) int {
	switch op.Kind {
	case "get":
		return r.opGet(op, plumbing.AnyObject, "get")
	case "gettyped":
		return r.opGet(op, r.repo.objs[mod(op.A, len(r.repo.objs))].typ, "get-typed")
	case "getwrong":
		return r.opGetWrong(op)
	case "has":
		return r.opHas(op)
	case "size":
		return r.opSize(op)
	case "absent":
		return r.opAbsent(op)
	case "prefix":
		return r.opPrefix(op)
	case "iter":
		return r.opIter(op)
	case "iter-next":
		if len(r.iters) == 0 {
			return stOK
		}
		hi := r.iters[mod(op.A, len(r.iters))]
		s, done := r.stepIter(hi, 1+mod(op.C, 24), 1+mod(op.B, 3))
		if s == stOK && !done {
			r.probe("held-iterator-continued")
		}
		if s == stExcused {
			return stOK // nothing to retry: the iterator is gone
		}
		return s
	case "iter-close":
		if len(r.iters) > 0 {
			r.dropIter(r.iters[mod(op.A, len(r.iters))])
			r.probe("iterator-partially-consumed-then-closed")
		}
		return stOK
	case "delta":
		return r.opDelta(op)
	case "reread":
		return r.opReread(op)
	case "reader-next":
		if len(r.readers) == 0 {
			return stOK
		}
		s := r.advanceReader(r.readers[mod(op.A, len(r.readers))], op.C%5000)
		if s == stExcused {
			return stOK
		}
		return s
	case "reader-close":
		if len(r.readers) > 0 {
			r.dropReader(r.readers[mod(op.A, len(r.readers))])
			r.probe("reader-partially-consumed-then-closed")
		}
		return stOK
	case "close-idle":
		var err error
		faulted := r.call(func() { err = r.st.CloseIdleDescriptors() })
		if err != nil && !faulted {
			r.failf("close-idle-descriptors", "spurious-error", false, "CloseIdleDescriptors() = %v", err)
			return stFailed
		}
		r.probe("close-idle-descriptors")
		return stOK
	case "clock":
		ms := []int{200, 900, 1100, 2500}[mod(op.A, 4)]
		r.scan()
		r.inClock = true
		time.Sleep(time.Duration(ms) * time.Millisecond)
		r.scan()
		r.inClock = false
		if ms > 1000 {
			r.probe("clock-step-beyond-grace-period")
		}
		return stOK
	case "reopen":
		r.closeAll()
		r.open()
		r.probe("storage-reopened")
		return stOK
	case "pf-off", "pf-get", "pf-size", "pf-hash", "pf-iter", "pf-close":
		return r.opPF(op)
	}
	return stOK
}

func (r *runner) history() {
	nOps := len(r.p.Ops)
	if nOps > 400 {
		nOps = 400
	}
	arm := func() {
		if !r.armed && len(r.p.Faults) > 0 {
			r.armed = true
			fs := r.p.Faults
			if len(fs) > 4 {
				fs = fs[:4]
			}
			r.scan()
			r.disk.SetFaults(fs)
			r.logf("-- %d fault(s) armed", len(fs))
		}
	}
	if r.p.ArmAt <= 0 {
		arm()
	}
	r.open()
	for i := 0; i < nOps && r.fail == nil; i++ {
		op := r.p.Ops[i]
		if i >= r.p.ArmAt {
			arm()
		}
		r.curOp = op.Kind
		before := r.firedTotal
		s := r.doOp(op)
		res := [...]string{"ok", "excused", "VIOLATION"}[s]
		if s == stExcused && r.fail == nil {
			// the same call once more: without a new fault it must be right
			b2 := r.firedTotal
			s2 := r.doOp(op)
			switch {
			case s2 == stOK && r.firedTotal == b2:
				r.probe("recovery-retry-succeeded")
				res = "excused, retry ok"
			case s2 == stOK:
				res = "excused, retry ok under another fault"
			case s2 == stExcused:
				res = "excused, retry excused (another fault)"
			default:
				res = "excused, retry VIOLATION"
			}
		}
		r.logf("%3d %-12s a=%d b=%d c=%d -> %s%s", i, op.Kind, op.A, op.B, op.C, res, map[bool]string{true: " (fault fired)", false: ""}[r.firedTotal > before])
	}
	if r.fail != nil {
		return
	}
	// recovery sweep: faults are over for good
	r.scan()
	r.disk.SetFaults(nil)
	r.curOp = "sweep"
	if r.firedTotal > 0 {
		r.logf("-- sweep after %d fault(s)", r.firedTotal)
		for _, i := range r.touched {
			if r.fail != nil {
				return
			}
			if s := r.opGet(Op{A: i, B: 0}, plumbing.AnyObject, "get"); s != stOK && r.fail == nil {
				r.failf("get", "no-recovery-after-fault", false, "sweep: read of %s excused without a fault", r.repo.objs[i].hex)
			}
		}
		for k := 0; k < 12 && r.fail == nil; k++ {
			i := mod(k*7919+r.p.Repo, len(r.repo.objs))
			r.opGet(Op{A: i, B: 0}, plumbing.AnyObject, "get")
			if r.fail == nil {
				r.opSize(Op{A: i})
			}
		}
		if r.fail == nil {
			r.opPrefix(Op{A: 1, B: 0, C: 1})
		}
		if r.fail == nil {
			r.opAbsent(Op{A: 3, B: 3})
		}
		if r.fail == nil {
			r.opIter(Op{A: 0, B: 0, C: 3})
		}
		if r.fail == nil {
			r.probe("sweep-after-faults-clean")
		}
	}
	if r.fail != nil {
		return
	}
	r.closeAll()
	r.scan()
	r.inClock = true
	time.Sleep(3 * time.Second)
	r.scan()
	r.inClock = false
	if n := r.disk.OpenHandleCount(); n > 0 {
		r.probe("descriptors-open-after-close")
		r.logf("-- %d descriptor(s) still open 3 s after Storage.Close: %v", n, r.disk.OpenHandleNames())
	}
	if r.disk.UseAfterClose > 0 {
		r.probe("read-on-closed-descriptor")
	}
}

var baseDigest = map[string]string{}

type runResult struct {
	stateHash    string
	fail         *failure   // what the run reports: the hard divergence, else the first soft one
	all          []*failure // every divergence seen
	trace        []string
	probes       map[string]int
	steps        int
	helperOps    int
	inconclusive string
}

func runPlan(t *testing.T, p *Plan, opts Opts, noFaults bool, out *core.Outcome) runResult {
	var res runResult
	rs, err := allRepos()
	if err != nil || len(rs) == 0 {
		res.inconclusive = "setup-failed"
		res.trace = []string{fmt.Sprint("repositories: ", err)}
		return res
	}
	pp := *p
	if noFaults {
		pp.Faults = nil
	}
	r := &runner{p: &pp, opts: opts, repo: rs[mod(p.Repo, len(rs))], out: out, timerClosed: map[string]bool{}, opened: map[string]int{}, faultSet: map[string]bool{},
		touchedSet: map[int]bool{}, probes: map[string]int{}, lastPack: -1}
	r.disk = r.repo.img.Clone()
	r.disk.Record = true
	panicked := sched.Bubble(t, func() {
		// (the lane's channels must belong to the bubble, or blocking on them is not "durable")
		r.ln = newLane()
		r.disk.Clock = time.Now
		r.disk.Sched = r.ln
		r.ln.install()
		defer uninstallHooks()
		r.ln.run(r.history)
	})
	if r.ln == nil {
		res.inconclusive = "bubble-panic"
		res.trace = []string{fmt.Sprint(panicked)}
		return res
	}
	res.steps = r.ln.steps
	res.helperOps = r.ln.helperOps
	// reads must leave the image as git wrote it
	r.disk.Sched = nil
	res.stateHash = r.disk.Digest("/", nil)
	if baseDigest[r.repo.name] == "" {
		baseDigest[r.repo.name] = r.repo.img.Digest("/", nil)
	}
	if res.stateHash != baseDigest[r.repo.name] {
		r.probe("image-modified-by-a-read-only-history")
	}
	res.probes = r.probes
	res.trace = append([]string{fmt.Sprintf("repository %s, options %+v", r.repo.name, opts)}, r.trace...)
	res.all = append(res.all, r.soft...)
	switch {
	case r.fail != nil:
		res.fail = r.fail
		res.all = append([]*failure{r.fail}, res.all...)
	case r.ln.panicVal != nil:
		res.fail = &failure{path: r.curOp, kind: "panic", fault: r.faultState(false), msg: fmt.Sprintf("%v\n%s", r.ln.panicVal, r.ln.panicStack)}
		res.all = append([]*failure{res.fail}, res.all...)
	case len(r.soft) > 0:
		res.fail = r.soft[0]
	case r.ln.aborted != "":
		res.inconclusive = r.ln.aborted
	case panicked != nil:
		res.inconclusive = "bubble-panic"
		res.trace = append(res.trace, fmt.Sprint(panicked))
	}
	return res
}

// ---------------------------------------------------------------- attribution

var optNames = []string{"exclusive", "in-mem-idx", "large-object-threshold", "cache", "pool", "keep-cache"}

func isSet(o Opts, n string) bool {
	switch n {
	case "exclusive":
		return o.Exclusive
	case "in-mem-idx":
		return o.InMemIdx
	case "large-object-threshold":
		return o.LOT != 0
	case "cache":
		return mod(o.Cache, 4) != 0
	case "pool":
		return o.Pool != 0
	case "keep-cache":
		return o.KeepCache
	}
	return false
}

func unset(o Opts, n string) Opts {
	switch n {
	case "exclusive":
		o.Exclusive = false
	case "in-mem-idx":
		o.InMemIdx = false
	case "large-object-threshold":
		o.LOT = 0
	case "cache":
		o.Cache = 0
	case "pool":
		o.Pool = 0
	case "keep-cache":
		o.KeepCache = false
	}
	return o
}

func optLabel(o Opts, n string) string {
	switch n {
	case "large-object-threshold":
		return "large-object-threshold"
	case "cache":
		return [...]string{"", "cache-4k", "cache-512", "cache-0"}[mod(o.Cache, 4)]
	case "pool":
		if o.Pool < 0 {
			return "pool-noop"
		}
		return "pool-small"
	}
	return n
}

// attribute names the smallest set of non-default options with which the
// divergence (same read path, same kind) still shows, by switching options
// back to their defaults one at a time.
func attribute(t *testing.T, p *Plan, f *failure, noFaults bool) string {
	same := func(o Opts) bool {
		rr := runPlan(t, p, o, noFaults, nil)
		return rr.shows(f)
	}
	cur := p.Opts
	if same(Opts{}) {
		return "opts:any"
	}
	for _, n := range optNames {
		if isSet(cur, n) {
			if c := unset(cur, n); same(c) {
				cur = c
			}
		}
	}
	var names []string
	for _, n := range optNames {
		if isSet(cur, n) {
			names = append(names, optLabel(cur, n))
		}
	}
	if len(names) == 0 {
		return "opts:any"
	}
	return "opts:" + strings.Join(names, "+")
}

// sameDivergence: same read path and same kind; an error that was classed as
// "no recovery" because a fault had fired earlier is the same divergence as the
// plain error a fault-free run shows.
func sameDivergence(a, b *failure) bool {
	if a.path != b.path {
		return false
	}
	if a.kind == b.kind {
		return true
	}
	plain := func(k string) bool { return k == "spurious-error" || k == "spurious-notfound" }
	return (a.kind == "no-recovery-after-fault" && plain(b.kind)) || (b.kind == "no-recovery-after-fault" && plain(a.kind))
}

func (rr runResult) shows(f *failure) bool {
	for _, x := range rr.all {
		if sameDivergence(f, x) {
			return true
		}
	}
	return false
}

func rr0kind(t *testing.T, p *Plan, f *failure) string {
	rr := runPlan(t, p, p.Opts, true, nil)
	for _, x := range rr.all {
		if sameDivergence(f, x) {
			return x.kind
		}
	}
	return "spurious-error"
}

func execPlan(t *testing.T, pa any) (out core.Outcome) {
	p := pa.(*Plan)
	hooks.Deterministic(true)
	if p.ArmAt < 0 {
		p.ArmAt = 0
	}
	res := runPlan(t, p, p.Opts, false, &out)
	out.Steps = res.steps
	out.StateHash = res.stateHash
	out.Trace = res.trace
	out.Inconclusive = res.inconclusive
	for k, v := range res.probes {
		out.ProbeN(k, v)
	}
	out.ProbeN("disk-operations-by-go-git-helpers", res.helperOps)
	// (a "pure" divergence seen after a fault fired is judged like any other: the damaged initialisation may be
	// what causes it — found by the thorough tier: a prefix search in a SHA-256 repository whose config could not be
	// read at re-open was filed under the prefix-length defect instead of the recorded config one)
	if f := res.fail; f != nil && f.pure && f.fault == "none" {
		out.Fail(fmt.Sprintf("C11|%s|%s|opts:any|none", f.path, f.kind), "%s", f.msg)
	} else if f != nil {
		fault, kind, path := f.fault, f.kind, f.path
		needsFault := false
		switch {
		case strings.HasPrefix(fault, "after-fault:") && faultRank(strings.TrimPrefix(fault, "after-fault:")) <= 2:
			// A fault hit a one-time initialisation earlier (config at
			// construction, the alternates list, a directory listing under
			// ExclusiveAccess). Which read path happens to notice the damaged
			// state first is incidental: one signature per kind of symptom.
			needsFault = true
			path = "any-read-path"
		case fault != "none":
			// does it need the fault at all?
			rr := runPlan(t, p, p.Opts, true, nil)
			needsFault = !rr.shows(f)
		}
		var optc string
		if needsFault {
			// Switching an option off moves every ordinal, so the fault lands
			// somewhere else and the re-run proves nothing. Only ExclusiveAccess
			// (which replaces directory reads by cached lists) is named, as it
			// stands in the plan — unless the fault hit the config or the
			// alternates file, which are read the same way with or without it.
			optc = "opts:not-attributed"
			if p.Opts.Exclusive && !strings.HasSuffix(fault, "@config") && !strings.HasSuffix(fault, "alternates") {
				optc = "opts:exclusive"
			}
		} else {
			if fault != "none" {
				fault = "none"
				if kind == "no-recovery-after-fault" {
					kind = rr0kind(t, p, f)
				}
			}
			optc = attribute(t, p, f, true)
		}
		out.Fail(fmt.Sprintf("C11|%s|%s|%s|%s", path, kind, optc, fault), "%s", f.msg)
	}
	// the replay comparison uses the per-operation results (what was asked,
	// what came back, where a fault fired), not the order of disk operations
	var lines []string
	for _, l := range res.trace {
		if !strings.HasPrefix(l, "-- ") || !strings.Contains(l, "descriptor") {
			lines = append(lines, l)
		}
	}
	out.LogHash = core.HashStrings(lines)
	out.NonTrivial = len(p.Ops) >= 10 && res.inconclusive == ""
	if os.Getenv("C11_TRACE") != "" {
		fmt.Fprintf(os.Stderr, "TRACE-BEGIN\n%s\nTRACE-END sig=%s\n", strings.Join(res.trace, "\n"), out.Signature)
	}
	return out
}

func TestCheck(t *testing.T) {
	defer releaseRepos()
	core.Main(t, core.Check{
		ID:    "C11",
		Level: "exploration",
		Rule: "plan = repository (3 built by git 2.39 at start: sha1 and sha256 with three packs — repacked --depth=50, repack of loose objects whose loose copies remain, fast-import pack — plus loose objects, an annotated tag, blobs of 0..50000 bytes; one with objects/info/alternates; 4 go-git-fixtures .git directories) " +
			"x storage options (ExclusiveAccess, UseInMemoryIdx, LargeObjectThreshold 0/1/64/4096, object cache default/4 KiB/512 B/0, descriptor pool default/no-op/1/2/3, cache kept at re-open) " +
			"x history of 30-300 reads (by id any/right/wrong type, has, size, absent and near-miss ids, prefix search, type iteration whole/partial/left open, DeltaObject, readers whole/chunked/partial/left open, held objects re-read, packfile-level reads by offset in pack-handle and legacy mode, CloseIdleDescriptors, clock steps 0.2-2.5 s, Storage re-open) " +
			"x fault plan (half of the plans: 1-3 transient EIO/EMFILE/EACCES on read/open/stat/readdir at drawn ordinals, by file class, armed before construction or before a drawn read); one task, go-git's own index loaders and grace timers scheduled canonically; " +
			"non-trivial = at least 10 operations judged",
		Assumptions: []string{
			"ground truth is `git cat-file --batch-all-objects --batch` taken once per repository at process start, every object re-hashed with the standard library; offsets and delta depths come from the harness's own idx/pack reader, which TestPackWalker compares with `git verify-pack -v`",
			"memory-mapped reads (osfs.WithMmap) need real files and are not simulated; that clause of the statement is not covered",
			"iteration is not required to list objects that live only in an alternate (IterEncodedObjects never has); prefix searches are (HashesWithPrefix descends into alternates)",
			"a call during which an injected fault fired may fail with any error; a nil error is judged like any other; the call is repeated once and must then be right unless another fault fires; iterators, readers and hand-built Packfiles that failed under a fault are dropped",
			"ExclusiveAccess is a listed storage option and the workload never modifies the repository, so it is judged like the others",
			"descriptor leaks, Close errors and repeated entries in listings are counted as probes, not judged",
		},
		Real: []string{"storage/filesystem ObjectStorage + iterators + DeltaObject", "storage/filesystem/dotgit (pack handles, loose objects, ExclusiveAccess lists, alternates, large-object readers)",
			"internal/packhandle, internal/sharedfile, x/fdpool", "idxfile LazyIndex / MemoryIndex", "packfile.Packfile / FSObject / Scanner (also driven directly by offset)", "plumbing/cache ObjectLRU"},
		Stub:    []string{"disk (simfs, fault ordinals)", "clock (synctest bubble; sharedfile timers and disk clock)", "goroutine choice (one task; go-git's index loaders and timers run one at a time in canonical order)"},
		Runs:    map[string]int{"quick": 800, "thorough": 16000},
		NewPlan: func() any { return &Plan{} },
		Gen:     genPlan,
		Exec:    execPlan,
		RequiredProbes: []string{"cache-hit-after-eviction-pressure", "mru-hint-miss", "delta-chain>=3-resolved", "large-object-streaming-reader",
			"lazy-idx-reopened-after-pool-eviction", "grace-close-then-reopen", "read-through-alternate", "iterator-partially-consumed-then-closed",
			"reader-partially-consumed-then-closed", "held-iterator-continued", "held-object-read-again", "read-by-offset", "packfile-legacy-file-mode",
			"fault-during-index-load", "fault:read@pack", "fault:read@idx", "fault:open@pack", "fault:open@idx", "fault:open@alternates", "fault:open@loose",
			"recovery-retry-succeeded", "sweep-after-faults-clean", "storage-reopened", "iteration-complete", "read-of-duplicated-object"},
	})
}
