//go:build verif

package c11

// lane is this check's scheduler. The workload is ONE task; the only other
// goroutines are the ones go-git starts itself on the read path:
//
//   - the per-pack index loaders of ObjectStorage.populateIndex (an errgroup
//     whose width follows GOMAXPROCS),
//   - the grace-period timers of internal/sharedfile.
//
// Every disk operation and every hooked go-git lock is a park. At quiescence
// (synctest.Wait) exactly one parked request is granted:
//
//  1. the task's, if it has one (the task runs whenever it can);
//  2. otherwise the goroutine granted last, for as long as it keeps coming
//     back (a helper runs to completion once it has been chosen);
//  3. otherwise a helper that has not touched the disk yet is let run up to
//     its first disk operation (until then it has only taken locks of objects
//     nobody else can see);
//  4. otherwise the helper whose first disk operation names the smallest path.
//
// With GOMAXPROCS=1 the index loaders run one after the other in the order of
// the pack directory listing, which simfs sorts by name; rule 4 reproduces
// exactly that order when they are all started at once, so the sequence of
// disk operations — and therefore the ordinal an injected fault lands on, and
// the LRU order of the descriptor pool afterwards — does not depend on
// GOMAXPROCS. sched.Driver keys anonymous goroutines by (site, detail) and
// interleaves them, which is what C23 wants and what this check must avoid.
// (Copied from sched.Driver where the two agree.)

import (
	"bytes"
	"runtime"
	"sort"
	"strconv"
	"sync"
	"testing/synctest"
	"time"

	"github.com/go-git/go-git/v6/internal/simhook"
	"github.com/go-git/go-git/v6/verifsim/simfs"
)

type laneReq struct {
	gid     int64
	disk    bool
	class   string
	detail  string
	seq     int
	enabled func() bool
	grant   chan bool
}

type laneAbort struct{}

type lane struct {
	mu       sync.Mutex
	pending  []*laneReq
	wake     chan struct{}
	mainGID  int64
	mainDone bool
	sticky   int64
	ident    map[int64]string // helper goroutine -> path of its first disk operation
	seq      int

	steps      int // grants + fast-path passes of the task
	helperOps  int // grants to goroutines go-git started
	maxSteps   int
	aborting   bool
	aborted    string
	panicVal   any
	panicStack string
}

func newLane() *lane {
	return &lane{wake: make(chan struct{}, 1), ident: map[int64]string{}, maxSteps: 400000}
}

// goidSlow parses the goroutine id out of runtime.Stack.
func goidSlow() int64 {
	var buf [64]byte
	n := runtime.Stack(buf[:], false)
	b := buf[:n]
	b = b[len("goroutine "):]
	i := bytes.IndexByte(b, ' ')
	id, _ := strconv.ParseInt(string(b[:i]), 10, 64)
	return id
}

func inBubble() bool { return time.Now().Year() < 2015 }

// Park implements simfs.Parker.
func (l *lane) Park(actor string, class simfs.OpClass, detail string) {
	l.park(true, string(class), detail, nil)
}

// ParkUntil implements simfs.Parker.
func (l *lane) ParkUntil(actor string, class simfs.OpClass, detail string, enabled func() bool) {
	l.park(true, string(class), detail, enabled)
}

func (l *lane) park(disk bool, class, detail string, enabled func() bool) {
	if !inBubble() {
		return
	}
	gid := goid()
	l.mu.Lock()
	isMain := gid == l.mainGID
	if l.aborting {
		l.mu.Unlock()
		if isMain {
			panic(laneAbort{})
		}
		return
	}
	if isMain && len(l.pending) == 0 && l.steps < l.maxSteps && (enabled == nil || enabled()) {
		// Nobody else is waiting and the task always goes first: no need to
		// make the round trip through the driver.
		l.steps++
		l.mu.Unlock()
		return
	}
	if !isMain && gid == l.sticky && l.steps < l.maxSteps && (enabled == nil || enabled()) {
		// A helper that has been chosen runs to completion. While it runs the
		// task is blocked waiting for it and every other helper is parked, so
		// nothing can come before it except a request of the task itself.
		mainWaiting := false
		for _, q := range l.pending {
			if q.gid == l.mainGID {
				mainWaiting = true
				break
			}
		}
		if !mainWaiting {
			l.steps++
			l.helperOps++
			l.mu.Unlock()
			return
		}
	}
	l.seq++
	r := &laneReq{gid: gid, disk: disk, class: class, detail: detail, seq: l.seq, enabled: enabled, grant: make(chan bool, 1)}
	l.pending = append(l.pending, r)
	l.mu.Unlock()
	select {
	case l.wake <- struct{}{}:
	default:
	}
	if ok := <-r.grant; !ok {
		if isMain {
			panic(laneAbort{})
		}
	}
}

// run executes fn as the task and drives everything to completion. It must be
// called from the root goroutine of a synctest bubble.
func (l *lane) run(fn func()) {
	started := make(chan struct{})
	go func() {
		l.mu.Lock()
		l.mainGID = goid()
		l.mu.Unlock()
		close(started)
		defer func() {
			if p := recover(); p != nil {
				if _, ok := p.(laneAbort); !ok {
					buf := make([]byte, 6000)
					n := runtime.Stack(buf, false)
					l.mu.Lock()
					l.panicVal = p
					l.panicStack = string(buf[:n])
					l.mu.Unlock()
				}
			}
			l.mu.Lock()
			l.mainDone = true
			l.mu.Unlock()
			select {
			case l.wake <- struct{}{}:
			default:
			}
		}()
		fn()
	}()
	<-started
	for {
		synctest.Wait()
		l.mu.Lock()
		if l.mainDone && len(l.pending) == 0 {
			// timers that fire from now on run unscheduled
			l.aborting = true
			l.mu.Unlock()
			return
		}
		pend := append([]*laneReq(nil), l.pending...)
		l.mu.Unlock()
		var en []*laneReq
		for _, r := range pend {
			if r.enabled == nil || r.enabled() {
				en = append(en, r)
			}
		}
		if len(en) == 0 {
			l.mu.Lock()
			ab := l.aborting
			l.mu.Unlock()
			if ab {
				return
			}
			select {
			case <-l.wake:
				continue
			case <-time.After(300 * time.Second):
				l.abort("deadlock")
				continue
			}
		}
		l.mu.Lock()
		over := l.steps >= l.maxSteps
		l.mu.Unlock()
		if over {
			l.abort("step-budget")
			continue
		}
		pick := l.choose(en)
		l.mu.Lock()
		for i, r := range l.pending {
			if r == pick {
				l.pending = append(l.pending[:i], l.pending[i+1:]...)
				break
			}
		}
		l.steps++
		if pick.gid != l.mainGID {
			l.helperOps++
		}
		l.mu.Unlock()
		select {
		case <-l.wake:
		default:
		}
		pick.grant <- true
	}
}

func (l *lane) choose(en []*laneReq) *laneReq {
	l.mu.Lock()
	defer l.mu.Unlock()
	for _, r := range en {
		if r.gid == l.mainGID {
			return r
		}
	}
	for _, r := range en {
		if r.gid == l.sticky {
			return r
		}
	}
	// helpers that have not reached the disk yet
	var fresh []*laneReq
	for _, r := range en {
		if _, ok := l.ident[r.gid]; !ok && !r.disk {
			fresh = append(fresh, r)
		}
	}
	if len(fresh) > 0 {
		sort.SliceStable(fresh, func(i, j int) bool {
			a, b := fresh[i], fresh[j]
			if a.class != b.class {
				return a.class < b.class
			}
			if a.detail != b.detail {
				return a.detail < b.detail
			}
			return a.seq < b.seq
		})
		return fresh[0]
	}
	for _, r := range en {
		if _, ok := l.ident[r.gid]; !ok {
			l.ident[r.gid] = r.detail
		}
	}
	sort.SliceStable(en, func(i, j int) bool {
		a, b := en[i], en[j]
		if ia, ib := l.ident[a.gid], l.ident[b.gid]; ia != ib {
			return ia < ib
		}
		if a.class != b.class {
			return a.class < b.class
		}
		if a.detail != b.detail {
			return a.detail < b.detail
		}
		return a.seq < b.seq
	})
	l.sticky = en[0].gid
	return en[0]
}

func (l *lane) abort(why string) {
	l.mu.Lock()
	if l.aborted == "" {
		l.aborted = why
	}
	l.aborting = true
	p := l.pending
	l.pending = nil
	l.mu.Unlock()
	for _, r := range p {
		r.grant <- false
	}
}

// install routes go-git's lock seams to the lane (see hooks.Install, which is
// tied to sched.Driver).
func (l *lane) install() {
	simhook.LockHandler = func(mu sync.Locker) {
		switch m := mu.(type) {
		case *sync.Mutex:
			l.park(false, "mu", "", func() bool {
				if m.TryLock() {
					m.Unlock()
					return true
				}
				return false
			})
		case *sync.RWMutex:
			l.park(false, "mu", "", func() bool {
				if m.TryLock() {
					m.Unlock()
					return true
				}
				return false
			})
		default:
			l.park(false, "mu", "", nil)
		}
	}
	simhook.RLockHandler = func(m *sync.RWMutex) {
		l.park(false, "rmu", "", func() bool {
			if m.TryRLock() {
				m.RUnlock()
				return true
			}
			return false
		})
	}
	simhook.YieldHandler = func(s string) { l.park(false, "yield", s, nil) }
	var onceMu sync.Mutex
	inside := map[any]int{}
	simhook.OnceHandler = func(key any, enter bool) {
		if !enter {
			onceMu.Lock()
			inside[key]--
			if inside[key] <= 0 {
				delete(inside, key)
			}
			onceMu.Unlock()
			return
		}
		l.park(false, "once", "", func() bool {
			onceMu.Lock()
			defer onceMu.Unlock()
			return inside[key] == 0
		})
		onceMu.Lock()
		inside[key]++
		onceMu.Unlock()
	}
}

func uninstallHooks() {
	simhook.LockHandler = nil
	simhook.RLockHandler = nil
	simhook.YieldHandler = nil
	simhook.OnceHandler = nil
}
