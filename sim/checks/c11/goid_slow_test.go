//go:build verif && !(amd64 || arm64)

package c11

func goid() int64 { return goidSlow() }
