//go:build verif && (amd64 || arm64)

package c11

// The lane has to know, at every park, which goroutine is asking. Parsing
// runtime.Stack costs ~20 µs on go-git's deep stacks and dominated the run
// time; the goroutine id is read straight out of the runtime's g structure
// instead. The offset of the id inside g is not hard-coded: it is found at
// start-up by looking for the id that runtime.Stack reports, and confirmed on
// several other goroutines; if that fails the slow way is used.

import (
	"sync"
	"unsafe"
)

func getg() unsafe.Pointer

var (
	goidOnce sync.Once
	goidOff  uintptr
	goidFast bool
)

func readAt(g unsafe.Pointer, off uintptr) int64 { return *(*int64)(unsafe.Add(g, off)) }

func calibrateGoid() {
	want := goidSlow()
	g := getg()
	var cands []uintptr
	for off := uintptr(0); off < 1024; off += 8 {
		if readAt(g, off) == want {
			cands = append(cands, off)
		}
	}
	for _, off := range cands {
		ok := true
		for i := 0; i < 8 && ok; i++ {
			done := make(chan bool)
			go func() { done <- readAt(getg(), off) == goidSlow() }()
			ok = <-done
		}
		if ok {
			goidOff, goidFast = off, true
			return
		}
	}
}

func goid() int64 {
	goidOnce.Do(calibrateGoid)
	if !goidFast {
		return goidSlow()
	}
	return readAt(getg(), goidOff)
}
