//go:build verif

package c11

// Development aids, skipped unless C11_DEV is set (both need real git).

import (
	"fmt"
	"os"
	"testing"
	"time"
)

// TestDevRepos (C11_DEV=1) prints what the repositories built at start contain.
func TestDevRepos(t *testing.T) {
	if os.Getenv("C11_DEV") == "" {
		t.Skip()
	}
	defer releaseRepos()
	t0 := time.Now()
	rs, err := allRepos()
	if err != nil {
		t.Fatal(err)
	}
	fmt.Println("built in", time.Since(t0))
	for _, r := range rs {
		nd := 0
		dup := 0
		alt := 0
		for _, o := range r.objs {
			if o.depth >= 3 {
				nd++
			}
			if (o.loose && len(o.packs) > 0) || len(o.packs) > 1 {
				dup++
			}
			if o.altOnly {
				alt++
			}
		}
		sz := 0
		for _, e := range r.img.List("/") {
			sz += len(e.Data)
		}
		fmt.Printf("%-28s sha256=%v objs=%d local=%d loose=%d packs=%d maxDepth=%d depth>=3:%d dup=%d altOnly=%d imageBytes=%d\n", r.name, r.sha256, len(r.objs), len(r.local), r.nLoose, len(r.packs), r.maxDepth, nd, dup, alt, sz)
		for _, p := range r.packs {
			fmt.Printf("    pack %s: %d objects\n", p.hash[:12], len(p.ents))
		}
	}
}

// TestPackWalker compares the harness's own idx/pack reader with `git verify-pack -v`.
func TestPackWalker(t *testing.T) {
	if os.Getenv("C11_DEV") == "" {
		t.Skip()
	}
	if _, err := allRepos(); err != nil {
		t.Fatal(err)
	}
	defer releaseRepos()
	root := sharedRoot()
	for _, sp := range repoSpecs {
		hs := 20
		if sp.sha256 {
			hs = 32
		}
		dir := root + "/" + sp.dir
		mine, err := verifyPacks(dir, hs)
		if err != nil {
			t.Fatal(err)
		}
		for _, p := range mine {
			theirs, err := gitVerifyPack(root+"/home", dir, dir+"/objects/pack/pack-"+p.hash+".idx")
			if err != nil {
				t.Fatal(err)
			}
			if len(theirs) != len(p.ents) {
				t.Fatalf("%s: %d vs %d entries", p.hash, len(p.ents), len(theirs))
			}
			for i := range theirs {
				if theirs[i] != p.ents[i] {
					t.Fatalf("%s entry %d: mine %+v git %+v", p.hash, i, p.ents[i], theirs[i])
				}
			}
			fmt.Printf("%s pack %s: %d entries agree with git verify-pack\n", sp.name, p.hash[:10], len(theirs))
		}
	}
}
