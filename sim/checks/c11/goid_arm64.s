//go:build verif

#include "textflag.h"

// func getg() unsafe.Pointer
TEXT ·getg(SB),NOSPLIT,$0-8
	MOVD g, R0
	MOVD R0, ret+0(FP)
	RET
