//go:build verif

package c11

// Repositories and their ground truth.
//
// Everything in this file runs ONCE per worker process, before the first plan
// is executed, and never inside a run: real git builds the repositories in a
// scratch directory (fixed content, identities and dates, pack.threads=1),
// `git cat-file --batch-all-objects --batch` (cross-checked with
// --batch-check) gives the inventory, `git verify-pack -v` gives offsets and
// delta depths per pack; every object is re-hashed with the standard library.
// The directories are then imported into simfs images. A run clones an image.
// The worker processes of one bin/check run share the scratch directory
// (/var/tmp/c11-shared-<parent pid>, built by whichever gets there first, removed
// by whichever leaves last).

import (
	"bufio"
	"bytes"
	"crypto/sha1"
	"crypto/sha256"
	"encoding/hex"
	"errors"
	"fmt"
	"hash"
	"io"
	iofs "io/fs"
	"os"
	"os/exec"
	"path/filepath"
	"sort"
	"strconv"
	"strings"
	"sync"
	"syscall"
	"time"

	"github.com/go-git/go-billy/v6"
	"github.com/go-git/go-billy/v6/util"
	fixtures "github.com/go-git/go-git-fixtures/v6"
	"github.com/go-git/go-git/v6/plumbing"
	"github.com/go-git/go-git/v6/verifsim/core"
	"github.com/go-git/go-git/v6/verifsim/simfs"
)

type truthObj struct {
	id      plumbing.Hash
	hex     string
	typ     plumbing.ObjectType
	data    []byte
	loose   bool          // a loose file in the repository itself
	packs   []int         // local packs (index into repo.packs) that contain it
	offs    map[int]int64 // pack index -> offset
	depth   int           // deepest delta chain over the local packs
	altOnly bool          // reachable only through objects/info/alternates
}

type packInfo struct {
	hash string
	ents []packEnt // by offset
}

type packEnt struct {
	hex   string
	off   int64
	depth int
	base  string
}

type repo struct {
	name     string
	sha256   bool
	img      *simfs.Disk // "/r/.git" (+ "/alt/.git")
	objs     []*truthObj // sorted by id
	byHex    map[string]int
	packs    []packInfo // local packs, sorted by name
	hasAlt   bool
	local    []int // objects present in the repository itself (loose or packed)
	nLoose   int
	maxDepth int
}

var (
	reposOnce sync.Once
	repos     []*repo
	reposErr  error
)

func allRepos() ([]*repo, error) {
	reposOnce.Do(func() { repos, reposErr = buildRepos() })
	return repos, reposErr
}

// ---------------------------------------------------------------- git

func gitEnv(home string) []string {
	return []string{"GIT_CONFIG_NOSYSTEM=1", "GIT_CONFIG_GLOBAL=/dev/null", "HOME=" + home, "TZ=UTC", "LC_ALL=C",
		"PATH=" + os.Getenv("PATH"), "GIT_TERMINAL_PROMPT=0",
		"GIT_AUTHOR_NAME=A U Thor", "GIT_AUTHOR_EMAIL=author@example.com", "GIT_AUTHOR_DATE=1700000000 +0000",
		"GIT_COMMITTER_NAME=C O Mitter", "GIT_COMMITTER_EMAIL=committer@example.com", "GIT_COMMITTER_DATE=1700000000 +0000",
		// nothing built here has to survive a power cut
		"GIT_CONFIG_COUNT=3", "GIT_CONFIG_KEY_0=core.fsync", "GIT_CONFIG_VALUE_0=none", "GIT_CONFIG_KEY_1=pack.threads", "GIT_CONFIG_VALUE_1=1",
		"GIT_CONFIG_KEY_2=gc.auto", "GIT_CONFIG_VALUE_2=0"}
}

func runGit(home, dir string, stdin []byte, args ...string) ([]byte, error) {
	cmd := exec.Command("git", args...)
	cmd.Dir = dir
	cmd.Env = gitEnv(home)
	var so, se bytes.Buffer
	cmd.Stdout, cmd.Stderr = &so, &se
	if stdin != nil {
		cmd.Stdin = bytes.NewReader(stdin)
	}
	t0 := time.Now()
	err := cmd.Run()
	if os.Getenv("C11_GITTIME") != "" {
		fmt.Fprintf(os.Stderr, "git %v: %v\n", args, time.Since(t0))
	}
	if err != nil {
		return nil, fmt.Errorf("git %s: %v: %s", strings.Join(args, " "), err, strings.TrimSpace(se.String()))
	}
	return so.Bytes(), nil
}

// ---------------------------------------------------------------- content

// history is a deterministic sequence of commits over a few text files that
// are edits of each other (so that git finds long delta chains).
type history struct {
	r      *core.Rand
	files  map[string][]string
	names  []string
	commit int
}

func newHistory(seed uint64) *history {
	h := &history{r: core.NewRand(seed), files: map[string][]string{}}
	for i := 0; i < 4; i++ {
		n := fmt.Sprintf("doc/file%d.txt", i)
		if i == 3 {
			n = "top.txt"
		}
		h.names = append(h.names, n)
		var lines []string
		for l := 0; l < 40+20*i; l++ {
			lines = append(lines, h.line(l))
		}
		h.files[n] = lines
	}
	return h
}

func (h *history) line(l int) string {
	words := []string{"alpha", "beta", "gamma", "delta", "pack", "index", "loose", "object", "offset", "cache", "reader", "tree"}
	var sb strings.Builder
	fmt.Fprintf(&sb, "%04d", l)
	n := 4 + h.r.Intn(8)
	for i := 0; i < n; i++ {
		sb.WriteByte(' ')
		sb.WriteString(words[h.r.Intn(len(words))])
		if h.r.Chance(1, 3) {
			fmt.Fprintf(&sb, "%d", h.r.Intn(1000))
		}
	}
	return sb.String()
}

type extraBlob struct {
	path string
	data []byte
}

// next writes one commit in fast-import syntax.
func (h *history) next(w *bytes.Buffer, first bool, from string, extras []extraBlob) {
	h.commit++
	// edit two files
	changed := map[string]bool{}
	for k := 0; k < 2; k++ {
		n := h.names[h.r.Intn(len(h.names))]
		lines := h.files[n]
		for e := 0; e < 1+h.r.Intn(3); e++ {
			i := h.r.Intn(len(lines))
			lines[i] = h.line(i)
		}
		if h.r.Chance(1, 3) {
			lines = append(lines, h.line(len(lines)))
		}
		h.files[n] = lines
		changed[n] = true
	}
	if h.commit == 1 {
		for _, n := range h.names {
			changed[n] = true
		}
	}
	msg := fmt.Sprintf("commit %d\n\nedits of %d files\n", h.commit, len(changed))
	fmt.Fprintf(w, "commit refs/heads/main\nmark :%d\n", 1000+h.commit)
	fmt.Fprintf(w, "author A U Thor <author@example.com> %d +0000\n", 1700000000+h.commit*60)
	fmt.Fprintf(w, "committer C O Mitter <committer@example.com> %d +0000\n", 1700000000+h.commit*60)
	fmt.Fprintf(w, "data %d\n%s", len(msg), msg)
	if first && from != "" {
		fmt.Fprintf(w, "from %s\n", from)
	}
	for _, n := range h.names {
		if !changed[n] {
			continue
		}
		body := strings.Join(h.files[n], "\n") + "\n"
		fmt.Fprintf(w, "M 100644 inline %s\ndata %d\n%s\n", n, len(body), body)
	}
	for _, x := range extras {
		fmt.Fprintf(w, "M 100644 inline %s\ndata %d\n", x.path, len(x.data))
		w.Write(x.data)
		w.WriteByte('\n')
	}
}

func (h *history) tag(w *bytes.Buffer, name string) {
	msg := "annotated tag " + name + "\n"
	fmt.Fprintf(w, "tag %s\nfrom :%d\ntagger T A Gger <tagger@example.com> %d +0000\ndata %d\n%s", name, 1000+h.commit, 1700000000+h.commit*60, len(msg), msg)
}

func compressibleBlob(n int) []byte {
	var b bytes.Buffer
	for i := 0; b.Len() < n; i++ {
		fmt.Fprintf(&b, "line %06d of a large text object: the quick brown fox jumps over the lazy dog\n", i)
	}
	return b.Bytes()[:n]
}

// stage imports a batch of commits; keepPack=false leaves the objects loose.
func (h *history) stage(home, dir string, n int, keepPack bool, extras []extraBlob, tag string) error {
	var w bytes.Buffer
	from := ""
	if h.commit > 0 {
		from = "refs/heads/main^0"
	}
	for i := 0; i < n; i++ {
		var x []extraBlob
		if i == n-1 {
			x = extras
		}
		h.next(&w, i == 0, from, x)
	}
	if tag != "" {
		h.tag(&w, tag)
	}
	w.WriteString("done\n")
	limit := "1000000"
	if keepPack {
		limit = "0"
	}
	_, err := runGit(home, dir, w.Bytes(), "-c", "fastimport.unpackLimit="+limit, "fast-import", "--quiet", "--done")
	return err
}

// ---------------------------------------------------------------- building with git

// initBare lays out the empty bare repository `git init --bare` creates (no
// objects; one process fewer per repository).
func initBare(dir string, sha256 bool) error {
	for _, d := range []string{"objects/info", "objects/pack", "refs/heads", "refs/tags"} {
		if err := os.MkdirAll(filepath.Join(dir, d), 0o755); err != nil {
			return err
		}
	}
	cfg := "[core]\n\trepositoryformatversion = 0\n\tfilemode = true\n\tbare = true\n"
	if sha256 {
		cfg = "[core]\n\trepositoryformatversion = 1\n\tfilemode = true\n\tbare = true\n[extensions]\n\tobjectformat = sha256\n"
	}
	if err := os.WriteFile(filepath.Join(dir, "config"), []byte(cfg), 0o644); err != nil {
		return err
	}
	return os.WriteFile(filepath.Join(dir, "HEAD"), []byte("ref: refs/heads/main\n"), 0o644)
}

func buildMulti(scratch string, sha256 bool) error {
	home := filepath.Join(scratch, "home")
	// several packs + loose + duplicates
	name := "git-multi-sha1"
	scale := 1
	h := newHistory(11)
	if sha256 {
		name = "git-multi-sha256"
		scale = 2
		h = newHistory(12)
	}
	dir := filepath.Join(scratch, name+".git")
	if err := initBare(dir, sha256); err != nil {
		return err
	}
	// one pack with deep delta chains, containing a large compressible blob
	if err := h.stage(home, dir, 16/scale, true, []extraBlob{{"big/text.txt", compressibleBlob(40000)}}, ""); err != nil {
		return err
	}
	if _, err := runGit(home, dir, nil, "repack", "-adfq", "--depth=50", "--window=50"); err != nil {
		return err
	}
	// loose objects, then packed WITHOUT removing the loose copies (duplicates)
	if err := h.stage(home, dir, 6/scale, false, nil, ""); err != nil {
		return err
	}
	if _, err := runGit(home, dir, nil, "repack", "-q"); err != nil {
		return err
	}
	// a pack written by fast-import itself
	if err := h.stage(home, dir, 5/scale+1, true, nil, ""); err != nil {
		return err
	}
	// loose only: commits, an annotated tag, blobs around the large-object thresholds
	if err := h.stage(home, dir, 3, false, []extraBlob{
		{"big/random.bin", core.NewRand(77).Bytes(50000)},
		{"big/above4k.txt", compressibleBlob(5000)},
		{"small/sixtyfive", bytes.Repeat([]byte("x"), 65)},
		{"small/one", []byte("1")},
		{"small/empty", nil},
	}, "v1"); err != nil {
		return err
	}
	return snapshot(home, dir)
}

// buildAlternate: repository B whose objects/info/alternates names repository A.
func buildAlternate(scratch string) error {
	home := filepath.Join(scratch, "home")
	a := filepath.Join(scratch, "alt-a.git")
	b := filepath.Join(scratch, "alt-b.git")
	for _, d := range []string{a, b} {
		if err := initBare(d, false); err != nil {
			return err
		}
	}
	h := newHistory(13)
	if err := h.stage(home, a, 8, true, []extraBlob{{"big/text.txt", compressibleBlob(9000)}}, ""); err != nil {
		return err
	}
	if _, err := runGit(home, a, nil, "repack", "-adfq", "--depth=50", "--window=50"); err != nil {
		return err
	}
	if err := h.stage(home, a, 2, false, []extraBlob{{"big/above4k.txt", compressibleBlob(4500)}}, ""); err != nil {
		return err
	}
	head, err := os.ReadFile(filepath.Join(a, "refs", "heads", "main"))
	if err != nil {
		return err
	}
	if err := os.WriteFile(filepath.Join(b, "objects", "info", "alternates"), []byte(filepath.Join(a, "objects")+"\n"), 0o644); err != nil {
		return err
	}
	if err := os.WriteFile(filepath.Join(b, "refs", "heads", "main"), head, 0o644); err != nil {
		return err
	}
	if err := h.stage(home, b, 5, true, nil, ""); err != nil {
		return err
	}
	if err := h.stage(home, b, 2, false, nil, "v2"); err != nil {
		return err
	}
	if err := snapshot(home, a); err != nil {
		return err
	}
	return snapshot(home, b)
}

// ---------------------------------------------------------------- fixtures written by real git

var fixtureDotGits = []struct{ name, hash string }{
	{"fixture-basic-ofs-delta", "7a725350b88b05ca03541b59dd0649fda7f521f2"},
	{"fixture-basic-ref-delta", "7cbde0ca02f13aedd5ec8b358ca17b1c0bf5ee64"},
	{"fixture-tags", "c0c7c57ab1753ddbd26cc45322299ddd12842794"},
	{"fixture-basic-sha256", "c20badf43d2495f93b42cb3ea98ed04651510617da9b56d4e07c5837ec08f93d"},
}

func buildFixture(scratch, name, hash string) error {
	home := filepath.Join(scratch, "home")
	var f *fixtures.Fixture
	for _, c := range fixtures.All() {
		if c.DotGitHash == hash {
			f = c
		}
	}
	if f == nil {
		return fmt.Errorf("fixture %s not found", hash)
	}
	bfs, err := f.DotGit(fixtures.WithMemFS())
	if err != nil {
		return err
	}
	dir := filepath.Join(scratch, name+".git")
	if err := copyBillyToOS(bfs, dir); err != nil {
		return err
	}
	return snapshot(home, dir)
}

func copyBillyToOS(bfs billy.Filesystem, dir string) error {
	return util.Walk(bfs, "/", func(p string, info iofs.FileInfo, err error) error {
		if err != nil {
			return err
		}
		dst := filepath.Join(dir, filepath.FromSlash(p))
		if info.IsDir() {
			return os.MkdirAll(dst, 0o755)
		}
		if !info.Mode().IsRegular() {
			return nil
		}
		f, err := bfs.Open(p)
		if err != nil {
			return err
		}
		b, err := io.ReadAll(f)
		f.Close()
		if err != nil {
			return err
		}
		if err := os.MkdirAll(filepath.Dir(dst), 0o755); err != nil {
			return err
		}
		return os.WriteFile(dst, b, 0o644)
	})
}

// ---------------------------------------------------------------- inventory (ground truth)

func newHasher(sha256fmt bool) hash.Hash {
	if sha256fmt {
		return sha256.New()
	}
	return sha1.New()
}

// objectID is the independent object id: hash("<type> <len>\0" + data).
func objectID(sha256fmt bool, typ string, data []byte) string {
	h := newHasher(sha256fmt)
	fmt.Fprintf(h, "%s %d\x00", typ, len(data))
	h.Write(data)
	return hex.EncodeToString(h.Sum(nil))
}

func parseType(s string) (plumbing.ObjectType, error) {
	switch s {
	case "commit":
		return plumbing.CommitObject, nil
	case "tree":
		return plumbing.TreeObject, nil
	case "blob":
		return plumbing.BlobObject, nil
	case "tag":
		return plumbing.TagObject, nil
	}
	return plumbing.InvalidObject, fmt.Errorf("unknown object type %q", s)
}

// snapshot asks git for the inventory of the repository in dir and keeps the
// answer next to it (dir.catfile; thorough tier: also dir.catcheck).
func snapshot(home, dir string) error {
	raw, err := runGit(home, dir, nil, "cat-file", "--batch-all-objects", "--batch")
	if err != nil {
		return err
	}
	if err := os.WriteFile(dir+".catfile", raw, 0o644); err != nil {
		return err
	}
	if os.Getenv("VERIF_TIER") == "thorough" {
		chk, err := runGit(home, dir, nil, "cat-file", "--batch-all-objects", "--batch-check")
		if err != nil {
			return err
		}
		return os.WriteFile(dir+".catcheck", chk, 0o644)
	}
	return nil
}

// catFileAll parses what snapshot saved.
func catFileAll(dir string, sha256fmt bool) (map[string]*truthObj, error) {
	raw, err := os.ReadFile(dir + ".catfile")
	if err != nil {
		return nil, err
	}
	out := map[string]*truthObj{}
	rd := bufio.NewReader(bytes.NewReader(raw))
	for {
		line, err := rd.ReadString('\n')
		if err == io.EOF && line == "" {
			break
		}
		if err != nil {
			return nil, fmt.Errorf("cat-file --batch: %v", err)
		}
		f := strings.Fields(line)
		if len(f) != 3 {
			return nil, fmt.Errorf("cat-file --batch: header %q", line)
		}
		n, err := strconv.Atoi(f[2])
		if err != nil {
			return nil, err
		}
		data := make([]byte, n)
		if _, err := io.ReadFull(rd, data); err != nil {
			return nil, err
		}
		if c, _ := rd.ReadByte(); c != '\n' {
			return nil, errors.New("cat-file --batch: missing terminator")
		}
		typ, err := parseType(f[1])
		if err != nil {
			return nil, err
		}
		if id := objectID(sha256fmt, f[1], data); id != f[0] {
			return nil, fmt.Errorf("independent id %s differs from git's %s", id, f[0])
		}
		h, ok := plumbing.FromHex(f[0])
		if !ok {
			return nil, fmt.Errorf("bad id %q", f[0])
		}
		out[f[0]] = &truthObj{id: h, hex: f[0], typ: typ, data: data, offs: map[int]int64{}}
	}
	// cross-check with --batch-check (thorough tier: one more process per repository)
	chk, err := os.ReadFile(dir + ".catcheck")
	if err != nil {
		if os.IsNotExist(err) {
			return out, nil
		}
		return nil, err
	}
	n := 0
	for _, line := range strings.Split(strings.TrimSpace(string(chk)), "\n") {
		f := strings.Fields(line)
		if len(f) != 3 {
			return nil, fmt.Errorf("cat-file --batch-check: %q", line)
		}
		o := out[f[0]]
		if o == nil || o.typ.String() != f[1] || strconv.Itoa(len(o.data)) != f[2] {
			return nil, fmt.Errorf("--batch and --batch-check disagree on %s", f[0])
		}
		n++
	}
	if n != len(out) {
		return nil, fmt.Errorf("--batch lists %d objects, --batch-check %d", len(out), n)
	}
	return out, nil
}

func looseIDs(dir string) ([]string, error) {
	var out []string
	ents, err := os.ReadDir(filepath.Join(dir, "objects"))
	if err != nil {
		return nil, err
	}
	for _, e := range ents {
		if !e.IsDir() || len(e.Name()) != 2 {
			continue
		}
		if _, err := hex.DecodeString(e.Name()); err != nil {
			continue
		}
		fs, err := os.ReadDir(filepath.Join(dir, "objects", e.Name()))
		if err != nil {
			return nil, err
		}
		for _, f := range fs {
			out = append(out, e.Name()+f.Name())
		}
	}
	sort.Strings(out)
	return out, nil
}

// verifyPacks reads offsets and delta-chain depths out of the packs git wrote,
// with a reader of its own (idx v2 tables, pack entry headers): what
// `git verify-pack -v` prints, without one process per pack. TestPackWalker
// compares the two.
func verifyPacks(dir string, hashSize int) ([]packInfo, error) {
	m, err := filepath.Glob(filepath.Join(dir, "objects", "pack", "pack-*.idx"))
	if err != nil {
		return nil, err
	}
	sort.Strings(m)
	var out []packInfo
	for _, idxPath := range m {
		base := filepath.Base(idxPath)
		pi := packInfo{hash: strings.TrimSuffix(strings.TrimPrefix(base, "pack-"), ".idx")}
		idx, err := os.ReadFile(idxPath)
		if err != nil {
			return nil, err
		}
		pack, err := os.ReadFile(strings.TrimSuffix(idxPath, ".idx") + ".pack")
		if err != nil {
			return nil, err
		}
		pi.ents, err = walkPack(idx, pack, hashSize)
		if err != nil {
			return nil, fmt.Errorf("%s: %w", base, err)
		}
		out = append(out, pi)
	}
	return out, nil
}

func walkPack(idx, pack []byte, hs int) ([]packEnt, error) {
	be32 := func(b []byte) uint32 { return uint32(b[0])<<24 | uint32(b[1])<<16 | uint32(b[2])<<8 | uint32(b[3]) }
	if len(idx) < 8+1024 || !bytes.Equal(idx[:4], []byte{0xff, 't', 'O', 'c'}) || be32(idx[4:]) != 2 {
		return nil, errors.New("not an idx v2 file")
	}
	n := int(be32(idx[8+255*4:]))
	names := 8 + 1024
	off32 := names + n*hs + n*4
	off64 := off32 + n*4
	if len(idx) < off64+2*hs {
		return nil, errors.New("idx too short")
	}
	ents := make([]packEnt, n)
	byOff := map[int64]int{}
	byHex := map[string]int{}
	for i := 0; i < n; i++ {
		ents[i].hex = hex.EncodeToString(idx[names+i*hs : names+(i+1)*hs])
		o := int64(be32(idx[off32+i*4:]))
		if o&0x80000000 != 0 {
			k := int(o & 0x7fffffff)
			p := off64 + k*8
			if len(idx) < p+8 {
				return nil, errors.New("idx 64-bit offset out of range")
			}
			o = int64(be32(idx[p:]))<<32 | int64(be32(idx[p+4:]))
		}
		ents[i].off = o
		byOff[o] = i
		byHex[ents[i].hex] = i
	}
	if len(pack) < 12 || string(pack[:4]) != "PACK" || int(be32(pack[8:])) != n {
		return nil, errors.New("pack header does not match the idx")
	}
	baseOf := make([]int, n)
	for i := range ents {
		baseOf[i] = -1
		p := ents[i].off
		if p <= 0 || p >= int64(len(pack)) {
			return nil, errors.New("offset outside the pack")
		}
		c := pack[p]
		p++
		typ := (c >> 4) & 7
		for c&0x80 != 0 {
			c = pack[p]
			p++
		}
		switch typ {
		case 6: // ofs-delta
			c = pack[p]
			p++
			rel := int64(c & 0x7f)
			for c&0x80 != 0 {
				c = pack[p]
				p++
				rel = ((rel + 1) << 7) | int64(c&0x7f)
			}
			b, ok := byOff[ents[i].off-rel]
			if !ok {
				return nil, errors.New("ofs-delta base is not an entry")
			}
			baseOf[i] = b
		case 7: // ref-delta
			b, ok := byHex[hex.EncodeToString(pack[p:p+int64(hs)])]
			if !ok {
				return nil, errors.New("ref-delta base is not in the pack")
			}
			baseOf[i] = b
		}
	}
	for i := range ents {
		d := 0
		for b := baseOf[i]; b >= 0; b = baseOf[b] {
			d++
			if d > n {
				return nil, errors.New("delta cycle")
			}
		}
		ents[i].depth = d
		if baseOf[i] >= 0 {
			ents[i].base = ents[baseOf[i]].hex
		}
	}
	sort.Slice(ents, func(i, j int) bool { return ents[i].off < ents[j].off })
	return ents, nil
}

// gitVerifyPack is what `git verify-pack -v` says about one pack (used by
// TestPackWalker only).
func gitVerifyPack(home, dir, idx string) ([]packEnt, error) {
	raw, err := runGit(home, dir, nil, "verify-pack", "-v", idx)
	if err != nil {
		return nil, err
	}
	var ents []packEnt
	for _, line := range strings.Split(string(raw), "\n") {
		f := strings.Fields(line)
		if len(f) < 5 || len(f[0]) < 40 {
			continue
		}
		if _, err := hex.DecodeString(f[0]); err != nil {
			continue
		}
		off, err := strconv.ParseInt(f[4], 10, 64)
		if err != nil {
			return nil, fmt.Errorf("verify-pack: %q", line)
		}
		e := packEnt{hex: f[0], off: off}
		if len(f) >= 7 {
			e.depth, _ = strconv.Atoi(f[5])
			e.base = f[6]
		}
		ents = append(ents, e)
	}
	sort.Slice(ents, func(i, j int) bool { return ents[i].off < ents[j].off })
	return ents, nil
}

// inventory reads the ground truth of the repository in dir (alt = the
// repository its alternates file names, "" if none) and imports both into an image.
func inventory(name string, sha256fmt bool, dir, alt string) (*repo, error) {
	r := &repo{name: name, sha256: sha256fmt, byHex: map[string]int{}, hasAlt: alt != ""}
	all, err := catFileAll(dir, sha256fmt)
	if err != nil {
		return nil, fmt.Errorf("%s: %w", name, err)
	}
	loose, err := looseIDs(dir)
	if err != nil {
		return nil, err
	}
	for _, id := range loose {
		o := all[id]
		if o == nil {
			return nil, fmt.Errorf("%s: loose file %s is not in git's inventory", name, id)
		}
		o.loose = true
	}
	r.nLoose = len(loose)
	hs := 20
	if sha256fmt {
		hs = 32
	}
	r.packs, err = verifyPacks(dir, hs)
	if err != nil {
		return nil, fmt.Errorf("%s: %w", name, err)
	}
	for pi, p := range r.packs {
		for _, e := range p.ents {
			o := all[e.hex]
			if o == nil {
				return nil, fmt.Errorf("%s: packed %s is not in git's inventory", name, e.hex)
			}
			o.packs = append(o.packs, pi)
			o.offs[pi] = e.off
			if e.depth > o.depth {
				o.depth = e.depth
			}
			if e.base != "" && all[e.base] == nil {
				return nil, fmt.Errorf("%s: delta base %s is not in git's inventory", name, e.base)
			}
		}
	}
	ids := make([]string, 0, len(all))
	for id := range all {
		ids = append(ids, id)
	}
	sort.Strings(ids)
	for i, id := range ids {
		o := all[id]
		o.altOnly = !o.loose && len(o.packs) == 0
		if o.altOnly && alt == "" {
			return nil, fmt.Errorf("%s: %s is neither loose nor packed", name, id)
		}
		r.objs = append(r.objs, o)
		r.byHex[id] = i
		if !o.altOnly {
			r.local = append(r.local, i)
		}
		if o.depth > r.maxDepth {
			r.maxDepth = o.depth
		}
	}
	r.img = simfs.NewDisk()
	if err := r.img.Import(dir, "/r/.git"); err != nil {
		return nil, err
	}
	if alt != "" {
		if err := r.img.Import(alt, "/alt/.git"); err != nil {
			return nil, err
		}
		// A second, empty alternate: with two or more alternates go-git asks them concurrently and merges the
		// answers, which is a different code path from the single-alternate one (and had a defect of its own: "no
		// alternate has it" came back as a nil error).
		if err := r.img.WriteFile("/alt2/.git/objects/info/keep", []byte("empty object directory\n"), 0o644); err != nil {
			return nil, err
		}
		if err := r.img.WriteFile("/r/.git/objects/info/alternates", []byte("/alt/.git/objects\n/alt2/.git/objects\n"), 0o644); err != nil {
			return nil, err
		}
	}
	return r, nil
}

// repoSpecs lists the repositories in the order plans refer to them.
var repoSpecs = []struct {
	name   string
	sha256 bool
	dir    string
	alt    string
	build  func(scratch string) error
}{
	{"git-multi-sha1", false, "git-multi-sha1.git", "", func(s string) error { return buildMulti(s, false) }},
	{"git-multi-sha256", true, "git-multi-sha256.git", "", func(s string) error { return buildMulti(s, true) }},
	{"git-alternate-sha1", false, "alt-b.git", "alt-a.git", buildAlternate},
	{"fixture-basic-ofs-delta", false, "fixture-basic-ofs-delta.git", "", nil},
	{"fixture-basic-ref-delta", false, "fixture-basic-ref-delta.git", "", nil},
	{"fixture-tags", false, "fixture-tags.git", "", nil},
	{"fixture-basic-sha256", true, "fixture-basic-sha256.git", "", nil},
}

func parallel(n int, f func(i int) error) error {
	errs := make([]error, n)
	var wg sync.WaitGroup
	for i := 0; i < n; i++ {
		wg.Add(1)
		go func() {
			defer wg.Done()
			errs[i] = f(i)
		}()
	}
	wg.Wait()
	return errors.Join(errs...)
}

// The processes of one `bin/check` run (same parent process: the workers, then
// the replays) share one scratch directory: the first to get the lock lets git
// build the repositories, the others wait and then only read the files. Each
// registers itself; see releaseRepos for how the directory goes away.
func sharedRoot() string { return fmt.Sprintf("/var/tmp/c11-shared-%d", os.Getppid()) }

// lockShared takes an exclusive flock on the lock file next to the shared
// directory (re-opening it if another process removed it in between).
func lockShared() (*os.File, error) {
	path := sharedRoot() + ".lock"
	for {
		f, err := os.OpenFile(path, os.O_CREATE|os.O_RDWR, 0o644)
		if err != nil {
			return nil, err
		}
		if err := syscall.Flock(int(f.Fd()), syscall.LOCK_EX); err != nil {
			f.Close()
			return nil, err
		}
		a, err1 := f.Stat()
		b, err2 := os.Stat(path)
		if err1 == nil && err2 == nil && os.SameFile(a, b) {
			return f, nil
		}
		f.Close() // the file we locked is no longer the lock file
	}
}

func readUsers(root string) []int {
	b, _ := os.ReadFile(filepath.Join(root, "users"))
	var out []int
	for _, f := range strings.Fields(string(b)) {
		if pid, err := strconv.Atoi(f); err == nil && pid > 0 {
			out = append(out, pid)
		}
	}
	return out
}

func writeUsers(root string, pids []int) error {
	var sb strings.Builder
	for _, p := range pids {
		fmt.Fprintf(&sb, "%d\n", p)
	}
	return os.WriteFile(filepath.Join(root, "users"), []byte(sb.String()), 0o644)
}

// sweepStale removes shared directories left behind by runs that were killed
// before they could clean up: the process they were named after is gone and so
// are all their users.
func sweepStale() {
	dirs, _ := filepath.Glob("/var/tmp/c11-shared-*")
	for _, d := range dirs {
		if strings.HasSuffix(d, ".lock") || d == sharedRoot() {
			continue
		}
		pid, err := strconv.Atoi(strings.TrimPrefix(d, "/var/tmp/c11-shared-"))
		if err != nil || (pid > 1 && syscall.Kill(pid, 0) == nil) {
			continue
		}
		alive := false
		for _, u := range readUsers(d) {
			if syscall.Kill(u, 0) == nil {
				alive = true
			}
		}
		if !alive {
			os.RemoveAll(d)
			os.Remove(d + ".lock")
		}
	}
}

func buildRepos() ([]*repo, error) {
	sweepStale()
	root := sharedRoot()
	lock, err := lockShared()
	if err != nil {
		return nil, err
	}
	if _, err := os.Stat(filepath.Join(root, "ready")); err != nil {
		// nothing usable there: build
		os.RemoveAll(root)
		if err := os.MkdirAll(filepath.Join(root, "home"), 0o755); err != nil {
			lock.Close()
			return nil, err
		}
		t0 := time.Now()
		err := parallel(len(repoSpecs), func(i int) error {
			sp := repoSpecs[i]
			if sp.build != nil {
				return sp.build(root)
			}
			return buildFixture(root, sp.name, fixtureDotGits[i-3].hash)
		})
		if err == nil {
			err = os.WriteFile(filepath.Join(root, "ready"), []byte("ok\n"), 0o644)
		}
		if os.Getenv("C11_GITTIME") != "" {
			fmt.Fprintf(os.Stderr, "repositories built in %v\n", time.Since(t0))
		}
		if err != nil {
			os.RemoveAll(root)
			os.Remove(sharedRoot() + ".lock")
			lock.Close()
			return nil, err
		}
	}
	err = writeUsers(root, append(readUsers(root), os.Getpid()))
	lock.Close()
	if err != nil {
		return nil, err
	}
	out := make([]*repo, len(repoSpecs))
	err = parallel(len(repoSpecs), func(i int) error {
		sp := repoSpecs[i]
		alt := ""
		if sp.alt != "" {
			alt = filepath.Join(root, sp.alt)
		}
		var err error
		out[i], err = inventory(sp.name, sp.sha256, filepath.Join(root, sp.dir), alt)
		return err
	})
	if err != nil {
		return nil, err
	}
	return out, nil
}

// releaseRepos unregisters this process. The last live user hands the shared
// directory over to a reaper: a detached `sh` that waits for the parent process
// (bin/check, which still replays violations in fresh processes after its
// workers are gone — they find the repositories ready instead of spending ten
// seconds in git each) to end, and then removes the directory and its lock.
func releaseRepos() {
	root := sharedRoot()
	if _, err := os.Stat(root); err != nil {
		return
	}
	lock, err := lockShared()
	if err != nil {
		return
	}
	defer lock.Close()
	var live []int
	for _, pid := range readUsers(root) {
		if pid != os.Getpid() && syscall.Kill(pid, 0) == nil {
			live = append(live, pid)
		}
	}
	writeUsers(root, live)
	if len(live) > 0 {
		return
	}
	ppid := os.Getppid()
	if ppid <= 1 || syscall.Kill(ppid, 0) != nil {
		os.RemoveAll(root)
		os.Remove(root + ".lock")
		return
	}
	if b, err := os.ReadFile(filepath.Join(root, "reaper")); err == nil {
		if pid, err := strconv.Atoi(strings.TrimSpace(string(b))); err == nil && pid > 1 && syscall.Kill(pid, 0) == nil {
			return // one is waiting already
		}
	}
	cmd := exec.Command("/bin/sh", "-c", fmt.Sprintf("while kill -0 %d 2>/dev/null; do sleep 1; done; rm -rf '%s' '%s.lock'", ppid, root, root))
	cmd.Dir = "/"
	cmd.SysProcAttr = &syscall.SysProcAttr{Setsid: true}
	if err := cmd.Start(); err != nil {
		os.RemoveAll(root)
		os.Remove(root + ".lock")
		return
	}
	os.WriteFile(filepath.Join(root, "reaper"), []byte(strconv.Itoa(cmd.Process.Pid)+"\n"), 0o644)
	cmd.Process.Release()
}
