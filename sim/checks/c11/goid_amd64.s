//go:build verif

#include "textflag.h"

// func getg() unsafe.Pointer
TEXT ·getg(SB),NOSPLIT,$0-8
	MOVQ (TLS), R14
	MOVQ R14, ret+0(FP)
	RET
