//go:build verif

// C15 — the reference store behaves like a map and packing preserves it.
//
// A real filesystem.Storage over a simulated disk whose initial image (HEAD,
// loose refs, a generated packed-refs text with header comment, peel lines,
// sorted or unsorted entries, names shadowed by loose files) is written
// directly. A generated history of set / symbolic set / check-and-set /
// remove / get / list / count / pack operations is applied next to a
// map[name]value model; after EVERY operation the full listing is compared
// with the model and every name of the universe is read individually.
// A second configuration injects one disk fault; the thorough tier also asks
// git (for-each-ref, symbolic-ref, rev-parse) about the exported end image.
package c15

import (
	"errors"
	"fmt"
	"os"
	"os/exec"
	"path"
	"path/filepath"
	"sort"
	"strings"
	"syscall"
	"testing"

	"github.com/go-git/go-git/v6/plumbing"
	"github.com/go-git/go-git/v6/plumbing/cache"
	"github.com/go-git/go-git/v6/storage"
	"github.com/go-git/go-git/v6/storage/filesystem"
	"github.com/go-git/go-git/v6/storage/filesystem/dotgit"
	"github.com/go-git/go-git/v6/verifsim/core"
	"github.com/go-git/go-git/v6/verifsim/hooks"
	"github.com/go-git/go-git/v6/verifsim/simfs"
)

// ---------------------------------------------------------------- universe

var universe = []string{
	"refs/heads/a",
	"refs/heads/a/b", // nests under refs/heads/a
	"refs/heads/b",
	"refs/tags/v1",
	"refs/tags/v2",
	"refs/remotes/origin/HEAD", // symbolic ref INSIDE refs/
	"refs/remotes/origin/main",
	"HEAD",
	"ORIG_HEAD", // pseudo-ref: accepted by ReferenceName.IsSafe ([A-Z_]+)
}

const (
	idxHEAD = 7
	idxORIG = 8
)

// symbolic targets: every universe name under refs/ plus one that never exists
var targets = []string{
	"refs/heads/a", "refs/heads/a/b", "refs/heads/b", "refs/tags/v1", "refs/remotes/origin/main", "refs/heads/nowhere",
}

func mod(i, n int) int {
	if n <= 0 {
		return 0
	}
	i %= n
	if i < 0 {
		i += n
	}
	return i
}

func val(k int) string { return fmt.Sprintf("%040x", uint64(uint32(k))+1) }

func inRefs(name string) bool { return strings.HasPrefix(name, "refs/") }

// listed: names the listing is required to contain. go-git's Refs() adds HEAD
// and walks refs/ and packed-refs; other pseudo-refs (ORIG_HEAD) are readable
// by name but, as with git for-each-ref / show-ref --head, are not listed.
func listed(name string) bool { return name == "HEAD" || inRefs(name) }

func isSym(v string) bool { return strings.HasPrefix(v, "ref: ") }

func vkind(v string) string {
	if isSym(v) {
		return "sym"
	}
	return "hash"
}

func mkRef(name, v string) *plumbing.Reference {
	return plumbing.NewReferenceFromStrings(name, v)
}

func refVal(r *plumbing.Reference) string {
	switch r.Type() {
	case plumbing.SymbolicReference:
		return "ref: " + r.Target().String()
	case plumbing.HashReference:
		return r.Hash().String()
	}
	return "invalid-type"
}

// dfConflict: a and b cannot both be loose files (one is a directory prefix of the other).
func dfConflict(a, b string) bool {
	return strings.HasPrefix(a, b+"/") || strings.HasPrefix(b, a+"/")
}

// ---------------------------------------------------------------- plan

type Loose struct {
	Name int `json:"name"`
	Val  int `json:"val"`
	Sym  int `json:"sym"` // >0: symbolic to targets[(Sym-1) % len]
}

type Packed struct {
	Name int `json:"name"`
	Val  int `json:"val"`
	Peel int `json:"peel"` // >0 and a tag: "^<hash>" line after the entry
}

type Op struct {
	Kind string `json:"kind"` // set setsym cas remove get list count pack
	Name int    `json:"name"`
	Val  int    `json:"val"`
	Sym  int    `json:"sym"` // setsym target; cas: >0 = the new value is symbolic
	Old  string `json:"old"` // cas: cur | stale | stalesym | nil
}

type Plan struct {
	Head    int      `json:"head"` // 0: ->refs/heads/a, 1: ->refs/heads/b, 2: detached, 3: no HEAD file
	HeadVal int      `json:"head_val"`
	Loose   []Loose  `json:"loose"`
	Packed  []Packed `json:"packed"`
	Header  int      `json:"header"` // 0: none (go-git style), 1: git header + sorted, 2: git header without "sorted", plan order
	Ops     []Op     `json:"ops"`
	// fault configuration (FaultClass == "" => fault-free)
	FaultClass string `json:"fault_class"`
	FaultNth   int    `json:"fault_nth"` // reduced modulo the number of operations of that class in the history
	FaultErrno string `json:"fault_errno"`
	FaultShort int    `json:"fault_short"`
	Git        bool   `json:"git"`
}

var opKinds = []string{"set", "setsym", "cas", "remove", "get", "list", "count", "pack"}
var faultClasses = []string{"write", "create", "rename", "remove", "open", "truncate", "read"}

func genPlan(r *core.Rand, tier string) any {
	p := &Plan{}
	switch k := r.Intn(10); {
	case k < 4:
		p.Head = 0
	case k < 7:
		p.Head = 1
	case k < 9:
		p.Head = 2
	default:
		p.Head = 3
	}
	p.HeadVal = 90 + r.Intn(5)
	exists := map[int]bool{idxHEAD: p.Head != 3} // approximate (ignores nesting conflicts); only steers name choice
	pickExisting := func(def int) int {
		var xs []int
		for i := range universe {
			if exists[i] {
				xs = append(xs, i)
			}
		}
		if len(xs) == 0 {
			return def
		}
		return xs[r.Intn(len(xs))]
	}
	nl := r.Intn(6)
	for i := 0; i < nl; i++ {
		l := Loose{Name: r.Intn(len(universe)), Val: 1 + i}
		exists[l.Name] = true
		if l.Name == 5 && r.Chance(2, 3) { // refs/remotes/origin/HEAD as clone writes it
			l.Sym = 5
		} else if r.Chance(1, 12) {
			l.Sym = 1 + r.Intn(len(targets))
		}
		p.Loose = append(p.Loose, l)
	}
	np := r.Intn(6)
	if r.Chance(1, 5) {
		np = 0
	}
	for i := 0; i < np; i++ {
		e := Packed{Name: r.Intn(7), Val: 40 + i}
		exists[e.Name] = true
		if r.Chance(2, 3) {
			e.Peel = 60 + i
		}
		p.Packed = append(p.Packed, e)
	}
	p.Header = r.Intn(3)
	n := r.Range(3, 25)
	for i := 0; i < n; i++ {
		op := Op{Name: r.Intn(len(universe)), Val: 1000 + i}
		switch k := r.Intn(100); {
		case k < 20:
			op.Kind = "set"
		case k < 29:
			op.Kind = "setsym"
			op.Sym = 1 + r.Intn(len(targets))
			if r.Chance(3, 4) {
				op.Name = r.Pick2(idxHEAD, idxHEAD, idxHEAD, idxHEAD, 5, 5, 2, idxORIG)
			}
		case k < 49:
			op.Kind = "cas"
			op.Old = r.Pick("cur", "cur", "cur", "cur", "stale", "stale", "stalesym", "nil")
			if r.Chance(1, 8) {
				op.Sym = 1 + r.Intn(len(targets))
			}
			if r.Chance(4, 5) {
				op.Name = pickExisting(op.Name)
			}
		case k < 63:
			op.Kind = "remove"
			if r.Chance(2, 3) {
				op.Name = pickExisting(op.Name)
			}
		case k < 70:
			op.Kind = "get"
		case k < 74:
			op.Kind = "list"
		case k < 78:
			op.Kind = "count"
		default:
			op.Kind = "pack"
		}
		switch op.Kind {
		case "set", "setsym", "cas":
			exists[op.Name] = true
		case "remove":
			exists[op.Name] = false
		}
		p.Ops = append(p.Ops, op)
	}
	if r.Chance(1, 4) {
		p.FaultClass = faultClasses[r.Intn(len(faultClasses))]
		p.FaultNth = r.Intn(1 << 16)
		p.FaultErrno = r.Pick("EIO", "ENOSPC")
		if p.FaultClass == "write" && r.Chance(1, 3) {
			p.FaultErrno = "SHORT"
			p.FaultShort = r.Intn(41)
		}
	}
	if tier == "thorough" {
		p.Git = r.Chance(1, 40)
	}
	return p
}

// ---------------------------------------------------------------- initial image

type imageInfo struct {
	header, peel, unsorted, shadow bool
}

func buildImage(p *Plan) (*simfs.Disk, map[string]string, imageInfo) {
	d := simfs.NewDisk()
	model := map[string]string{}
	var info imageInfo
	_ = d.WriteFile("/g/config", []byte("[core]\n\tbare = true\n"), 0o644)
	var names []string // names already in the image (D/F conflicts are never written by git)
	free := func(n string) bool {
		for _, o := range names {
			if dfConflict(n, o) {
				return false
			}
		}
		return true
	}
	switch mod(p.Head, 4) {
	case 0:
		model["HEAD"] = "ref: refs/heads/a"
	case 1:
		model["HEAD"] = "ref: refs/heads/b"
	case 2:
		model["HEAD"] = val(p.HeadVal)
	}
	if v, ok := model["HEAD"]; ok {
		_ = d.WriteFile("/g/HEAD", []byte(v+"\n"), 0o644)
	}
	for i, l := range p.Loose {
		if i >= 12 {
			break
		}
		ni := mod(l.Name, len(universe))
		if ni == idxHEAD {
			continue
		}
		n := universe[ni]
		if _, dup := model[n]; dup || !free(n) {
			continue
		}
		v := val(l.Val)
		if l.Sym > 0 && inRefs(n) {
			v = "ref: " + targets[mod(l.Sym-1, len(targets))]
		}
		if err := d.WriteFile("/g/"+n, []byte(v+"\n"), 0o644); err != nil {
			continue
		}
		model[n] = v
		names = append(names, n)
	}
	type pe struct {
		name, v, peel string
	}
	var pes []pe
	seen := map[string]bool{}
	for i, e := range p.Packed {
		if i >= 12 {
			break
		}
		n := universe[mod(e.Name, len(universe))]
		if !inRefs(n) || seen[n] || !free(n) {
			continue
		}
		seen[n] = true
		x := pe{name: n, v: val(e.Val)}
		if e.Peel > 0 && strings.HasPrefix(n, "refs/tags/") && mod(p.Header, 3) != 0 {
			// peel lines only under a git header that declares them ("peeled")
			x.peel = val(e.Peel)
			info.peel = true
		}
		pes = append(pes, x)
		names = append(names, n)
	}
	hdr := mod(p.Header, 3)
	if hdr == 1 {
		sort.Slice(pes, func(i, j int) bool { return pes[i].name < pes[j].name })
	}
	if len(pes) > 0 || hdr != 0 {
		var b strings.Builder
		switch hdr {
		case 1:
			b.WriteString("# pack-refs with: peeled fully-peeled sorted \n")
			info.header = true
		case 2:
			b.WriteString("# pack-refs with: peeled fully-peeled \n")
			info.header = true
		}
		for i, e := range pes {
			if i > 0 && pes[i-1].name > e.name {
				info.unsorted = true
			}
			b.WriteString(e.v + " " + e.name + "\n")
			if e.peel != "" {
				b.WriteString("^" + e.peel + "\n")
			}
			if _, loose := model[e.name]; loose {
				info.shadow = true // loose wins
			} else {
				model[e.name] = e.v
			}
		}
		_ = d.WriteFile("/g/packed-refs", []byte(b.String()), 0o644)
	}
	return d, model, info
}

// ---------------------------------------------------------------- helpers on the image

func packedLines(d *simfs.Disk) []string {
	b, ok := d.ReadFile("/g/packed-refs")
	if !ok {
		return nil
	}
	return strings.Split(string(b), "\n")
}

func packedHas(lines []string, name string) bool {
	for _, l := range lines {
		if strings.HasSuffix(l, " "+name) && !strings.HasPrefix(l, "#") {
			return true
		}
	}
	return false
}

// anomaly classifies on-disk states that no sequence of completed map
// operations should leave behind.
func anomaly(d *simfs.Disk, lines []string) string {
	for _, e := range d.List("/g") {
		if e.Kind != "file" || len(e.Data) != 0 {
			continue
		}
		rel := strings.TrimPrefix(e.Path, "/g/")
		if inRefs(rel) || rel == "HEAD" || rel == "ORIG_HEAD" {
			return "empty-ref-file"
		}
	}
	for _, l := range lines {
		if strings.HasPrefix(l, "ref: ") {
			return "symref-line-in-packed"
		}
	}
	return ""
}

func errKind(err error) string {
	switch {
	case err == nil:
		return "ok"
	case simfs.IsInjected(err):
		return "injected"
	case errors.Is(err, storage.ErrReferenceHasChanged):
		return "changed"
	case errors.Is(err, plumbing.ErrReferenceNotFound):
		return "notfound"
	case errors.Is(err, dotgit.ErrEmptyRefFile):
		return "empty-ref-file"
	case errors.Is(err, dotgit.ErrPackedRefsBadFormat):
		return "packed-bad-format"
	case errors.Is(err, dotgit.ErrIsDir):
		return "isdir"
	case errors.Is(err, syscall.EISDIR):
		return "EISDIR"
	case errors.Is(err, syscall.ENOTDIR):
		return "ENOTDIR"
	case errors.Is(err, syscall.ENOTEMPTY):
		return "ENOTEMPTY"
	case errors.Is(err, syscall.EDEADLK):
		return "EDEADLK"
	case errors.Is(err, os.ErrNotExist):
		return "ENOENT"
	case errors.Is(err, os.ErrExist):
		return "EEXIST"
	}
	return "other"
}

// ---------------------------------------------------------------- runner

type runner struct {
	p      *Plan
	d      *simfs.Disk
	st     *filesystem.Storage
	model  map[string]string
	out    *core.Outcome
	trace  []string
	dry    bool // count disk operations only: no verification, no judgement
	faulty bool
	fired  bool
	fclass string
	nontrv bool
	// divName: the name the last verify() divergence is about ("" = whole listing)
	divName string
}

func (r *runner) firedCount() int {
	n := 0
	for _, v := range r.d.FaultsFired {
		n += v
	}
	return n
}

func (r *runner) conflict(name string) bool {
	for n := range r.model {
		if dfConflict(n, name) {
			return true
		}
	}
	return false
}

func (r *runner) hasUnder(name string) bool {
	for n := range r.model {
		if strings.HasPrefix(n, name+"/") {
			return true
		}
	}
	return false
}

// nameClass describes where a name currently lives.
func (r *runner) nameClass(name string, lines []string) string {
	k := r.d.Lookup("/g/" + name)
	if k == "dir" && !r.hasUnder(name) {
		return "stale-empty-dir"
	}
	for p := path.Dir(name); p != "." && p != "/"; p = path.Dir(p) {
		if r.d.Lookup("/g/"+p) == "file" {
			return "parent-is-file" // e.g. a/b while a is a loose file
		}
	}
	if r.conflict(name) {
		return "nesting-conflict"
	}
	in := packedHas(lines, name)
	switch {
	case k == "file" && in:
		return "loose-shadows-packed"
	case k == "file":
		return "loose-only"
	case in:
		return "packed-only"
	}
	return "absent"
}

func (r *runner) logf(format string, a ...any) {
	if len(r.trace) < 400 {
		r.trace = append(r.trace, fmt.Sprintf(format, a...))
	}
}

// verify compares listing and individual reads with the model. It returns
// the first divergence ("" = none) and a message.
func (r *runner) verify() (string, string) {
	r.divName = ""
	st := r.st
	img := r.d
	if r.faulty {
		// read through a brand-new Storage over a copy of the image so that the
		// verifier's disk operations neither consume the fault ordinal nor are
		// hit by the fault (ReferenceStorage keeps no state besides the disk)
		img = r.d.Clone()
		st = filesystem.NewStorage(img.FS("/g", "v"), cache.NewObjectLRUDefault())
		defer st.Close()
	}
	lines := packedLines(img)
	it, err := st.IterReferences()
	if err != nil {
		return "list-error:" + errKind(err), fmt.Sprintf("IterReferences: %v", err)
	}
	got := map[string]string{}
	dup := ""
	err = it.ForEach(func(ref *plumbing.Reference) error {
		n := ref.Name().String()
		if _, ok := got[n]; ok && dup == "" {
			dup = n
		}
		got[n] = refVal(ref)
		return nil
	})
	if err != nil {
		return "list-error:" + errKind(err), fmt.Sprintf("IterReferences.ForEach: %v", err)
	}
	if dup != "" {
		return "list-duplicate-name", fmt.Sprintf("listing contains %s twice", dup)
	}
	names := make([]string, 0, len(r.model))
	for n := range r.model {
		names = append(names, n)
	}
	sort.Strings(names)
	for _, n := range names {
		want := r.model[n]
		if !listed(n) {
			if _, ok := got[n]; !ok {
				r.out.Probe("pseudo-ref-not-listed")
				continue
			}
		}
		g, ok := got[n]
		r.divName = n
		if !ok {
			return "list-missing-name:" + vkind(want), fmt.Sprintf("listing lacks %s (model: %s)", n, want)
		}
		if g != want {
			return "list-wrong-value:" + vkind(want), fmt.Sprintf("listing has %s = %s, model says %s", n, g, want)
		}
	}
	gnames := make([]string, 0, len(got))
	for n := range got {
		gnames = append(gnames, n)
	}
	sort.Strings(gnames)
	for _, n := range gnames {
		if _, ok := r.model[n]; !ok {
			r.divName = n
			return "list-extra-name:" + vkind(got[n]), fmt.Sprintf("listing has %s = %s, absent from the model", n, got[n])
		}
	}
	for _, n := range universe {
		cls := r.nameClass(n, lines)
		switch cls {
		case "packed-only":
			r.out.Probe("packed-lookup")
			r.nontrv = true
		case "loose-shadows-packed":
			r.out.Probe("loose-shadows-packed")
		}
		if dv, msg := r.checkGet(st, n); dv != "" {
			r.divName = n
			return dv, msg
		}
	}
	r.divName = ""
	return "", ""
}

func (r *runner) checkGet(st *filesystem.Storage, n string) (string, string) {
	ref, err := st.Reference(plumbing.ReferenceName(n))
	return r.compareGet(n, ref, err)
}

func (r *runner) compareGet(n string, ref *plumbing.Reference, err error) (string, string) {
	want, ok := r.model[n]
	switch {
	case err != nil && !errors.Is(err, plumbing.ErrReferenceNotFound):
		return "get-error:" + errKind(err), fmt.Sprintf("Reference(%s): %v (model: %q)", n, err, want)
	case err != nil && ok:
		return "get-not-found:" + vkind(want), fmt.Sprintf("Reference(%s): not found, model says %s", n, want)
	case err == nil && !ok:
		return "get-found-absent:" + vkind(refVal(ref)), fmt.Sprintf("Reference(%s) = %s, absent from the model", n, refVal(ref))
	case err == nil && (refVal(ref) != want || ref.Name().String() != n):
		return "get-wrong-value:" + vkind(want), fmt.Sprintf("Reference(%s) = %s %s, model says %s", n, ref.Name(), refVal(ref), want)
	}
	return "", ""
}

func (r *runner) fail(kind, div, class, format string, a ...any) {
	r.out.Fail(fmt.Sprintf("C15|%s|%s|%s", kind, div, class), format, a...)
}

// readBack reads one name from a copy of the image (fault configuration only).
// state: "found", "absent" (ErrReferenceNotFound) or "error" (anything else:
// no alternative is adopted, the verifier judges the state as it is).
func (r *runner) readBack(name string) (string, string) {
	img := r.d.Clone()
	st := filesystem.NewStorage(img.FS("/g", "v"), cache.NewObjectLRUDefault())
	defer st.Close()
	ref, err := st.Reference(plumbing.ReferenceName(name))
	switch {
	case err == nil:
		return refVal(ref), "found"
	case errors.Is(err, plumbing.ErrReferenceNotFound):
		return "", "absent"
	}
	return "", "error"
}

// step executes one operation; false = stop (a violation was recorded).
func (r *runner) step(i int, op Op) bool {
	kind := op.Kind
	known := false
	for _, k := range opKinds {
		known = known || k == kind
	}
	if !known {
		kind = "get"
	}
	name := universe[mod(op.Name, len(universe))]
	rn := plumbing.ReferenceName(name)
	lines := packedLines(r.d)
	pre := r.nameClass(name, lines)
	conflict := r.conflict(name)
	cur, has := r.model[name]
	fired0 := r.firedCount()
	looseSym := false
	for n, v := range r.model {
		if inRefs(n) && isSym(v) && r.d.Lookup("/g/"+n) == "file" {
			looseSym = true
		}
	}
	skind := kind // operation kind as it appears in signatures
	if skind == "setsym" {
		skind = "set"
	}

	var err error
	var gref *plumbing.Reference
	newVal := ""
	exp := "apply" // apply | refuse | either
	detail := name
	switch kind {
	case "set":
		newVal = val(op.Val)
		err = r.st.SetReference(mkRef(name, newVal))
	case "setsym":
		newVal = "ref: " + targets[mod(op.Sym-1, len(targets))]
		err = r.st.SetReference(mkRef(name, newVal))
		detail += " -> " + newVal
	case "cas":
		newVal = val(op.Val)
		if op.Sym > 0 {
			newVal = "ref: " + targets[mod(op.Sym-1, len(targets))]
		}
		var old *plumbing.Reference
		oldv := ""
		switch op.Old {
		case "nil":
		case "cur":
			oldv = cur
			if !has {
				oldv = val(500000 + i)
			}
		case "stalesym":
			oldv = "ref: " + targets[mod(op.Val, len(targets))]
		default:
			oldv = val(500000 + i)
		}
		if oldv != "" {
			old = mkRef(name, oldv)
			switch {
			case !has:
				// the interface documents "checks that the current stored value
				// matches old"; with no current value memory.Storage accepts and
				// filesystem refuses: both are taken as legal, but a refusal must
				// change nothing
				exp = "either"
			case cur != oldv:
				exp = "refuse"
			}
		}
		detail += fmt.Sprintf(" old=%s(%s) cur=%s exp=%s", op.Old, vkind(oldv), vkind(cur), exp)
		err = r.st.CheckAndSetReference(mkRef(name, newVal), old)
		if exp == "refuse" && err == nil && !r.dry {
			r.logf("%d cas %s -> ok", i, detail)
			r.fail("cas", "stale-old-accepted", vkind(cur)+"-current-vs-"+vkind(oldv)+"-old",
				"CheckAndSetReference(%s=%s, old=%s) returned nil although the current value is %s", name, newVal, oldv, cur)
			return false
		}
	case "remove":
		err = r.st.RemoveReference(rn)
	case "get":
		if r.dry {
			_, _ = r.st.Reference(rn)
			return true
		}
		if pre == "packed-only" {
			r.out.Probe("packed-lookup")
			r.nontrv = true
		}
		gref, err = r.st.Reference(rn)
		if err == nil {
			detail += " = " + vkind(refVal(gref))
		}
	case "list":
		var it interface {
			ForEach(func(*plumbing.Reference) error) error
		}
		it, err = r.st.IterReferences()
		if err == nil {
			err = it.ForEach(func(*plumbing.Reference) error { return nil })
		}
	case "count":
		var n int
		n, err = r.st.CountLooseRefs()
		if err == nil && !r.dry {
			files := 0
			for _, e := range r.d.List("/g/refs") {
				if e.Kind == "file" {
					files++
				}
			}
			if n != files {
				r.logf("%d count -> %d", i, n)
				r.fail("count", "wrong-count", pre, "CountLooseRefs = %d, the image has %d loose files under refs/", n, files)
				return false
			}
			if n == 0 {
				r.out.Probe("count-zero")
			} else {
				r.out.Probe("count-nonzero")
			}
		}
	case "pack":
		r.nontrv = true
		pre = "no-symref-in-refs"
		if looseSym {
			pre = "symref-in-refs"
			if !r.dry {
				r.out.Probe("pack-with-symref-in-refs")
			}
		}
		err = r.st.PackRefs()
	}

	hit := r.firedCount() > fired0
	if hit {
		r.fired = true
		if !r.dry {
			r.out.Probe("fault-fired")
			if r.out.Faults == nil {
				r.out.Faults = map[string]int{}
			}
			r.out.Faults[r.fclass+":"+r.p.FaultErrno]++
		}
	}
	r.logf("%d %s %s -> %s", i, kind, detail, errKind(err))

	// ---- model update and judgement of the call's own result
	excused := hit && err != nil
	if kind == "get" && !simfs.IsInjected(err) {
		// "not found" is an answer, not a report of the I/O failure
		excused = false
	}
	// signature components: the operation hit by the fault is classified by the
	// fault class (what diverged is coarsened to unreadable / wrong-value: torn
	// and empty files are one defect), also when the call swallowed the fault
	// and returned nil; everything else by the state class
	sigClass := func(base string) string {
		switch {
		case kind == "pack" && base == "symref-in-refs":
			// packing a symbolic ref is classified the same with or without a fault
		case excused:
			return "after-fault:" + r.fclass
		case hit:
			return "swallowed-fault:" + r.fclass
		}
		return base
	}
	sigDiv := func(dv string) string {
		if !hit || (kind == "pack" && pre == "symref-in-refs") {
			return dv
		}
		if strings.HasPrefix(dv, "list-error") || strings.HasPrefix(dv, "get-error") {
			return "unreadable"
		}
		return "wrong-value"
	}
	if excused && !r.dry {
		r.out.Probe("fault-excused")
		if !simfs.IsInjected(err) {
			r.out.Probe("fault-error-not-wrapped")
		}
	}
	if hit && err == nil && !r.dry {
		r.out.Probe("fault-swallowed")
	}
	switch kind {
	case "set", "setsym", "cas":
		switch {
		case err == nil:
			r.model[name] = newVal
			if !r.dry {
				if conflict {
					r.out.Probe("nesting-conflict-accepted")
				}
				if kind == "cas" {
					if exp == "either" {
						r.out.Probe("cas-absent-accepted")
					} else {
						r.out.Probe("cas-ok")
					}
				}
			}
		case r.dry:
		case excused:
			// no effect or full effect on the name it writes
			if exp != "refuse" {
				if v, state := r.readBack(name); state == "found" && v == newVal && (!has || cur != newVal) {
					r.model[name] = newVal
					r.out.Probe("fault-full-effect")
				}
			}
		case kind == "cas" && exp == "refuse":
			r.out.Probe("cas-changed")
			if !errors.Is(err, storage.ErrReferenceHasChanged) {
				r.out.Probe("cas-changed-other-error:" + errKind(err))
			}
		case kind == "cas" && exp == "either":
			r.out.Probe("cas-absent-refused:" + errKind(err))
		case conflict:
			r.out.Probe("nesting-conflict-refused")
		case pre == "stale-empty-dir":
			// an empty directory left behind by a removed or packed nested name
			// (a/b) occupies the path of a: the set fails cleanly and changes
			// nothing, which the statement (reads and listings) allows, like the
			// other directory/file conflicts
			r.out.Probe("stale-empty-dir-blocks-set")
		default:
			r.fail("set", "unexpected-error:"+errKind(err), sigClass(pre), "%s(%s) failed on a name free of conflicts: %v", kind, name, err)
			return false
		}
	case "remove":
		switch {
		case err == nil:
			delete(r.model, name)
			if !r.dry {
				switch pre {
				case "packed-only", "loose-shadows-packed":
					r.out.Probe("remove-packed")
				case "loose-only":
					r.out.Probe("remove-loose")
				case "absent":
					r.out.Probe("remove-missing")
				}
			}
		case r.dry:
		case excused:
			if _, state := r.readBack(name); state == "absent" && has {
				delete(r.model, name)
				r.out.Probe("fault-full-effect")
			}
		case conflict:
			r.out.Probe("nesting-conflict-refused")
		case !has:
			r.out.Probe("remove-missing-error:" + errKind(err))
		default:
			r.fail(skind, "unexpected-error:"+errKind(err), sigClass(pre), "RemoveReference(%s) failed: %v", name, err)
			return false
		}
	case "get":
		if !excused {
			// same comparison as the verifier, on the storage under test
			if dv, msg := r.compareGet(name, gref, err); dv != "" {
				r.fail("get", sigDiv(dv), sigClass(pre), "%s", msg)
				return false
			}
		}
	case "list", "count", "pack":
		if err != nil && !excused && !r.dry {
			cls := pre
			if kind != "pack" {
				cls = "plain"
				if a := anomaly(r.d, packedLines(r.d)); a != "" {
					cls = a
				}
			}
			r.fail(skind, "error:"+errKind(err), sigClass(cls), "%s failed: %v", kind, err)
			return false
		}
		if kind == "pack" && err == nil && !r.dry {
			r.out.Probe("pack-ok")
		}
	}
	if r.dry {
		return true
	}
	if dv, msg := r.verify(); dv != "" {
		cls := pre
		if r.divName != "" && (r.divName != name || kind == "pack" || kind == "list" || kind == "count") && !(kind == "pack" && pre == "symref-in-refs") {
			// the divergence is about another name than the one operated on:
			// classify by where that name lives now
			cls = r.nameClass(r.divName, packedLines(r.d))
		} else if kind != "pack" {
			if a := anomaly(r.d, packedLines(r.d)); a != "" {
				cls = a
			}
		}
		r.fail(skind, sigDiv(dv), sigClass(cls), "after step %d (%s %s -> %s): %s", i, kind, detail, errKind(err), msg)
		return false
	}
	return true
}

// run executes the whole plan. In dry mode it returns the per-class
// operation counts of the history.
func run(p *Plan, dry bool, fault *simfs.Fault, out *core.Outcome) map[simfs.OpClass]int {
	d, model, info := buildImage(p)
	r := &runner{p: p, d: d, model: model, out: out, dry: dry, faulty: fault != nil}
	r.st = filesystem.NewStorage(d.FS("/g", "t"), cache.NewObjectLRUDefault())
	defer r.st.Close()
	d.ResetCounters()
	if fault != nil {
		r.fclass = string(fault.Class)
		d.SetFaults([]simfs.Fault{*fault})
	}
	if !dry {
		if info.header {
			out.Probe("initial-packed-header")
		}
		if info.peel {
			out.Probe("initial-packed-peel")
		}
		if info.unsorted {
			out.Probe("initial-packed-unsorted")
		}
		if info.shadow {
			out.Probe("initial-loose-shadows-packed")
		}
		// step 0: the generated image itself must read back as the model
		saved := r.faulty
		r.faulty = true // never let the initial check consume fault ordinals
		dv, msg := r.verify()
		r.faulty = saved
		if dv != "" {
			cls := "initial-image"
			if r.divName != "" {
				cls = r.nameClass(r.divName, packedLines(r.d))
			}
			r.fail("init", dv, cls, "initial image: %s", msg)
		}
	}
	ops := p.Ops
	if len(ops) > 40 {
		ops = ops[:40]
	}
	if out.Signature == "" {
		for i, op := range ops {
			if !r.step(i+1, op) {
				break
			}
		}
	}
	if dry {
		return d.ClassCounts()
	}
	out.Steps = d.OpCount()
	out.Trace = r.trace
	out.LogHash = core.HashStrings(r.trace)
	out.StateHash = d.Digest("/g", nil)
	out.NonTrivial = r.nontrv
	if n := d.OpenHandleCount(); n > 0 {
		out.Probe("open-handles-at-end")
	}
	if r.faulty && !r.fired {
		out.Probe("fault-not-reached")
	}
	if out.Signature == "" && p.Git {
		if dv, cls, msg := gitOracle(d, r.model); dv != "" {
			r.fail("git", dv, cls, "%s", msg)
		}
		out.Probe("git-compared")
	}
	return nil
}

func execPlan(t *testing.T, pa any) (out core.Outcome) {
	hooks.Deterministic(true)
	p := pa.(*Plan)
	var fault *simfs.Fault
	for _, c := range faultClasses {
		if c == p.FaultClass {
			fault = &simfs.Fault{Class: simfs.OpClass(c), Errno: p.FaultErrno, Short: p.FaultShort}
		}
	}
	if fault != nil {
		switch fault.Errno {
		case "EIO", "ENOSPC":
		case "SHORT":
			if fault.Class != simfs.OpWrite {
				fault.Errno = "EIO"
			}
		default:
			fault.Errno = "EIO"
		}
		var scratch core.Outcome
		counts := run(p, true, nil, &scratch)
		n := counts[fault.Class]
		if n == 0 {
			fault = nil
			out.Probe("fault-class-never-used")
		} else {
			fault.Nth = 1 + mod(p.FaultNth, n)
		}
	}
	run(p, false, fault, &out)
	return out
}

// ---------------------------------------------------------------- git as second opinion

// chainEnd follows symbolic values from n and returns the last name of the
// chain (a hash ref or a missing name); false for loops and chains of more
// than three links.
func chainEnd(model map[string]string, n string) (string, bool) {
	cur := n
	for depth := 0; depth <= 3; depth++ {
		v, has := model[cur]
		if !has || !isSym(v) {
			return cur, true
		}
		cur = strings.TrimPrefix(v, "ref: ")
	}
	return "", false
}

func gitOracle(d *simfs.Disk, model map[string]string) (div, class, msg string) {
	dir, err := os.MkdirTemp("/var/tmp", "verif-c15-git-")
	if err != nil {
		return "", "", ""
	}
	defer os.RemoveAll(dir)
	if err := d.Export("/g", dir); err != nil {
		return "", "", ""
	}
	_ = os.MkdirAll(filepath.Join(dir, "objects"), 0o755)
	_ = os.MkdirAll(filepath.Join(dir, "refs"), 0o755)
	class = "plain"
	for a := range model {
		for b := range model {
			if dfConflict(a, b) {
				class = "nesting-conflict"
			}
		}
	}
	lines := packedLines(d)
	for i, l := range lines {
		if strings.HasPrefix(l, "^") && (i == 0 || strings.HasPrefix(lines[i-1], "#") || strings.HasPrefix(lines[i-1], "^") || !strings.Contains(lines[i-1], " refs/tags/")) {
			class = "orphan-peel-line"
		}
	}
	if _, ok := model["HEAD"]; !ok {
		// git does not recognise a directory without HEAD as a repository
		_ = os.WriteFile(filepath.Join(dir, "HEAD"), []byte("ref: refs/heads/verif-placeholder\n"), 0o644)
	}
	run := func(args ...string) (string, error) {
		cmd := exec.Command("git", append([]string{"--git-dir=" + dir}, args...)...)
		cmd.Dir = dir
		cmd.Env = []string{"GIT_CONFIG_NOSYSTEM=1", "HOME=" + dir, "LC_ALL=C", "TZ=UTC", "PATH=" + os.Getenv("PATH"), "GIT_CONFIG_GLOBAL=/dev/null"}
		o, err := cmd.CombinedOutput()
		return string(o), err
	}
	first := func(s string) string { return strings.SplitN(strings.TrimSpace(s), "\n", 2)[0] }
	o, err := run("for-each-ref", "--format=%(refname) %(objectname) %(symref)")
	if err != nil {
		k := "other"
		if strings.Contains(o, "unexpected line in") {
			k = "unexpected-packed-line"
		}
		return "for-each-ref-failed:" + k, class, fmt.Sprintf("git for-each-ref on the end image: %v: %s", err, first(o))
	}
	type gv struct{ obj, sym string }
	got := map[string]gv{}
	for _, l := range strings.Split(o, "\n") {
		f := strings.Split(strings.TrimRight(l, " "), " ")
		if len(f) < 2 || !inRefs(f[0]) {
			continue
		}
		g := gv{obj: f[1]}
		if len(f) > 2 {
			g.sym = f[2]
		}
		got[f[0]] = g
	}
	names := make([]string, 0, len(model))
	for n := range model {
		names = append(names, n)
	}
	sort.Strings(names)
	skipped := map[string]bool{}
	for _, n := range names {
		want := model[n]
		if isSym(want) {
			// git 2.39's symbolic-ref and %(symref) follow the whole chain and
			// print its last name; loops and long chains cannot be read by git
			tgt, ok := chainEnd(model, n)
			if !ok {
				skipped[n] = true
				continue
			}
			o, err := run("symbolic-ref", n)
			if err != nil || strings.TrimSpace(o) != tgt {
				return "symbolic-ref-mismatch", class, fmt.Sprintf("git symbolic-ref %s: %v %q, model says %s", n, err, first(o), tgt)
			}
			if g, ok := got[n]; ok && g.sym != tgt {
				return "for-each-ref-wrong-symref", class, fmt.Sprintf("git for-each-ref shows %s -> %q, model says %s", n, g.sym, tgt)
			}
			continue
		}
		if inRefs(n) {
			g, ok := got[n]
			if !ok {
				return "for-each-ref-missing-name", class, fmt.Sprintf("git for-each-ref lacks %s (model: %s)", n, want)
			}
			if g.obj != want || g.sym != "" {
				return "for-each-ref-wrong-value", class, fmt.Sprintf("git for-each-ref shows %s = %s %s, model says %s", n, g.obj, g.sym, want)
			}
			continue
		}
		o, err := run("rev-parse", "--verify", n)
		if err != nil || strings.TrimSpace(o) != want {
			return "rev-parse-mismatch", class, fmt.Sprintf("git rev-parse --verify %s: %v %q, model says %s", n, err, first(o), want)
		}
	}
	gnames := make([]string, 0, len(got))
	for n := range got {
		gnames = append(gnames, n)
	}
	sort.Strings(gnames)
	for _, n := range gnames {
		if _, ok := model[n]; !ok {
			return "for-each-ref-extra-name", class, fmt.Sprintf("git for-each-ref shows %s = %s, absent from the model", n, got[n].obj)
		}
	}
	return "", "", ""
}

func TestCheck(t *testing.T) {
	core.Main(t, core.Check{
		ID:    "C15",
		Level: "exploration",
		Rule: "plan = initial image (HEAD symbolic/detached/absent, <=5 loose refs incl. symbolic refs/remotes/origin/HEAD and ORIG_HEAD, <=5 packed entries with git header or none, " +
			"sorted or plan order, peel lines after tags, names shadowed by loose files) x history of 3-25 operations (set, symbolic set, check-and-set with old = current/stale hash/stale symbolic/nil, " +
			"remove, get, list, count, pack) over 9 names with a/a/b nesting; 1 plan in 4 injects one disk fault (class drawn from write/create/rename/remove/open/truncate/read, ordinal reduced modulo the history's own count of that class); " +
			"non-trivial = the history contains PackRefs or a lookup answered from packed-refs; distinct = distinct plan",
		Assumptions: []string{
			"single client, no concurrency (C16 covers interleavings), no crash (C21)",
			"HEAD is part of the listing (dotgit.Refs adds it); other pseudo-refs (ORIG_HEAD) are readable by name but not required in the listing, as with git for-each-ref",
			"CheckAndSetReference with a non-nil old on a name that has no value may either succeed (memory.Storage) or be refused (filesystem); a refusal must change nothing",
			"a set/remove on a name in directory/file conflict with an existing name (a vs a/b) may fail cleanly or behave like a map; the same holds when only an empty directory left by a removed or packed nested name occupies the path (probe stale-empty-dir-blocks-set)",
			"after an injected fault the failed call may have had no effect or its full effect on the name it writes; a call that returned nil is never excused",
			"thorough tier: git for-each-ref/symbolic-ref/rev-parse (2.39) on the exported end image, objects absent (these commands do not need them)",
		},
		Real:    []string{"filesystem.Storage reference methods", "dotgit.SetRef/setRefRwfs/checkReferenceAndTruncate", "dotgit.Ref/Refs/packedRef/processLine/walkReferencesTree", "dotgit.RemoveRef/rewritePackedRefsWithoutRef", "dotgit.PackRefs/CountLooseRefs/openAndLockPackedRefs"},
		Stub:    []string{"disk (simfs, POSIX personality, flock, one-shot faults)"},
		Runs:    map[string]int{"quick": 150000, "thorough": 1500000},
		NewPlan: func() any { return &Plan{} },
		Gen:     genPlan,
		Exec:    execPlan,
		RequiredProbes: []string{"packed-lookup", "loose-shadows-packed", "pack-ok", "pack-with-symref-in-refs", "nesting-conflict-refused", "nesting-conflict-accepted",
			"cas-ok", "cas-changed", "remove-packed", "remove-loose", "fault-fired", "fault-excused", "initial-packed-header", "initial-packed-peel", "initial-packed-unsorted"},
	})
}
