//go:build verif

// C20 — the cached index view always equals the on-disk index.
//
// A generated repository with a worktree on the simulated disk; a history of
// porcelain steps (add, rm, mv, commit, reset, checkout, restore, status, ...),
// user edits and *external* rewrites of the index file (another process,
// changing its size or mtime). One step of the history may be hit by one
// injected disk failure (enumerated over the step's operations by Expand).
// After every step the storage's Index() is compared, entry by entry, with a
// fresh decode of the bytes on the simulated disk.
package c20

import (
	"fmt"
	"sort"
	"testing"
	"time"

	"github.com/go-git/go-git/v6/storage/filesystem"
	"github.com/go-git/go-git/v6/verifsim/core"
	"github.com/go-git/go-git/v6/verifsim/hooks"
	"github.com/go-git/go-git/v6/verifsim/porc"
	"github.com/go-git/go-git/v6/verifsim/simfs"
)

type Plan struct {
	RepoSeed  uint64       `json:"repo_seed"`
	Repack    bool         `json:"repack"`
	TickMs    int          `json:"tick_ms"`
	Steps     []porc.Step  `json:"steps"`
	FaultStep int          `json:"fault_step"` // index into Steps; -1 = fault-free
	Fault     *simfs.Fault `json:"fault,omitempty"`
}

var weights = map[string]int{"edit": 5, "rmfile": 1, "add": 5, "rm": 2, "mv": 2, "commit": 3, "reset": 4, "checkout": 4, "status": 2, "extindex": 3, "restore": 2, "tick": 1, "merge": 1, "clean": 1}

func genPlan(r *core.Rand, tier string) any {
	p := &Plan{RepoSeed: r.Uint64() % 48, Repack: r.Bool(), TickMs: []int{0, 1, 1000}[r.Intn(3)], FaultStep: -1}
	if tier == "thorough" {
		p.RepoSeed = r.Uint64() % 2048
	}
	p.Steps = porc.GenSteps(r, r.Range(2, 8), weights)
	return p
}

type stepOps struct {
	step   int
	counts map[simfs.OpClass]int
}

// expand: the fault-free history, plus single-fault variants: for each go-git
// step, for each operation class it performs, failures at sampled ordinals.
func expand(t *testing.T, pa any, tier string) []any {
	p := pa.(*Plan)
	out := []any{p}
	per := dryCounts(t, p)
	r := core.NewRand(p.RepoSeed*131 + uint64(len(p.Steps)))
	type cand struct {
		step  int
		class simfs.OpClass
		nth   int
	}
	var cands []cand
	classes := []simfs.OpClass{simfs.OpWrite, simfs.OpCreate, simfs.OpOpen, simfs.OpRead, simfs.OpStat, simfs.OpRename, simfs.OpClose, simfs.OpRemove, simfs.OpReadDir, simfs.OpMkdir, simfs.OpChmod}
	for _, so := range per {
		for _, c := range classes {
			n := so.counts[c]
			for k := 1; k <= n; k++ {
				cands = append(cands, cand{so.step, c, k})
			}
		}
	}
	limit := 24
	if tier == "thorough" {
		limit = 400
	}
	if len(cands) > limit {
		// deterministic sample
		for i := len(cands) - 1; i > 0; i-- {
			j := r.Intn(i + 1)
			cands[i], cands[j] = cands[j], cands[i]
		}
		cands = cands[:limit]
		sort.Slice(cands, func(i, j int) bool {
			if cands[i].step != cands[j].step {
				return cands[i].step < cands[j].step
			}
			if cands[i].class != cands[j].class {
				return cands[i].class < cands[j].class
			}
			return cands[i].nth < cands[j].nth
		})
	}
	for _, c := range cands {
		q := *p
		q.FaultStep = c.step
		errno := "EIO"
		switch c.class {
		case simfs.OpWrite:
			errno = []string{"ENOSPC", "SHORT", "EIO"}[r.Intn(3)]
		case simfs.OpCreate, simfs.OpOpen:
			errno = []string{"EACCES", "EMFILE"}[r.Intn(2)]
		}
		q.Fault = &simfs.Fault{Class: c.class, Nth: c.nth, Errno: errno, Short: r.Intn(64)}
		out = append(out, &q)
	}
	return out
}

func dryCounts(t *testing.T, p *Plan) []stepOps {
	var per []stepOps
	q := *p
	q.FaultStep, q.Fault = -1, nil
	run(t, &q, func(i int, user bool, d *simfs.Disk) {
		if !user {
			per = append(per, stepOps{step: i, counts: d.ClassCounts()})
		}
	})
	return per
}

func execPlan(t *testing.T, pa any) core.Outcome {
	return run(t, pa.(*Plan), nil)
}

func run(t *testing.T, p *Plan, observe func(step int, user bool, d *simfs.Disk)) (out core.Outcome) {
	hooks.Deterministic(true)
	b := porc.GetBase(p.RepoSeed, p.Repack, false)
	if b.Err != nil {
		out.Inconclusive = "setup-failed"
		return out
	}
	w, err := porc.Open(b, filesystem.Options{})
	if err != nil {
		out.Inconclusive = "setup-open-failed"
		return out
	}
	d := w.Disk
	if p.TickMs > 0 {
		d.Tick = time.Duration(p.TickMs) * time.Millisecond
	}
	extSeen := false
	faultClass := "none"
	for i, s := range p.Steps {
		if i >= 12 {
			break
		}
		armed := p.Fault != nil && p.FaultStep == i
		d.ResetCounters()
		if armed {
			d.SetFaults([]simfs.Fault{*p.Fault})
		}
		err, user := w.Do(s)
		fired := 0
		for _, v := range d.FaultsFired {
			fired += v
		}
		if armed {
			d.SetFaults(nil)
			if fired > 0 {
				faultClass = string(p.Fault.Class)
				out.Faults = map[string]int{string(p.Fault.Class) + ":" + p.Fault.Errno: 1}
				if err == nil {
					out.Probe("fault-swallowed-op-returned-nil")
				} else {
					out.Probe("op-failed-after-fault")
				}
			}
		}
		if observe != nil {
			observe(i, user, d)
		}
		if s.Kind == "extindex" {
			extSeen = true
			out.Probe("external-index-rewrite")
		}
		// the comparison itself is made with faults off
		view, verr := w.Env.Storage.Index()
		disk, decodable := porc.DecodeIndexOnDisk(d)
		state := "after-" + s.Kind
		if fired > 0 {
			state += "+" + porc.ErrKind(err)
		}
		ctx := "fault:" + faultClass
		if extSeen {
			ctx += "|ext-rewrite-seen"
		}
		switch {
		case !decodable:
			out.Probe("disk-index-undecodable")
			if verr == nil {
				out.Fail(fmt.Sprintf("C20|%s|view-served-while-disk-undecodable|%s", s.Kind, ctx), "step %d (%s): Index() returned %d entries although the on-disk index does not decode", i, s.Kind, len(view.Entries))
			}
		case verr != nil:
			out.Fail(fmt.Sprintf("C20|%s|view-error-while-disk-decodable|%s", s.Kind, ctx), "step %d (%s): Index() failed (%v) although the on-disk index decodes", i, s.Kind, verr)
		case disk == nil:
			if len(view.Entries) != 0 {
				out.Fail(fmt.Sprintf("C20|%s|view-nonempty-while-disk-absent|%s", s.Kind, ctx), "step %d (%s): Index() returned %d entries although there is no index file", i, s.Kind, len(view.Entries))
			}
		default:
			vs, ds := porc.IndexString(view), porc.IndexString(disk)
			if vs != ds {
				out.Fail(fmt.Sprintf("C20|%s|view-differs-from-disk|%s|op:%s", s.Kind, ctx, okOrErr(err)), "step %d (%s, returned %s): cached Index() differs from a fresh decode of the on-disk index:\n%s", i, s.Kind, porc.ErrKind(err), firstDiff(vs, ds))
			}
		}
		if out.Signature != "" {
			break
		}
		_ = state
	}
	out.Trace = w.Trace
	out.LogHash = core.HashStrings(w.Trace)
	out.StateHash = d.Digest("/w", nil)
	out.Steps = len(p.Steps)
	out.NonTrivial = extSeen || faultClass != "none"
	_ = w.Env.Storage.Close()
	return out
}

func okOrErr(err error) string {
	if err == nil {
		return "ok"
	}
	if simfs.IsInjected(err) {
		return "failed-injected"
	}
	return "failed"
}

func firstDiff(a, b string) string {
	al, bl := splitLines(a), splitLines(b)
	for i := 0; i < len(al) || i < len(bl); i++ {
		var x, y string
		if i < len(al) {
			x = al[i]
		}
		if i < len(bl) {
			y = bl[i]
		}
		if x != y {
			return fmt.Sprintf("  view: %s\n  disk: %s", x, y)
		}
	}
	return ""
}

func splitLines(s string) []string {
	var out []string
	cur := ""
	for _, c := range s {
		if c == '\n' {
			out = append(out, cur)
			cur = ""
		} else {
			cur += string(c)
		}
	}
	return out
}

func TestCheck(t *testing.T) {
	core.Main(t, core.Check{
		ID:    "C20",
		Level: "fault_enumeration",
		Rule: "plan = generated repository x mtime tick (1ns/1ms/1s) x history of 2-8 steps (edit, add, rm, mv, commit, reset in 5 modes, checkout in 5 forms, restore, status, merge, clean, external index rewrite changing size or mtime, clock tick); " +
			"each plan runs fault-free and is expanded into single-fault variants: one failure at an ordinal of an operation class (write/create/open/read/stat/rename/close/remove/readdir/mkdir/chmod) performed by one go-git step (all (step,class,ordinal) triples in thorough up to 400, a sample of 24 in quick); " +
			"non-trivial = the history contains an external rewrite or an injected fault fired; distinct = distinct (plan, fault)",
		Assumptions: []string{"the on-disk truth is a fresh index.Decoder over the bytes in the simulated image", "external rewrites always change the file's size or advance its mtime by at least one tick (the property's scope)",
			"AddOptions{All}/AddGlob are not part of the step language because their disk-operation order follows Go map iteration (DESIGN 11.2)"},
		Real:    []string{"storage/filesystem.IndexStorage + statIndexCache", "Worktree add/remove/move/commit/reset/checkout/restore/status/clean", "Repository.Merge"},
		Stub:    []string{"disk (simfs) with fault ordinals", "clock (simfs manual clock)"},
		Runs:    map[string]int{"quick": 2400, "thorough": 30000},
		NewPlan: func() any { return &Plan{FaultStep: -1} },
		Gen:     genPlan,
		Expand:  expand,
		Exec:    execPlan,
		// "disk-index-undecodable" was required until /repo d7730d7: since the index is replaced by rename, an injected
		// write fault can no longer tear it; the branch stays for the day that regresses (a seeded change that drops the
		// error of writeIndex is still caught through it, see seeded/C20-writeindex-error-lost)
		RequiredProbes: []string{"external-index-rewrite", "op-failed-after-fault"},
	})
}
