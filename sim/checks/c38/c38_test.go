//go:build verif

// C38 — push transfers complete history and respects update rules.
//
// go-git push client (Remote.Push: refspec resolution, fast-forward, tag and
// lease checks, object selection, pack encoding, report-status handling)
// against the real go-git ReceivePack server, joined by simulated streams. One
// generated DAG; the server holds a prefix of it (optionally also an unrelated
// history the client has never seen) with its own refs, the client the whole
// of it with other refs, so that pushes are fast-forward, non-fast-forward,
// new, deletions or no-ops depending on the ancestry the model knows.
//
// Two transports (plan field Transport): "" = the stateful stream transport
// (simnet.Transport runs transport.ReceivePack over two byte streams); "http" =
// smart HTTP: the real plumbing/transport/http client (GET
// info/refs?service=git-receive-pack, then one POST carrying commands and
// pack; the response carries report-status) through an http.Client whose
// RoundTripper is simnet.HTTP to the real backend.Backend.ServeHTTP, a fresh
// Storage per request. Each request/response pair takes its stream behaviour
// from Conns[k % len]; a round can also be replaced by a transport error, a
// 4xx/5xx of an intermediary or a redirect. The oracle is the same for both:
// the server's final image is judged by the update rules whatever Push
// returned; over HTTP, a Push that reports success although fewer response
// bytes arrived than the shortest report-status is a violation.
package c38

import (
	"errors"
	"fmt"
	"net/http"
	neturl "net/url"
	"path"
	"sort"
	"strings"
	"testing"
	"testing/synctest"

	git "github.com/go-git/go-git/v6"
	"github.com/go-git/go-git/v6/backend"
	"github.com/go-git/go-git/v6/config"
	"github.com/go-git/go-git/v6/plumbing"
	"github.com/go-git/go-git/v6/plumbing/cache"
	"github.com/go-git/go-git/v6/plumbing/client"
	"github.com/go-git/go-git/v6/storage"
	"github.com/go-git/go-git/v6/storage/filesystem"
	"github.com/go-git/go-git/v6/verifsim/core"
	"github.com/go-git/go-git/v6/verifsim/gen"
	"github.com/go-git/go-git/v6/verifsim/hooks"
	"github.com/go-git/go-git/v6/verifsim/sched"
	"github.com/go-git/go-git/v6/verifsim/simfs"
	"github.com/go-git/go-git/v6/verifsim/simnet"
)

// Spec kinds.
const (
	kBranch   = 0 // local branch -> remote branch
	kDelete   = 1 // :remote branch
	kHash     = 2 // <commit hash> -> remote branch
	kWildHead = 3 // refs/heads/*:refs/heads/*
	kTag      = 4 // refs/tags/vt:refs/tags/vt
	kWildTag  = 5 // refs/tags/*:refs/tags/*
)

type Spec struct {
	Kind  int  `json:"kind"`
	Src   int  `json:"src"`
	Dst   int  `json:"dst"`
	Force bool `json:"force"` // leading +
}

type Plan struct {
	Seed      uint64           `json:"seed"`
	Commits   int              `json:"commits"`
	MergeRate int              `json:"merge_rate"`
	ChainBias int              `json:"chain_bias"`
	ServerHas int              `json:"server_has"`
	Foreign   bool             `json:"foreign"`  // server also holds an unrelated 2-commit history
	SrvRefs   []int            `json:"srv_refs"` // remoteNames[i] -> commit index (< ServerHas), -1 absent, -2 foreign tip
	SrvTag    int              `json:"srv_tag"`  // lightweight refs/tags/vt on the server: commit index or -1
	CliRefs   []int            `json:"cli_refs"` // localBranches[i] -> commit index
	Specs     []Spec           `json:"specs"`
	Force     bool             `json:"force_opt"`
	Atomic    bool             `json:"atomic"`
	Follow    bool             `json:"follow_tags"`
	Prune     bool             `json:"prune"`
	Lease     int              `json:"lease"`     // 0 none; 1 explicit hash = remote value; 2 explicit hash, other value; 3 via tracking ref = remote value; 4 via tracking ref, other value
	LeaseAll  bool             `json:"lease_all"` // lease without a ref name (protects every ref)
	LeaseDst  int              `json:"lease_dst"` // remoteNames index the lease names
	Conns     []simnet.ConnCfg `json:"conns"`
	// Transport: "" = stateful stream, "http" = smart HTTP (stateless RPC).
	Transport  string             `json:"transport,omitempty"`
	HTTPFaults []simnet.HTTPFault `json:"http_faults,omitempty"` // whole-round events (http only)
}

var remoteNames = []string{"refs/heads/main", "refs/heads/dev", "refs/heads/rel", "refs/heads/new"}
var localBranches = []string{"refs/heads/main", "refs/heads/work", "refs/heads/topic"}

const tagName = "refs/tags/vt"

func genCfg(r *core.Rand) simnet.Cfg {
	c := simnet.Cfg{Cap: r.Pick2(0, 0, 1, 64, 4096)}
	switch r.Intn(4) {
	case 0:
	case 1:
		c.Chunks = []int{1}
	default:
		n := r.Range(2, 6)
		for i := 0; i < n; i++ {
			c.Chunks = append(c.Chunks, r.Pick2(1, 2, 3, 5, 16, 100, 0))
		}
	}
	return c
}

func genPlan(r *core.Rand, tier string) any {
	p := &Plan{Seed: r.Uint64() % 100000, Commits: r.Range(2, 10), MergeRate: r.Pick2(0, 20, 40), ChainBias: r.Pick2(40, 70, 100),
		Force: r.Chance(1, 6), Atomic: r.Chance(1, 4), Follow: r.Chance(1, 4), Prune: r.Chance(1, 5), Foreign: r.Chance(1, 4), SrvTag: -1}
	p.ServerHas = r.Range(1, p.Commits)
	for range remoteNames {
		v := -1
		if r.Chance(2, 3) {
			v = r.Intn(p.ServerHas)
		}
		if p.Foreign && r.Chance(1, 4) {
			v = -2
		}
		p.SrvRefs = append(p.SrvRefs, v)
	}
	p.SrvRefs[3] = -1 // "new" never exists remotely
	if r.Chance(1, 5) {
		p.SrvTag = r.Intn(p.ServerHas)
	}
	for range localBranches {
		p.CliRefs = append(p.CliRefs, r.Intn(p.Commits))
	}
	ns := r.Range(1, 3)
	for i := 0; i < ns; i++ {
		s := Spec{Kind: r.Pick2(kBranch, kBranch, kBranch, kBranch, kDelete, kHash, kWildHead, kTag, kWildTag), Src: r.Intn(len(localBranches)), Dst: r.Intn(len(remoteNames)), Force: r.Chance(1, 4)}
		p.Specs = append(p.Specs, s)
	}
	if r.Chance(1, 4) {
		p.Lease = r.Range(1, 4)
		p.LeaseAll = r.Chance(1, 4)
		p.LeaseDst = mod(p.Specs[0].Dst, len(remoteNames))
		if r.Chance(1, 5) {
			p.LeaseDst = r.Intn(len(remoteNames))
		}
	}
	p.Conns = []simnet.ConnCfg{{C2S: genCfg(r), S2C: genCfg(r)}}
	if r.Chance(1, 6) {
		if r.Bool() {
			p.Conns[0].C2S.CutAt = int64(r.Range(1, 1500))
		} else {
			p.Conns[0].S2C.CutAt = int64(r.Range(1, 400))
		}
	}
	if r.Chance(2, 5) {
		// smart HTTP: round 0 is the info/refs GET, round 1 the POST
		p.Transport = "http"
		p.Conns = []simnet.ConnCfg{{C2S: genCfg(r), S2C: genCfg(r)}, {C2S: genCfg(r), S2C: genCfg(r)}}
		if r.Chance(1, 4) {
			switch r.Intn(7) {
			case 0, 1: // report-status lost
				p.Conns[1].S2C.CutAt = int64(r.Range(1, 200))
				p.Conns[1].S2C.CutKind = r.Intn(2)
			case 2: // commands / pack cut on their way
				p.Conns[1].C2S.CutAt = int64(r.Range(1, 1500))
			case 3: // advertisement cut
				p.Conns[0].S2C.CutAt = int64(r.Range(1, 400))
			case 4:
				p.HTTPFaults = []simnet.HTTPFault{{Round: r.Intn(2), Kind: "error"}}
			case 5:
				p.HTTPFaults = []simnet.HTTPFault{{Round: r.Intn(2), Kind: "status", Status: r.Pick2(401, 403, 404, 429, 500, 502, 503)}}
			default:
				p.HTTPFaults = []simnet.HTTPFault{{Round: r.Pick2(0, 0, 1), Kind: "redirect", Status: r.Pick2(301, 302, 307, 308)}}
			}
		}
	}
	return p
}

func mod(a, n int) int {
	if n <= 0 {
		return 0
	}
	a %= n
	if a < 0 {
		a += n
	}
	return a
}

func short(h plumbing.Hash) string {
	if h.IsZero() {
		return "absent"
	}
	return h.String()[:7]
}

// want is one reference update the request asks for, as the model sees it.
type want struct {
	dst       string
	newH      plumbing.Hash // zero = delete
	forced    bool
	leasePath bool   // resolved from a local reference (the path on which a lease is consulted)
	kind      string // new | ff | non-ff | delete | noop | delete-absent | tag-new | tag-clobber | prune-delete
}

func execPlan(t *testing.T, pa any) (out core.Outcome) {
	p := pa.(*Plan)
	hooks.Deterministic(true)
	if p.Commits < 2 {
		p.Commits = 2
	}
	if p.Commits > 30 {
		p.Commits = 30
	}
	if p.ServerHas < 1 {
		p.ServerHas = 1
	}
	if p.ServerHas > p.Commits {
		p.ServerHas = p.Commits
	}
	for len(p.SrvRefs) < len(remoteNames) {
		p.SrvRefs = append(p.SrvRefs, -1)
	}
	for len(p.CliRefs) < len(localBranches) {
		p.CliRefs = append(p.CliRefs, 0)
	}
	if len(p.Conns) == 0 {
		p.Conns = []simnet.ConnCfg{{}}
	}
	var trace []string
	logf := func(f string, a ...any) {
		if len(trace) < 200 {
			trace = append(trace, fmt.Sprintf(f, a...))
		}
	}
	opReturned := false
	dcfg := gen.DAGCfg{Commits: p.Commits, Branches: 1, MergeRate: p.MergeRate, ChainBias: p.ChainBias}

	panicked := sched.Bubble(t, func() {
		srvDisk, cliDisk := simfs.NewDisk(), simfs.NewDisk()
		srvSt := filesystem.NewStorage(srvDisk.FS("/srv/repo.git", "srv-setup"), cache.NewObjectLRUDefault())
		if _, err := git.Init(srvSt); err != nil {
			out.Inconclusive = "setup-failed"
			return
		}
		scfg := dcfg
		scfg.Commits = p.ServerHas
		if _, err := gen.BuildDAG(p.Seed, scfg, srvSt); err != nil {
			out.Inconclusive = "setup-failed"
			return
		}
		var foreign *gen.DAG
		if p.Foreign {
			f, err := gen.BuildDAG(p.Seed+7777, gen.DAGCfg{Commits: 2, ChainBias: 100}, srvSt)
			if err != nil {
				out.Inconclusive = "setup-failed"
				return
			}
			foreign = f
		}
		cliSt := filesystem.NewStorage(cliDisk.FS("/cli/repo.git", "client"), cache.NewObjectLRUDefault())
		repo, err := git.Init(cliSt)
		if err != nil {
			out.Inconclusive = "setup-failed"
			return
		}
		dag, err := gen.BuildDAG(p.Seed, dcfg, cliSt)
		if err != nil {
			out.Inconclusive = "setup-failed"
			return
		}
		before := map[string]plumbing.Hash{}
		for i, name := range remoteNames {
			ci := p.SrvRefs[i]
			var h plumbing.Hash
			switch {
			case ci == -2 && foreign != nil:
				h = foreign.Commits[1].Hash
			case ci >= 0:
				h = dag.Commits[mod(ci, p.ServerHas)].Hash
			default:
				continue
			}
			before[name] = h
			_ = srvSt.SetReference(plumbing.NewHashReference(plumbing.ReferenceName(name), h))
		}
		if p.SrvTag >= 0 {
			h := dag.Commits[mod(p.SrvTag, p.ServerHas)].Hash
			before[tagName] = h
			_ = srvSt.SetReference(plumbing.NewHashReference(tagName, h))
		}
		_ = srvSt.SetReference(plumbing.NewSymbolicReference(plumbing.HEAD, "refs/heads/main"))
		_ = srvSt.Close()
		local := map[string]plumbing.Hash{}
		for i, name := range localBranches {
			h := dag.Commits[mod(p.CliRefs[i], p.Commits)].Hash
			local[name] = h
			_ = cliSt.SetReference(plumbing.NewHashReference(plumbing.ReferenceName(name), h))
		}
		// an annotated tag on the commit of localBranches[0]
		tagCommit := local[localBranches[0]]
		tagRef, terr := repo.CreateTag("vt", tagCommit, &git.CreateTagOptions{Tagger: gen.Sig(7), Message: "t"})
		if terr != nil {
			out.Inconclusive = "setup-failed"
			return
		}
		tagHash := tagRef.Hash()
		local[tagName] = tagHash
		isHTTP := p.Transport == "http"
		var tr *simnet.Transport
		var ht *simnet.HTTP
		var copts []client.Option
		url := "sim://server/srv/repo.git"
		if isHTTP {
			// a server process per request: a fresh Storage on the server's disk
			be := backend.New(simnet.LoaderFunc(func(u *neturl.URL) (storage.Storer, error) {
				return filesystem.NewStorage(srvDisk.FS(path.Clean("/"+u.Path), "server"), cache.NewObjectLRUDefault()), nil
			}))
			ht = &simnet.HTTP{Handler: be, Conns: p.Conns, Faults: p.HTTPFaults}
			// the backend refuses receive-pack without an Authorization header
			auth := func(r *http.Request) error { r.SetBasicAuth("sim", "sim"); return nil }
			copts = []client.Option{client.WithTransport("http", simnet.NewHTTPTransport(ht, auth))}
			url = "http://server/srv/repo.git"
			defer ht.Shutdown()
		} else {
			tr = &simnet.Transport{Conns: p.Conns, Open: func(path string) (storage.Storer, error) {
				return filesystem.NewStorage(srvDisk.FS(path, "server"), cache.NewObjectLRUDefault()), nil
			}}
			copts = []client.Option{client.WithTransport("sim", tr)}
		}
		cfg, _ := repo.Config()
		cfg.Remotes["origin"] = &config.RemoteConfig{Name: "origin", URLs: []string{url}, Fetch: []config.RefSpec{"+refs/heads/*:refs/remotes/origin/*"}}
		if err := repo.SetConfig(cfg); err != nil {
			out.Inconclusive = "setup-failed"
			return
		}
		classify := func(dst string, newH plumbing.Hash) string {
			cur, exists := before[dst]
			switch {
			case newH.IsZero() && !exists:
				return "delete-absent"
			case newH.IsZero():
				return "delete"
			case strings.HasPrefix(dst, "refs/tags/") && !exists:
				return "tag-new"
			case !exists:
				return "new"
			case cur == newH:
				return "noop"
			case strings.HasPrefix(dst, "refs/tags/"):
				return "tag-clobber"
			case dag.CommitIndex(cur) >= 0 && dag.CommitIndex(newH) >= 0 && dag.IsAncestor(dag.CommitIndex(cur), dag.CommitIndex(newH)):
				return "ff"
			default:
				return "non-ff"
			}
		}
		// ---- the request and what the model says about each requested update ----
		var specs []config.RefSpec
		var wants []want
		seenDst := map[string]bool{}
		for _, s := range p.Specs {
			forced := s.Force || p.Force
			var ws []want
			spec := ""
			switch mod(s.Kind, 6) {
			case kBranch:
				lb := localBranches[mod(s.Src, len(localBranches))]
				dst := remoteNames[mod(s.Dst, len(remoteNames))]
				ws = append(ws, want{dst: dst, newH: local[lb], forced: forced, leasePath: true})
				spec = lb + ":" + dst
			case kHash:
				lb := localBranches[mod(s.Src, len(localBranches))]
				dst := remoteNames[mod(s.Dst, len(remoteNames))]
				ws = append(ws, want{dst: dst, newH: local[lb], forced: forced})
				spec = local[lb].String() + ":" + dst
			case kDelete:
				dst := remoteNames[mod(s.Dst, len(remoteNames))]
				ws = append(ws, want{dst: dst, forced: true})
				spec = ":" + dst
			case kWildHead:
				for _, lb := range localBranches {
					ws = append(ws, want{dst: lb, newH: local[lb], forced: forced, leasePath: true})
				}
				if p.Prune {
					for _, rn := range remoteNames {
						if _, onServer := before[rn]; onServer {
							if _, haveLocal := local[rn]; !haveLocal {
								ws = append(ws, want{dst: rn, forced: true, kind: "prune-delete"})
							}
						}
					}
				}
				spec = "refs/heads/*:refs/heads/*"
			case kTag:
				ws = append(ws, want{dst: tagName, newH: tagHash, forced: forced, leasePath: true})
				spec = tagName + ":" + tagName
			case kWildTag:
				ws = append(ws, want{dst: tagName, newH: tagHash, forced: forced, leasePath: true})
				spec = "refs/tags/*:refs/tags/*"
			}
			clash := false
			for _, w := range ws {
				if seenDst[w.dst] {
					clash = true
				}
			}
			if clash {
				continue
			}
			if s.Force && mod(s.Kind, 6) != kDelete {
				spec = "+" + spec
			}
			specs = append(specs, config.RefSpec(spec))
			for _, w := range ws {
				seenDst[w.dst] = true
				if w.kind == "" {
					w.kind = classify(w.dst, w.newH)
				}
				wants = append(wants, w)
				out.Probe("requested:" + w.kind)
			}
		}
		if len(specs) == 0 {
			out.Inconclusive = "empty-request"
			return
		}
		o := &git.PushOptions{RemoteName: "origin", RefSpecs: specs, ClientOptions: copts,
			Force: p.Force, Atomic: p.Atomic, FollowTags: p.Follow, Prune: p.Prune}
		// ---- lease ----
		leaseDst := remoteNames[mod(p.LeaseDst, len(remoteNames))]
		var leaseExpected plumbing.Hash
		if p.Lease > 0 {
			other := dag.Commits[0].Hash
			if other == before[leaseDst] {
				other = dag.Commits[1].Hash
			}
			fl := &git.ForceWithLease{RefName: plumbing.ReferenceName(leaseDst)}
			if p.LeaseAll {
				fl.RefName = ""
			}
			tracking := other
			switch p.Lease {
			case 1:
				fl.Hash = before[leaseDst] // zero when absent: falls back to the tracking ref
			case 2:
				fl.Hash = other
			case 3:
				if h, ok := before[leaseDst]; ok {
					tracking = h
				}
			}
			leaseExpected = fl.Hash
			if leaseExpected.IsZero() {
				leaseExpected = tracking
			}
			for _, lb := range localBranches {
				tn := "refs/remotes/origin/" + strings.TrimPrefix(lb, "refs/heads/")
				_ = cliSt.SetReference(plumbing.NewHashReference(plumbing.ReferenceName(tn), tracking))
			}
			o.ForceWithLease = fl
		}
		covered := func(w want) bool {
			return p.Lease > 0 && (p.LeaseAll || w.dst == leaseDst)
		}
		for _, w := range wants {
			if covered(w) && w.kind != "noop" && w.kind != "delete-absent" {
				out.Probe(fmt.Sprintf("lease-covers:%v", leaseExpected == before[w.dst]))
			}
		}
		opErr := repo.Push(o)
		opReturned = true
		var st simnet.Stats
		if isHTTP {
			// the handler of the last round may still be at work after the client
			// returned: let it run until it has finished (or is blocked for good)
			synctest.Wait()
			st = ht.Totals()
		} else {
			st = tr.Totals()
		}
		faultInjected := st.Cut
		upToDate := errors.Is(opErr, git.NoErrAlreadyUpToDate)
		success := opErr == nil || upToDate
		logf("push %v force=%v atomic=%v follow=%v prune=%v lease=%d/%v/%s -> %s (cut %v)", specs, p.Force, p.Atomic, p.Follow, p.Prune, p.Lease, p.LeaseAll, leaseDst, errStr(opErr), st.Cut)
		out.ProbeN("split-writes", st.SplitWrites)
		if st.Cut {
			out.Faults = map[string]int{"stream-cut": 1}
		}
		if isHTTP {
			ht.Shutdown() // every handler has returned: the server image is final
			if out.Faults == nil {
				out.Faults = map[string]int{}
			}
			posted, respCut, respBytes := false, false, int64(0)
			for _, r := range ht.RoundsFrom(0) {
				logf("  %s", r.Describe())
				switch r.Fault {
				case "error":
					out.Faults["http-round-error"]++
					faultInjected = true
				case "status":
					out.Faults["http-status"]++
					faultInjected = true
				case "redirect":
					out.Faults["http-redirect"]++
					if r.Method == "GET" {
						out.Probe("http-discovery-redirected")
					} else {
						faultInjected = true // only the discovery request may be redirected
					}
				}
				if r.Lost {
					faultInjected = true
				}
				if r.Panic != "" {
					out.Fail("C38|http|server-handler-panic", "the server's HTTP handler panicked (%s %s): %.200s", r.Method, r.Path, r.Panic)
				}
				if r.Method == "POST" && r.Fault == "" {
					posted = true
					if r.Lost {
						out.Probe("http-push-request-cut")
					}
					if r.RespCut() {
						respCut, respBytes = true, r.RespBytes()
					}
				}
			}
			if len(out.Faults) == 0 {
				out.Faults = nil
			}
			if posted {
				out.Probe("http-push-posted")
			}
			if success && posted {
				out.Probe("http-push")
			}
			if respCut {
				// report-status lost (in part): the server's image is judged by the
				// rules below whatever Push returned
				out.Probe("http-push-response-cut")
				if success {
					out.Probe("http-push-response-cut:push-returned-ok")
					// "000eunpack ok\n" alone is 14 bytes; no complete report fits in less
					if respBytes < 14 {
						out.Fail("C38|http|success-without-report-status", "the response to the push was cut after %d bytes, before any report-status could have arrived, yet Push returned %s", respBytes, errStr(opErr))
					}
				} else {
					out.Probe("http-push-response-cut:error-returned")
				}
			}
		} else {
			tr.Wait()
		}
		// ---- server image ----
		vst := filesystem.NewStorage(srvDisk.Clone().FS("/srv/repo.git", "verify"), cache.NewObjectLRUDefault())
		defer vst.Close()
		after := map[string]plumbing.Hash{}
		it, err := vst.IterReferences()
		if err != nil {
			out.Fail("C38|server-refs-unlistable", "server IterReferences after push: %v", err)
			return
		}
		_ = it.ForEach(func(r *plumbing.Reference) error {
			if r.Type() == plumbing.HashReference {
				after[r.Name().String()] = r.Hash()
			}
			return nil
		})
		// always: every server ref names complete history
		an := make([]string, 0, len(after))
		for n := range after {
			an = append(an, n)
		}
		sort.Strings(an)
		for _, n := range an {
			h := after[n]
			d := dag
			roots := []plumbing.Hash{h}
			if h == tagHash {
				if vst.HasEncodedObject(h) != nil {
					out.Fail("C38|missing-object:tag|"+okfail(opErr), "server %s = tag object %s which it does not have", n, short(h))
					return
				}
				roots = []plumbing.Hash{tagCommit}
			} else if dag.CommitIndex(h) < 0 {
				if foreign == nil || foreign.CommitIndex(h) < 0 {
					out.Fail("C38|ref-names-unknown-object|"+okfail(opErr), "server %s = %s, which neither side ever had as a commit", n, short(h))
					return
				}
				d = foreign
			}
			for o := range d.Closure(roots, nil) {
				if vst.HasEncodedObject(o) != nil {
					out.Fail(fmt.Sprintf("C38|missing-object:%s|%s", d.Objects[o], okfail(opErr)), "server ref %s = %s but object %s (%s) reachable from it is missing", n, short(h), o, d.Objects[o])
					return
				}
			}
		}
		// always (success or failure): update rules on whatever changed
		changed := 0
		for _, w := range wants {
			got, was := after[w.dst], before[w.dst]
			if got == was {
				continue
			}
			changed++
			switch {
			case got != w.newH:
				out.Fail("C38|"+w.kind+"|ref-changed-to-unrequested-value", "%s changed from %s to %s; requested %s", w.dst, short(was), short(got), short(w.newH))
				return
			case covered(w) && leaseExpected != was:
				out.Fail("C38|"+w.kind+"|applied-despite-lease-mismatch", "%s (was %s) is covered by a lease expecting %s, yet it was updated to %s", w.dst, short(was), short(leaseExpected), short(got))
				return
			case (w.kind == "non-ff" || w.kind == "tag-clobber") && !w.forced && !covered(w):
				why := "without + / Force / a lease covering it"
				if p.Lease > 0 {
					why = "without + or Force; the lease names " + leaseDst + " only"
				}
				out.Fail("C38|"+w.kind+"|applied-without-force", "%s moved from %s to %s, which does not descend from it, %s", w.dst, short(was), short(got), why)
				return
			}
			out.Probe("applied:" + w.kind)
		}
		// refs nobody asked to change
		for _, n := range an {
			if seenDst[n] || after[n] == before[n] {
				continue
			}
			if n == tagName && p.Follow && before[n].IsZero() && after[n] == tagHash {
				out.Probe("applied:followed-tag")
				changed++
				continue
			}
			out.Fail("C38|unrequested-ref-changed", "%s changed from %s to %s although no refspec names it", n, short(before[n]), short(after[n]))
			return
		}
		bn := make([]string, 0, len(before))
		for n := range before {
			bn = append(bn, n)
		}
		sort.Strings(bn)
		for _, n := range bn {
			if _, still := after[n]; !still && !seenDst[n] {
				out.Fail("C38|unrequested-ref-deleted", "%s (%s) was deleted although no refspec names it", n, short(before[n]))
				return
			}
		}
		{
			var sl []string
			for _, n := range an {
				sl = append(sl, n+"="+after[n].String())
			}
			out.StateHash = core.HashStrings(append(sl, fmt.Sprint(success)))
		}
		if !success {
			out.Probe("push-error:" + errClass(opErr))
			if !faultInjected {
				switch c := errClass(opErr); c {
				case "http-status", "broken-pipe", "connection-reset", "connection-refused", "redirect", "EOF", "closed":
					// nothing was cut, no round was replaced: the wire cannot be the reason
					out.Fail("C38|transport-error-without-fault|"+c, "Push failed with a transport-level error although no fault was injected: %v", opErr)
					return
				}
			}
			if p.Atomic && changed > 0 {
				// go-git's server does not advertise the atomic capability and the
				// client then drops the request silently (git would refuse to push);
				// with no atomic peer in the simulation there is nothing to judge.
				out.Probe("atomic-requested-but-unsupported:partially-applied")
			}
			if changed > 0 {
				out.Probe("failed-push-applied-some")
			}
			return
		}
		// success: exactly the requested updates are in place
		for _, w := range wants {
			got := after[w.dst]
			if got != w.newH {
				out.Fail("C38|"+w.kind+"|not-applied-after-success", "push returned %s but %s is %s, requested %s", errStr(opErr), w.dst, short(got), short(w.newH))
				return
			}
		}
		if p.Follow && before[tagName].IsZero() && !seenDst[tagName] {
			reach := false
			for _, w := range wants {
				if !w.newH.IsZero() && w.kind != "noop" && !strings.HasPrefix(w.dst, "refs/tags/") {
					a, b := dag.CommitIndex(tagCommit), dag.CommitIndex(w.newH)
					if a >= 0 && b >= 0 && dag.IsAncestor(a, b) {
						reach = true
					}
				}
			}
			if reach && after[tagName] != tagHash {
				out.Fail("C38|follow-tags|reachable-tag-not-pushed", "FollowTags: annotated tag vt on %s is reachable from a pushed reference and missing on the remote, yet was not pushed", short(tagCommit))
				return
			}
		}
		out.Probe("ok")
	})
	out.Trace = trace
	out.LogHash = core.HashStrings(trace)
	out.NonTrivial = out.Probes["requested:non-ff"] > 0 || out.Probes["requested:delete"] > 0 || len(out.Faults) > 0 || out.Probes["split-writes"] > 0
	if panicked != nil {
		msg := fmt.Sprint(panicked)
		switch {
		case strings.Contains(msg, "deadlock") && opReturned:
			out.Probe("goroutines-left-blocked-after-return")
		case strings.Contains(msg, "deadlock"):
			out.Signature, out.Message = "", ""
			out.Fail("C38|deadlock", "client and server are both blocked: the push does not terminate")
		default:
			out.Signature, out.Message = "", ""
			out.Fail("C38|panic", "panic: %.80s", msg)
		}
	}
	return out
}

func okfail(err error) string {
	if err == nil || errors.Is(err, git.NoErrAlreadyUpToDate) {
		return "after-success"
	}
	return "after-failure"
}

func errStr(err error) string {
	if err == nil {
		return "ok"
	}
	s := err.Error()
	if len(s) > 80 {
		s = s[:80]
	}
	return s
}

func errClass(err error) string {
	s := err.Error()
	if strings.Contains(s, "status code") || strings.Contains(s, "unexpected status") {
		return "http-status"
	}
	for _, k := range []string{"non-fast-forward", "tag already exists", "already up-to-date", "failed to update ref", "get commit", "broken pipe", "connection reset", "connection refused", "redirect", "EOF", "reference not found", "unpack", "closed"} {
		if strings.Contains(s, k) {
			return strings.ReplaceAll(k, " ", "-")
		}
	}
	return "other"
}

func TestCheck(t *testing.T) {
	core.Main(t, core.Check{
		ID:    "C38",
		Level: "exploration",
		Rule: "plan = generated DAG (2-10 commits, merges) of which the server holds a prefix (optionally also an unrelated history) with up to 3 branch refs and optionally a lightweight tag, the client the whole with 3 local branches and an annotated tag x 1-3 refspecs (branch, commit hash, delete, refs/heads/* and refs/tags/* wildcards, tag; optionally forced with +) x Force / Atomic / FollowTags / Prune / force-with-lease (named ref or all refs; explicit hash or tracking ref; matching or not) x transport: stateful stream (3/5 of the plans) or smart HTTP (2/5: real HTTP client and backend.Backend; round 0 = info/refs?service=git-receive-pack, round 1 = the POST, each with its own stream behaviour) x stream behaviour (capacity, segmentation, optional cut of either direction; over HTTP also: advertisement cut, commands/pack cut, report-status cut, a round replaced by a transport error or a 4xx/5xx, a redirect of the discovery or of the POST); each requested update is classified by the model's own ancestry relation (new, ff, non-ff, delete, noop, tag-new, tag-clobber, prune-delete); " +
			"non-trivial = a non-fast-forward or a deletion was requested, a Write was split, or a cut fired",
		Assumptions: []string{"both peers are go-git (real git as a peer is not simulated)",
			"HTTP: of net/http's server only the request-body contract is modelled; a cut response body surfaces as a read error, never as a clean EOF; a cut of the request direction loses the whole round; the backend's receive-pack wants an Authorization header, the client sends basic credentials; TLS, auth challenges, proxies are not explored",
			"a Push that fails with a transport-level error (status, reset, EOF, refused, redirect) although no fault was injected is a violation; over HTTP so is a Push that reports success although fewer response bytes arrived than the shortest report-status",
			"whatever the outcome: a remote ref may only change to the requested value; a non-fast-forward or tag overwrite only when forced or covered by a lease; a ref covered by a lease only when its remote value equals the lease's expectation; every remote ref names complete history; after success every requested update is in place and a reachable annotated tag was followed"},
		Real: []string{"Remote.Push", "refspec resolution, fast-forward, tag and lease checks", "revlist.Objects", "packfile encoder", "transport.ReceivePack", "plumbing/transport/http (Handshake for git-receive-pack, smartPackSession.Push, httpRequester POST, report-status decoding, redirect policy)", "backend.Backend.ServeHTTP (info/refs advertisement, stateless-rpc ReceivePack on a fresh Storage per request, Authorization requirement)", "storage/filesystem on both sides"},
		Stub: []string{"network (simnet streams; simnet.HTTP RoundTripper + ResponseWriter instead of sockets and net/http's server)", "both disks (simfs)"},
		// Atomic: go-git's receive-pack does not advertise the capability, so the option is a no-op against it (probe only).
		Runs:    map[string]int{"quick": 16000, "thorough": 500000},
		NewPlan: func() any { return &Plan{} },
		Gen:     genPlan,
		Exec:    execPlan,
		RequiredProbes: []string{"ok", "applied:ff", "applied:new", "applied:non-ff", "applied:delete", "applied:tag-new", "applied:prune-delete", "requested:non-ff", "requested:tag-clobber", "lease-covers:true", "lease-covers:false", "applied:followed-tag",
			"http-push", "http-push-response-cut", "http-push-request-cut", "http-discovery-redirected", "push-error:http-status"},
	})
}
