//go:build verif

// C39 — the receive-pack server applies only consistent ref updates.
//
// Real: transport.ReceivePack (advertisement, update-request decoding, pack
// ingestion, updateReferences, report-status) on a filesystem storage over the
// simulated disk. Clients are scripted: each connection sends a crafted
// update-request (create / update / delete, with current, stale or bogus old
// values, new ids that are in the pack, already in the store, or nowhere) and
// the matching pack over simulated streams, and reads the report-status.
// Several clients push one after another to the same server, each basing its
// old values on the advertisement it read — so later clients' information can
// be stale — or, in the concurrent configuration, two clients are interleaved
// by the seeded scheduler at every server-side disk operation.
//
// Model: map ref -> hash with per-command compare-and-swap on the SENT old
// value; an update whose new object is missing must be refused.
package c39

import (
	"bufio"
	"bytes"
	"context"
	"fmt"
	"github.com/anishathalye/porcupine"
	"io"
	"net/url"
	"sort"
	"strings"
	"testing"
	"time"

	git "github.com/go-git/go-git/v6"
	"github.com/go-git/go-git/v6/plumbing"
	"github.com/go-git/go-git/v6/plumbing/cache"
	"github.com/go-git/go-git/v6/plumbing/format/packfile"
	"github.com/go-git/go-git/v6/plumbing/format/pktline"
	"github.com/go-git/go-git/v6/plumbing/protocol/capability"
	"github.com/go-git/go-git/v6/plumbing/protocol/packp"
	"github.com/go-git/go-git/v6/plumbing/transport"
	"github.com/go-git/go-git/v6/storage"
	"github.com/go-git/go-git/v6/storage/filesystem"
	"github.com/go-git/go-git/v6/storage/memory"
	"github.com/go-git/go-git/v6/verifsim/core"
	"github.com/go-git/go-git/v6/verifsim/gen"
	"github.com/go-git/go-git/v6/verifsim/hooks"
	"github.com/go-git/go-git/v6/verifsim/sched"
	"github.com/go-git/go-git/v6/verifsim/simfs"
	"github.com/go-git/go-git/v6/verifsim/simnet"
)

type Cmd struct {
	Ref  int `json:"ref"`  // index into refNames
	Kind int `json:"kind"` // 0 update, 1 create, 2 delete
	Old  int `json:"old"`  // 0 = what this client believes (advertised), 1 = a different commit (stale/bogus), 2 = zero
	New  int `json:"new"`  // commit index in the full DAG; -1 = an id that exists nowhere
}

type Push struct {
	Cmds     []Cmd `json:"cmds"`
	ReadAdv  bool  `json:"read_adv"` // false: reuse the advertisement an earlier client saw (stale knowledge)
	PackAll  bool  `json:"pack_all"` // send objects for every New (else: send nothing but an empty pack)
	Sideband bool  `json:"sideband"`
}

type Plan struct {
	Seed       uint64           `json:"seed"`
	Commits    int              `json:"commits"`
	ServerHas  int              `json:"server_has"` // server stores the first k commits
	Pushes     []Push           `json:"pushes"`
	Conns      []simnet.ConnCfg `json:"conns"`
	Concurrent bool             `json:"concurrent"`
	Packed     bool             `json:"packed"` // the server's references live in packed-refs only (state after pack-refs / gc)
	Sched      sched.Schedule   `json:"sched"`
}

var refNames = []string{"refs/heads/main", "refs/heads/dev", "refs/heads/topic", "refs/tags/v1"}

func genPlan(r *core.Rand, tier string) any {
	p := &Plan{Seed: r.Uint64() % 5000, Commits: r.Range(3, 9), Packed: r.Chance(1, 3)}
	p.ServerHas = r.Range(1, p.Commits)
	np := r.Range(1, 3)
	for i := 0; i < np; i++ {
		ps := Push{ReadAdv: i == 0 || r.Chance(2, 3), PackAll: r.Chance(4, 5), Sideband: r.Bool()}
		nc := r.Range(1, 3)
		used := map[int]bool{}
		for j := 0; j < nc; j++ {
			ref := r.Intn(len(refNames))
			if used[ref] {
				continue
			}
			used[ref] = true
			c := Cmd{Ref: ref, Kind: r.Pick2(0, 0, 0, 1, 2), Old: r.Pick2(0, 0, 0, 1, 2), New: r.Intn(p.Commits)}
			if r.Chance(1, 10) {
				c.New = -1
			}
			ps.Cmds = append(ps.Cmds, c)
		}
		if len(ps.Cmds) == 0 {
			ps.Cmds = []Cmd{{Ref: 0, New: r.Intn(p.Commits)}}
		}
		p.Pushes = append(p.Pushes, ps)
	}
	p.Conns = []simnet.ConnCfg{{}}
	if r.Chance(1, 3) {
		p.Conns = []simnet.ConnCfg{{C2S: simnet.Cfg{Chunks: []int{r.Range(1, 9)}}, S2C: simnet.Cfg{Chunks: []int{r.Range(1, 9)}, Cap: r.Pick2(0, 1, 64)}}}
	}
	if len(p.Pushes) >= 2 && r.Chance(1, 3) {
		p.Concurrent = true
		if r.Bool() {
			// a duel: every push updates the same existing reference from the value it was advertised
			ref := r.Pick2(0, 2)
			for i := range p.Pushes {
				p.Pushes[i].ReadAdv = true
				p.Pushes[i].Cmds = []Cmd{{Ref: ref, Kind: 0, Old: 0, New: r.Intn(p.Commits)}}
			}
		}
		if r.Bool() {
			// random walk: the clients advance in near lock-step, so that their
			// check-then-write windows overlap
			n := r.Range(200, 2500)
			for i := 0; i < n; i++ {
				p.Sched.Uniform = append(p.Sched.Uniform, r.Intn(4))
			}
		}
		n := r.Range(0, 6)
		for i := 0; i < n; i++ {
			p.Sched.Preempts = append(p.Sched.Preempts, sched.Preempt{At: r.Intn(300), Pick: r.Intn(4)})
		}
		for i := 0; i < 6; i++ {
			p.Sched.Fallback = append(p.Sched.Fallback, r.Intn(4))
		}
	}
	return p
}

type sentCmd struct {
	name     string
	old, new plumbing.Hash
	newKnown bool // the server will have the object (already stored or in the pack)
}

type pushResult struct {
	call, ret int64
	sent      []sentCmd
	status    map[string]string // ref -> "ok" | reason
	unpack    string
	err       error
}

func execPlan(t *testing.T, pa any) (out core.Outcome) {
	p := pa.(*Plan)
	hooks.Deterministic(true)
	if p.Commits < 2 {
		p.Commits = 2
	}
	if p.Commits > 20 {
		p.Commits = 20
	}
	if p.ServerHas < 1 {
		p.ServerHas = 1
	}
	if p.ServerHas > p.Commits {
		p.ServerHas = p.Commits
	}
	var trace []string
	logf := func(f string, a ...any) {
		if len(trace) < 300 {
			trace = append(trace, fmt.Sprintf(f, a...))
		}
	}
	cfg := gen.DAGCfg{Commits: p.Commits, Branches: 1, MergeRate: 20, ChainBias: 60}
	// the client side knows the whole history (in memory)
	cliSt := memory.NewStorage()
	full, err := gen.BuildDAG(p.Seed, cfg, cliSt)
	if err != nil {
		out.Inconclusive = "setup-failed"
		return out
	}
	bogus := plumbing.NewHash("deadbeefdeadbeefdeadbeefdeadbeefdeadbeef")
	var results []*pushResult
	var srvDisk *simfs.Disk
	model := map[string]plumbing.Hash{}
	var initial map[string]plumbing.Hash

	run := func(useDriver bool) {
		srvDisk = simfs.NewDisk()
		srvSt := filesystem.NewStorage(srvDisk.FS("/srv/repo.git", "setup"), cache.NewObjectLRUDefault())
		if _, err := git.Init(srvSt); err != nil {
			out.Inconclusive = "setup-failed"
			return
		}
		scfg := cfg
		scfg.Commits = p.ServerHas
		if _, err := gen.BuildDAG(p.Seed, scfg, srvSt); err != nil {
			out.Inconclusive = "setup-failed"
			return
		}
		// initial refs: main and topic exist, dev and the tag do not
		model["refs/heads/main"] = full.Commits[p.ServerHas-1].Hash
		model["refs/heads/topic"] = full.Commits[0].Hash
		for n, h := range model {
			_ = srvSt.SetReference(plumbing.NewHashReference(plumbing.ReferenceName(n), h))
		}
		if p.Packed {
			if err := srvSt.PackRefs(); err != nil {
				out.Inconclusive = "setup-failed"
				return
			}
			out.Probe("server-refs-packed")
		}
		_ = srvSt.Close()
		initial = map[string]plumbing.Hash{}
		for k, v := range model {
			initial[k] = v
		}
		nconn := 0
		tr := &simnet.Transport{Conns: p.Conns, Open: func(path string) (storage.Storer, error) {
			nconn++
			return filesystem.NewStorage(srvDisk.FS(path, fmt.Sprintf("srv%d", nconn)), cache.NewObjectLRUDefault()), nil
		}}
		lastAdv := map[string]plumbing.Hash{}
		for k, v := range model {
			lastAdv[k] = v
		}
		delivered := map[int]bool{} // commits whose objects an earlier push already sent
		var clock int64
		tick := func() int64 { clock++; return clock }
		doPush := func(i int, ps Push) *pushResult {
			res := &pushResult{status: map[string]string{}, call: tick()}
			defer func() { res.ret = tick() }()
			u, _ := url.Parse("sim://server/srv/repo.git")
			conn, err := tr.Connect(context.Background(), &transport.Request{URL: u, Command: transport.ReceivePackService})
			if err != nil {
				res.err = err
				return res
			}
			defer conn.Close()
			rd := bufio.NewReader(conn.Reader())
			ar := &packp.AdvRefs{}
			if err := ar.Decode(rd); err != nil {
				res.err = fmt.Errorf("decoding advertisement: %w", err)
				return res
			}
			adv := map[string]plumbing.Hash{}
			for _, ref := range ar.References {
				if ref.Type() == plumbing.HashReference {
					adv[ref.Name().String()] = ref.Hash()
				}
			}
			believed := adv
			if !ps.ReadAdv {
				believed = lastAdv // stale knowledge from an earlier connection
			} else {
				lastAdv = adv
			}
			req := &packp.UpdateRequests{}
			req.Capabilities.Set(capability.ReportStatus)
			if ps.Sideband {
				req.Capabilities.Set(capability.Sideband64k)
			}
			var packObjs []plumbing.Hash
			usedName := map[string]bool{}
			for _, c := range ps.Cmds {
				name := refNames[mod(c.Ref, len(refNames))]
				if usedName[name] {
					continue // duplicate names inside one request are not part of the workload
				}
				usedName[name] = true
				var old, nw plumbing.Hash
				switch mod(c.Old, 3) {
				case 0:
					old = believed[name]
				case 1:
					old = full.Commits[mod(c.New+1, len(full.Commits))].Hash
				}
				known := true
				if c.New < 0 {
					nw, known = bogus, false
				} else {
					nw = full.Commits[mod(c.New, len(full.Commits))].Hash
				}
				switch mod(c.Kind, 3) {
				case 1:
					old = plumbing.ZeroHash
				case 2:
					nw = plumbing.ZeroHash
					if old.IsZero() {
						old = full.Commits[0].Hash
					}
				default:
					if old.IsZero() {
						old = full.Commits[0].Hash // an update must carry a non-zero old
					}
				}
				if !nw.IsZero() && known {
					if ps.PackAll {
						for o := range full.Closure([]plumbing.Hash{nw}, nil) {
							packObjs = append(packObjs, o)
						}
					} else if ci := mod(c.New, len(full.Commits)); ci >= p.ServerHas && !delivered[ci] {
						known = false // not sent now, not sent earlier, and not on the server
					}
					if ps.PackAll {
						// everything reachable from it is in this pack
						for cj := range full.Commits {
							if full.IsAncestor(cj, mod(c.New, len(full.Commits))) {
								delivered[cj] = true
							}
						}
					}
				}
				req.Commands = append(req.Commands, &packp.Command{Name: plumbing.ReferenceName(name), Old: old, New: nw})
				res.sent = append(res.sent, sentCmd{name: name, old: old, new: nw, newKnown: known})
			}
			w := conn.Writer()
			if err := req.Encode(w); err != nil {
				res.err = fmt.Errorf("encoding update-request: %w", err)
				return res
			}
			needPack := false
			for _, s := range res.sent {
				if !s.new.IsZero() {
					needPack = true
				}
			}
			if needPack {
				sort.Slice(packObjs, func(a, b int) bool { return packObjs[a].String() < packObjs[b].String() })
				var buf bytes.Buffer
				enc := packfile.NewEncoder(&buf, cliSt, false)
				if _, err := enc.Encode(dedup(packObjs), 0); err != nil {
					res.err = fmt.Errorf("encoding pack: %w", err)
					return res
				}
				if _, err := w.Write(buf.Bytes()); err != nil {
					res.err = err
					return res
				}
			}
			_ = w.Close()
			var rsr io.Reader = rd
			if ps.Sideband {
				rsr = demux(rd)
			}
			rs := &packp.ReportStatus{}
			if err := rs.Decode(rsr); err != nil {
				res.err = fmt.Errorf("decoding report-status: %w", err)
				return res
			}
			res.unpack = rs.UnpackStatus
			for _, cs := range rs.CommandStatuses {
				res.status[cs.ReferenceName.String()] = cs.Status
			}
			return res
		}
		results = make([]*pushResult, len(p.Pushes))
		if useDriver {
			drv := sched.New(p.Sched)
			drv.MaxSteps = 30000
			hooks.Install(drv)
			defer hooks.Uninstall()
			srvDisk.Sched = drv
			tr.Drv = drv
			var tasks []sched.Task
			for i, ps := range p.Pushes {
				if i >= 3 {
					break
				}
				i, ps := i, ps
				ps.ReadAdv = true
				tasks = append(tasks, sched.Task{Name: fmt.Sprintf("client%d", i), Fn: func() { results[i] = doPush(i, ps) }})
			}
			drv.Run(tasks)
			lastDrvTrace = drv.Trace
			srvDisk.Sched = nil
			out.Steps = drv.Steps
			out.SchedHash = drv.SchedHash()
			out.ProbeN("context-switches", drv.Switches)
			if drv.Aborted != "" {
				out.Inconclusive = drv.Aborted
			}
			for name, pv := range drv.TaskPanic {
				out.Fail("C39|panic", "task %s: %v", name, pv)
			}
		} else {
			for i, ps := range p.Pushes {
				if i >= 4 {
					break
				}
				results[i] = doPush(i, ps)
				tr.Wait()
			}
		}
	}
	panicked := sched.Bubble(t, func() { run(p.Concurrent) })
	if panicked != nil {
		out.Inconclusive = "bubble-panic"
		trace = append(trace, fmt.Sprint(panicked))
	}
	if out.Inconclusive != "" || out.Signature != "" {
		out.Trace = trace
		out.LogHash = core.HashStrings(trace)
		return out
	}
	// ---- oracle ----
	vst := filesystem.NewStorage(srvDisk.Clone().FS("/srv/repo.git", "verify"), cache.NewObjectLRUDefault())
	defer vst.Close()
	final := map[string]plumbing.Hash{}
	if it, err := vst.IterReferences(); err == nil {
		_ = it.ForEach(func(r *plumbing.Reference) error {
			if r.Type() == plumbing.HashReference {
				final[r.Name().String()] = r.Hash()
			}
			return nil
		})
	} else {
		out.Fail("C39|server-refs-unlistable", "server IterReferences: %v", err)
	}
	// 1. no reference may point to a missing object
	fn := make([]string, 0, len(final))
	for n := range final {
		fn = append(fn, n)
	}
	sort.Strings(fn)
	for _, n := range fn {
		if vst.HasEncodedObject(final[n]) != nil {
			out.Fail("C39|ref-to-missing-object", "after the pushes %s = %s, an object the server does not have", n, final[n])
		}
	}
	if !p.Concurrent {
		// 2. sequential pushes: exact per-command CAS model and report-status
		for i, res := range results {
			if res == nil {
				continue
			}
			if res.err != nil {
				logf("push %d: error %v (unpack %q)", i, res.err, res.unpack)
				out.Probe("push-error")
				// a push that failed wholesale must not have applied anything unexpected: fall through with no applied commands
			}
			logf("push %d: err=%v unpack=%q statuses=%d", i, res.err, res.unpack, len(res.status))
			for _, s := range res.sent {
				cur, exists := model[s.name]
				var want bool
				switch {
				case s.old.IsZero(): // create
					want = !exists && s.newKnown
				case s.new.IsZero(): // delete
					want = exists && cur == s.old
				default:
					want = exists && cur == s.old && s.newKnown
				}
				kind := "update"
				if s.old.IsZero() {
					kind = "create"
				} else if s.new.IsZero() {
					kind = "delete"
				}
				why := "current"
				switch {
				case exists && !s.old.IsZero() && cur != s.old:
					why = "stale-old"
					out.Probe("stale-old-sent")
				case !s.newKnown && !s.new.IsZero():
					why = "missing-new-object"
					out.Probe("missing-new-object-sent")
				case s.old.IsZero() && exists:
					why = "create-existing"
				case !exists && !s.old.IsZero():
					why = "ref-absent"
				}
				st, reported := res.status[s.name]
				if res.err == nil && res.unpack != "ok" && len(res.status) > 0 {
					// per-command lines follow, so unpacking itself went fine: the unpack
					// line must say so (clients treat a non-ok unpack line as total failure)
					out.Fail("C39|report|unpack-line-not-ok-although-commands-were-processed", "push %d: unpack line is %q although %d command status lines follow", i, res.unpack, len(res.status))
				}
				if res.err == nil {
					if !reported {
						out.Fail(fmt.Sprintf("C39|%s|no-status-reported|%s", kind, why), "push %d: no report-status line for %s", i, s.name)
					} else if (st == "ok") != want {
						out.Fail(fmt.Sprintf("C39|%s|reported-%s-expected-%s|%s", kind, okng(st == "ok"), okng(want), why), "push %d: %s %s old=%s new=%s reported %q; current value was %v (exists=%v), new object known=%v", i, kind, s.name, short(s.old), short(s.new), st, short(cur), exists, s.newKnown)
					}
				}
				applied := res.err == nil && reported && st == "ok"
				if applied {
					if s.new.IsZero() {
						delete(model, s.name)
					} else {
						model[s.name] = s.new
					}
					out.Probe("applied:" + kind)
				} else {
					out.Probe("refused:" + kind + ":" + why)
				}
				logf("push %d %s %s old=%s new=%s -> status=%q applied=%v want=%v (%s)", i, kind, s.name, short(s.old), short(s.new), st, applied, want, why)
			}
		}
		// 3. what was reported is what was applied
		keys := map[string]bool{}
		for k := range model {
			keys[k] = true
		}
		for k := range final {
			keys[k] = true
		}
		ks := make([]string, 0, len(keys))
		for k := range keys {
			ks = append(ks, k)
		}
		sort.Strings(ks)
		for _, k := range ks {
			if k == "HEAD" {
				continue
			}
			if model[k] != final[k] {
				out.Fail("C39|final-refs-differ-from-reported", "server has %s = %s but according to the report-status lines it is %s", k, short(final[k]), short(model[k]))
			}
		}
	} else {
		// concurrent pushes: per reference, the commands (with the interval of the
		// connection that carried them) plus a final read must be linearizable
		// against a CAS register: "ok" requires state == old; a refusal is always allowed.
		type casIn struct {
			old, new string
			read     bool
		}
		type casOut struct {
			ok  bool
			val string
		}
		model := porcupine.Model{
			Init: func() interface{} { return "" },
			Step: func(state, input, output interface{}) (bool, interface{}) {
				st := state.(string)
				in := input.(casIn)
				o := output.(casOut)
				if in.read {
					return st == o.val, st
				}
				if !o.ok {
					return true, st
				}
				return st == in.old, in.new
			},
		}
		for _, name := range refNames {
			var ops []porcupine.Operation
			init := initial[name].String()
			if initial[name].IsZero() {
				init = ""
			}
			m := model
			m.Init = func() interface{} { return init }
			for ci, res := range results {
				if res == nil || res.err != nil {
					continue
				}
				for _, s := range res.sent {
					if s.name != name {
						continue
					}
					o, n := s.old.String(), s.new.String()
					if s.old.IsZero() {
						o = ""
					}
					if s.new.IsZero() {
						n = ""
					}
					ops = append(ops, porcupine.Operation{ClientId: ci, Input: casIn{old: o, new: n}, Call: res.call, Output: casOut{ok: res.status[s.name] == "ok"}, Return: res.ret})
				}
			}
			if len(ops) == 0 {
				continue
			}
			fv := ""
			if h, ok := final[name]; ok {
				fv = h.String()
			}
			ops = append(ops, porcupine.Operation{ClientId: 9, Input: casIn{read: true}, Call: 1 << 40, Output: casOut{val: fv}, Return: 1<<40 + 1})
			switch porcupine.CheckOperationsTimeout(m, ops, 10*time.Second) {
			case porcupine.Illegal:
				kinds := map[string]bool{}
				for _, op := range ops {
					in := op.Input.(casIn)
					if in.read || !op.Output.(casOut).ok {
						continue
					}
					switch {
					case in.old == "":
						kinds["create"] = true
					case in.new == "":
						kinds["delete"] = true
					default:
						kinds["update"] = true
					}
				}
				var ks []string
				for k := range kinds {
					ks = append(ks, k)
				}
				sort.Strings(ks)
				out.Fail("C39|concurrent|not-linearizable-per-ref-cas|accepted:"+strings.Join(ks, "+"), "the commands on %s (%d, with their report-status results) and its final value %s cannot be ordered so that every accepted command saw its old value", name, len(ops)-1, short(final[name]))
			case porcupine.Unknown:
				out.Inconclusive = "porcupine-unknown"
			}
		}
		out.Probe("concurrent-run")
	}
	out.Trace = trace
	out.LogHash = core.HashStrings(trace)
	// (the grant sequence is reported as SchedHash but is not part of the replay comparison: go-git's
	// process-wide sync.Pools hand out buffers whose capacity depends on earlier runs and GC timing, which
	// can change the NUMBER of disk reads of a handler without changing what it does; seen in 2 of 6000 runs)
	out.StateHash = srvDisk.Digest("/srv/repo.git/refs", nil)
	out.NonTrivial = out.Probes["stale-old-sent"] > 0 || out.Probes["missing-new-object-sent"] > 0 || p.Concurrent
	return out
}

var lastDrvTrace []string

func okng(b bool) string {
	if b {
		return "ok"
	}
	return "ng"
}

func dedup(hs []plumbing.Hash) []plumbing.Hash {
	seen := map[plumbing.Hash]bool{}
	var out []plumbing.Hash
	for _, h := range hs {
		if !seen[h] {
			seen[h] = true
			out = append(out, h)
		}
	}
	return out
}

func short(h plumbing.Hash) string {
	s := h.String()
	if len(s) > 7 {
		return s[:7]
	}
	return s
}

func mod(a, n int) int {
	if n <= 0 {
		return 0
	}
	a %= n
	if a < 0 {
		a += n
	}
	return a
}

// demux extracts band 1 of a sideband-64k stream (minimal reader for report-status).
func demux(r io.Reader) io.Reader {
	var buf bytes.Buffer
	for {
		_, p, err := pktline.ReadLine(r)
		if err != nil || len(p) == 0 {
			break
		}
		if p[0] == 1 {
			buf.Write(p[1:])
		}
	}
	return strings.NewReader(buf.String())
}

func TestCheck(t *testing.T) {
	core.Main(t, core.Check{
		ID:    "C39",
		Level: "exploration",
		Rule: "plan = generated history (3-9 commits) of which the server holds a prefix x 1-3 scripted pushes of 1-3 commands each (update/create/delete; old = advertised / different commit / zero; new = commit in the pack, commit already on the server, commit sent without its objects, or an id that exists nowhere; advertisement re-read or stale from an earlier connection; with/without sideband) over simulated streams; a third of the multi-push plans run two or three clients concurrently under the seeded scheduler (every server disk operation a scheduling point); " +
			"non-trivial = a stale old value or a missing new object was sent, or the run was concurrent",
		Assumptions: []string{"sequential configuration: exact per-command compare-and-swap model on the sent old value, and report-status must equal what was applied",
			"concurrent configuration: a command reported ok must have had an old value that was current at some point, and two commands against the same old value cannot both be ok",
			"duplicate names inside one request are not generated"},
		Real:           []string{"transport.ReceivePack", "updateReferences", "packfile.UpdateObjectStorage", "report-status encoding", "storage/filesystem"},
		Stub:           []string{"clients (scripted)", "network (simnet)", "server disk (simfs)", "scheduler (concurrent configuration)"},
		Runs:           map[string]int{"quick": 30000, "thorough": 800000},
		NewPlan:        func() any { return &Plan{} },
		Gen:            genPlan,
		Exec:           execPlan,
		RequiredProbes: []string{"stale-old-sent", "missing-new-object-sent", "applied:update", "applied:create", "applied:delete", "concurrent-run", "server-refs-packed"},
	})
}
