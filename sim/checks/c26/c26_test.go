//go:build verif

// C26 — worktree operations never touch paths outside the worktree or in .git.
//
// The simulated disk is the reference monitor. One image holds the worktree
// /top/w, its repository /top/w/.git (config, HEAD, index, hooks/pre-commit,
// info/exclude, an already cloned submodule under modules/sub), two nested git
// directories inside the worktree (/top/w/sub2/.git, /top/w/deep/er/.git: the
// git directories of nested repositories / old-style submodules) and sentinel
// files outside (/top/outside/**, /secret). Real go-git porcelain is driven
// on it and EVERY disk operation issued through the worktree filesystem —
// stats and failed lookups included — has the path the DISK resolved (symlinks
// followed, names folded by the personality) classified. A disguised ".git"
// therefore counts only when it lands in .git on that disk.
//
// What is real: Worktree.Checkout / Reset (hard, mixed, merge, keep) / Pull
// (in-process file transport against a memory.Storage remote) / CherryPick
// (theirs, ours) / Restore / Clean / Add / AddWithOptions(All) / AddGlob /
// Remove / RemoveGlob / Move, Submodules().Init / Update (real clone of the
// submodule through the same transport), worktreeFilesystem and
// pathutil validation, config parsing of .gitmodules, filesystem.Storage and
// DotGit.Module.
//
// What is stubbed: the disk (simfs: posix / ntfs-like / hfs-like name lookup,
// symlinks resolved at the bottom layer, operation log, one optional injected
// fault); the remote(s) are memory.Storage values filled by the harness;
// malicious trees and commits are serialised by an independent encoder in this
// package (objects_test.go; go-git's own Tree.Encode and index refuse such
// names) and written as loose objects straight into the image. The benign base
// commit is checked out by go-git itself during (unmeasured) setup.
//
// The filesystem handed to go-git is a thin recording layer (vfs_test.go) over
// a simfs view. simfs turns '\' into '/' on every personality and clamps ".."
// at a view's base; the layer keeps '\' an ordinary character on posix/hfs and
// offers three views, a plan dimension:
//
//	bound    what billy v6 osfs gives a real worktree (BoundOS over os.Root):
//	         ".." cannot climb above the root and a symlink that leaves the
//	         root is refused BY THE OS. Nothing outside the worktree can be
//	         reached by construction; .git, inside the root, can. This is the
//	         view on which the property is judged as stated for real worktree
//	         filesystems.
//	chroot   a lexical chroot (billy helper/chroot over a plain filesystem, or
//	         any user-supplied billy.Filesystem): ".." clamped, symlinks
//	         followed wherever they point.
//	rawjoin  root + "/" + name with nothing clamped, so that only go-git's own
//	         validation stands between an entry name and the sentinels.
//
// go-git accepts any billy.Filesystem as a worktree and its anchors
// (validPath, validNoLeadingSymlink, clearBlockingSymlinks) are defences that
// do not rely on the operating system, so escapes on chroot / rawjoin are
// judged too; the signature says on which view a place outside the worktree was
// reached (outside@chroot, outside@rawjoin). Places inside .git are reachable
// on every view.
//
// The repository storage runs on its own view (actor "storage", sub-view for a
// submodule "modstore"); its operations inside .git (.git/modules/<name> for
// modstore) are the legitimate footprint and only judged for leaving it
// (submodule names with traversal).
//
// Plan space: personality x view x core.protectNTFS/protectHFS (unset / true /
// false) x 0-3 planted symlinks (user state before the run, replacing tracked
// files or directories too, also at <submodule path>/.git, .gitmodules,
// .gitignore) x optional pre-registered submodule x 1-4 commits from a grammar
// (.git and case / 8.3 / NTFS / HFS disguises at the root, below sub2/, below
// deep/er/ and elsewhere, as nested trees or as ONE entry name with '/' or
// '\'; ".." and "." climbs to the sentinels; control bytes, drive letters,
// absolute names, trailing dots and spaces; symlink entries to outside / .git /
// nested git dirs followed in the next commit by a directory, file or gitlink
// of the same or a case-variant name, the reverse, both in one tree (duplicate
// entries); .gitmodules as file or symlink with hostile names, paths, URLs)
// x 1-6 operations x optionally one disk fault during one operation.
//
// Oracle. For every recorded operation of the worktree actor the resolved
// path must be inside /top/w and not inside /top/w/.git, .git/modules/* or a
// nested git directory; the entry ".git" itself may be stat-ed / listed but not
// replaced. MkdirAll, which simfs logs lexically, is judged on a path resolved
// by the harness's own resolver. Independently, everything outside the
// worktree and inside the git directories is compared byte for byte before and
// after each operation; a difference that no repository-storage operation
// accounts for is a violation. Lstat / Readlink of a symlink itself is not
// "through"; an operation whose resolved path differs from its lexical path
// because a leading (or followed final) component is a symlink is.
//
// Deliberately not judged, and why: (1) an escape through a name that only an
// NTFS / HFS disk aliases to .git while the matching protection is off
// (core.protectNTFS=false; core.protectHFS unset or false — go-git, like git,
// defaults it to off except on darwin): git escapes too; counted as
// excused:*. (2) names whose only peculiarity is a backslash, on the ntfs
// personality: the disk splits at '\' while go-git's filepath.Dir, compiled for
// linux, does not — a combination no real system has (names that also contain
// ".." or .git are judged: validPath splits at both separators on purpose).
// (3) refusals by the bound view itself (os-bound-refused). (4) a nested ".git"
// created where no git directory existed. (5) Add of a directory / AddGlob /
// Add(All) that returned an error: doAddDirectory ranges over the Status map
// and stops at the first failing path, so what it touched before depends on Go
// map order, which no plan controls; only what precedes the map walk (the
// worktree scan and the glob expansion: Stat and ReadDir calls) is judged, and
// the run ends there. (6) NTFS /
// HFS disguises of "." and ".." (not in the quantifier; simfs does not alias
// them). (7) pull transfers no pack when PullLocal (objects already local);
// with PullLocal=false the server side is go-git's upload-pack over the memory
// remote.
//
// Signatures: C26|<operation>|<create|write|remove|read|mkdir|rename|chmod|
// symlink|sentinel-changed>|<dotgit|submodule-gitdir|outside@view|
// module-storage->...|storage->...>|<name class>|<personality>|<protection
// matching the personality>[|after-fault]. Name classes: dotgit, dotgit-case,
// dotgit-8.3, dotgit-ntfs, dotgit-hfs, dotdot, dot, abs, ctl, backslash,
// via-(planted|tree)-symlink[:final], (gitignore|gitmodules|gitfile)-is-
// (planted|tree)-symlink. For symlink classes personality and protection are
// irrelevant and read "any|-"; the two dot files read by the worktree scan are
// reported under the operation "worktree-scan".
package c26

import (
	"encoding/json"
	"fmt"
	"os"
	"testing"
	"time"

	"github.com/go-git/go-git/v6/verifsim/core"
)

func TestCheck(t *testing.T) {
	core.Main(t, core.Check{
		ID:    "C26",
		Level: "exploration",
		Rule: "plan = personality (posix/ntfs/hfs) x filesystem view (os.Root-like bound, lexical chroot, unclamped join) x core.protectNTFS x core.protectHFS (unset/true/false) x 0-3 planted symlinks x optional pre-registered submodule x " +
			"one of five families: 22% one hostile tree (.git or a case/8.3/NTFS/HFS disguise at the root, under sub2/, deep/er/ or elsewhere with a tail naming a sentinel; '..'/'.' climbs; odd names) + one tree operation; " +
			"30% symlink swaps (commit 1 symlink -> outside/.git/nested git dir, commit 2 directory/file/gitlink of the same or case-variant name; the reverse; both in one tree; one level down) + two tree operations; " +
			"18% .gitmodules (file or symlink; hostile name/path/url; gitlink entry; 1 in 3 with a link planted at the submodule path or its .git) + checkout + Submodules().Init/Update or Pull(RecurseSubmodules); " +
			"20% user-path operations (Add, Add(All), AddGlob, Remove, RemoveGlob, Move, Restore, Clean with paths through planted links, into .git and its disguises, '..', absolute) against planted state; 10% free mix of 1-3 commits and 1-4 operations; " +
			"tree operations = Checkout (branch/hash, Force on/off), Reset hard/mixed/merge/keep, Pull, CherryPick theirs/ours; 1 plan in 8 injects one disk fault (class x ordinal 1-10 x errno) into one operation; " +
			"non-trivial = a planted link, a commit with a non-plain path class or a symlink, or a non-plain user path; distinct = distinct plan",
		Assumptions: []string{
			"footprint: every operation the worktree filesystem issues resolves (on the disk: symlinks followed, names folded by the personality) inside /top/w and not inside /top/w/.git, /top/w/.git/modules/*, /top/w/sub2/.git, /top/w/deep/er/.git; stat/readdir of the entry .git itself is allowed, replacing it is not; stats and failed lookups count (reading through)",
			"the nested git directories of the image stand for 'a submodule's git directory' of the statement (old-style layout / embedded clone); a nested .git created where none existed is only counted",
			"repository storage (actor storage) may touch /top/w/.git/**, a submodule's storage (actor modstore) /top/w/.git/modules/<x>/**; leaving these is a violation (submodule name traversal), staying inside is the legitimate footprint",
			"bytes outside the worktree and inside the git directories are compared before/after every operation; differences explained by a storage operation on the same path are legitimate",
			"an escape through an NTFS (HFS) disguise of .git is a violation only while core.protectNTFS (core.protectHFS) is on: NTFS defaults to on, HFS to off (runtime.GOOS != darwin), as go-git and git define; with the protection off git escapes too (probes excused:*)",
			"view bound models billy v6 osfs (always BoundOS/os.Root): escapes from the worktree root are refused by the view (MkdirAll and parent creation too, which simfs's Bound flag does not cover) and counted as os-bound-refused, so only git directories are reachable there; views chroot and rawjoin follow symlinks / do not clamp '..' and are judged as well because Worktree accepts any billy.Filesystem and go-git's own validation is meant not to depend on the OS; the signature names the view for places outside the worktree",
			"names containing only a backslash peculiarity are not judged on the ntfs personality (disk splits at '\\', linux-built filepath.Dir does not); of Add(dir)/Add(All)/AddGlob steps that return an error only the scan and glob expansion (Stat/ReadDir calls) are judged (Go map order decides what doAddDirectory touched before it stopped); such a step ends the run",
			"after an injected fault the operation may fail any way it likes; its footprint is judged all the same; a violation that also occurs without the fault is reported under the fault-free signature",
			"pull: with PullLocal the plan's objects are already in the local object store and only references travel; otherwise go-git's upload-pack serves them from the memory remote",
		},
		Real: []string{"Worktree.Checkout/Reset/Pull/CherryPick/Restore/Clean/Add/AddWithOptions/AddGlob/Remove/RemoveGlob/Move", "Submodules.Init/Update, Submodule.Repository, createDotGitFile", "worktreeFilesystem (validPath, validNoLeadingSymlink, validSymlinkName, Chroot), clearBlockingSymlinks, rmFileAndDirsIfEmpty, billy util.RemoveAll/Glob",
			"pathutil.ValidTreePath/IsNTFSDotGit/IsHFSDotGit/WindowsValidPath, object.Tree.FindEntry/TreeEntryFile/TreeWalker, index name validation", "config.Modules.Unmarshal / validSubmoduleName, DotGit.Module", "merkletrie filesystem noder, gitignore scope, filesystem.Storage, transport/file client + UploadPack server"},
		Stub: []string{"disk (simfs posix/ntfs/hfs personalities, symlinks, operation log with resolved paths, one optional fault)", "recording billy layer with three views (bound / chroot / rawjoin), backslash literal on posix/hfs", "remotes = memory.Storage filled by the harness", "independent blob/tree/commit encoder writing loose objects into the image"},
		Runs:    map[string]int{"quick": 16000, "thorough": 320000},
		NewPlan: func() any { return &Plan{} },
		Gen:     genPlan,
		Exec:    execPlan,
		RequiredProbes: []string{
			"refused:dotgit", "refused:dotgit-case", "refused:dotgit-8.3", "refused:dotgit-ntfs", "refused:dotgit-hfs", "refused:dotgit-disguise", "refused:dotdot", "refused:ctl", "refused:gitmodules",
			"disguise-harmless:dotgit-ntfs:posix", "disguise-harmless:dotgit-hfs:posix",
			"swap:tree-symlink-materialised-then-dir-written", "planted-symlink-cleared-then-dir-written", "final-symlink-replaced-by-file",
			"refused-through-planted-symlink:add-rm-mv", "refused-through-symlink:checkout",
			"submodule-traversal-name-refused", "submodule-cloned", "submodule-update-ok",
			"nested-dotgit-depth>=2:exercised", "nested-dotgit-depth>=2:refused",
			"excused-escape", "excused:dotgit-ntfs:ntfs", "excused:dotgit-hfs:hfs", "os-bound-refused", "fault-fired",
			"pers:posix", "pers:ntfs", "pers:hfs", "view:bound", "view:chroot", "view:rawjoin", "protect:ntfs-off", "protect:hfs-on",
			"op:checkout", "op:checkout-force", "op:reset-hard", "op:reset-mixed", "op:reset-merge", "op:reset-keep", "op:pull", "op:cherry-pick", "op:restore", "op:clean", "op:add", "op:add-all", "op:add-glob", "op:remove", "op:remove-glob", "op:move", "op:submodule-init", "op:submodule-update",
			"result:pull:ok", "result:cherry:ok", "result:mv:ok", "result:rm:ok", "result:restore:ok",
		},
	})
}

// TestOne executes the plan in $VERIF_C26_PLAN (JSON) and prints its trace
// (debugging aid; skipped otherwise). VERIF_C26_CALLS=1 lists every filesystem
// call, VERIF_C26_STACK=1 prints the stack of each operation outside the
// allowed area.
func TestOne(t *testing.T) {
	js := os.Getenv("VERIF_C26_PLAN")
	p := &Plan{}
	if sub := os.Getenv("VERIF_C26_SUBSEED"); sub != "" {
		var n uint64
		fmt.Sscan(sub, &n)
		p = genPlan(core.NewRand(n), "quick").(*Plan)
		b, _ := json.Marshal(p)
		fmt.Println(string(b))
		o0 := execPlan(t, p)
		fmt.Println("full plan:", o0.Signature, o0.LogHash)
		if o0.Signature != "" {
			best, _ := core.Shrink(b, o0, func(c []byte) (bool, core.Outcome) {
				q := &Plan{}
				if json.Unmarshal(c, q) != nil {
					return false, core.Outcome{}
				}
				oo := execPlan(t, q)
				return oo.Signature == o0.Signature, oo
			}, 400, 30*time.Second)
			fmt.Println("minimised:", string(best))
			p = &Plan{}
			_ = json.Unmarshal(best, p)
		}
		for i := 0; i < 6; i++ {
			o := execPlan(t, p)
			fmt.Println("run", i, o.Signature, o.LogHash)
		}
	} else if js == "" {
		t.Skip("no plan")
	} else if err := json.Unmarshal([]byte(js), p); err != nil {
		t.Fatal(err)
	}
	o := execPlan(t, p)
	for _, l := range o.Trace {
		fmt.Println(l)
	}
	fmt.Println("signature:", o.Signature, o.Message)
	fmt.Println("probes:", o.Probes)
}
