//go:build verif

package c26

import (
	"strings"

	"github.com/go-git/go-git/v6/verifsim/core"
	"github.com/go-git/go-git/v6/verifsim/simfs"
)

// ---------------------------------------------------------------- plan

// Link is a symlink "the user" planted in the worktree before the measured
// phase; whatever is at At (a tracked file or directory too) is replaced.
type Link struct {
	At     string `json:"at"`
	Target string `json:"target"`
}

type Commit struct {
	Ents []Ent `json:"ents"`
	// NoBase: the tree holds only Ents; otherwise the base tree's top-level
	// entries are kept unless an entry of the same name replaces them (Dup
	// keeps both, a tree with duplicate names).
	NoBase bool `json:"no_base,omitempty"`
	Dup    bool `json:"dup,omitempty"`
	// OnPrev: parent is the previous plan commit (else the base commit).
	OnPrev bool `json:"on_prev,omitempty"`
}

type Step struct {
	Op     string   `json:"op"`
	Commit int      `json:"commit,omitempty"`
	Force  bool     `json:"force,omitempty"`
	ByHash bool     `json:"by_hash,omitempty"`
	Mode   int      `json:"mode,omitempty"` // reset: 0 hard 1 mixed 2 merge 3 keep; restore: 0 staged+worktree 1 staged; cherry: 0 theirs 1 ours
	Paths  []string `json:"paths,omitempty"`
	Flag   bool     `json:"flag,omitempty"` // clean: Dir; subupdate: NoFetch; pull: RecurseSubmodules; add: SkipStatus
}

type Plan struct {
	Pers    int      `json:"pers"` // 0 posix 1 ntfs 2 hfs
	View    int      `json:"view"` // 0 bound 1 chroot 2 rawjoin
	NTFS    int      `json:"protect_ntfs"` // 0 unset 1 true 2 false
	HFS     int      `json:"protect_hfs"`
	Commits []Commit `json:"commits"`
	Planted []Link   `json:"planted,omitempty"`
	// SubPre: submodule "sub" is already registered (.git/config), cloned
	// (.git/modules/sub) and checked out (sub/ with its gitfile).
	SubPre bool   `json:"sub_pre,omitempty"`
	Steps  []Step `json:"steps"`
	// PullLocal: the objects of the plan's commits are already in the local
	// object store when a pull advertises them (no pack is transferred).
	PullLocal bool         `json:"pull_local,omitempty"`
	Fault     *simfs.Fault `json:"fault,omitempty"`
	FaultStep int          `json:"fault_step,omitempty"`
}

var opNames = []string{"checkout", "reset", "pull", "cherry", "restore", "clean", "add", "addall", "addglob", "rm", "rmglob", "mv", "subinit", "subupdate"}

// ---------------------------------------------------------------- name grammar

var dotgitByClass = map[string][]string{
	"dotgit":      {".git"},
	"dotgit-case": {".GIT", ".Git", ".gIt"},
	"dotgit-8.3":  {"git~1", "GIT~1", "Git~1"},
	"dotgit-ntfs": {".git.", ".git ", ".git. .", ".git::$INDEX_ALLOCATION", ".git:stream", "git~1.", ".GIT .", "git~1::$DATA", ".git..."},
	"dotgit-hfs":  {".g\u200cit", "\u200c.git", ".git\u200d", ".G\u200eIT", "\ufeff.gi\u200ft", ".git\u202a"},
	"near-dotgit": {".git~1", "git~2", ".gitx", "..git", ".git-", "_git"},
}

var dotgitClasses = []string{"dotgit", "dotgit-case", "dotgit-8.3", "dotgit-ntfs", "dotgit-ntfs", "dotgit-hfs", "dotgit-hfs", "near-dotgit"}

// where a disguised .git is hung: the root, the two nested git directories of the image, or nowhere special
var dotgitPrefixes = [][]string{{}, {}, {}, {"sub2"}, {"deep", "er"}, {"dir"}, {"newdir"}, {"sub"}}

var gitdirTails = [][]string{{"hooks", "pre-commit"}, {"hooks", "evil"}, {"config"}, {"HEAD"}, {"index"}, {"info", "exclude"},
	{"modules", "sub", "config"}, {"modules", "sub", "hooks", "evil"}, {"objects", "ab", "cdef"}, {}}

var outsideTails = [][]string{{"outside", "secret.txt"}, {"outside", "evil"}, {"outside", "dir", "c.txt"}, {"outside", "dir", "new", "x"}, {"..", "secret"}, {"outside", "hooks", "pre-commit"}}

var linkTargets = []string{"../outside", "/top/outside", ".git", ".git/hooks", "sub2/.git", "../outside/dir", "../outside/secret.txt", ".git/config", "a.txt", "../outside/nonexistent", ".git/modules/sub", "..", "/", "../outside/hooks"}

var linkNames = []string{"a", "a", "l", "dir", "f", "A", "keep", "sub", "newdir"}

var kidsUnderLink = []string{"x", "pre-commit", "c.txt", "config", "secret.txt", "evil", "HEAD", "exclude"}

var oddNames = []string{"C:", "C:x", "a.", "a ", "con", "aux.txt", "a\u200c", ".gitignore", ".gitattributes", "\x01ctl", "a\nb", "\x7f", ". ", ".. ", "...", "..\u200c", "x::$DATA", "A.TXT", "F", "DIR", "nul", "a\\b", "/abs", "//", "a//b", "./a", "a/."}

func leaf(name string, r *core.Rand) Ent {
	switch r.Intn(10) {
	case 0:
		return Ent{Name: name, Kind: kExec, Data: "#!/bin/sh\necho pwned " + name + "\n"}
	default:
		return Ent{Name: name, Kind: kFile, Data: "evil content of " + strings.ToValidUTF8(name, "?") + "\n"}
	}
}

// render turns a component path into tree entries: nested trees for the first
// `nest` components, the rest as ONE entry name joined by sep.
func render(comps []string, last Ent, nest int, sep string) Ent {
	if nest > len(comps)-1 {
		nest = len(comps) - 1
	}
	if nest < 0 {
		nest = 0
	}
	e := last
	e.Name = strings.Join(comps[nest:], sep)
	for i := nest - 1; i >= 0; i-- {
		e = Ent{Name: comps[i], Kind: kDir, Kids: []Ent{e}}
	}
	return e
}

func pickSep(r *core.Rand) string {
	if r.Chance(1, 3) {
		return "\\"
	}
	return "/"
}

func renderRand(r *core.Rand, comps []string, last Ent) Ent {
	nest := len(comps) - 1
	if r.Chance(1, 3) {
		nest = r.Intn(len(comps))
	}
	return render(comps, last, nest, pickSep(r))
}

func genDotgitEnt(r *core.Rand) Ent {
	cls := dotgitClasses[r.Intn(len(dotgitClasses))]
	vs := dotgitByClass[cls]
	v := vs[r.Intn(len(vs))]
	comps := append([]string{}, dotgitPrefixes[r.Intn(len(dotgitPrefixes))]...)
	comps = append(comps, v)
	tail := gitdirTails[r.Intn(len(gitdirTails))]
	comps = append(comps, tail...)
	last := leaf("", r)
	if len(tail) == 0 {
		// the .git name itself as a file, a symlink, or an empty directory's worth of nothing
		switch r.Intn(3) {
		case 0:
			last = Ent{Kind: kLink, Data: r.Pick("../outside", ".git/hooks", "sub2/.git", "/top/outside")}
		case 1:
			last = Ent{Kind: kFile, Data: "gitdir: ../outside/fake.git\n"}
		}
	}
	return renderRand(r, comps, last)
}

func genDotdotEnt(r *core.Rand) Ent {
	var comps []string
	switch r.Intn(4) {
	case 0:
		comps = []string{".."}
	case 1:
		comps = []string{"x", "..", ".."}
	case 2:
		comps = []string{"dir", "sub", "..", "..", ".."}
	default:
		comps = []string{"."}
	}
	if comps[0] == "." {
		comps = append(comps, gitdirTails[r.Intn(len(gitdirTails)-1)]...)
		comps = append([]string{".", ".git"}, comps[1:]...)
	} else if r.Chance(1, 4) {
		comps = append(comps, "w", ".git")
		comps = append(comps, gitdirTails[r.Intn(len(gitdirTails)-1)]...)
	} else {
		comps = append(comps, outsideTails[r.Intn(len(outsideTails))]...)
	}
	return renderRand(r, comps, leaf("", r))
}

func genOddEnt(r *core.Rand) Ent {
	n := oddNames[r.Intn(len(oddNames))]
	if r.Chance(1, 3) {
		return Ent{Name: n, Kind: kDir, Kids: []Ent{leaf("x", r)}}
	}
	if r.Chance(1, 6) {
		return Ent{Name: n, Kind: kLink, Data: linkTargets[r.Intn(len(linkTargets))]}
	}
	return leaf(n, r)
}

// genSwap returns the two halves of a symlink/directory swap on one name.
func genSwap(r *core.Rand) (link Ent, other Ent) {
	name := linkNames[r.Intn(len(linkNames))]
	target := linkTargets[r.Intn(len(linkTargets))]
	link = Ent{Name: name, Kind: kLink, Data: target}
	oname := name
	if r.Chance(1, 4) {
		oname = swapCase(name)
	}
	switch r.Intn(6) {
	case 0:
		other = leaf(oname, r) // a regular file where the link was: final-component case
	case 1:
		other = Ent{Name: oname, Kind: kSub}
	case 2:
		other = Ent{Name: oname, Kind: kDir, Kids: []Ent{{Name: "deep", Kind: kDir, Kids: []Ent{leaf(kidsUnderLink[r.Intn(len(kidsUnderLink))], r)}}}}
	default:
		n := r.Range(1, 2)
		other = Ent{Name: oname, Kind: kDir}
		for i := 0; i < n; i++ {
			other.Kids = append(other.Kids, leaf(kidsUnderLink[r.Intn(len(kidsUnderLink))], r))
		}
	}
	if strings.Contains(name, "/") {
		return link, other
	}
	return link, other
}

func swapCase(s string) string {
	b := []byte(s)
	for i, c := range b {
		switch {
		case c >= 'a' && c <= 'z':
			b[i] = c - 32
		case c >= 'A' && c <= 'Z':
			b[i] = c + 32
		}
	}
	return string(b)
}

var subNames = []string{"sub", "sub", "newsub", "../../../outside/evilmod", "../hooks", "../../sub2/.git", "..\\..\\..\\outside\\evilmod", "sub/../../hooks",
	"/top/outside/evilmod", "C:evil", ".. /hooks", "..\u200c/hooks", "a/./b", ".", "sub.", "../../..", "x/../../../info", "sub/", "..", "SUB", "modules/../../hooks"}

var subPaths = []string{"sub", "sub", "newsub", "a", "dir/sub/m", "../outside/dir", ".git/modules/x", "sub2", "sub2/.git", "/top/outside/dir", "sub\\..\\..\\outside",
	".git", "dir", "f", "keep/l", "SUB", "a/sub", "deep/er", ".g\u200cit/modules/sub", "git~1/hooks"}

func gitmodulesText(name, p, url string) string {
	esc := strings.NewReplacer("\\", "\\\\", "\"", "\\\"", "\n", "\\n").Replace(name)
	return "[submodule \"" + esc + "\"]\n\tpath = " + p + "\n\turl = " + url + "\n"
}

func gitlinkAt(p string) (Ent, bool) {
	comps := strings.Split(p, "/")
	for _, c := range comps {
		if c == "" {
			return Ent{}, false
		}
	}
	return render(comps, Ent{Kind: kSub}, len(comps)-1, "/"), true
}

// genSubmoduleEnts: a .gitmodules (file, or symlink) and the gitlink it names.
func genSubmoduleEnts(r *core.Rand) []Ent {
	es, _ := genSubmoduleEntsPath(r)
	return es
}

func genSubmoduleEntsPath(r *core.Rand) ([]Ent, string) {
	name := subNames[r.Intn(len(subNames))]
	p := subPaths[r.Intn(len(subPaths))]
	url := r.Pick("file:///subremote", "file:///subremote", "../subremote", "file:///evilsub")
	var out []Ent
	gm := r.Pick(".gitmodules", ".gitmodules", ".gitmodules", ".GITMODULES", ".gitmodules ", ".gitmodules\u200c", "gitmod~1", ".gitmodules.")
	switch r.Intn(5) {
	case 0:
		out = append(out, Ent{Name: gm, Kind: kLink, Data: r.Pick("../outside/gitmodules", ".git/config", "real-modules", "/top/outside/gitmodules")})
		out = append(out, Ent{Name: "real-modules", Kind: kFile, Data: gitmodulesText(name, p, url)})
	default:
		out = append(out, Ent{Name: gm, Kind: kFile, Data: gitmodulesText(name, p, url)})
	}
	if gl, ok := gitlinkAt(p); ok && r.Chance(5, 6) {
		out = append(out, gl)
	}
	return out, p
}

func genCommit(r *core.Rand, kind int) Commit {
	c := Commit{NoBase: r.Chance(1, 8)}
	switch kind {
	case 0:
		c.Ents = append(c.Ents, genDotgitEnt(r))
	case 1:
		c.Ents = append(c.Ents, genDotdotEnt(r))
	case 2:
		c.Ents = append(c.Ents, genOddEnt(r))
	case 3:
		c.Ents = genSubmoduleEnts(r)
	case 4:
		// benign change
		c.Ents = append(c.Ents, Ent{Name: "a.txt", Kind: kFile, Data: "changed\n"}, Ent{Name: "added", Kind: kDir, Kids: []Ent{leaf("n.txt", r)}})
	}
	if r.Chance(1, 5) {
		c.Ents = append(c.Ents, genOddEnt(r))
	}
	return c
}

var plantTable = []Link{
	{"a", "../outside"}, {"a", "/top/outside"}, {"a", ".git"}, {"a", ".git/hooks"}, {"a", "sub2/.git"}, {"a", "../outside/nonexistent"},
	{"f", "../outside/secret.txt"}, {"f", ".git/config"}, {"a.txt", ".git/hooks/pre-commit"},
	{"dir", "../outside/dir"}, {"dir/sub", "../../outside/dir/sub"}, {"dir", ".git"}, {"dir", "sub2/.git"},
	{"keep/l", "../../outside/dir"}, {"newdir/deep/l", "/top/outside"},
	{"sub", "../outside/dir"}, {"sub/.git", "../../outside/secret.txt"}, {"sub/.git", "../.git/config"}, {"newsub/.git", "../.git/hooks/pre-commit"},
	{".gitmodules", "../outside/gitmodules"}, {".gitmodules", ".git/config"}, {".gitignore", "../outside/secret.txt"}, {"keep/.gitignore", "../.git/info/exclude"},
	{"A", "../outside"}, {"L", ".git/hooks"}, {"l", "../outside/dir"}, {"added", "../outside/dir"}, {"keep", "../outside/dir"},
}

var userPaths = []string{"a.txt", "dir/c.txt", "dir", ".", "keep", "keep/k.txt", "f", "dir/sub/d.txt", "sub", "sub2", "sub2/file.txt",
	".git/config", ".git/hooks/pre-commit", ".git", "sub2/.git/config", "sub2/.git", "deep/er/.git/hooks/pre-commit", ".git/modules/sub/config",
	"../outside/secret.txt", "../outside/dir/c.txt", "/top/outside/secret.txt", "dir/../../outside/secret.txt", "..", "../..",
	".git./config", "git~1/config", ".g\u200cit/config", ".GIT/config", ".git::$INDEX_ALLOCATION/config", ".git /hooks/pre-commit", "GIT~1/hooks/pre-commit",
	"a\\..\\..\\outside\\secret.txt", ".git\\config", "sub2\\.git\\config", "C:/x", "new.txt", "moved/to/here.txt", "\x01x", ".gitmodules"}

var underLink = []string{"x", "c.txt", "secret.txt", "config", "pre-commit", "sub/d.txt", "k.txt", "HEAD", "new/y"}

func genUserPath(r *core.Rand, p *Plan) string {
	if len(p.Planted) > 0 && r.Chance(1, 2) {
		l := p.Planted[r.Intn(len(p.Planted))]
		if r.Chance(1, 4) {
			return l.At
		}
		return l.At + "/" + underLink[r.Intn(len(underLink))]
	}
	return userPaths[r.Intn(len(userPaths))]
}

var faultClasses = []simfs.OpClass{simfs.OpCreate, simfs.OpWrite, simfs.OpMkdir, simfs.OpSymlink, simfs.OpRemove, simfs.OpRename, simfs.OpStat, simfs.OpReadDir, simfs.OpOpen, simfs.OpClose, simfs.OpReadlink}

func genPlan(r *core.Rand, tier string) any {
	p := &Plan{Pers: r.Intn(3), View: r.Intn(3), PullLocal: r.Chance(3, 4)}
	if r.Chance(1, 2) {
		p.NTFS = r.Intn(3)
	}
	if r.Chance(2, 3) {
		p.HFS = r.Intn(3)
	}
	if r.Chance(2, 5) {
		n := r.Range(1, 2)
		for i := 0; i < n; i++ {
			p.Planted = append(p.Planted, plantTable[r.Intn(len(plantTable))])
		}
	}
	p.SubPre = r.Chance(1, 6)
	co := func(k int) Step {
		return Step{Op: "checkout", Commit: k, Force: r.Chance(2, 3), ByHash: r.Chance(1, 3)}
	}
	treeOp := func(k int) Step {
		switch x := r.Intn(20); {
		case x < 9:
			return co(k)
		case x < 13:
			return Step{Op: "reset", Commit: k, Mode: r.Intn(4)}
		case x < 16:
			return Step{Op: "pull", Commit: k, Flag: r.Chance(1, 3)}
		default:
			return Step{Op: "cherry", Commit: k, Mode: r.Intn(2)}
		}
	}
	userOp := func() Step {
		switch x := r.Intn(16); {
		case x < 3:
			return Step{Op: "add", Paths: []string{genUserPath(r, p)}, Flag: r.Chance(1, 4)}
		case x < 4:
			return Step{Op: "addall"}
		case x < 5:
			return Step{Op: "addglob", Paths: []string{r.Pick("*", "*/*", "a/*", "dir/*", ".git/*", "sub2/.git/*", "../outside/*", "*/.git/*", "f*", ".g*")}}
		case x < 8:
			return Step{Op: "rm", Paths: []string{genUserPath(r, p)}}
		case x < 9:
			return Step{Op: "rmglob", Paths: []string{r.Pick("*", "dir/*", "a/*", ".git/*", "f")}}
		case x < 12:
			from := r.Pick("a.txt", "f", "dir/c.txt", "keep/k.txt")
			if r.Chance(1, 3) {
				from = genUserPath(r, p)
			}
			return Step{Op: "mv", Paths: []string{from, genUserPath(r, p)}}
		case x < 14:
			return Step{Op: "restore", Mode: r.Intn(2), Paths: []string{genUserPath(r, p), r.Pick("a.txt", "f", "dir/c.txt")}}
		default:
			return Step{Op: "clean", Flag: r.Chance(2, 3)}
		}
	}
	switch k := r.Intn(100); {
	case k < 22: // one malicious tree, one tree operation (+ maybe a second on the base)
		p.Commits = []Commit{genCommit(r, r.Intn(3))}
		p.Steps = []Step{treeOp(0)}
		if r.Chance(1, 3) {
			p.Steps = append(p.Steps, userOp())
		}
	case k < 52: // swap pairs: symlink first then directory/file, or the reverse, or both in one tree
		link, other := genSwap(r)
		switch r.Intn(8) {
		case 0, 1, 2, 3:
			p.Commits = []Commit{{Ents: []Ent{link}}, {Ents: []Ent{other}, OnPrev: r.Chance(1, 2)}}
		case 4, 5:
			p.Commits = []Commit{{Ents: []Ent{other}}, {Ents: []Ent{link}, OnPrev: r.Chance(1, 2)}}
		case 6:
			p.Commits = []Commit{{Ents: []Ent{link, other}, Dup: true}, genCommit(r, 4)}
		default:
			inner := Ent{Name: "keep", Kind: kDir, Kids: []Ent{link}}
			inner2 := Ent{Name: "keep", Kind: kDir, Kids: []Ent{other}}
			p.Commits = []Commit{{Ents: []Ent{inner}}, {Ents: []Ent{inner2}}}
		}
		p.Steps = []Step{treeOp(0), treeOp(1)}
		if r.Chance(1, 4) {
			p.Steps = append(p.Steps, userOp())
		}
	case k < 70: // submodules
		ents, spath := genSubmoduleEntsPath(r)
		p.Commits = []Commit{{Ents: ents}}
		if r.Chance(1, 3) {
			// the user's planted link sits where the submodule is about to be checked out
			at := spath
			if r.Chance(2, 3) {
				at = spath + "/.git"
			}
			p.Planted = append(p.Planted, Link{At: at, Target: r.Pick("../.git/hooks/pre-commit", "../../outside/secret.txt", "../.git/config", "../outside/dir", ".git/modules/sub", "../sub2/.git/config", "/top/outside/secret.txt")})
		}
		p.Steps = []Step{co(0)}
		p.Steps[0].Force = true
		switch r.Intn(4) {
		case 0:
			p.Steps = append(p.Steps, Step{Op: "subinit"}, Step{Op: "subupdate", Flag: r.Chance(1, 4)})
		case 1:
			p.Steps = []Step{{Op: "pull", Commit: 0, Flag: true}}
		default:
			p.Steps = append(p.Steps, Step{Op: "subupdate", Flag: r.Chance(1, 4)})
		}
		if r.Chance(1, 3) {
			p.Steps = append(p.Steps, treeOp(0))
		}
	case k < 90: // user-path operations against planted state
		if len(p.Planted) == 0 {
			p.Planted = []Link{plantTable[r.Intn(len(plantTable))]}
		}
		p.Commits = []Commit{genCommit(r, 4)}
		n := r.Range(1, 3)
		for i := 0; i < n; i++ {
			if r.Chance(1, 4) {
				p.Steps = append(p.Steps, treeOp(0))
			} else {
				p.Steps = append(p.Steps, userOp())
			}
		}
	default: // free mix
		n := r.Range(1, 3)
		for i := 0; i < n; i++ {
			p.Commits = append(p.Commits, genCommit(r, r.Intn(5)))
			p.Commits[i].OnPrev = r.Chance(1, 3)
		}
		m := r.Range(1, 4)
		for i := 0; i < m; i++ {
			if r.Chance(2, 3) {
				p.Steps = append(p.Steps, treeOp(r.Intn(n)))
			} else {
				p.Steps = append(p.Steps, userOp())
			}
		}
	}
	if r.Chance(1, 8) {
		p.Fault = &simfs.Fault{Class: faultClasses[r.Intn(len(faultClasses))], Nth: r.Range(1, 10), Errno: r.Pick("EIO", "ENOSPC", "EACCES", "ENOENT")}
		if p.Fault.Class == simfs.OpStat && p.Fault.Errno == "ENOENT" {
			// An lstat that answers "does not exist" for a component that IS there (and is a link) is a race with
			// another process, not an error go-git can notice: every userland check for leading symlinks is a
			// time-of-check/time-of-use pair, git's included. The statement does not ask for more, so that fault is
			// not injected on stats (thorough tier, seed 11: remove through a planted link after such an answer).
			p.Fault.Errno = "EIO"
		}
		switch p.Fault.Class {
		case simfs.OpCreate, simfs.OpWrite, simfs.OpMkdir, simfs.OpSymlink, simfs.OpRemove, simfs.OpRename:
			p.Fault.Nth = 1 + p.Fault.Nth%3 // a step issues few of these
		}
		p.FaultStep = r.Intn(len(p.Steps))
	}
	return p
}
