//go:build verif

package c26

// Independent object encoder: blobs, trees and commits are serialised here
// (go-git's Tree.Encode refuses the names this check needs) and written as
// loose objects straight into the disk image, or handed to a memory.Storage
// that plays the remote of a pull / submodule fetch.

import (
	"bytes"
	"compress/zlib"
	"crypto/sha1"
	"encoding/hex"
	"fmt"
	"sort"

	"github.com/go-git/go-git/v6/plumbing"
	"github.com/go-git/go-git/v6/storage/memory"
	"github.com/go-git/go-git/v6/verifsim/simfs"
)

const (
	kFile = 0
	kExec = 1
	kLink = 2
	kSub  = 3
	kDir  = 4
)

// Ent is one tree entry of a plan: a raw name (it may contain '/', '\\',
// control bytes, anything but NUL) and, for directories, the entries below.
type Ent struct {
	Name string `json:"n"`
	Kind int    `json:"k"`
	Data string `json:"d,omitempty"` // file content / link target
	Kids []Ent  `json:"c,omitempty"`
}

type rawObj struct {
	typ  string
	data []byte
}

// objSet collects encoded objects by id.
type objSet struct {
	objs  map[string]rawObj
	order []string
}

func newObjSet() *objSet { return &objSet{objs: map[string]rawObj{}} }

func objID(typ string, data []byte) string {
	h := sha1.New()
	fmt.Fprintf(h, "%s %d\x00", typ, len(data))
	h.Write(data)
	return hex.EncodeToString(h.Sum(nil))
}

func (s *objSet) add(typ string, data []byte) string {
	id := objID(typ, data)
	if _, ok := s.objs[id]; !ok {
		s.objs[id] = rawObj{typ, data}
		s.order = append(s.order, id)
	}
	return id
}

func modeOf(k int) string {
	switch k {
	case kExec:
		return "100755"
	case kLink:
		return "120000"
	case kSub:
		return "160000"
	case kDir:
		return "40000"
	}
	return "100644"
}

// tree encodes entries (git order: directories compare as name + "/"); depth
// bounds hostile plans. Entries with an empty name or a NUL cannot be
// expressed in the format and are dropped. Duplicate names are kept.
func (s *objSet) tree(ents []Ent, subCommit string, depth int) string {
	type te struct {
		key  string
		line []byte
	}
	var out []te
	for i, e := range ents {
		if i >= 24 {
			break
		}
		if e.Name == "" || bytes.IndexByte([]byte(e.Name), 0) >= 0 {
			continue
		}
		k := e.Kind
		if k < 0 || k > kDir {
			k = kFile
		}
		var id string
		switch k {
		case kDir:
			if depth >= 6 {
				continue
			}
			id = s.tree(e.Kids, subCommit, depth+1)
		case kSub:
			id = subCommit
		default:
			id = s.add("blob", []byte(e.Data))
		}
		raw, _ := hex.DecodeString(id)
		var b bytes.Buffer
		b.WriteString(modeOf(k))
		b.WriteByte(' ')
		b.WriteString(e.Name)
		b.WriteByte(0)
		b.Write(raw)
		key := e.Name
		if k == kDir {
			key += "/"
		}
		out = append(out, te{key, b.Bytes()})
	}
	sort.SliceStable(out, func(i, j int) bool { return out[i].key < out[j].key })
	var b bytes.Buffer
	for _, t := range out {
		b.Write(t.line)
	}
	return s.add("tree", b.Bytes())
}

func (s *objSet) commit(tree string, parents []string, n int, msg string) string {
	var b bytes.Buffer
	fmt.Fprintf(&b, "tree %s\n", tree)
	for _, p := range parents {
		fmt.Fprintf(&b, "parent %s\n", p)
	}
	when := 1_600_000_000 + n*60
	fmt.Fprintf(&b, "author Sim <sim@example.com> %d +0000\n", when)
	fmt.Fprintf(&b, "committer Sim <sim@example.com> %d +0000\n", when)
	fmt.Fprintf(&b, "\n%s\n", msg)
	return s.add("commit", b.Bytes())
}

var (
	zw         *zlib.Writer
	looseCache = map[string][]byte{}
)

// looseBytes is a pure function of the object; results are cached by id and
// the (large) deflate state is reused.
func looseBytes(id string, o rawObj) []byte {
	if b, ok := looseCache[id]; ok {
		return b
	}
	var buf bytes.Buffer
	if zw == nil {
		zw, _ = zlib.NewWriterLevel(&buf, zlib.BestSpeed)
	} else {
		zw.Reset(&buf)
	}
	fmt.Fprintf(zw, "%s %d\x00", o.typ, len(o.data))
	zw.Write(o.data)
	zw.Close()
	if len(looseCache) > 4096 {
		looseCache = map[string][]byte{}
	}
	looseCache[id] = buf.Bytes()
	return buf.Bytes()
}

// writeLoose writes every object of the set below gitdir/objects.
func (s *objSet) writeLoose(d *simfs.Disk, gitdir string) {
	for _, id := range s.order {
		p := gitdir + "/objects/" + id[:2] + "/" + id[2:]
		if d.Lookup(p) != "" {
			continue
		}
		_ = d.WriteFile(p, looseBytes(id, s.objs[id]), 0o444)
	}
}

func typeOf(t string) plumbing.ObjectType {
	switch t {
	case "commit":
		return plumbing.CommitObject
	case "tree":
		return plumbing.TreeObject
	}
	return plumbing.BlobObject
}

// toMemory stores every object of the set into st; false if go-git's id for
// an object differs from the id computed here.
func (s *objSet) toMemory(st *memory.Storage) bool {
	for _, id := range s.order {
		o := s.objs[id]
		mo := &plumbing.MemoryObject{}
		mo.SetType(typeOf(o.typ))
		mo.SetSize(int64(len(o.data)))
		if _, err := mo.Write(o.data); err != nil {
			return false
		}
		h, err := st.SetEncodedObject(mo)
		if err != nil || h.String() != id {
			return false
		}
	}
	return true
}
